"""C02 / C03 shared harness: run REAL optimisation passes on IR produced by the real C front end
(constants optionally symbolic, so value-dependent rewrites fork inside the real pass), then
 * C03: no internal error, verify_module accepts the result, independent structural re-check;
 * C02: reference semantics (ref/irsem.py) of the module before == after, for ALL argument vectors,
   initial global / pointed-to memory contents and external-call results, under the premise that the
   original execution is defined.
"""
import os
import z3
from symx.harness import Harness
from symx import core
from symx.core import sym_and, sym_or, sym_not, implies
from props import _tv
from ref import irsem
from corpus import cprogs, irprogs

SINGLE = ["Mem2RegPromotor", "RemoveAddZeroPass", "ConstantFolder", "CommonSubexpressionEliminationPass",
          "TailCallOptimization", "LoadAfterStorePass", "DeleteUnusedInstructionsPass", "CleanPass", "CJumpPass"]
# passes that hash constant values (dictionary keys): constants stay concrete for them
HASHING = {"CommonSubexpressionEliminationPass"}


def get_pass(name):
    import ppci.opt as O
    from ppci.opt.tailcall import TailCallOptimization
    from ppci.opt.cjmp import CJumpPass
    table = dict(TailCallOptimization=TailCallOptimization, CJumpPass=CJumpPass)
    return (table.get(name) or getattr(O, name))()


def structural_check(module):
    """independent well-formedness re-check (C03 text): one terminator per block at the end, every block
    reachable, phi inputs == predecessors, operand types agree, defs dominate uses."""
    problems = []
    for f in module.functions:
        blocks = list(f)
        succ = {}
        for b in blocks:
            ins = list(b)
            if not ins:
                problems.append(f"{f.name}/{b.name}: empty block")
                succ[b] = []
                continue
            finals = [i for i in ins if type(i).__name__ in ("Jump", "CJump", "Return", "Exit", "JumpTable")]
            if len(finals) != 1 or finals[0] is not ins[-1]:
                problems.append(f"{f.name}/{b.name}: not exactly one terminator at the end")
            t = ins[-1]
            k = type(t).__name__
            succ[b] = [t.target] if k == "Jump" else [t.lab_yes, t.lab_no] if k == "CJump" else []
        # reachability
        seen = {f.entry}
        work = [f.entry]
        while work:
            x = work.pop()
            for y in succ.get(x, []):
                if y not in seen:
                    seen.add(y)
                    work.append(y)
        for b in blocks:
            if b not in seen:
                problems.append(f"{f.name}/{b.name}: unreachable block")
        for y in seen:
            if y not in blocks:
                problems.append(f"{f.name}: jump to block {y.name} outside the function")
        pred = {b: [] for b in blocks}
        for b in blocks:
            for y in succ[b]:
                if y in pred and b not in pred[y]:
                    pred[y].append(b)
        # dominators by definition (iterative sets; functions are tiny)
        dom = {b: set(blocks) for b in blocks}
        dom[f.entry] = {f.entry}
        changed = True
        while changed:
            changed = False
            for b in blocks:
                if b is f.entry or b not in seen:
                    continue
                ps = [dom[p] for p in pred[b] if p in seen]
                new = (set.intersection(*ps) if ps else set()) | {b}
                if new != dom[b]:
                    dom[b] = new
                    changed = True
        where = {}
        for b in blocks:
            for n, i in enumerate(b):
                where[i] = (b, n)
        params = set(f.arguments)
        # bookkeeping (C03 anchors: Instruction.add_use/del_use, Value.replace_by, Block.references): the operand
        # slots an instruction really holds == its `uses` set; `used_by` of every value in the function == the
        # instructions really holding it; `references` of every block == the terminators really targeting it
        holders = {}
        for b in blocks:
            for i in b:
                ops = [v for v in getattr(i, "_var_map", {}).values()]
                ops += list(getattr(i, "arguments", []) or []) if type(i).__name__ in ("FunctionCall", "ProcedureCall") else []
                ops += list(getattr(i, "inputs", {}).values()) if type(i).__name__ == "Phi" else []
                ops += list(getattr(i, "input_values", []) or []) if type(i).__name__ == "InlineAsm" else []
                ops = [v for v in ops if hasattr(v, "used_by")]
                if {id(v) for v in ops} != {id(v) for v in i.uses}:
                    problems.append(f"{f.name}/{b.name}: uses-set of {type(i).__name__} differs from its operand slots")
                for v in ops:
                    holders.setdefault(id(v), set()).add(id(i))
                    if i not in v.used_by:
                        problems.append(f"{f.name}/{b.name}: {type(i).__name__} is missing from used_by of {getattr(v, 'name', v)}")
        for v in list(where) + list(params):
            if hasattr(v, "used_by"):
                for u in v.used_by:
                    if id(u) not in holders.get(id(v), ()):
                        problems.append(f"{f.name}: used_by of {getattr(v, 'name', v)} lists {type(u).__name__} which does not hold it")
        for b in blocks:
            really = {id(p.last_instruction) for p in blocks if list(p) and b in succ.get(p, [])}
            if {id(r) for r in b.references} != really:
                problems.append(f"{f.name}/{b.name}: Block.references differs from the terminators targeting it")
        for b in blocks:
            if b not in seen:
                continue
            for n, i in enumerate(b):
                k = type(i).__name__
                if k == "Phi":
                    if set(i.inputs) != set(pred[b]):
                        problems.append(f"{f.name}/{b.name}: phi {i.name} inputs != predecessors")
                    for pb, v in i.inputs.items():
                        if v.ty is not i.ty:
                            problems.append(f"{f.name}/{b.name}: phi {i.name} input type mismatch")
                        if v in where and pb in seen:
                            db, dn = where[v]
                            if db not in dom[pb]:
                                problems.append(f"{f.name}/{b.name}: phi input {v.name} does not dominate edge")
                    continue
                if k == "Binop" and not (i.a.ty is i.ty and i.b.ty is i.ty):
                    problems.append(f"{f.name}/{b.name}: binop {i.name} operand types disagree")
                if k == "CJump" and i.a.ty is not i.b.ty:
                    problems.append(f"{f.name}/{b.name}: cjump operand types disagree")
                if k == "Store" and type(i.address.ty).__name__ != "PointerTyp":
                    problems.append(f"{f.name}/{b.name}: store address is not a pointer")
                for v in getattr(i, "uses", []):
                    if v in params or type(v).__name__ in ("Variable", "Function", "Procedure", "ExternalFunction",
                                                           "ExternalProcedure", "ExternalVariable"):
                        continue
                    if v not in where:
                        problems.append(f"{f.name}/{b.name}: {k} uses {getattr(v, 'name', v)} which is not in the function")
                        continue
                    db, dn = where[v]
                    if db is b:
                        if dn >= n:
                            problems.append(f"{f.name}/{b.name}: use of {v.name} before its definition")
                    elif db not in dom[b]:
                        problems.append(f"{f.name}/{b.name}: definition of {v.name} does not dominate its use")
    return problems


class PassHarness(Harness):
    max_paths = 600
    max_decisions = 400
    cut_allowance = 10 ** 6       # loop unwinding cuts are expected and counted
    W = 80
    timeout_ms = 30000
    prove_timeout_ms = 90000
    prove_uf_first = True      # * / % abstracted to uninterpreted functions first (sound: unsat there implies unsat)

    def __init__(self, prop, prog, config, symconst):
        self.prop = prop
        self.prog = prog
        self.config = config          # "pass:<Name>" | "level:<n>" | "seq:<A>+<B>"
        self.symconst = symconst
        self.name = f"opt[{prog}|{config}|{'symconst' if symconst else 'concrete'}]"
        self.params = dict(prop=prop, prog=prog, config=config, symconst=symconst)
        self.shim_modules = ("ppci.opt.constantfolding", "ppci.opt.transform", "ppci.opt.cjmp", "ppci.opt.mem2reg",
                             "ppci.opt.load_after_store", "ppci.opt.clean", "ppci.opt.tailcall", "ppci.opt.cse",
                             "ppci.utils.bitfun", "ppci.irutils.verify", "ppci.ir")

    def inputs(self, mk):
        if self.prog.startswith(("ir:", "irh:")):
            import io
            from ppci.irutils import read_module
            text = irprogs.source(self.prog)
            m1 = read_module(io.StringIO(text))
            m2 = read_module(io.StringIO(text))
            entry = "f"
        else:
            src, entry, ext = {**cprogs.PROGS, **cprogs.PROGS_EXT}[self.prog]
            m1 = _tv.c_module(src)
            m2 = _tv.c_module(src)
        inp = _tv.declare_inputs(mk, m1, entry)
        if any(True for _ in getattr(m1, "externals", [])):
            _tv.declare_havoc(mk, inp)
        if self.symconst:
            c1, c2 = _tv.consts_of(m1), _tv.consts_of(m2)
            assert len(c1) == len(c2)
            for k, (a, b) in enumerate(zip(c1, c2)):
                lo, hi = _tv.ty_range(a.ty)
                v = mk.int(f"c{k}", lo, hi)
                a.value = v
                b.value = v
        inp.update(m1=m1, m2=m2, entry=entry)
        return inp

    def run(self, i):
        from ppci.common import CompilerError
        from ppci.irutils import verify_module
        from ppci import api
        m1, m2 = i["m1"], i["m2"]
        status = "ok"
        detail = ""
        try:
            kind, what = self.config.split(":", 1)
            if kind == "level":
                api.optimize(m2, level=what)
            else:
                for nm in what.split("+"):
                    get_pass(nm).run(m2)
        except CompilerError as e:
            status, detail = "compiler-error", ""
        except (core.Abort, core.PathCut, core.EngineError):
            raise
        except Exception as e:
            status, detail = "internal-error", type(e).__name__
        wf = []
        if status == "ok":
            try:
                verify_module(m2)
            except (core.Abort, core.PathCut, core.EngineError):
                raise
            except Exception as e:
                wf.append(f"verify_module: {type(e).__name__}")
            wf += structural_check(m2)[:3]
        res = dict(status=status, detail=detail, wellformed=not wf, problems=wf)
        if status == "ok" and not wf:
            try:
                ms = 140 if os.environ.get("VERIF_TIER_ACTIVE", "quick") == "quick" else 300
                s1, r1 = _tv.run_ref(m1, i["entry"], i, max_steps=ms)
                s2, r2 = _tv.run_ref(m2, i["entry"], i, max_steps=ms)
                res["o1"] = _tv.observable(s1, r1)
                res["o2"] = _tv.observable(s2, r2)
                res["premise"] = _tv.term_out(s1.premise())
            except irsem.Unsupported as e:
                res["unsupported"] = str(e)[:120]
            except core.PathCut:
                # families that contain infinite loops by construction (flagged skeletons, irh:): the structural
                # obligations of C03 are still checked on this path; C02 records the path as not comparable
                if not (self.prog.startswith("irh:") or self.prog.count(":") == 3):
                    raise
                res.pop("o1", None)
                res["unsupported"] = "unwinding bound reached"
        return res

    def post(self, i, out):
        if not out.ok:
            return {"harness-ran": False}
        v = out.value
        posts = {}
        if self.prop == "C03":
            posts["no-internal-error"] = v["status"] != "internal-error"
            posts["result-is-well-formed"] = v["wellformed"]
        else:
            if "o1" in v:
                posts["behaviour-preserved"] = implies(v["premise"], _tv.same_observable(v["o1"], v["o2"]))
            else:
                posts["not-comparable(" + (v.get("unsupported") or v["status"] or "ill-formed")[:40] + ")"] = True
        return posts


def mk_pass(**kw):
    return PassHarness(**kw)


# symbolic x symbolic multiplications / long call chains: each path costs minutes in the solver
HEAVY = {"calls", "recursion", "incdec", "compound", "nested_loops", "long_arith", "ulong_arith", "mixed_width"}


# programs whose address arithmetic multiplies by constants: with SYMBOLIC constants the obligations become
# symbolic x symbolic products under array reads, which z3 does not decide in reasonable time
NO_SYMCONST = {"nested_loops", "const_fold", "incdec", "compound", "global_array", "local_array", "store_load_alias_store", "pointer_arg", "struct", "store_narrowload_store"}


def jobs_for(prop, tier, seed):
    js = []
    progs = sorted(p for p in {**cprogs.PROGS, **cprogs.PROGS_EXT} if tier != "quick" or p not in HEAVY)
    symc = ("ConstantFolder", "RemoveAddZeroPass", "CJumpPass", "LoadAfterStorePass")
    for n, p in enumerate(progs):
        if tier == "quick":
            # every program: the level-2 pipeline, the symbolic-constant sequence and three single passes
            # (rotating, so that every pass meets every fourth program); thorough runs the full matrix
            singles = [SINGLE[(n + k * 3) % len(SINGLE)] for k in range(3)]
            levels = ("2",)
        else:
            singles = SINGLE
            levels = ("1", "2", "s")
        for nm in singles:
            if nm in symc and p not in NO_SYMCONST:
                js.append(("mk_pass", dict(prop=prop, prog=p, config=f"pass:{nm}", symconst=True)))
            if nm not in symc or tier != "quick" or p in NO_SYMCONST:
                js.append(("mk_pass", dict(prop=prop, prog=p, config=f"pass:{nm}", symconst=False)))
        for lvl in levels:
            js.append(("mk_pass", dict(prop=prop, prog=p, config=f"level:{lvl}", symconst=False)))
        js.append(("mk_pass", dict(prop=prop, prog=p, config="seq:Mem2RegPromotor+ConstantFolder+CJumpPass+CleanPass",
                                   symconst=(tier != "quick" and p not in NO_SYMCONST))))
    # seeded pass sequences drawn from the pipeline's bag of passes (C03: "every pass sequence")
    import random
    rnd = random.Random(seed * 7919 + 17)
    for n, p in enumerate(progs):
        for _ in range(2 if tier != "quick" else (1 if n % 4 == seed % 4 else 0)):
            seq = [rnd.choice(SINGLE) for _ in range(rnd.choice((3, 4)))]
            js.append(("mk_pass", dict(prop=prop, prog=p, config="seq:" + "+".join(seq), symconst=False)))
    # IR-level CFG skeleton family (phis, joins, self loops, double edges): CFG-rewriting passes + pipeline
    for nm in irprogs.names(tier, seed):
        for cfg in ("pass:CleanPass", "level:2", "seq:Mem2RegPromotor+ConstantFolder+CJumpPass+CleanPass") if tier == "quick" \
                else ("pass:CleanPass", "pass:Mem2RegPromotor", "pass:CJumpPass", "pass:TailCallOptimization", "level:2", "level:s",
                      "seq:Mem2RegPromotor+ConstantFolder+CJumpPass+CleanPass"):
            js.append(("mk_pass", dict(prop=prop, prog=nm, config=cfg, symconst=False)))
    # skeletons with EMPTY (jump-only) blocks incl. empty cycles, and hand-written templates with stack slots
    # allocated outside the entry block (seeds C03/C, C03/D)
    for nm in irprogs.flagged_names(tier, seed) + irprogs.hand_names():
        for cfg in ("pass:CleanPass", "pass:Mem2RegPromotor", "level:2") if tier == "quick" \
                else ("pass:CleanPass", "pass:Mem2RegPromotor", "pass:CJumpPass", "level:2",
                      "seq:Mem2RegPromotor+ConstantFolder+CJumpPass+CleanPass", "seq:CleanPass+CleanPass"):
            js.append(("mk_pass", dict(prop=prop, prog=nm, config=cfg, symconst=False)))
    # skeletons with constant branch conditions: the jump-folding pass and what follows it
    for nm in irprogs.const_cond_names(tier, seed):
        for cfg in ("pass:CJumpPass", "seq:CJumpPass+CleanPass", "level:2") if tier == "quick" \
                else ("pass:CJumpPass", "seq:CJumpPass+CleanPass", "seq:CJumpPass+Mem2RegPromotor+CleanPass+CJumpPass", "level:2",
                      "seq:ConstantFolder+CJumpPass+DeleteUnusedInstructionsPass+CleanPass"):
            js.append(("mk_pass", dict(prop=prop, prog=nm, config=cfg, symconst=False)))
    only = os.environ.get("VERIF_ONLY")
    if only:
        js = [j for j in js if only in repr(j)]
    return js


def max_steps_for(tier):
    return 140 if tier == "quick" else 300
