"""C37  C3 front-end computes the values C3 semantics prescribe.

Real code: ppci.api.c3_to_ir (lang/c3: Lexer, Parser, TypeChecker incl. do_coerce / Context.get_common_type /
Context.eval_const, CodeGenerator), run CONCRETELY on every program of a stated finite family
(corpus/c3progs.py: abstract programs rendered to C3 text; a systematically enumerated part - every accepted
pair of integer operand types x every operator, every conversion, short-circuit shapes with an evaluation
trace, control-flow skeletons, calls, pointers/structs/arrays, constants - plus a seeded random part).
Compiled side : the IR module ppci produced, executed by the IR reference semantics (ref/irsem.py) on
                symbolic arguments and symbolic initial global contents (full range of every declared type).
Oracle        : ref/c3sem.py - the abstract program evaluated by the C3 rules (fixed-width arithmetic of the
                declared types, C conversions, short circuit, loops, switch, calls) on the same z3 terms.
Premise       : the source program is defined (no division by zero / MIN/-1, shift count < width, array index in
                range ...): assumed at the point of use in the oracle run (no fork).
Obligations per path (decided by the solver for ALL argument / global values of the path):
  compiles                       c3_to_ir returned a module (a CompilerError diagnostic = rejected = outside the
                                 language, counted; any other exception fails: no IR computes the prescribed values)
  ir-executable                  the IR can be executed by the reference semantics (no float constant where an
                                 integer is prescribed, every phi has an input for the edge taken ...)
  compiled-code-defined          the IR execution has no undefined behaviour although the source program is defined
  returns-what-c3-prescribes     IR result == oracle result (bit pattern of the declared return type)
  globals-as-c3-prescribes       every byte of every global after the call == the oracle's final value
A program the front end rejects with a diagnostic is outside "the language ppci defines" (counted, not claimed).
"""
import os
import io
import time
import z3
from symx.harness import Harness, run_harness, load_known
from symx import core
from ref import irsem, c3sem
from corpus import c3progs

PROPERTY = "C37"
LEVEL = "translation_validation"
ROOT = os.path.dirname(os.path.dirname(os.path.abspath(__file__)))
JOB_TIMEOUT = {"quick": 280, "thorough": 1700}
# march -> (int bits, pointer bits); all little-endian (ref/irsem.py models little-endian memory)
MARCHES = {"x86_64": (32, 64), "arm": (32, 32), "riscv": (32, 32), "msp430": (16, 16), "avr": (16, 16)}
PLAN = {
    "quick": [("x86_64", "quick", 0)],
    # (march, selection, number of extra seeded random programs)
    "thorough": [("x86_64", "full", 1200), ("arm", "random", 300), ("riscv", "random", 300), ("msp430", "full", 300),
                 ("avr", "random", 200)],
}
BOUNDS = {
    "quick": {"programs": "corpus/c3progs.py for x86_64 (int = 32 bit, ptr = 64 bit), 284 programs: operator matrix (4 programs "
                          "per ordered operand-type pair: 6 wrap-around operators, / %, << >>, 6 comparisons): the same-type "
                          "pairs of int/byte/int64_t/uint16_t + 28 sampled mixed-type programs; all 8 cast, 8 implicit-conversion, "
                          "8 unary, 18 literal-operand programs (three per integer type: general, power-of-two/unit/zero operands, comparisons with in- and out-of-range literals) and 12 sampled compound-assignment programs; "
                          "all 48 short-circuit / bool programs (evaluation trace in a global), 35 control-flow, 14 call, "
                          "26 pointer/struct/array/initialiser, 27 constant / global-initialiser / literal, 18 precedence "
                          "programs; 30 seeded random programs (nesting <= 2, <= 2 loops)",
              "symbolic": "every argument of the entry function and the initial value of every scalar / array global without "
                          "initialiser, over the full range of its declared type (bool: {false, true})",
              "unwinding": "loops are bounded by construction (<= 4 iterations, nesting <= 2); 6000 IR instructions, 300 "
                           "decisions per path; cut paths are counted (none expected)"},
    "thorough": {"programs": "x86_64: the complete enumerated part (414 programs: all 44 accepted ordered operand-type pairs x 4 "
                             "matrix programs, all 40 compound-assignment programs, ...) + 1200 seeded random programs; msp430 "
                             "(int = 16 bit, ptr = 16 bit): complete enumerated part for 16-bit int (413) + 300 random; arm, "
                             "riscv (32/32): 300 random each; avr (16/16): 200 random",
                 "symbolic": "as quick", "unwinding": "12000 IR instructions, 400 decisions per path"},
}
OUTSIDE = ["floating point (float/double), strings, function pointers, imports between modules, volatile",
           "pointer arithmetic and pointer comparison, casts between pointers and integers, pointer arguments of the entry "
           "function (the language reference is silent on object layout; pointers only designate whole variables, struct "
           "fields and array elements here)",
           "operator precedence of & | ^ relative to other operators and of `not` (every application is parenthesised; "
           "18 programs check the conventions shared with C: * / % over + - over << >> over comparisons over and over or)",
           "integer literals outside the range of int; constants / global initialisers of a type other than int and byte "
           "(`const int64_t K = 1;`, `var uint16_t g = 5;` end in NotImplementedError: no IR, property C28)",
           "programs the front end rejects with a diagnostic (e.g. implicit narrowing, mixing uintN with a signed type "
           "that is not strictly wider, `for` without init): not in the language ppci defines; counted",
           "evaluation order between operands with side effects (the generated programs do not depend on it, except for "
           "and/or)", "big-endian targets (or1k, m68k, microblaze): the IR reference semantics is little-endian",
           "the machine-code back ends (the IR is judged by its reference semantics)"]
ASSUMPTIONS = ["IR reference semantics ref/irsem.py (wrap-around, `/` `%` truncate toward zero, shifts arithmetic for signed "
               "types, casts truncate / zero- / sign-extend by the source type, little-endian byte memory)",
               "C3 semantics ref/c3sem.py rules R1-R9: a binary operator works in the common type of its operands (same type, "
               "else the wider width, signed if either is signed - the front end's own documented rule 'byte + int -> int, "
               "byte + byte -> byte') with two's-complement wrap-around, i.e. the equivalent C program has the result cast "
               "back to that type; conversions are C conversions (modulo 2**N); signed overflow wraps (fixed-width "
               "arithmetic of the declared types) and is not treated as a premise",
               "a shift count >= the width of the operation type is undefined (premise), also for 8/16-bit operation types",
               "the rendering of abstract programs to C3 text (corpus/c3progs.py:render, fully parenthesised)"]
SHIMS_USED = []
RULE = ("one evaluation = one (program, target): c3_to_ir runs once, then the IR reference semantics and the C3 reference "
        "semantics are compared by the solver for all argument / global values on every path; non-trivial = more than one path")


class _Sem(irsem.IrSem):
    """ref/irsem.py with a read-after-write shortcut for whole values at constant addresses: a load of n bytes
    from a constant address that was last written by one n-byte store returns the stored term itself instead of
    the concatenation of its 8-bit slices selected from the byte array (the same value; it keeps the terms of
    scalar locals whole).  Any store that may overlap drops the remembered values."""

    def __init__(self, *a, **k):
        super().__init__(*a, **k)
        self._words = {}

    def store(self, addr, val, nbytes):
        super().store(addr, val, nbytes)
        a = z3.simplify(addr)
        if not z3.is_bv_value(a):
            self._words.clear()
            return
        a = a.as_long()
        for (b, n) in list(self._words):
            if b < a + nbytes and a < b + n:
                del self._words[(b, n)]
        self._words[(a, nbytes)] = val

    def load(self, addr, nbytes):
        a = z3.simplify(addr)
        if z3.is_bv_value(a) and (a.as_long(), nbytes) in self._words:
            self.ub.append(z3.Not(self._valid(addr, nbytes)))
            return self._words[(a.as_long(), nbytes)]
        return super().load(addr, nbytes)


def _out(t):
    """z3 term -> SymInt (unsigned reading) / SymBool with an engine, int / bool in a concrete run"""
    t = z3.simplify(t)
    if z3.is_bv_value(t):
        return t.as_long()
    if z3.is_true(t):
        return True
    if z3.is_false(t):
        return False
    if core.ENG is None:
        raise irsem.Unsupported(f"non-constant term in concrete mode: {t}")
    if z3.is_bool(t):
        return core.SymBool(t)
    return core.from_bv(t, signed=False)


def _range(bits, signed):
    return (-(1 << (bits - 1)), (1 << (bits - 1)) - 1) if signed else (0, (1 << bits) - 1)


class C3Harness(Harness):
    W = 96
    timeout_ms = 10000
    prove_timeout_ms = 30000
    cut_allowance = 0
    prove_uf_first = True      # equal operands => equal products / quotients by congruence (symx/solve.py)
    shim_modules = ()

    def __init__(self, prog, march, max_steps=6000, max_paths=1500):
        self.prog = prog
        self.march = march
        self.ib, self.pb = MARCHES[march]
        self.max_steps = max_steps
        self.max_paths = max_paths
        self.max_decisions = 300 if max_steps <= 6000 else 400
        self.name = f"c3[{march}|{prog['id']}|{','.join(prog['feats'])}]"
        self.params = dict(prog=prog, march=march, max_steps=max_steps, max_paths=max_paths)
        self.src = c3progs.render(prog)
        self.types = c3sem.Types(self.ib, prog.get("types", ()))
        self.entry = [f for f in prog["functions"] if f["name"] == prog["entry"]][0]
        self._compiled = None

    # -- symbolic inputs ------------------------------------------------------------------------------
    def _scalar(self, mk, name, T):
        r = self.types.resolve(T)
        if r[0] == "bool":
            return mk.int(name, 0, 1)
        if r[0] == "int":
            return mk.int(name, *_range(r[1], r[2]))
        raise c3sem.Unsupported(f"symbolic input of type {T}")

    def inputs(self, mk):
        if core.ENG is not None:
            core.ENG.uf_prune = True
        inp = {}
        for T, n in self.entry["params"]:
            inp[n] = self._scalar(mk, n, T)
        for T, n, init in self.prog.get("globals", ()):
            if init is not None:
                continue
            r = self.types.resolve(T)
            if r[0] == "arr":
                for k in range(r[2]):
                    inp[f"{n}.{k}"] = self._scalar(mk, f"{n}.{k}", r[1])
            elif r[0] == "struct":
                pass        # layout is the implementation's choice: struct globals are written before they are read
            else:
                inp[n] = self._scalar(mk, n, T)
        return inp

    # -- the real front end, once per harness ---------------------------------------------------------
    def compile(self):
        if self._compiled is None:
            import contextlib
            import logging
            from ppci.api import c3_to_ir
            from ppci.common import CompilerError
            from ppci.build.tasks import TaskError
            logging.getLogger("c3check").setLevel(logging.CRITICAL)
            sink = io.StringIO()
            try:
                with contextlib.redirect_stdout(sink):
                    m = c3_to_ir([io.StringIO(self.src)], [], self.march)
                self._compiled = ("ok", m)
            except (CompilerError, TaskError):
                msg = [ln.strip() for ln in sink.getvalue().splitlines() if "Error:" in ln]
                self._compiled = ("rejected", (msg[0] if msg else "diagnostic")[:100])
            except (core.Abort, core.PathCut, core.EngineError):
                raise
            except Exception as e:
                self._compiled = ("crash", f"{type(e).__name__}: {e}"[:160])
        return self._compiled

    # -- value plumbing -------------------------------------------------------------------------------
    def _term(self, T, v):
        """declared input -> z3 term of the oracle's representation"""
        r = self.types.resolve(T)
        if r[0] == "bool":
            return irsem.bvv(v, self.ib) == z3.BitVecVal(1, self.ib)
        return irsem.bvv(v, r[1])

    def _bits(self, T, v):
        """oracle value -> bit-vector of the storage width"""
        if z3.is_bool(v):
            return z3.If(v, z3.BitVecVal(1, self.ib), z3.BitVecVal(0, self.ib))
        return v

    @staticmethod
    def _bytes(t):
        return [z3.Extract(8 * k + 7, 8 * k, t) for k in range(t.size() // 8)]

    def run(self, i):
        status, m = self.compile()
        if status != "ok":
            return dict(compile=status, detail=m)
        # oracle
        ginit, irinit = {}, {}
        for T, n, init in self.prog.get("globals", ()):
            if init is not None:
                continue
            r = self.types.resolve(T)
            if r[0] == "arr":
                ts = [self._term(r[1], i[f"{n}.{k}"]) for k in range(r[2])]
                ginit[n] = ts
                irinit["m_" + n] = [b for t in ts for b in self._bytes(self._bits(r[1], t))]
            elif r[0] == "struct":
                pass
            else:
                t = self._term(T, i[n])
                ginit[n] = t
                irinit["m_" + n] = self._bytes(self._bits(T, t))
        args = [self._term(T, i[n]) for T, n in self.entry["params"]]
        try:
            ref = c3sem.C3Sem(self.prog, self.ib, init_globals=ginit, max_steps=self.max_steps)
            want = ref.run(self.entry["name"], args)
        except c3sem.StepLimit as e:
            raise core.PathCut("oracle: " + str(e))
        except c3sem.Undefined:
            return dict(compile="ok", undefined=True)
        # compiled code
        sem = _Sem(m, ptr_bits=self.pb, max_steps=self.max_steps, max_depth=6, init_globals=irinit)
        f = [x for x in m.functions if x.name == "m_" + self.entry["name"]][0]
        irargs = [self._bits(T, a) for (T, _), a in zip(self.entry["params"], args)]
        try:
            got = sem.call(f, irargs)
        except irsem.StepLimit as e:
            raise core.PathCut("ir: " + str(e))
        except irsem.Unsupported as e:
            return dict(compile="ok", ir_unsupported=str(e)[:120])
        if (got is None) != (want is None):
            return dict(compile="ok", ir_unsupported="result presence differs")
        res = dict(compile="ok", defined=_out(sem.premise()))
        if want is not None:
            w = self._bits(self.entry["ret"], want)
            if w.size() != got.size():
                return dict(compile="ok", ir_unsupported=f"result width {got.size()} instead of {w.size()}")
            res["want"] = _out(w)
            res["got"] = _out(got)
            res["ret_equal"] = _out(w == got)
        conds = []
        for T, n, _ in self.prog.get("globals", ()):
            v = ref.global_value(n)
            if v is None:
                continue
            r = self.types.resolve(T)
            ts = [self._bits(r[1], x) for x in v] if r[0] == "arr" else [self._bits(T, v)]
            wantb = [b for t in ts for b in self._bytes(t)]
            gotb = sem.region_bytes("m_" + n)
            if len(wantb) != len(gotb):
                return dict(compile="ok", ir_unsupported=f"global {n}: {len(gotb)} bytes instead of {len(wantb)}")
            conds += [a == b for a, b in zip(wantb, gotb)]
        res["mem_equal"] = _out(z3.And(*conds)) if conds else True
        return res

    def post(self, i, out):
        if not out.ok:
            return {"harness-ran": False}
        v = out.value
        if v["compile"] == "rejected":
            return {"rejected-with-diagnostic(not claimed)": True}
        if v["compile"] == "crash":
            return {"compiles": False}
        if "undefined" in v:
            return {"source-program-undefined-on-this-path(not claimed)": True}
        if "ir_unsupported" in v:
            return {"ir-executable": False}
        posts = {"ir-executable": True, "compiled-code-defined": v["defined"], "globals-as-c3-prescribes": v["mem_equal"]}
        if "ret_equal" in v:
            posts["returns-what-c3-prescribes"] = v["ret_equal"]
        return posts


# ------------------------------------------------------------------------------------------------------
_SUM = ("obligations", "discharged", "validated", "reached", "twin_violated")


def mk_batch(specs, tag="", tier="quick"):
    """custom job: one harness per (program, target), results merged"""
    known = load_known(os.path.join(ROOT, "known_findings.json"), PROPERTY)
    res = dict(harness=f"batch{tag}[{len(specs)} programs]", violations=[], known_hits=[], inconclusive=[],
               errors=[], funcs=[], samples=[], stats={}, solver={}, outcomes={}, exhaustive=True, nontrivial=0,
               programs=0, disagreements_checked=0, wall_s=0.0, rejected=0, crashed=0, **{k: 0 for k in _SUM})
    funcs = set()
    t_end = time.time() + JOB_TIMEOUT[tier] * 0.85
    for n, spec in enumerate(specs):
        h = C3Harness(**spec)
        budget = max(20.0, (t_end - time.time()) / max(1, len(specs) - n) * 3)
        r = run_harness(h, known, want_trace=(n < 1), deadline=time.time() + budget)
        for k in _SUM:
            res[k] += r.get(k, 0)
        for k in ("violations", "known_hits", "inconclusive", "errors"):
            res[k] += r.get(k, [])
        funcs.update(r.get("funcs", []))
        if len(res["samples"]) < 2:
            res["samples"] += r.get("samples", [])[:1]
        for k, v in r.get("stats", {}).items():
            res["stats"][k] = res["stats"].get(k, 0) + v
        for k, v in r.get("solver", {}).items():
            res["solver"][k] = res["solver"].get(k, 0) + v
        for k, v in r.get("outcomes", {}).items():
            res["outcomes"][k] = res["outcomes"].get(k, 0) + v
        res["exhaustive"] = res["exhaustive"] and r.get("exhaustive", False)
        st = h.compile()[0]
        if st == "ok":
            res["programs"] += 1
            if r.get("stats", {}).get("paths", 0) > 1:
                res["nontrivial"] += 1
        elif st == "rejected":
            res["rejected"] += 1
        else:
            res["crashed"] += 1
        res["disagreements_checked"] += len(r.get("violations", [])) + len(r.get("known_hits", []))
        res["wall_s"] += r.get("wall_s", 0.0)
    res["funcs"] = sorted(funcs)
    return res


def _count(x, heads):
    n = 0
    if isinstance(x, list):
        if x and isinstance(x[0], str) and x[0] in heads:
            n += 1
        for y in x:
            n += _count(y, heads)
    elif isinstance(x, dict):
        for y in x.values():
            n += _count(y, heads)
    return n


def _cost(p):
    loops = _count(p["functions"], ("while", "for"))
    return (1 + 6 * loops * loops + 2 * _count(p["functions"], ("if", "switch", "and", "or")) +
            _count(p["functions"], ("call", "callstmt", "index")) + 3 * ("symbolic-index" in p["feats"]) +
            4 * ("recursion" in p["feats"]))


def select(tier, seed):
    out = []
    for march, what, nrand in PLAN[tier]:
        ib = MARCHES[march][0]
        if what == "quick":
            ps = c3progs.programs("quick", seed, ib)
        else:
            ps = c3progs.fixed_programs(ib) if what == "full" else []
            ps = ps + [c3progs.random_program(f"{seed}-{march}", k, ib) for k in range(nrand)]
        out += [(march, p) for p in ps]
    return out


def jobs(tier, seed):
    progs = select(tier, seed)
    only = os.environ.get("VERIF_ONLY")
    if only:
        progs = [(m, p) for m, p in progs if only in p["id"] or only in ",".join(p["feats"]) or only == m]
    steps = 6000 if tier == "quick" else 12000
    specs = [dict(prog=p, march=m, max_steps=steps, max_paths=1500 if tier == "quick" else 4000) for m, p in progs]
    nb = min(len(specs), 32 if tier == "quick" else 160)
    order = sorted(range(len(specs)), key=lambda k: _cost(progs[k][1]), reverse=True)
    bins = [[] for _ in range(nb)]
    load = [0] * nb
    for k in order:
        j = load.index(min(load))
        bins[j].append(specs[k])
        load[j] += _cost(progs[k][1])
    return [("mk_batch", dict(specs=b, tag=f"#{n}", tier=tier)) for n, b in enumerate(bins) if b]
