"""Shared machinery for C10 / C11: relocation sites discovered from the REAL instruction
classes (which instruction emits which relocation at which offset, with which base encoding),
and the harness that applies one relocation with symbolic S (symbol address), P (field address)
and A (addend) and compares the relocated bytes with the ISA-manual semantics in ref/relocspec.
"""
from symx.harness import Harness
from symx import core
from symx.core import sym_and, sym_or, sym_not
from ref import relocspec as RS
from symx.seq import SymByteArray

LEGACY_ARCHS = ["riscv", "riscv:rvc", "arm", "arm:thumb", "x86_64"]
# ISAs added later: discovered with the constructor-aware walk below (labels inside addressing-mode
# constructors, artificial two-instruction sequences); the legacy five keep their original site list
NEW_ARCHS = ["avr", "msp430", "mcs6500", "or1k", "mips", "microblaze", "xtensa", "m68k"]
ARCHS = LEGACY_ARCHS + NEW_ARCHS
# address width of the ISA (S and P range over every address of that width)
ADDR_BITS = {"riscv": 32, "riscv:rvc": 32, "arm": 32, "arm:thumb": 32, "x86_64": 48,
             "avr": 16, "msp430": 16, "mcs6500": 16, "or1k": 32, "mips": 32, "microblaze": 32,
             "xtensa": 32, "m68k": 32}

# generic data relocations (ppci/arch/data_instructions.py) exist for every arch; they store
# little-endian words, so they are claimed for the little-endian ISAs only
for _a in ARCHS:
    if _a in RS.BIG_ENDIAN:
        continue
    RS.SPEC.setdefault((_a, "absaddr16"), dict(name="absaddr16", size=2, kind="abs", decode=lambda w, P: w,
                                               mask=0xFFFF, pre=lambda S, P: P % 2 == 0))
    RS.SPEC.setdefault((_a, "absaddr32"), dict(name="absaddr32", size=4, kind="abs", decode=lambda w, P: w,
                                               mask=0xFFFFFFFF, pre=lambda S, P: P % 4 == 0))
    RS.SPEC.setdefault((_a, "absaddr64"), dict(name="absaddr64", size=8, kind="abs", decode=lambda w, P: w,
                                               mask=(1 << 64) - 1, pre=lambda S, P: P % 4 == 0))


def _discover_legacy(archname):
    """[(instruction class name, base bytes, reloc name, reloc offset, addend)] from the real ISA"""
    from ppci.api import get_arch
    from ppci.arch.registers import Register
    arch = get_arch(archname)
    out = []
    seen = set()
    for cls in arch.isa.instructions:
        syn = getattr(cls, "syntax", None)
        if not syn:
            continue
        fargs = syn.formal_arguments
        if not any(a._cls is str for a in fargs):
            continue
        args = []
        for a in fargs:
            c = a._cls
            if c is str:
                args.append("lbl")
            elif c is int:
                args.append(0)
            elif isinstance(c, type) and issubclass(c, Register) and c.all_registers():
                args.append(c.all_registers()[-1])
            else:
                args = None
                break
        if args is None:
            continue
        try:
            ins = cls(*args)
            data = ins.encode()
            rels = ins.relocations()
        except Exception:
            continue
        for r in rels:
            key = (cls.__name__, bytes(data), type(r).name, r.offset, r.addend)
            if key in seen:
                continue
            seen.add(key)
            out.append(key)
    return out


def _has_label(cls, depth=0):
    """does the syntax of constructor class cls (recursively) take a label operand?"""
    from ppci.arch.encoding import Constructor
    syn = getattr(cls, "syntax", None)
    if not syn or depth > 3:
        return False
    for a in syn.formal_arguments:
        c = a._cls
        if c is str:
            return True
        for alt in (c if isinstance(c, tuple) else (c,)):
            if isinstance(alt, type) and issubclass(alt, Constructor) and _has_label(alt, depth + 1):
                return True
    return False


def _build(cls, want_label, depth=0):
    """instances of the real constructor / instruction class cls: registers = last register of the
    class, ints = 0; want_label: exactly one operand (possibly nested in an addressing-mode
    constructor) is the label 'lbl', every alternative that can carry it is produced once"""
    from ppci.arch.registers import Register
    from ppci.arch.encoding import Constructor
    syn = getattr(cls, "syntax", None)
    if syn is None or depth > 3:
        return
    choices = []    # per formal argument: [(value, carries label)]
    for a in syn.formal_arguments:
        c = a._cls
        if c is str:
            choices.append([("lbl", True)])
        elif c is int:
            choices.append([(0, False)])
        elif isinstance(c, type) and issubclass(c, Register):
            if not c.all_registers():
                return
            choices.append([(c.all_registers()[-1], False)])
        else:
            ch = []
            for alt in (c if isinstance(c, tuple) else (c,)):
                if not (isinstance(alt, type) and issubclass(alt, Constructor)):
                    continue
                if _has_label(alt, depth + 1):
                    ch += [(v, True) for v in _build(alt, True, depth + 1)]
                plain = next(iter(_build(alt, False, depth + 1)), None)
                if plain is not None:
                    ch.append((plain, False))
            if not ch:
                return
            choices.append(ch)

    def plain_of(ch):
        for v, lab in ch:
            if not lab:
                return v
        return None

    if not want_label:
        vals = [plain_of(ch) for ch in choices]
        if any(v is None for v in vals):
            return
        try:
            yield cls(*vals)
        except Exception:
            return
        return
    for k, ch in enumerate(choices):
        for v, lab in ch:
            if not lab:
                continue
            vals = [v if j == k else plain_of(c2) for j, c2 in enumerate(choices)]
            if any(x is None for x in vals):
                continue
            try:
                yield cls(*vals)
            except Exception:
                continue


def _discover_ctor(archname):
    """like _discover_legacy, but walks addressing-mode constructors (msp430 &lbl / #lbl, 6502 lbl,x,
    m68k (d16,PC), or1k hi()/lo()) and renders artificial instructions (microblaze imm + branch)"""
    from ppci.api import get_arch
    from ppci.arch.generic_instructions import ArtificialInstruction
    arch = get_arch(archname)
    out = []
    seen = set()
    for cls in arch.isa.instructions:
        if not _has_label(cls):
            continue
        for ins in _build(cls, True):
            try:
                if isinstance(ins, ArtificialInstruction):
                    data = b"".join(i.encode() for i in ins.render())
                else:
                    data = ins.encode()
                rels = list(ins.relocations())
            except Exception:
                continue
            for r in rels:
                key = (cls.__name__, bytes(data), type(r).name, r.offset, r.addend)
                if key in seen:
                    continue
                seen.add(key)
                out.append(key)
    return out


def discover(archname):
    if archname in LEGACY_ARCHS:
        return _discover_legacy(archname)
    return _discover_ctor(archname)


def sites(archname, claimed_only=True, one_per_type=False):
    """one_per_type: only the first instruction class per (relocation type, offset) — used by the quick
    tiers for the ISAs in NEW_ARCHS (the other classes differ only in the opcode bits around the field)"""
    res = []
    seen = set()
    for cname, data, rname, off, addend in discover(archname):
        if claimed_only and (archname, rname) not in RS.SPEC:
            continue
        if one_per_type:
            if (rname, off) in seen:
                continue
            seen.add((rname, off))
        res.append(dict(arch=archname, ins=cname, base=data.hex(), reloc=rname, off=off, addend=addend))
    return res


def tier_sites(archname, tier):
    """site list of one arch for a tier: legacy ISAs always every class, new ISAs one class per
    relocation type in quick and every class in thorough"""
    return sites(archname, one_per_type=(tier == "quick" and archname in NEW_ARCHS))


def unclaimed(archname):
    from ppci.api import get_arch
    arch = get_arch(archname)
    return sorted(n for n in arch.isa.relocation_map if (archname, n) not in RS.SPEC)


class RelocApplyHarness(Harness):
    """reloc.apply(S, bytes, P) on the real relocation class"""

    def __init__(self, arch, ins, base, reloc, off, addend):
        self.arch = arch
        self.ins = ins
        self.base = bytes.fromhex(base)
        self.reloc = reloc
        self.off = off
        self.addend = addend
        self.spec = RS.SPEC[(arch, reloc)]
        self.name = f"reloc.apply[{arch}:{reloc}@{ins}]"
        self.params = dict(arch=arch, ins=ins, base=base, reloc=reloc, off=off, addend=addend)
        ab = ADDR_BITS[arch]
        self.abits = 64 if reloc in ("abs64", "absaddr64") else ab
        self.W = self.abits + 40
        self.shim_modules = tuple(_arch_modules(arch))

    def inputs(self, mk):
        ab = self.abits
        extra = (1 << 16) if ab == 64 else 0
        S = mk.int("S", 0, (1 << ab) - 1 + extra)
        P = mk.int("P", 0, (1 << min(ab, 48)) - 1)
        if (self.arch, self.reloc) in RS.USES_ADDEND:
            A = mk.int("A", -(1 << 31), (1 << 31) - 1)
        else:
            A = self.addend
        mk.assume(self.spec["pre"](S, P))
        return dict(S=S, P=P, A=A)

    def run(self, i):
        from ppci.api import get_arch
        arch = get_arch(self.arch)
        rcls = arch.isa.relocation_map[self.reloc]
        r = rcls(None, offset=self.off, addend=i["A"])
        size = r.size()
        data = list(self.base[self.off:self.off + size])
        data = SymByteArray(data) if core.ENG is not None else bytearray(data)
        out = r.apply(i["S"], data, i["P"])
        return list(out)

    def post(self, i, out):
        if not out.ok:
            return {"error-or-exact": True}
        sp = self.spec
        bs = out.value
        if len(bs) != sp["size"]:
            return {"size": False}
        en = sp.get("endian", "little")
        w = RS.word(bs, en)
        w0 = RS.word(list(self.base[self.off:self.off + sp["size"]]), en)
        want = RS.expected(sp, i["S"], i["A"], i["P"])
        got = sp["decode"](w, i["P"])
        keep = ((1 << (8 * sp["size"])) - 1) ^ sp["mask"]
        return {"field-designates-target": got == want,
                "other-bits-unchanged": (w & keep) == (w0 & keep)}


def _arch_modules(arch):
    base = ["ppci.utils.bitfun", "ppci.arch.token", "ppci.arch.encoding", "ppci.arch.data_instructions"]
    if arch.startswith("riscv"):
        base += ["ppci.arch.riscv.relocations", "ppci.arch.riscv.rvc_relocations", "ppci.arch.riscv.tokens"]
    elif arch.startswith("arm"):
        base += ["ppci.arch.arm.arm_relocations", "ppci.arch.arm.thumb_relocations", "ppci.arch.arm.isa"]
    elif arch == "x86_64":
        base += ["ppci.arch.x86_64.instructions"]
    elif arch == "or1k":
        base += ["ppci.arch.or1k.instructions", "ppci.arch.or1k.isa"]
    elif arch in ("avr", "msp430", "mcs6500", "mips", "microblaze", "xtensa", "m68k"):
        base += [f"ppci.arch.{arch}.instructions"]
    return base
