"""Shared machinery for C10 / C11: relocation sites discovered from the REAL instruction
classes (which instruction emits which relocation at which offset, with which base encoding),
and the harness that applies one relocation with symbolic S (symbol address), P (field address)
and A (addend) and compares the relocated bytes with the ISA-manual semantics in ref/relocspec.
"""
from symx.harness import Harness
from symx import core
from symx.core import sym_and, sym_or, sym_not
from ref import relocspec as RS
from symx.seq import SymByteArray

ARCHS = ["riscv", "riscv:rvc", "arm", "arm:thumb", "x86_64"]
ADDR_BITS = {"riscv": 32, "riscv:rvc": 32, "arm": 32, "arm:thumb": 32, "x86_64": 48}

# generic data relocations (ppci/arch/data_instructions.py) exist for every arch
for _a in ARCHS:
    RS.SPEC.setdefault((_a, "absaddr16"), dict(name="absaddr16", size=2, kind="abs", decode=lambda w, P: w,
                                               mask=0xFFFF, pre=lambda S, P: P % 2 == 0))
    RS.SPEC.setdefault((_a, "absaddr32"), dict(name="absaddr32", size=4, kind="abs", decode=lambda w, P: w,
                                               mask=0xFFFFFFFF, pre=lambda S, P: P % 4 == 0))
    RS.SPEC.setdefault((_a, "absaddr64"), dict(name="absaddr64", size=8, kind="abs", decode=lambda w, P: w,
                                               mask=(1 << 64) - 1, pre=lambda S, P: P % 4 == 0))


def discover(archname):
    """[(instruction class name, base bytes, reloc name, reloc offset, addend)] from the real ISA"""
    from ppci.api import get_arch
    from ppci.arch.registers import Register
    arch = get_arch(archname)
    out = []
    seen = set()
    for cls in arch.isa.instructions:
        syn = getattr(cls, "syntax", None)
        if not syn:
            continue
        fargs = syn.formal_arguments
        if not any(a._cls is str for a in fargs):
            continue
        args = []
        for a in fargs:
            c = a._cls
            if c is str:
                args.append("lbl")
            elif c is int:
                args.append(0)
            elif isinstance(c, type) and issubclass(c, Register) and c.all_registers():
                args.append(c.all_registers()[-1])
            else:
                args = None
                break
        if args is None:
            continue
        try:
            ins = cls(*args)
            data = ins.encode()
            rels = ins.relocations()
        except Exception:
            continue
        for r in rels:
            key = (cls.__name__, bytes(data), type(r).name, r.offset, r.addend)
            if key in seen:
                continue
            seen.add(key)
            out.append(key)
    return out


def sites(archname, claimed_only=True):
    res = []
    for cname, data, rname, off, addend in discover(archname):
        if claimed_only and (archname, rname) not in RS.SPEC:
            continue
        res.append(dict(arch=archname, ins=cname, base=data.hex(), reloc=rname, off=off, addend=addend))
    return res


def unclaimed(archname):
    from ppci.api import get_arch
    arch = get_arch(archname)
    return sorted(n for n in arch.isa.relocation_map if (archname, n) not in RS.SPEC)


class RelocApplyHarness(Harness):
    """reloc.apply(S, bytes, P) on the real relocation class"""

    def __init__(self, arch, ins, base, reloc, off, addend):
        self.arch = arch
        self.ins = ins
        self.base = bytes.fromhex(base)
        self.reloc = reloc
        self.off = off
        self.addend = addend
        self.spec = RS.SPEC[(arch, reloc)]
        self.name = f"reloc.apply[{arch}:{reloc}@{ins}]"
        self.params = dict(arch=arch, ins=ins, base=base, reloc=reloc, off=off, addend=addend)
        ab = ADDR_BITS[arch]
        self.abits = 64 if reloc in ("abs64", "absaddr64") else ab
        self.W = self.abits + 40
        self.shim_modules = tuple(_arch_modules(arch))

    def inputs(self, mk):
        ab = self.abits
        extra = (1 << 16) if ab == 64 else 0
        S = mk.int("S", 0, (1 << ab) - 1 + extra)
        P = mk.int("P", 0, (1 << min(ab, 48)) - 1)
        if (self.arch, self.reloc) in RS.USES_ADDEND:
            A = mk.int("A", -(1 << 31), (1 << 31) - 1)
        else:
            A = self.addend
        mk.assume(self.spec["pre"](S, P))
        return dict(S=S, P=P, A=A)

    def run(self, i):
        from ppci.api import get_arch
        arch = get_arch(self.arch)
        rcls = arch.isa.relocation_map[self.reloc]
        r = rcls(None, offset=self.off, addend=i["A"])
        size = r.size()
        data = list(self.base[self.off:self.off + size])
        data = SymByteArray(data) if core.ENG is not None else bytearray(data)
        out = r.apply(i["S"], data, i["P"])
        return list(out)

    def post(self, i, out):
        if not out.ok:
            return {"error-or-exact": True}
        sp = self.spec
        bs = out.value
        if len(bs) != sp["size"]:
            return {"size": False}
        w = RS.le(bs)
        w0 = RS.le(list(self.base[self.off:self.off + sp["size"]]))
        want = RS.expected(sp, i["S"], i["A"], i["P"])
        got = sp["decode"](w, i["P"])
        keep = ((1 << (8 * sp["size"])) - 1) ^ sp["mask"]
        return {"field-designates-target": got == want,
                "other-bits-unchanged": (w & keep) == (w0 & keep)}


def _arch_modules(arch):
    base = ["ppci.utils.bitfun", "ppci.arch.token", "ppci.arch.encoding", "ppci.arch.data_instructions"]
    if arch.startswith("riscv"):
        base += ["ppci.arch.riscv.relocations", "ppci.arch.riscv.rvc_relocations", "ppci.arch.riscv.tokens"]
    elif arch.startswith("arm"):
        base += ["ppci.arch.arm.arm_relocations", "ppci.arch.arm.thumb_relocations", "ppci.arch.arm.isa"]
    elif arch == "x86_64":
        base += ["ppci.arch.x86_64.instructions"]
    return base
