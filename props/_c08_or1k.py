"""C08 for ppci's OpenRISC 1000 back end (ppci/arch/or1k/instructions.py, ORBIS32), reference decoder ref/or1kdec.py.

Every instruction class registered in get_arch('or1k').isa that comes from ppci.arch.or1k.instructions and has a
syntax and tokens is instantiated with SYMBOLIC operands:
    r  Or1kRegister object whose number is symbolic (0..31)
    i  symbolic integer (wider than any field)
    c  immediate operand constructor: one job per constructor class the operand accepts (Immediate with a symbolic
       integer; HighAddressImmediate `hi(label)` / LowAddressImmediate `lo(label)`: the relocation the constructor
       generates (ConsthRelocation / ConstRelocation) is applied to the emitted bytes with a symbolic address S)
    s  label of l.j / l.jal / l.bf / l.bnf: the real JumpRelocation is applied to the emitted bytes with a symbolic
       symbol address S and a symbolic instruction address P
The real encode() (+ relocation.apply() at the offset relocations() reports) runs on them; the emitted bytes are read
big-endian and decoded by ref/or1kdec.py.  What the printed text means is NOT stated per class here: the class's real
syntax (and the constructor's real syntax) is parsed generically into (mnemonic `l.xxx`, operands in printed order,
shape `op a, b, c` / `op a, b(c)` / `op a(b), c`), and the decoder lists, per instruction, the operand order of the
manual's "Format:" line.  Obligation per path:
    encode / relocation raised                                           (operand combination rejected), or
    the word is the instruction with the printed mnemonic (all reserved fields zero),  and  every operand of the
    manual's format equals the printed one (registers by number; integers as the manual reads the field: exts / extz;
    hi(label) / lo(label): the raw 16-bit immediate field is bits 31..16 / 15..0 of the label's address; a jump
    label: address of the jump instruction + exts(N << 2) equals the label's address).
Integers outside the manual's documented operand range and labels a jump cannot reach are not judged (property C10).
"""
import importlib
import z3
from symx.harness import Harness
from symx import core
from symx.core import sym_and, implies
from symx.seq import SymByteArray
from ref import or1kdec

ARCH = "or1k"
MOD = "ppci.arch.or1k.instructions"
M32 = (1 << 32) - 1
FACTORIES = ["mk_or1k_enc", "mk_or1k_selftest"]
JUMP_LO, JUMP_HI = -(1 << 27), (1 << 27) - 4       # exts(N << 2), N 26 bits


# ---------------------------------------------------------------------------------------------------------
# the class's real syntax, read generically
def constructor_kind(con):
    """operand constructor -> "imm" (prints its integer) | "hi" | "lo" (prints hi(label) / lo(label)) | None"""
    els = list(con.syntax.syntax)
    text = "".join(e.strip() if isinstance(e, str) else ("N" if e._cls is int else "L" if e._cls is str else "?")
                   for e in els)
    return {"N": "imm", "hi(L)": "hi", "lo(L)": "lo"}.get(text)


def syntax_of(cls):
    """-> (mnemonic, [(operand name, kind, constructors)], shape) or (mnemonic, None, reason) if the layout is not one
    of `op`, `op a, b, c`, `op a, b(c)`, `op a(b), c`"""
    from ppci.arch.or1k.registers import Or1kRegister
    els = list(cls.syntax.syntax)
    mn = []
    while els and isinstance(els[0], str) and not els[0].isspace():
        mn.append(els.pop(0))
    mn = "".join(mn)
    ops, seps = [], []
    for e in els:
        if isinstance(e, str):
            if e.strip():
                seps.append(e.strip())
            continue
        c = e._cls
        cons = ()
        if isinstance(c, tuple):
            kind, cons = "c", c
        else:
            kind = "r" if c is Or1kRegister else "i" if c is int else "s" if c is str else "?"
        ops.append((e._name, kind, cons))
        seps.append(None)
    layout = "".join("x" if s is None else s for s in seps)
    if any(k == "?" for _, k, _ in ops):
        return mn, None, "operand class not modelled"
    if sum(1 for _, k, _ in ops if k == "c") > 1:
        return mn, None, "more than one constructor operand"
    if layout == ",".join("x" * len(ops)):
        return mn, ops, "plain"
    if layout == "x,x(x)":
        return mn, ops, "load"
    if layout == "x(x),x":
        return mn, ops, "store"
    return mn, None, f"syntax layout '{layout}' not modelled"


def discover():
    """-> (claimed [(idx, class name, mnemonic, kinds, shape, constructor class name | "")], unclaimed [(name, why)])"""
    from ppci.api import get_arch
    claimed, unclaimed = [], []
    arch = get_arch(ARCH)
    for idx, cls in enumerate(arch.isa.instructions):
        if cls.__module__ != MOD:
            continue        # data directives (db, dw, dd ...) of data_isa
        if not getattr(cls, "syntax", None):
            continue        # abstract bases
        mn, ops, shape = syntax_of(cls)
        if not getattr(cls, "tokens", None):
            unclaimed.append((cls.__name__, f"pseudo instruction '{mn}' without encoding of its own"))
        elif ops is None:
            unclaimed.append((cls.__name__, f"'{mn}': {shape}"))
        elif mn not in or1kdec.NAMES or or1kdec.order_of(mn, len(ops)) is None:
            unclaimed.append((cls.__name__, f"'{mn}' with {len(ops)} operands is no ORBIS32 instruction format of ref/or1kdec.py"))
        else:
            kinds = "".join(k for _, k, _ in ops)
            cons = [c for _, k, cs in ops if k == "c" for c in cs]
            if not cons:
                claimed.append((idx, cls.__name__, mn, kinds, shape, ""))
            for con in cons:
                if constructor_kind(con) is None:
                    unclaimed.append((f"{cls.__name__}/{con.__name__}", f"'{mn}': operand constructor syntax not modelled"))
                else:
                    claimed.append((idx, cls.__name__, mn, kinds, shape, con.__name__))
    return claimed, unclaimed


def in_range(v, rng):
    lo, hi = rng
    return sym_and(v >= lo, v <= hi)


def bv32(v):
    return core.to_bv(v, 32) if type(v) is not int else z3.BitVecVal(v & M32, 32)


def _zb(c):
    return c if z3.is_expr(c) else z3.BoolVal(bool(c))


class Or1kEncodingHarness(Harness):
    """builds cls(*symbolic operands), runs the real encode() (+ the real relocation for a label operand)"""
    PREFIX = "or1k.encode"
    W = 72
    max_paths = 4000
    IMM_BOUND = 1 << 33

    def __init__(self, idx, cls, mn, ks, shape, con="", wide=0):
        self.idx, self.cls, self.mn, self.ks, self.shape, self.con, self.wide = idx, cls, mn, ks, shape, con, wide
        self.params = dict(idx=idx, cls=cls, mn=mn, ks=ks, shape=shape, con=con, wide=wide)
        self.name = f"{self.PREFIX}[or1k:{cls}#{idx}:{mn}{'/' + con if con else ''}]"
        if wide:            # thorough tier
            self.IMM_BOUND = 1 << 48
            self.W = 96

    def modules(self):
        names = ["ppci.utils.bitfun", "ppci.arch.token", "ppci.arch.encoding", "ppci.arch.isa", "ppci.arch.registers",
                 "ppci.arch.or1k.instructions", "ppci.arch.or1k.isa", "ppci.arch.or1k.registers"]
        return [importlib.import_module(n) for n in names]

    def the_class(self):
        from ppci.api import get_arch
        cls = get_arch(ARCH).isa.instructions[self.idx]
        assert cls.__name__ == self.cls, "instruction table changed under the job list"
        return cls

    def the_constructor(self, ops):
        for _, k, cs in ops:
            if k == "c":
                hit = [c for c in cs if c.__name__ == self.con]
                assert len(hit) == 1, "operand constructors changed under the job list"
                return hit[0], constructor_kind(hit[0])
        return None, None

    def has_label(self, ckind=None):
        return "s" in self.ks or ckind in ("hi", "lo")

    # -- inputs
    def inputs(self, mk):
        d = {}
        for k, kd in enumerate(self.ks):
            if kd == "r":
                d[f"r{k}"] = mk.int(f"r{k}", 0, 31)
            elif kd == "i" or (kd == "c" and self.con_is_int()):
                d[f"i{k}"] = mk.int(f"i{k}", -self.IMM_BOUND, self.IMM_BOUND)
            else:
                # S: address the label stands for (any alignment, beyond the 32-bit address space);
                # P: address of the instruction (word aligned, anywhere in the 32-bit address space)
                d["S"] = mk.int("S", 0, (1 << (36 if self.wide else 33)) - 1)
                d["P"] = mk.int("P", 0, (1 << 32) - 4)
                mk.assume(d["P"] % 4 == 0)
        return d

    def con_is_int(self):
        cls = self.the_class()
        mn, ops, shape = syntax_of(cls)
        return self.the_constructor(ops)[1] == "imm"

    # -- the real code
    def _printed(self, ins, ops, ckind, i):
        """what Syntax.render reads: the operand attributes (of the instruction / of the operand constructor)"""
        out = []
        for k, (oname, kd, cs) in enumerate(ops):
            v = getattr(ins, oname)
            if kd == "r":
                out.append(v.num)
            elif kd == "i":
                out.append(v)
            elif kd == "s":
                assert v == "lbl"
                out.append(i["S"])
            elif ckind == "imm":
                out.append(v.imm)
            else:
                assert v.label == "lbl"
                out.append(i["S"])
        return out

    def run(self, i):
        """-> ("ok", [bytes], [printed operand values], [the same after encode]) | ("rejected", exception name)"""
        from ppci.arch.or1k.registers import Or1kRegister
        cls = self.the_class()
        mn, ops, shape = syntax_of(cls)
        assert (mn, "".join(k for _, k, _ in ops), shape) == (self.mn, self.ks, self.shape), "syntax changed under the job list"
        con, ckind = self.the_constructor(ops)
        args = []
        for k, kd in enumerate(self.ks):
            if kd == "r":
                args.append(Or1kRegister(f"r{k}", num=i[f"r{k}"]))
            elif kd == "i":
                args.append(i[f"i{k}"])
            elif kd == "s":
                args.append("lbl")
            else:
                args.append(con(i[f"i{k}"]) if ckind == "imm" else con("lbl"))
        ins = cls(*args)
        printed = self._printed(ins, ops, ckind, i)
        try:
            data = ins.encode()
            rels = list(ins.relocations())
            if self.has_label(ckind):
                assert len(rels) == 1, "one relocation expected for a label operand"
                r = rels[0]
                assert r.symbol_name == "lbl"
                size = r.size()
                assert 0 <= r.offset and r.offset + size <= len(data), "relocation outside the instruction"
                part = list(data[r.offset:r.offset + size])
                buf = bytearray(part) if core.ENG is None else SymByteArray(part)
                new = r.apply(i["S"], buf, i["P"] + r.offset)
                data = list(data[:r.offset]) + list(new) + list(data[r.offset + size:])
            else:
                assert not rels, "relocation on an instruction without label operand"
        except Exception as e:      # noqa: any error = operand combination rejected
            return ("rejected", type(e).__name__)
        after = self._printed(ins, ops, ckind, i)
        return ("ok", list(data), printed, after)

    # -- what the manual says the printed text means
    def op_kinds(self):
        """per printed operand: r | i | s | hi | lo"""
        if "c" not in self.ks:
            return list(self.ks)
        cls = self.the_class()
        ckind = self.the_constructor(syntax_of(cls)[1])[1]
        return [("i" if ckind == "imm" else ckind) if kd == "c" else kd for kd in self.ks]

    def premise(self, i, printed):
        """documented ranges of the integer / label operands (outside: C10 decides whether encode must reject)"""
        cs = []
        order = or1kdec.order_of(self.mn, len(printed))
        for k, kd in enumerate(self.op_kinds()):
            if kd == "i":
                rng = or1kdec.operand_range(self.mn, order[k])
                if rng is not None:
                    cs.append(in_range(printed[k], rng))
            elif kd in ("hi", "lo"):
                cs.append(printed[k] <= M32)
            elif kd == "s":
                S, P = printed[k], i["P"]
                cs += [S % 4 == 0, S <= M32, S - P >= JUMP_LO, S - P <= JUMP_HI]
        return sym_and(*cs) if cs else True

    def decode_matches(self, i, data, printed):
        """-> (mnemonic matches, operands match)"""
        if len(data) != 4 or self.shape != or1kdec.SHAPE[self.mn]:
            return False, False
        w = or1kdec.word_of_bytes(data)
        conc = type(w) is int
        d = or1kdec.decode(w if conc else core.to_bv(w, 32))
        m = d.is_(self.mn)
        order = or1kdec.order_of(self.mn, len(printed))
        vals = d.operands(self.mn, len(printed))
        cs = []
        for k, kd in enumerate(self.op_kinds()):
            fv, pv = vals[k], printed[k]
            isreg = order[k] in or1kdec.REGISTER_FIELDS
            if (kd == "r") != isreg or (kd == "s") != (order[k] == "n"):
                cs.append(False)        # a register / label is printed where the manual has something else
                continue
            if kd in ("hi", "lo"):
                if not or1kdec.is_16bit_immediate(self.mn, order[k]):
                    cs.append(False)
                    continue
                half = or1kdec.hi16 if kd == "hi" else or1kdec.lo16
                cs.append((fv & 0xFFFF) == (half(pv & M32) if conc else half(bv32(pv))))
            elif kd == "s":
                if conc:
                    cs.append(or1kdec.jump_target(fv, i["P"]) == (pv & M32))
                else:
                    cs.append(or1kdec.jump_target(fv, bv32(i["P"])) == bv32(pv))
            elif conc:
                cs.append((fv & M32) == (pv & M32))
            else:
                cs.append(fv == bv32(pv))
        if conc:
            return bool(m), all(cs)
        wrap = lambda b: core.SymBool(b) if z3.is_expr(b) else bool(b)      # noqa
        return wrap(m), wrap(z3.And(*[_zb(c) for c in cs]) if cs else True)

    def post(self, i, out):
        if not out.ok:
            return {"harness-ran": False}
        r = out.value
        if r[0] == "rejected":
            return {"rejected": True}
        _, data, printed, after = r
        prem = self.premise(i, printed)
        m, ops = self.decode_matches(i, data, printed)
        return {"decodes-to-printed-mnemonic": implies(prem, m),
                "decodes-to-printed-operands": implies(prem, sym_and(m, ops)),
                "encode leaves the printed operands unchanged": core.sym_eq(list(after), list(printed))}


def mk_or1k_enc(**kw):
    return Or1kEncodingHarness(**kw)


# ---------------------------------------------------------------------------------------------------------
def register_names():
    """every Or1kRegister object of ppci.arch.or1k.registers prints the name rN of its number N (manual: GPRs r0..r31)"""
    from ppci.arch.or1k import registers as R
    from ppci.arch.or1k.registers import Or1kRegister
    seen = {}
    for attr, reg in vars(R).items():
        if isinstance(reg, Or1kRegister):
            assert reg.name == f"r{reg.num}" and 0 <= reg.num <= 31, f"register object {attr}: printed name {reg.name!r} is not register {reg.num}"
            seen[reg.name] = reg.num
    assert len(seen) == 32, sorted(seen)
    return seen


def mk_or1k_selftest():
    """concrete validation of ref/or1kdec.py + register names + the list of unclaimed classes (evidence)"""
    import time
    t0 = time.time()
    name = "or1k.selftest"
    res = dict(harness=name, violations=[], known_hits=[], inconclusive=[], errors=[], funcs=[],
               samples=[], stats=dict(paths=1, decisions=0, feas_queries=0, cut_paths=0, solver_s=0.0),
               obligations=1, discharged=0, validated=0, reached=1, twin_violated=1, exhaustive=True, nontrivial=1)
    try:
        st = or1kdec.selftest()
        regs = register_names()
        claimed, unclaimed = discover()
        assert claimed, "no or1k instruction class claimed"
        res["discharged"] = 1
        res["samples"] = [dict(harness=name, selftest=st, register_names_checked=len(regs),
                               claimed_jobs=len(claimed), claimed_classes=len({c[1] for c in claimed}),
                               unclaimed_classes=[list(u) for u in unclaimed])]
    except AssertionError as e:
        res["errors"].append(dict(kind="reference-selftest-failed", harness=name, error=repr(e)[:500]))
    res["wall_s"] = time.time() - t0
    return res


def jobs(tier, seed):
    js = [("mk_or1k_selftest", {})]
    claimed, unclaimed = discover()
    for (idx, cls, mn, ks, shape, con) in claimed:
        js.append(("mk_or1k_enc", dict(idx=idx, cls=cls, mn=mn, ks=ks, shape=shape, con=con, wide=int(tier == "thorough"))))
    return js


BOUNDS_NOTE = ("every class of ppci.arch.or1k.instructions registered in get_arch('or1k').isa with syntax + tokens (57: l.add addc sub "
               "and or xor mul mulu div divu cmov sll srl sra, extbs extbz exths exthz, addi addic andi ori xori movhi, slli srli srai, "
               "lbs lbz lhs lhz lwa lws lwz, sb sh sw swa, sfeq sfne sfgtu sfgeu sfltu sfleu sfgts sfges sflts sfles, j jal bf bnf, jr "
               "jalr, nop macrc csync) x every constructor its immediate operand accepts (Immediate, HighAddressImmediate hi(label), "
               "LowAddressImmediate lo(label): 69 harnesses); every register number 0..31 for every register operand (Or1kRegister objects "
               "with symbolic number), all operands symbolic at once; integer operands [-2**33, 2**33] (thorough: [-2**48, 2**48]), "
               "obligation stated for the manual's range (sign-extended I of addi/addic/xori/loads/stores -32768..32767, zero-extended K of "
               "andi/ori/movhi/nop 0..65535, shift amount L 0..63); labels: address S 0..2**33-1 (thorough 2**36-1) at any alignment, "
               "instruction address P every multiple of 4 below 2**32, through the real JumpRelocation / ConsthRelocation / ConstRelocation "
               "at the offset relocations() reports; obligation for S < 2**32 (jumps: word-aligned, S - P in -2**27 .. 2**27-4)")
OUTSIDE_NOTE = ["or1k: the floating point classes of ppci/arch/or1k/orfpx32.py (lf.*: not part of get_arch('or1k').isa, no reference "
                "decoder entries with operands); instruction forms ppci has no class for (l.muli, l.mfspr/l.mtspr, l.sfXXi, l.ror(i), "
                "l.ff1, l.mac, l.sys, l.trap, l.rfe, l.msync/l.psync, l.extws/l.extwz, 64-bit l.ld/l.sd ...)",
                "or1k: integer operands outside the manual's documented range (e.g. l.xori / l.addi with 32768..65535, l.andi with a "
                "negative value: the 16-bit token field takes -32768..65535) and labels a jump cannot reach or that lie beyond the 32-bit "
                "address space -- whether encode()/the relocation must reject them is C10",
                "or1k: the delay slot and what the compiler puts into it; the assembler's text path"]
ASSUMPTIONS_NOTE = ["ref/or1kdec.py states the OpenRISC 1000 Architecture Manual (ORBIS32 instruction pages: opcode and secondary opcode "
                    "fields, reserved fields = 0, operand order of the Format lines, exts/extz of the immediates, split immediate of the "
                    "store layout, big-endian instruction words) correctly (self-tested per run: 101 table entries pairwise disjoint, "
                    "100 known toolchain words incl. reserved ones, the 67 instruction vectors of the repo's test_or1k.py, int vs z3 "
                    "evaluation of the shared slicing expressions on 1818 words)",
                    "or1k: the register an Or1kRegister object prints is rN for its number N (checked for the 32 objects of "
                    "ppci/arch/or1k/registers.py in every run); the harness's symbolic register objects stand for their number",
                    "or1k: a jump label denotes the symbol's address: `l.j label` at address P must encode N with P + exts(N << 2) == "
                    "address (relative to the jump itself, not its delay slot); hi(label) / lo(label) are the OpenRISC assembler's "
                    "operators: bits 31..16 / bits 15..0 of the address, placed unchanged into the 16-bit immediate field "
                    "(R_OR1K_HI_16_IN_INSN / R_OR1K_LO_16_IN_INSN; no carry adjustment, as `l.movhi rD,hi(x)` + `l.ori rD,rD,lo(x)` needs)"]
