"""Shared machinery of C08 / C07 (ARM A32): discovery of the encodable instruction classes of the real arm ISA
object, the table that says which manual instruction (entry of ref/arm32.py) a printed ppci syntax denotes,
and the harness base that builds an instruction with symbolic operands and runs the real encode()
(+ the real relocation for label operands).

Operand kinds (by the class's real syntax):  r ArmRegister (number 0..15 symbolic)   i int (symbolic, wider than any
field)   S shift suffix constructor (NoShift / ShiftLsl / ShiftLsr / ShiftAsr chosen by a symbolic selector, amount
symbolic)   L RegisterSet (N register objects with symbolic numbers: every list of <= N registers)   s label
(symbolic distance through the real relocation)   p/c coprocessor operands (not claimed).
"""
import importlib
import z3
from symx.harness import Harness
from symx import core
from symx.core import sym_and, sym_or, sym_not, implies, ite
from symx.seq import SymByteArray
from ref import arm32

ARCH = "arm"
MOD = "ppci.arch.arm.arm_instructions"
M32 = (1 << 32) - 1
U32 = (0, M32, 1)
SHIFT = ("stype", "samt")


def _s(base, pos, fixed=None, imm=None, label=None):
    return dict(base=base, pos=pos, fixed=fixed or {}, imm=imm, label=label)


# (base mnemonic without condition suffix, operand kinds by syntax position) -> manual instruction.
#   pos[k]  = decoded fields that must equal the k-th printed operand (a shift operand prints two values)
#   fixed   = decoded fields with a fixed value; the condition field is added from the mnemonic's suffix
#   imm     = documented range (lo, hi, multiple-of) of the integer operand / of the encoded label offset
#   label   = bias: the label operand is pc-relative; the real relocation is applied with a symbolic distance
#             off = S - P and the decoded offset must be off - bias (the PC reads as P + 8)
SPEC = {}
for _n in arm32.DP:
    if _n in arm32.COMPARES:
        SPEC[(_n, "rrS")] = _s(_n + "_reg", (("rn",), ("rm",), SHIFT))
        SPEC[(_n, "ri")] = _s(_n + "_imm", (("rn",), ("imm",)), imm=U32)
    elif _n in arm32.MOVES:
        SPEC[(_n, "rrS")] = _s(_n + "_reg", (("rd",), ("rm",), SHIFT), dict(S=0))
        SPEC[(_n, "ri")] = _s(_n + "_imm", (("rd",), ("imm",)), dict(S=0), imm=U32)
    else:
        SPEC[(_n, "rrrS")] = _s(_n + "_reg", (("rd",), ("rn",), ("rm",), SHIFT), dict(S=0))
        SPEC[(_n, "rri")] = _s(_n + "_imm", (("rd",), ("rn",), ("imm",)), dict(S=0), imm=U32)
# "lsl rd, rn, rm" = MOV rd, rn, LSL rm (manual: LSL (register): Rd, Rn = shifted register, Rm = amount)
for _n, _t in (("lsl", arm32.LSL), ("lsr", arm32.LSR), ("asr", arm32.ASR), ("ror", arm32.ROR)):
    SPEC[(_n, "rrr")] = _s("mov_rsr", (("rd",), ("rm",), ("rs",)), dict(S=0, stype=_t))
for _n in ("mul", "sdiv", "udiv"):
    SPEC[(_n, "rrr")] = _s(_n, (("rd",), ("rn",), ("rm",)), dict(S=0) if _n == "mul" else {})
SPEC[("mla", "rrrr")] = _s("mla", (("rd",), ("rn",), ("rm",), ("ra",)), dict(S=0))
SPEC[("mls", "rrrr")] = _s("mls", (("rd",), ("rn",), ("rm",), ("ra",)))
_OFFS = dict(index=True, wback=False)
for _n in ("str", "ldr", "strb", "ldrb"):
    SPEC[(_n, "rri")] = _s(_n + "_imm", (("rt",), ("rn",), ("imm",)), _OFFS, imm=(-4095, 4095, 1))
for _n in ("strh", "ldrh", "ldrsb", "ldrsh"):
    SPEC[(_n, "rri")] = _s(_n + "_imm", (("rt",), ("rn",), ("imm",)), _OFFS, imm=(-255, 255, 1))
    SPEC[(_n, "rrr")] = _s(_n + "_reg", (("rt",), ("rn",), ("rm",)), dict(index=True, wback=False, add=True))
_BR = (-(1 << 25), (1 << 25) - 4, 4)
SPEC.update({
    ("b", "s"): _s("b", (("imm",),), label=8, imm=_BR),
    ("bl", "s"): _s("bl", (("imm",),), label=8, imm=_BR),
    ("bx", "r"): _s("bx", (("rm",),)),
    ("blx", "r"): _s("blx_reg", (("rm",),)),
    ("push", "L"): _s("push", (("list",),)),
    ("pop", "L"): _s("pop", (("list",),)),
    ("adr", "rs"): _s("adr", (("rd",), ("imm",)), label=8, imm=(-M32, M32, 1)),
    ("ldr", "rs"): _s("ldr_lit", (("rt",), ("imm",)), label=8, imm=(-4095, 4095, 1)),
    ("nop", ""): _s("nop", ()),
})
BASES = sorted({k[0] for k in SPEC} | {"mcr", "mrc"})
# documented shift amounts of "<Rm>, <shift> #<n>" (A8.4.1): LSL 0..31 (0 = no shift), LSR / ASR 1..32
SHIFT_RANGE = {arm32.LSL: (0, 31), arm32.LSR: (1, 32), arm32.ASR: (1, 32)}


def mnemonic_of(cls):
    out = []
    for e in cls.syntax.syntax:
        if not isinstance(e, str) or e.isspace():
            break
        out.append(e)
    return "".join(out)


def kinds_of(cls):
    from ppci.arch.arm.registers import ArmRegister, RegisterSet, Coreg, Coproc
    ks = ""
    for a in cls.syntax.formal_arguments:
        c = a._cls
        if c is int:
            ks += "i"
        elif c is str:
            ks += "s"
        elif c is ArmRegister:
            ks += "r"
        elif c is RegisterSet:
            ks += "L"
        elif c is Coreg:
            ks += "c"
        elif c is Coproc:
            ks += "p"
        elif isinstance(c, tuple) and [x.__name__ for x in c] == ["NoShift", "ShiftLsl", "ShiftLsr", "ShiftAsr"]:
            ks += "S"
        else:
            ks += "?"
    return ks


def discover():
    """-> (claimed [(idx, class name, mnemonic, base, cond, kinds)], unclaimed [(class name, why)])"""
    from ppci.api import get_arch
    claimed, unclaimed = [], []
    arch = get_arch(ARCH)
    for idx, cls in enumerate(arch.isa.instructions):
        if cls.__module__ != MOD:
            continue        # data directives (db, dw, dd ...) of data_isa
        if not getattr(cls, "syntax", None):
            continue        # abstract bases
        mn = mnemonic_of(cls)
        ks = kinds_of(cls)
        sp = arm32.split_mnemonic(mn, BASES)
        if not hasattr(cls, "tokens"):
            unclaimed.append((cls.__name__, "no encoding"))
        elif sp is None:
            unclaimed.append((cls.__name__, f"mnemonic '{mn}' is no A32 mnemonic + condition known here"))
        elif "c" in ks or "p" in ks:
            unclaimed.append((cls.__name__, f"coprocessor instruction '{mn}' (not modelled in ref/arm32.py)"))
        elif (sp[0], ks) not in SPEC:
            unclaimed.append((cls.__name__, f"no manual instruction stated for syntax '{mn}' {ks!r}"))
        else:
            claimed.append((idx, cls.__name__, mn, sp[0], sp[1], ks))
    return claimed, unclaimed


def le(bs):
    w = 0
    for i, b in enumerate(bs):
        w = w | (b << (8 * i))
    return w


def in_range(v, rng):
    lo, hi, mult = rng[:3]
    c = sym_and(v >= lo, v <= hi)
    if mult > 1:
        c = sym_and(c, v % mult == 0)
    return c


def bv32(v):
    return core.to_bv(v, 32) if type(v) is not int else z3.BitVecVal(v & M32, 32)


class EncodeHarness(Harness):
    """builds cls(*symbolic operands), runs the real encode() (+ real relocation for label operands)"""
    W = 72
    max_paths = 4000
    IMM_BOUND = 1 << 33
    NLIST = 3

    def __init__(self, idx, cls, mn, base, cond, ks, wide=0, nlist=3):
        self.idx, self.cls, self.mn, self.base, self.cond, self.ks = idx, cls, mn, base, cond, ks
        self.spec = SPEC[(base, ks)]
        self.wide = wide            # thorough tier: immediates up to 2**48, label distance 16 x the documented reach
        self.NLIST = nlist
        self.params = dict(idx=idx, cls=cls, mn=mn, base=base, cond=cond, ks=ks, wide=wide, nlist=nlist)
        self.name = f"{self.PREFIX}[arm:{cls}#{idx}:{mn}" + (f":{nlist}regs" if "L" in ks else "") + "]"
        if wide:
            self.IMM_BOUND = 1 << 48
            self.W = 96

    def modules(self):
        names = ["ppci.utils.bitfun", "ppci.arch.token", "ppci.arch.encoding", "ppci.arch.isa", "ppci.arch.registers",
                 "ppci.arch.arm.arm_instructions", "ppci.arch.arm.isa", "ppci.arch.arm.registers",
                 "ppci.arch.arm.arm_relocations"]
        return [importlib.import_module(n) for n in names]

    def the_class(self):
        from ppci.api import get_arch
        cls = get_arch(ARCH).isa.instructions[self.idx]
        assert cls.__name__ == self.cls, "instruction table changed under the job list"
        return cls

    # -- inputs
    def operand_inputs(self, mk):
        d = {}
        for k, kd in enumerate(self.ks):
            if kd == "r":
                d[f"r{k}"] = mk.int(f"r{k}", 0, 15)
            elif kd == "i":
                d[f"i{k}"] = mk.int(f"i{k}", -self.IMM_BOUND, self.IMM_BOUND)
            elif kd == "S":
                d["sk"] = mk.int("sk", 0, 3)            # NoShift / lsl / lsr / asr
                d["sn"] = mk.int("sn", -64, 64)
            elif kd == "L":
                for j in range(self.NLIST):
                    d[f"l{j}"] = mk.int(f"l{j}", 0, 15)
            elif kd == "s":
                lo, hi, mult = self.spec["imm"][:3]
                lo, hi = max(lo, -(1 << 25)), min(hi, 1 << 25)
                if hi < 8192:
                    lo, hi = -8192, 8192
                f = 16 if self.wide else 2
                # distance S - P: beyond the documented reach; P: address of the instruction (word aligned)
                d["off"] = mk.int("off", f * lo, f * hi + 8)
                d["P"] = mk.int("P", 0, (1 << 32) - 4)
                mk.assume(d["P"] % 4 == 0)
                mk.assume(d["P"] + d["off"] >= 0)
                mk.assume(d["P"] + d["off"] < (1 << 32))
        return d

    # -- the real code
    def encode(self, i):
        """-> ("ok", [bytes], [printed operand values], [used nums], [defined nums]) | ("rejected", exc name)
        printed: one int per operand; a shift operand prints [stype, amount], a register list its bit mask"""
        from ppci.arch.arm.registers import ArmRegister, RegisterSet
        from ppci.arch.arm import arm_instructions as ai
        cls = self.the_class()
        args, printed = [], []
        for k, kd in enumerate(self.ks):
            if kd == "r":
                args.append(ArmRegister(f"r{k}", num=i[f"r{k}"]))
                printed.append(i[f"r{k}"])
            elif kd == "i":
                args.append(i[f"i{k}"])
                printed.append(i[f"i{k}"])
            elif kd == "S":
                sk = int(i["sk"])       # forks: one path per shift constructor
                if sk == 0:
                    args.append(ai.NoShift())
                    printed.append([arm32.LSL, 0])
                else:
                    args.append((ai.ShiftLsl, ai.ShiftLsr, ai.ShiftAsr)[sk - 1](i["sn"]))
                    printed.append([(arm32.LSL, arm32.LSR, arm32.ASR)[sk - 1], i["sn"]])
            elif kd == "L":
                regs = [ArmRegister(f"l{j}", num=i[f"l{j}"]) for j in range(self.NLIST)]
                args.append(RegisterSet(regs))
                m = 0
                for j in range(self.NLIST):
                    m = m | (1 << i[f"l{j}"])
                printed.append(m)
            else:
                args.append("lbl")
                printed.append(i["off"])
        ins = cls(*args)
        # what Syntax.render reads: the operand attributes after construction
        for k, a in enumerate(cls.syntax.formal_arguments):
            v = getattr(ins, a._name)
            if self.ks[k] == "r":
                printed[k] = v.num
            elif self.ks[k] == "i":
                printed[k] = v
        used = [r.num for r in ins.used_registers if type(r) is ArmRegister]
        defined = [r.num for r in ins.defined_registers if type(r) is ArmRegister]
        defined += [r.num for r in ins.clobbers if type(r) is ArmRegister]
        try:
            data = ins.encode()
            rels = ins.relocations()
            if self.spec["label"] is not None:
                assert len(rels) == 1, "one relocation expected for a label operand"
                r = rels[0]
                size = r.size()
                part = list(data[r.offset:r.offset + size])
                buf = bytearray(part) if core.ENG is None else SymByteArray(part)
                new = r.apply(i["P"] + i["off"], buf, i["P"])
                data = list(data[:r.offset]) + list(new) + list(data[r.offset + size:])
            else:
                assert not rels, "relocation on an instruction without label operand"
        except Exception as e:      # noqa: any error = operand combination rejected
            return ("rejected", type(e).__name__)
        return ("ok", list(data), printed, used, defined)

    # -- what the manual says the printed text means
    def imm_premise(self, i, printed):
        """documented ranges of the integer / shift / label operands (outside: C10 decides whether encode must reject)"""
        cs = []
        for k, kd in enumerate(self.ks):
            if kd == "i" and self.spec["imm"]:
                cs.append(in_range(printed[k], self.spec["imm"]))
            elif kd == "s":
                cs.append(in_range(printed[k] - self.spec["label"], self.spec["imm"]))
            elif kd == "S":
                st, n = printed[k]
                lo, hi = SHIFT_RANGE[st]
                cs.append(sym_and(n >= lo, n <= hi))
        return sym_and(*cs) if cs else True

    def decode_matches(self, data, printed):
        """-> (mnemonic matches, operands match)"""
        if len(data) != 4:
            return False, False
        w = le(data)
        conc = type(w) is int
        d = arm32.decode(w if conc else core.to_bv(w, 32))
        base = self.spec["base"]
        m = d.is_(base)
        try:
            f = d.fields(base)
        except KeyError:
            return False, False

        def eq(fv, pv):
            if type(fv) is bool or z3.is_bool(fv):
                return fv if pv else (not fv if type(fv) is bool else z3.Not(fv))
            if conc:
                return (fv & M32) == (pv & M32)
            return fv == bv32(pv)
        cs = []
        for k, fields in enumerate(self.spec["pos"]):
            pv = printed[k]
            if self.ks[k] == "s":
                pv = pv - self.spec["label"]
            if fields is SHIFT or fields == SHIFT:
                cs += [eq(f["stype"], pv[0]), eq(f["samt"], pv[1])]
                continue
            for fld in fields:
                cs.append(eq(f[fld], pv))
        for fld, v in self.spec["fixed"].items():
            cs.append(eq(f[fld], v))
        cs.append(eq(f["cond"], self.cond))
        if conc:
            return bool(m), all(cs)
        wrap = lambda b: core.SymBool(b) if z3.is_expr(b) else bool(b)      # noqa
        return wrap(m), wrap(z3.And(*[arm32._zb(c) for c in cs]))
