"""C08 for the Motorola 68000 instruction set of ppci (ppci/arch/m68k/instructions.py), reference decoder ref/m68kdec.py.

Every instruction class registered in the m68k ISA object that has a syntax and tokens (add/and/cmp/or/sub b,w,l;
eor b,w,l; neg/not b,w,l; move b,w,l; movea w,l; moveq; lea; jsr; nop; rts; bra, bsr and six conditional branches)
is instantiated with SYMBOLIC operands:
  * the constructor of the first effective-address operand is a job parameter (every constructor the operand accepts:
    DataRegEa, AddressRegEa, AddressEa, AddressOffsetEa, ImmediateEa, PcRelEa, AbsNearEa); the destination constructor
    of move (DataRegDstEa, AddressDstEa, AddressOffsetDstEa) is chosen by a symbolic selector;
  * registers are real DataRegister / AddressRegister objects whose number is symbolic (every number the register
    file of ppci has: D0..D7, A0..A6);
  * displacements, absolute addresses and immediates are symbolic integers; label operands (the PC-relative operand,
    branch targets) go through the real relocation (Rel16Relocation / BranchRel32Relocation) with a symbolic distance
    and instruction address, applied to the emitted bytes at the offset ppci's relocations() reports.
The real encode() runs; the emitted bytes are decoded by ref/m68kdec.py (written from the M68000 Family Programmer's
Reference Manual).  Obligation per path: encode / relocation raised, or the bytes are exactly one instruction of the
manual with the printed mnemonic (incl. the size suffix b/w/l) and exactly the printed operands in the printed
(source, destination) order.  What is printed is read off the real syntax of the class and of the operand
constructor (its literal glyphs `( ) # , . w` and operand attributes).
"""
import importlib
import operator
import time
from symx.harness import Harness
from symx import core
from symx.core import sym_and, implies
from symx.seq import SymByteArray
from ref import m68kdec

ARCH = "m68k"
MOD = "ppci.arch.m68k.instructions"
FACTORIES = ["mk_m68k_selftest", "mk_m68k_enc"]

# operand constructor syntax (glyphs + operand kinds R register, N integer, L label) -> addressing mode of the manual
SHAPES = {"R": "reg", "(R)": "ind", "(N,R)": "disp", "#N": "imm", "L": "pcrel", "(N).w": "absw"}
# top-level operand groups of an instruction syntax: M = effective-address operand (tuple of constructors)
TOP_SHAPES = ("M", "R", "#N", "L")


def _kind(e):
    c = e._cls
    if isinstance(c, tuple):
        return "M"
    if c is int:
        return "N"
    if c is str:
        return "L"
    return "R"


def con_shape(con):
    s = ""
    for e in con.syntax.syntax:
        s += e.strip() if isinstance(e, str) else _kind(e)
    return s


def parse_syntax(cls):
    """-> (printed mnemonic, [(shape, operand)]) or (printed mnemonic, None, reason)"""
    syn = list(cls.syntax.syntax)
    head = []
    while syn and isinstance(syn[0], str) and not syn[0].isspace():
        head.append(syn.pop(0))
    printed = "".join(head)
    groups, cur, ops = [], "", []
    for e in syn + [","]:
        if isinstance(e, str):
            if e.strip() == ",":
                if cur:
                    groups.append((cur, ops))
                cur, ops = "", []
            else:
                cur += e.strip()
        else:
            cur += _kind(e)
            ops.append(e)
    for shape, ops in groups:
        if shape not in TOP_SHAPES or len(ops) != 1:
            return printed, None, "operand syntax not understood: " + shape
    return printed, [(shape, ops[0]) for shape, ops in groups], ""


def reg_kind(regcls):
    return {"DataRegister": "dreg", "AddressRegister": "areg"}.get(regcls.__name__)


def reg_range(regcls):
    nums = sorted(r.num for r in regcls.registers)
    assert nums == list(range(nums[0], nums[-1] + 1)), "register numbers not contiguous"
    return nums[0], nums[-1]


def discover():
    """-> (claimed [(idx, class name, printed mnemonic, constructor name of the first <ea> operand | "")],
           unclaimed [(class name, why)])"""
    from ppci.api import get_arch
    arch = get_arch(ARCH)
    claimed, unclaimed = [], []
    for idx, cls in enumerate(arch.isa.instructions):
        if not getattr(cls, "syntax", None):
            continue
        name = cls.__name__
        if cls.__module__ != MOD:
            unclaimed.append((name, "data directive (" + cls.__module__.split(".")[-1] + ")"))
            continue
        if not getattr(cls, "tokens", None):
            unclaimed.append((name, "no tokens (pseudo-instruction)"))
            continue
        printed, ops, why = parse_syntax(cls)
        if ops is None:
            unclaimed.append((name, why))
            continue
        if m68kdec.split_mnemonic(printed) is None:
            unclaimed.append((name, f"the reference decoder has no instruction with the mnemonic '{printed}'"))
            continue
        bad = []
        for shape, op in ops:
            if shape == "M":
                bad += [c.__name__ for c in op._cls if con_shape(c) not in SHAPES
                        or any(_kind(a) == "R" and reg_kind(a._cls) is None for a in c.syntax.formal_arguments)]
            elif shape == "R" and reg_kind(op._cls) is None:
                bad.append(op._cls.__name__)
        if bad:
            unclaimed.append((name, "operand constructor / register class not understood: " + ", ".join(bad)))
            continue
        modes = [op for shape, op in ops if shape == "M"]
        if len(modes) > 2:
            unclaimed.append((name, "more than two effective-address operands"))
            continue
        if modes:
            for c in modes[0]._cls:
                claimed.append((idx, name, printed, c.__name__))
        else:
            claimed.append((idx, name, printed, ""))
    return claimed, unclaimed


def _dec_dict(d):
    return dict(ok=d.ok, mn=d.mn or "", size=d.size or 0, ops=[list(o) for o in d.ops], length=d.length, why=d.why)


class EncodeHarness(Harness):
    """builds cls(*symbolic operands), runs the real encode() (+ the real relocations for label operands), decodes

    inputs: <ea operand name>_r / _i = register number / integer of the operand constructor, <name>_m = index of the
    constructor of the SECOND <ea> operand (move's dst_ea); plain operands by their own name (dn, dst, imm);
    off = label address - address of the instruction, P = address of the instruction"""
    W = 64
    max_paths = 4000
    PREFIX = "m68k.encode"

    def __init__(self, idx, cls, mn, con="", wide=0):
        self.idx, self.cls, self.mn, self.con, self.wide = idx, cls, mn, con, wide
        self.params = dict(idx=idx, cls=cls, mn=mn, con=con, wide=wide)
        self.name = f"{self.PREFIX}[{cls}#{idx}:{mn}{':' + con if con else ''}]"
        if wide:
            self.W = 96

    def modules(self):
        names = ["ppci.utils.bitfun", "ppci.arch.token", "ppci.arch.encoding", "ppci.arch.isa", "ppci.arch.registers",
                 "ppci.arch.m68k.instructions", "ppci.arch.m68k.registers"]
        return [importlib.import_module(n) for n in names]

    def the_class(self):
        from ppci.api import get_arch
        cls = get_arch(ARCH).isa.instructions[self.idx]
        assert cls.__name__ == self.cls, "instruction table changed under the job list"
        return cls

    def layout(self):
        """-> (manual mnemonic, size, [(shape, operand, [constructors])])"""
        printed, ops, why = parse_syntax(self.the_class())
        assert printed == self.mn and ops is not None
        base, size = m68kdec.split_mnemonic(printed)
        out, first = [], True
        for shape, op in ops:
            cons = []
            if shape == "M":
                cons = list(op._cls)
                if first:
                    cons = [c for c in cons if c.__name__ == self.con]
                    assert len(cons) == 1, "constructor %s not accepted by %s" % (self.con, self.cls)
                    first = False
            out.append((shape, op, cons))
        return base, size, out

    def int_bound(self):
        return 1 << (48 if self.wide else 34)

    def operand_inputs(self, mk):
        base, size, ops = self.layout()
        d, label = {}, None
        b = self.int_bound()
        for shape, op, cons in ops:
            n = op._name
            if shape == "R":
                d[n] = mk.int(n, *reg_range(op._cls))
            elif shape == "#N":
                d[n] = mk.int(n, -b, b)
            elif shape == "L":
                label = "branch"
            else:
                if len(cons) > 1:
                    d[n + "_m"] = mk.int(n + "_m", 0, len(cons) - 1)
                if self.reg_input_range(cons):
                    d[n + "_r"] = mk.int(n + "_r", *self.reg_input_range(cons))
                if any(_kind(a) == "N" for c in cons for a in c.syntax.formal_arguments):
                    d[n + "_i"] = mk.int(n + "_i", -b, b)
                if any(_kind(a) == "L" for c in cons for a in c.syntax.formal_arguments):
                    label = "pcrel"
        if label:
            reach = (1 << (36 if self.wide else 33)) if label == "branch" else (1 << (20 if self.wide else 17))
            d["off"] = mk.int("off", -reach, reach)
            d["P"] = mk.int("P", 0, (1 << 32) - 2)
            mk.assume(d["P"] % 2 == 0)
            mk.assume(d["P"] + d["off"] >= 0)
            mk.assume(d["P"] + d["off"] < (1 << 32))
        return d

    # -- the real code
    @staticmethod
    def reg_input_range(cons):
        """the register-number input of an <ea> operand spans the union of its constructors' register files"""
        regs = [a._cls for c in cons for a in c.syntax.formal_arguments if _kind(a) == "R"]
        if not regs:
            return None
        return min(reg_range(r)[0] for r in regs), max(reg_range(r)[1] for r in regs)

    def make_operand(self, n, con, i, declared):
        """-> (constructor object, printed operand): what is printed is read off the constructor's real syntax
        (glyphs -> addressing mode) and the attributes of the constructed object"""
        args = []
        for a in con.syntax.formal_arguments:
            k = _kind(a)
            if k == "N":
                args.append(i[n + "_i"])
            elif k == "L":
                args.append("label")
            else:
                lo, hi = reg_range(a._cls)
                num = i[n + "_r"]
                if (lo, hi) != declared and not (num >= lo and num <= hi):      # forks when symbolic
                    raise _NoSuchRegister()
                args.append(a._cls("r", num=num))
        obj = con(*args)
        vals = {}
        for a in con.syntax.formal_arguments:
            v = getattr(obj, a._name)
            k = _kind(a)
            vals[k] = i["off"] if k == "L" else (v if k == "N" else v.num)
            if k == "R":
                vals["kind"] = reg_kind(a._cls)
        kind = SHAPES[con_shape(con)]
        if kind == "reg":
            return obj, (vals["kind"], vals["R"])
        if kind == "ind":
            return obj, ("ind", vals["R"])
        if kind == "disp":
            return obj, ("disp", vals["R"], vals["N"])
        if kind == "imm":
            return obj, ("imm", vals["N"])
        if kind == "absw":
            return obj, ("absw", vals["N"])
        return obj, ("pcrel", vals["L"])

    def build(self, i):
        cls = self.the_class()
        base, size, ops = self.layout()
        args, printed = [], []
        for shape, op, cons in ops:
            n = op._name
            if shape == "R":
                reg = op._cls("r", num=i[n])
                args.append(reg)
                printed.append((reg_kind(op._cls), None))
            elif shape == "#N":
                args.append(i[n])
                printed.append(("imm", None))
            elif shape == "L":
                args.append("label")
                printed.append(("target", i["off"]))
            else:
                con = cons[operator.index(i[n + "_m"])] if len(cons) > 1 else cons[0]
                obj, p = self.make_operand(n, con, i, self.reg_input_range(cons))
                args.append(obj)
                printed.append(p)
        ins = cls(*args)
        # plain operands are printed from the instruction's attributes after construction
        for k, (shape, op, cons) in enumerate(ops):
            if shape == "R":
                printed[k] = (printed[k][0], getattr(ins, op._name).num)
            elif shape == "#N":
                printed[k] = ("imm", getattr(ins, op._name))
        return ins, printed

    def encode(self, i):
        """-> ("ok", [bytes], printed operands) | ("rejected", exception name)"""
        try:
            ins, printed = self.build(i)
        except _NoSuchRegister:
            return ("rejected", "no such register")
        try:
            data = list(ins.encode())
            for r in ins.relocations():
                size = r.size()
                part = data[r.offset:r.offset + size]
                assert len(part) == size, "relocation outside the instruction"
                assert r.symbol_name == "label", r.symbol_name
                buf = bytearray(part) if core.ENG is None else SymByteArray(part)
                new = r.apply(i["P"] + i["off"], buf, i["P"] + r.offset)
                data = data[:r.offset] + list(new) + data[r.offset + size:]
        except Exception as e:      # noqa: any error = operand combination rejected
            return ("rejected", type(e).__name__)
        return ("ok", data, printed)

    def run_encode_decode(self, i):
        r = self.encode(i)
        if r[0] != "ok":
            return r
        _, data, printed = r
        return ("ok", data, [list(p) for p in printed], _dec_dict(m68kdec.decode(data)))

    # -- comparison
    def premise(self, printed):
        """documented operand ranges (outside: C10 decides whether encode must reject)"""
        base, size, ops = self.layout()
        cs = []
        for p in printed:
            rng = (-128, 127) if (base == "moveq" and p[0] == "imm") else m68kdec.printed_range(tuple(p), size)
            if rng is not None:
                v = p[2] if p[0] == "disp" else p[1]
                cs.append(sym_and(v >= rng[0], v <= rng[1]))
        return sym_and(*cs) if cs else True

    def matches(self, data, printed, dec):
        base, size, ops = self.layout()
        if not (bool(dec["ok"]) and dec["length"] == len(data)):
            return {"decodes-as-one-instruction": False, "decodes-to-printed-mnemonic": False,
                    "decodes-to-printed-operands": False}
        m = dec["mn"] == base and (size is None or dec["size"] == size)
        dops = [tuple(o) for o in dec["ops"]]
        if len(dops) != len(printed):
            return {"decodes-as-one-instruction": True, "decodes-to-printed-mnemonic": m,
                    "decodes-to-printed-operands": False}
        cs = [m68kdec.operand_matches(tuple(p), o) for p, o in zip(printed, dops)]
        return {"decodes-as-one-instruction": True, "decodes-to-printed-mnemonic": m,
                "decodes-to-printed-operands": sym_and(m, *cs)}


class _NoSuchRegister(Exception):
    pass


class M68kEncodingHarness(EncodeHarness):
    """C08 obligation: encode() raised, or the bytes are exactly one instruction of the manual that has the printed
    mnemonic and exactly the printed operands (premise: integer operands within the documented range)"""

    def inputs(self, mk):
        return self.operand_inputs(mk)

    def run(self, i):
        return self.run_encode_decode(i)

    def post(self, i, out):
        if not out.ok:
            return {"harness-ran": False}
        r = out.value
        if r[0] == "rejected":
            return {"rejected": True}
        _, data, printed, dec = r
        prem = self.premise(printed)
        return {k: implies(prem, v) for k, v in self.matches(data, printed, dec).items()}


def nonvacuous(claimed):
    """concrete sanity per (class, first constructor, second constructor): some plain operand choice is accepted by
    encode(); combinations for which every attempt is rejected are listed in the evidence"""
    dead, n = [], 0
    for (idx, cls, mn, con) in claimed:
        h = M68kEncodingHarness(idx, cls, mn, con)
        base, size, ops = h.layout()
        second = [(op._name, len(cons)) for shape, op, cons in ops if shape == "M" and len(cons) > 1]
        for dm in range(second[0][1] if second else 1):
            ok = False
            for reg in (1, 5):
                for num in (0, 4, 100):
                    vals = {"off": 16, "P": 0x1000}
                    for shape, op, cons in ops:
                        nm = op._name
                        vals.update({nm: reg if shape == "R" else num, nm + "_r": reg + 1, nm + "_i": num, nm + "_m": dm})
                    try:
                        if h.encode(vals)[0] == "ok":
                            ok = True
                            break
                    except Exception:       # noqa
                        pass
                if ok:
                    break
            n += 1
            if not ok:
                dead.append(f"{h.name} second-operand-constructor={dm}")
    return n, dead


def register_names():
    """the register ppci prints for number n of a register class is the manual's Dn / An"""
    from ppci.arch.m68k import registers as R
    for cls, letter in ((R.DataRegister, "D"), (R.AddressRegister, "A")):
        for r in cls.registers:
            assert r.name.upper() == f"{letter}{r.num}" and str(r).upper() == f"{letter}{r.num}", (r.name, r.num)
            assert cls.from_num(r.num) is r
    return len(R.DataRegister.registers) + len(R.AddressRegister.registers)


def mk_m68k_enc(**kw):
    return M68kEncodingHarness(**kw)


def mk_m68k_selftest():
    """concrete validation of ref/m68kdec.py + evidence lists (claimed / unclaimed classes, always-rejected)"""
    t0 = time.time()
    res = dict(harness="m68k.selftest", violations=[], known_hits=[], inconclusive=[], errors=[], funcs=[],
               samples=[], stats=dict(paths=1, decisions=0, feas_queries=0, cut_paths=0, solver_s=0.0),
               obligations=1, discharged=0, validated=0, reached=1, twin_violated=1, exhaustive=True, nontrivial=1)
    try:
        st = m68kdec.selftest()
        st["register_names_checked"] = register_names()
        claimed, unclaimed = discover()
        assert len(claimed) >= 100, "m68k instruction table not discovered"
        n, dead = nonvacuous(claimed)
        res["discharged"] = 1
        res["samples"] = [dict(harness="m68k.selftest", selftest=st, claimed_combinations=len(claimed),
                               claimed_classes=sorted({c[1] for c in claimed}),
                               operand_constructor_combinations=n,
                               unclaimed_classes=[list(u) for u in unclaimed], always_rejected=dead)]
    except (AssertionError, KeyError) as e:
        res["errors"].append(dict(kind="reference-selftest-failed", harness="m68k.selftest", error=repr(e)[:500]))
    res["wall_s"] = time.time() - t0
    return res


def jobs(tier, seed):
    js = [("mk_m68k_selftest", {})]
    claimed, unclaimed = discover()
    for (idx, cls, mn, con) in claimed:
        js.append(("mk_m68k_enc", dict(idx=idx, cls=cls, mn=mn, con=con, wide=int(tier == "thorough"))))
    return js


BOUNDS_NOTE = ("every instruction class of ppci.arch.m68k.instructions registered in the ISA object with syntax + tokens (42 classes: "
               "add/and/cmp/or/sub/eor/neg/not/move b,w,l; movea w,l; moveq; lea; jsr; nop; rts; bra, bsr, bne, beq, bge, blt, bgt, "
               "ble) x every operand constructor its <ea> operand accepts (DataRegEa, AddressRegEa, AddressEa, AddressOffsetEa, "
               "ImmediateEa [ImmediateLongEa], PcRelEa, AbsNearEa; one job each) x every destination constructor of move "
               "(DataRegDstEa, AddressDstEa, AddressOffsetDstEa; symbolic selector); every register number ppci's register file has "
               "(D0..D7, A0..A6), all operands symbolic at once; displacement d16, absolute short address, immediate and moveq "
               "data -2**34 .. 2**34 (thorough: 2**48), obligation for the documented range (d16 and (xxx).W -32768 .. 32767; "
               "#imm -2**(n-1) .. 2**n-1 for operation size n; moveq -128 .. 127); PC-relative label distance -2**17 .. 2**17 "
               "(thorough 2**20) through the real rel16 relocation, branch distance -2**33 .. 2**33 (thorough 2**36) through the "
               "real branch_rel32 relocation, at every even instruction address below 2**32 (target address within 0 .. 2**32-1)")
OUTSIDE_NOTE = [
    "m68k: data directives (db, dw, dd, dq, ds, .byte, .zero ...), every instruction and addressing mode ppci has no class / "
    "constructor for ((An)+, -(An), indexed, (xxx).L, adda, addq, shifts, Bcc with 8/16-bit displacement ...), register A7/SP "
    "(not in ppci's register file)",
    "m68k: displacements / absolute short addresses outside -32768 .. 32767 (an unsigned spelling 32768 .. 65535 of (xxx).W or "
    "d16 is accepted by the 16-bit field and means a sign-extended, i.e. different, address), immediates outside the operation "
    "size, moveq data outside -128 .. 127, label distances the 16-bit / 32-bit displacement cannot hold: whether encode() / the "
    "relocation must reject them is C10",
    "m68k: operand combinations that encode() or the constructor REJECTS although the manual has them (the obligation is "
    "'raised or decodes right'; per (class, constructor) pair one accepted plain operand choice is checked concretely and "
    "pairs that never encode are listed in the evidence as always_rejected)",
    "m68k: the assembler's text path (string -> instruction object), e.g. that an operand spelled like a register can also "
    "parse as a label of that name",
]
ASSUMPTIONS_NOTE = [
    "ref/m68kdec.py states the M68000 Family Programmer's Reference Manual correctly for opcode-map lines 0001-0100, 0110-1001, "
    "1011-1101 (self-tested per run: the declarative table -- bit pattern + allowed addressing modes per instruction -- is a "
    "function of the operation word and the procedural decode() follows it for all 65536 operation words, per-instruction word "
    "counts follow from the addressing-category sizes, 73 known toolchain encodings, 56 words the manual gives to other "
    "instructions or leaves undefined, truncated extension words, the 11 tests / 18 instructions of the repo's test_m68k.py "
    "incl. label resolution); lines 0000, 0101, 1110, 1010, 1111 are not decoded (ppci has no class there)",
    "m68k branches: a Bcc/BRA/BSR operation word with 8-bit displacement $FF is the 32-bit-displacement form of the MC68020 and "
    "later (on an MC68000/68010 it is a byte displacement of -1); ppci's classes emit only this form",
    "m68k spellings: ppci's `addb/addw/addl`, `moveal`, `negb` ... are the GNU (MIT syntax) names of the manual's ADD.B/.W/.L, "
    "MOVEA.L, NEG.B; operands are printed source first, destination last as in the manual; `(d, An)`, `(x).w`, `#x`, a bare "
    "label = (d16,PC); an immediate is compared as a quantity of the operation size (signed or unsigned spelling of one bit "
    "pattern; byte: low-order byte of the extension word)",
    "m68k: the register ppci prints is Dn / An for the register object's class and number n (names of "
    "ppci.arch.m68k.registers, checked per run); what is printed is read off the real Syntax of the class and of the operand "
    "constructor plus the operand attributes after construction; the PC value of (d16,PC) is the address of the extension "
    "word, of a branch the address of the operation word + 2; any exception out of the constructor / encode() / "
    "relocation.apply() = operand combination rejected",
]
