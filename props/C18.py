"""C18  Intel HEX files round-trip and are standard-conforming.

Real code (ppci/format/hexfile.py): HexFile.add_region / check / save / load, hexfields,
HexLine.to_line / from_line, HexFileRegion.*  (+ ppci.utils.chunk.chunks).

Symbolic: every region base address (0 <= a, a + len <= 2**32), every data byte, the start address.
Concrete (enumerated shapes): number of regions (1..3), their lengths, the order of the add_region calls.
Premise (property text): regions are non-empty and pairwise non-overlapping (assumed, not forked).

Oracle: ref/ihex.py (reader + 'merged regions' written from the Intel HEX specification).
  merged-regions-denote-input     regions after the add_region calls == canonical merge of the inputs
  records-wellformed              every saved line: ':' + hex digits, RECLEN matches, checksum is zero sum
  file-structure                  known record types, field lengths, one EOF record, and it is last
  file-decodes-to-saved-regions   independent decode of the text == memory image of the saved regions
  file-start-record-matches       a start linear address record, if present, carries the start address
  roundtrip-regions               load(save(h)).regions == h.regions   (address and data, same order)
  roundtrip-start-address         load(save(h)).start_address == h.start_address
"""
import os
import itertools
from symx.harness import Harness
from symx import core, seq, hexlemma
from symx.core import sym_and, sym_or, sym_not, ite

PROPERTY = "C18"
LEVEL = "model_checking"
BOUNDS = {
    "quick": {"regions": "1..3", "region lengths": "1 region: 1,30,31,61,70; 2 regions: (1,1),(31,30),(2,61); "
                                                   "3 regions: (1,1,1),(2,1,31); every insertion order",
              "addresses": "symbolic, whole 32-bit space (address+length <= 2**32)",
              "data bytes, start address": "symbolic"},
    "thorough": {"regions": "1..3", "region lengths": "1 region: 1..70 (all) and 91,120,121; 2 regions: 12 length pairs up to 70; "
                                                      "3 regions: 7 length triples up to (31,61,2) and (70,31,2); every insertion order",
                 "addresses": "symbolic, whole 32-bit space (address+length <= 2**32)",
                 "data bytes, start address": "symbolic"},
}
OUTSIDE = ["more than 3 regions; regions longer than 121 bytes (the chunk loop is uniform: 30-byte records)",
           "loading files not produced by HexFile.save (record types 02/03, other record lengths)",
           "behaviour on overlapping regions (premise of the property); HexFile.__eq__ / merge / dump",
           "regions reaching beyond 4 GiB"]
ASSUMPTIONS = ["Intel HEX format as in Intel's Hexadecimal Object File Format Specification rev. A (ref/ihex.py)",
               "a file object is modelled by a line sink/source keeping the written text (print -> write)",
               "a HexFile without a start address is one with start_address == 0 (HexFile.__init__)"]
SHIMS_USED = ["isinstance", "bytes", "int", "struct", "hex", "format", "range"]
JOB_TIMEOUT = {"quick": 900, "thorough": 6000}   # generous: the machine is shared
M32 = 1 << 32


class Sink:
    """what print(..., file=f) needs; keeps the text (placeholders mapped back to symbolic characters)"""

    def __init__(self):
        self.cps = []

    def write(self, s):
        s = seq.resolve_str(s)
        self.cps.extend(s.cps if isinstance(s, seq.SymStr) else [ord(c) for c in s])
        return len(s)

    def flush(self):
        pass

    def lines(self, keepends=False):
        out, cur = [], []
        for c in self.cps:
            if type(c) is int and c == 10:
                out.append(seq.SymStr.make(cur + ([10] if keepends else [])))
                cur = []
            else:
                cur.append(c)
        if cur:
            out.append(seq.SymStr.make(cur))
        return out


class Source:
    """a text file opened for reading: iteration yields lines with their terminator"""

    def __init__(self, lines):
        self._lines = [l + "\n" for l in lines]

    def __iter__(self):
        return iter(self._lines)


def regions_eq(xs, ys):
    if xs is None or ys is None or len(xs) != len(ys):
        return False
    conds = []
    for (a, d), (b, e) in zip(xs, ys):
        d, e = list(d), list(e)
        if len(d) != len(e):
            return False
        conds.append(a == b)
        conds.extend(p == q for p, q in zip(d, e))
    return sym_and(*conds) if conds else True


class RoundTrip(Harness):
    shim_modules = ("ppci.format.hexfile",)
    W = 64
    max_paths = 20000
    max_decisions = 6000
    timeout_ms = 60000
    prove_timeout_ms = 120000

    def __init__(self, lens, order):
        self.lens = tuple(lens)
        self.order = tuple(order)
        self.name = f"hexfile.roundtrip[lens={','.join(map(str, lens))};order={''.join(map(str, order))}]"
        self.params = dict(lens=list(lens), order=list(order))

    def inputs(self, mk):
        if mk.symbolic:
            seq.placeholders_begin()
            core.INVERT_AS_NEG = True     # ~x encoded as -x-1: checksum identities cancel syntactically
        a = [mk.int(f"a{i}", 0, M32 - n) for i, n in enumerate(self.lens)]
        d = [mk.bytes(f"d{i}", n) for i, n in enumerate(self.lens)]
        start = mk.int("start", 0, M32 - 1)
        k = len(a)
        for i in range(k):
            for j in range(i + 1, k):
                mk.assume(sym_or(a[i] + self.lens[i] <= a[j], a[j] + self.lens[j] <= a[i]))
        return dict(a=a, d=d, start=start)

    def run(self, i):
        from ppci.format.hexfile import HexFile
        res = dict(stage="add")
        try:
            hf = HexFile()
            for k in self.order:
                hf.add_region(i["a"][k], i["d"][k])
            res["regions"] = [(r.address, r.data) for r in hf.regions]
            res["stage"] = "save"
            hf.start_address = i["start"]
            f = Sink()
            hf.save(f)
            res["lines"] = f.lines()
            res["stage"] = "load"
            hf2 = HexFile.load(Source(res["lines"]))
            res["loaded"] = [(r.address, r.data) for r in hf2.regions]
            res["loaded_start"] = hf2.start_address
            res["stage"] = "done"
        except Exception as e:    # noqa: engine control flow is BaseException
            res["exc"] = type(e).__name__
        return res

    def post(self, i, out):
        from ref import ihex
        if not out.ok:
            return {"no-exception": False}
        v = out.value
        res = {}
        if v["stage"] == "add":
            return {"add-accepts-disjoint-regions": False}
        expected, ov = ihex.normalize([(i["a"][k], list(i["d"][k])) for k in range(len(self.lens))])
        regs = v["regions"]
        res["merged-regions-denote-input"] = (not ov) and regions_eq(regs, expected)
        if v["stage"] == "save":
            res["save-succeeds"] = False
            return res
        dec = ihex.decode(v["lines"], hexlemma.canon)
        res["records-wellformed"] = dec["records_ok"]
        res["file-structure"] = dec["structure_ok"]
        image, ov1 = ihex.normalize(dec["segments"])
        saved, ov2 = ihex.normalize(regs)
        res["file-decodes-to-saved-regions"] = (not ov1) and (not ov2) and regions_eq(image, saved)
        res["file-start-record-matches"] = True if dec["start_linear"] is None else dec["start_linear"] == i["start"]
        if v["stage"] == "load":
            res["load-accepts-saved-file"] = False
            return res
        res["roundtrip-regions"] = regions_eq(v["loaded"], regs)
        res["roundtrip-start-address"] = v["loaded_start"] == i["start"]
        return res


def mk_rt(lens, order):
    return RoundTrip(lens, order)


def _shapes(tier):
    if tier == "quick":
        one = [1, 30, 31, 61, 70]
        two = [(1, 1), (31, 30), (2, 61)]
        three = [(1, 1, 1), (2, 1, 31)]
    else:
        one = list(range(1, 71)) + [91, 120, 121]
        two = [(1, 1), (1, 2), (30, 30), (31, 30), (29, 31), (2, 61), (60, 1), (61, 61), (70, 1), (70, 31), (33, 70), (70, 70)]
        three = [(1, 1, 1), (1, 2, 3), (2, 1, 31), (30, 30, 30), (31, 1, 30), (31, 61, 2), (70, 31, 2)]
    return [(n,) for n in one] + two + three


def jobs(tier, seed):
    from ref import ihex
    ihex.selftest()          # the reference reader agrees with the published example records
    js = []
    for lens in _shapes(tier):
        for order in itertools.permutations(range(len(lens))):
            js.append(("mk_rt", dict(lens=list(lens), order=list(order))))
    # big jobs first (pool scheduling)
    js.sort(key=lambda j: -sum(j[1]["lens"]) * len(j[1]["lens"]))
    only = os.environ.get("VERIF_ONLY")
    if only:
        js = [j for j in js if only in repr(j)]
    return js
