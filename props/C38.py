"""C38  Constant folding agrees with run-time arithmetic.

Real code: ppci.opt.constantfolding.ConstantFolder (run / on_block / is_const / is_defined /
eval_const, the operator table `ops`, `correct`, `cast`, `remainder`, `enhance`) executed on small REAL ir.Module objects whose
ir.Const instructions carry symbolic values ranging over the whole integer type; additionally
ppci.opt.cjmp.CJumpPass (compile-time evaluation of a comparison of two constants) and
ppci.opt.transform.RemoveAddZeroPass (x+0, 0+x, x*1) on the same kind of modules.

The harness builds the IR for an expression *shape* (concrete: operators, types, tree form, block
layout), runs the real pass, reads the resulting IR back as a plain tree and evaluates it with the
reference semantics of ref/irarith.py.  Obligations per explored path of the pass:

  value-agrees         whenever the original expression is defined (no division by zero, shift
                       count inside [0, width)), the IR after the pass is defined and denotes the
                       same value - for all constant operands and, for expressions with a
                       run-time operand y (chains), for ALL values of y as well.
                       For all-constant trees the obligation is split per node of the source tree
                       (labels value-agrees@<i>:<node>): "what the pass put in place of the node
                       denotes the node's operator applied to what it put in place of the
                       operands"; by induction over the tree the conjunction is the end-to-end
                       statement, and every single obligation shares its operand terms with the
                       pass's own computation, which keeps multiplier/divider reasoning out of
                       the solver.
  consts-in-range      every ir.Const present after the pass lies inside its type's range
  folds-when-defined   an operator node with constant operands that the pass lists in
                       ConstantFolder.ops (or a cast of a constant) is left unfolded only for operand
                       values for which it is undefined (remainder by zero, shift count outside
                       [0, width)): the compile-time evaluation exists wherever the property speaks
                       about it (also the guard against a vacuous check)
  pass-does-not-crash  no exception escapes the pass for ANY constant values, undefined operations
                       included (they are to be left in the IR for run time); a CompilerError is
                       tolerated only where the source expression is undefined
"""
import os
from symx.harness import Harness
from symx import core
from symx.core import sym_and, sym_or, sym_not, implies, ite
from ref import irarith as R

PROPERTY = "C38"
LEVEL = "model_checking"

TYPES = {"i8": (8, True), "i16": (16, True), "i32": (32, True), "i64": (64, True),
         "u8": (8, False), "u16": (16, False), "u32": (32, False), "u64": (64, False)}
TYNAMES = ["i8", "i16", "i32", "i64", "u8", "u16", "u32", "u64"]
FOLD_OPS = ["+", "-", "*", "%", "<<", ">>"]          # what ConstantFolder.ops lists at the pinned commit
ALL_OPS = list(R.BINOPS)
SHIFTY = ("<<", ">>", "rol", "ror")
IFCONVERTED = ("correct", "remainder")

BOUNDS = {
    "quick": {"types": TYNAMES, "constant operands": "every value of the type (symbolic)",
              "shift/rotate count operand": "[max(type min, -width), min(type max, width+7)] (counts outside [0,width) are undefined anyway)",
              "run-time operand y of chains": "every value of the type (symbolic)",
              "shapes": "c op c (12 operators x 8 types); cast(c) for all 64 type pairs; (y op1 c) op2 c for op1,op2 in +,- "
                        "incl. constant sub-expressions, swapped operands and 3-link chains; depth-2 constant trees "
                        "(c op1 c) op2 c over all 36 pairs of the 6 folded operators on i8,i32 (one block) and u16,u64 (two blocks, "
                        "evaluation through the recursive eval_const); "
                        "op(cast c, c), cast(c op c); CJump of two constants (6 conditions x 8 types); x+0, 0+x, x*1"},
    "thorough": {"types": TYNAMES, "constant operands": "every value of the type (symbolic)",
                 "shift/rotate count operand": "[max(type min, -width), min(type max, width+7)]",
                 "run-time operand y of chains": "every value of the type (symbolic)",
                 "shapes": "as quick, with depth-2 constant trees over all 8 types in both block layouts, right-nested trees "
                           "c op2 (c op1 c) (op2 other than <<), op(cast c, c) / cast(c op c) / cast(cast c) over all type pairs, chains with "
                           "every combination of constant sub-expression forms"},
}
OUTSIDE = ["floating-point and pointer constants (no symbolic float in the engine)",
           "shift counts beyond width+7 or below -width (undefined operations; Python big-integer shifts of that size are not modelled)",
           "expression trees deeper than 2 operators / chains longer than 3 links; a left-shift count that is itself a computed constant expression",
           "what an undefined operation left in the IR does at run time (only: it is not folded, nothing crashes, no out-of-range constant appears)"]
ASSUMPTIONS = ["IR integer semantics as written in /verif/ref/irarith.py (two's complement wrap-around; / and % truncate toward zero "
               "as in ppci's own IR interpreter ir2py (idiv/irem), the C front end's lowering and the x86-64/RISC-V/wasm back ends; "
               "shift count outside [0,width), division by zero: undefined = premise)",
               "operands of the source expression lie inside the range of their IR type",
               "only if the analysed code calls math.fmod on constants (the pinned code does not): int->double conversion is "
               "round-to-nearest-even to 53 significant bits and C fmod is exact (IEEE 754), modelled in props/C38.py:_SymMath, "
               "validated against the real math.fmod on every explored path",
               "the helpers `correct` and `remainder` of ppci.opt.constantfolding are executed in if-converted form (symx.ifconv on "
               "their current source: the conditional expression on the sign of the computed value becomes an if-then-else term) "
               "during symbolic exploration; every explored path is re-run concretely on the untouched functions and must agree",
               "the reading back of the IR after the pass (props/C38.py describe/evaluate) follows the operand slots "
               "Binop.a/.b, Cast.src, Const.value, Return.result, Jump.target"]
SHIMS_USED = ["isinstance", "int", "bool"]
JOB_TIMEOUT = {"quick": 280, "thorough": 900}
TASKS_PER_CHILD = 40


# ---------------------------------------------------------------------------------------------
# expression shapes (JSON-able):  ["c", ty, name] | ["y", ty, name] | ["bin", op, ty, e1, e2] | ["cast", ty, e]
def C(ty, name):
    return ["c", ty, name]


def Y(ty, name="y"):
    return ["y", ty, name]


def B(op, ty, a, b):
    return ["bin", op, ty, a, b]


def K(ty, e):
    return ["cast", ty, e]


def shape_ty(e):
    return e[2] if e[0] == "bin" else e[1]


def shape_str(e):
    k = e[0]
    if k == "c":
        return f"{e[2]}:{e[1]}"
    if k == "y":
        return f"{e[2]}:{e[1]}"
    if k == "bin":
        return f"({shape_str(e[3])} {e[1]} {shape_str(e[4])})"
    return f"{e[1]}({shape_str(e[2])})"


def shape_leaves(e, out=None, parent=None):
    """[(kind, ty, name, role)]; role = 'count' for the right operand of a shift/rotate"""
    if out is None:
        out = []
    k = e[0]
    if k in ("c", "y"):
        out.append((k, e[1], e[2], parent))
    elif k == "bin":
        shape_leaves(e[3], out, None)
        shape_leaves(e[4], out, "count" if e[1] in SHIFTY else None)
    else:
        shape_leaves(e[2], out, None)
    return out


def shape_nodes(e, out=None):
    """nodes of a parameter-free shape in post order (same order as ExprHarness.build creates them)"""
    if out is None:
        out = []
    if e[0] == "bin":
        shape_nodes(e[3], out)
        shape_nodes(e[4], out)
    elif e[0] == "cast":
        shape_nodes(e[2], out)
    out.append(e)
    return out


def shape_ops(e):
    if e[0] == "bin":
        return [e[1]] + shape_ops(e[3]) + shape_ops(e[4])
    if e[0] == "cast":
        return shape_ops(e[2])
    return []


def shape_has_param(e):
    return any(k == "y" for k, _, _, _ in shape_leaves(e))


def eval_shape(e, env):
    """reference value of the SOURCE expression: (defined, value)"""
    k = e[0]
    if k in ("c", "y"):
        return True, env[e[2]]
    if k == "bin":
        bits, signed = TYPES[e[2]]
        da, va = eval_shape(e[3], env)
        db, vb = eval_shape(e[4], env)
        d, v = R.binop(e[1], va, vb, bits, signed)
        return sym_and(da, db, d), v
    bits, signed = TYPES[e[1]]
    d, v = eval_shape(e[2], env)
    return d, R.cast(v, bits, signed)


def eval_desc(t, env):
    """reference value of the IR read back AFTER the pass: (defined, value)"""
    k = t[0]
    if k == "const":
        return True, t[2]
    if k == "param":
        return True, env[t[2]]
    if k == "binop":
        bits, signed = TYPES[t[2]]
        da, va = eval_desc(t[3], env)
        db, vb = eval_desc(t[4], env)
        d, v = R.binop(t[1], va, vb, bits, signed)
        return sym_and(da, db, d), v
    if k == "cast":
        bits, signed = TYPES[t[1]]
        d, v = eval_desc(t[2], env)
        return d, R.cast(v, bits, signed)
    raise core.EngineError(f"unexpected IR node after the pass: {t[0]}")


def describe(v, ir):
    """plain-data tree of a real IR value (operand slots of the real objects)"""
    if isinstance(v, ir.Const):
        return ["const", v.ty.name, v.value]
    if isinstance(v, ir.Parameter):
        return ["param", v.ty.name, v.name]
    if isinstance(v, ir.Binop):
        return ["binop", v.operation, v.ty.name, describe(v.a, ir), describe(v.b, ir)]
    if isinstance(v, ir.Cast):
        return ["cast", v.ty.name, describe(v.src, ir)]
    return ["other", type(v).__name__]


def leaf_range(ty, role):
    bits, signed = TYPES[ty]
    lo, hi = R.type_range(bits, signed)
    if role == "count":
        lo, hi = max(lo, -bits), min(hi, bits + 7)
    return lo, hi


def width_for(e):
    """engine width: every intermediate Python integer of pass and oracle must fit"""
    bits = max(TYPES[t][0] for t in _shape_types(e))
    return 2 * bits + 24


def _shape_types(e):
    k = e[0]
    if k in ("c", "y"):
        return [e[1]]
    if k == "bin":
        return [e[2]] + _shape_types(e[3]) + _shape_types(e[4])
    return [e[1]] + _shape_types(e[2])


# ---------------------------------------------------------------------------------------------
class _SymMath:
    """Stand-in for the `math` module inside the analysed ppci modules (only matters if the code under
    analysis calls math.fmod on constant operands; the pinned ConstantFolder does not).  For symbolic
    integers: exact model of the int -> IEEE-754 double conversion (round to nearest, ties to even,
    53 significant bits; |x| < 2**1023 so no overflow) followed by C fmod, which is exact: the
    result is the truncating remainder of the two rounded values, an integral double, represented
    here by the integer it equals.  Everything else is delegated to the real module."""

    def __getattr__(self, name):
        import math
        return getattr(math, name)

    @staticmethod
    def to_double(x):
        if type(x) is not core.SymInt:
            return x
        m = abs(x)
        top = max(abs(x.lo), abs(x.hi)).bit_length()
        r = m
        for k in range(top - 53, 0, -1):        # m has exactly 53+k significant bits
            q = m >> k
            rem = m & ((1 << k) - 1)
            half = 1 << (k - 1)
            up = sym_or(rem > half, sym_and(rem == half, (q & 1) == 1))
            r = ite(sym_and(m >= (1 << (52 + k)), m < (1 << (53 + k))), (q + ite(up, 1, 0)) << k, r)
        return ite(x < 0, -r, r)

    def fmod(self, x, y):
        import math
        if not core.any_sym(x, y):
            return math.fmod(x, y)
        xf, yf = self.to_double(x), self.to_double(y)
        if yf == 0:
            raise ValueError("math domain error")
        r = abs(xf) % abs(yf)
        return ite(xf < 0, -r, r)


class ExprHarness(Harness):
    """one expression shape through one real pass"""
    shim_modules = ("ppci.ir", "ppci.opt.constantfolding", "ppci.opt.transform")
    max_paths = 4000
    prove_timeout_ms = 60000
    timeout_ms = 60000

    def __init__(self, expr, layout="one", pas="fold"):
        self.expr = expr
        self.layout = layout
        self.pas = pas
        self.name = f"{pas}[{layout}] {shape_str(expr)}"
        self.params = dict(expr=expr, layout=layout, pas=pas)
        self.W = width_for(expr)
        self.leaves = shape_leaves(expr)
        self.nodes = shape_nodes(expr)

    def modules(self):
        mods = Harness.modules(self)
        # the two pure helpers whose only branch is a sign test on the computed value are if-converted
        # from their CURRENT source (conditional expression -> if-then-else term): no path split then
        # depends on a product or a remainder, path conditions stay trivial for the solver.  The
        # concrete validation of every path runs the untouched functions.
        self._conv = {}
        if self.pas == "fold":
            from symx import ifconv
            import ppci.opt.constantfolding as cf
            for fn in IFCONVERTED:
                f = getattr(cf, fn, None)
                if f is not None:
                    try:
                        g = ifconv.convert(f, extended=True)
                        if getattr(g, "__symx_converted__", 0):
                            self._conv[fn] = g
                    except Exception:
                        pass
        return mods

    def shim_extra(self):
        d = {"math": _SymMath()}
        d.update(self._conv)
        return d

    def inputs(self, mk):
        d = {}
        for kind, ty, name, role in self.leaves:
            if name not in d:
                lo, hi = leaf_range(ty, role)
                d[name] = mk.int(name, lo, hi)
        return d

    # -- build real IR ------------------------------------------------------------------------
    def build(self, inp):
        from ppci import ir
        tymap = {t: getattr(ir, t) for t in TYNAMES}
        m = ir.Module("m")
        f = ir.Function("f", ir.Binding.GLOBAL, tymap[shape_ty(self.expr)])
        m.add_function(f)
        params = {}
        order = []          # instructions in post order
        nodes = []          # (ir object, user object or None for the root, operand slot of the user), post order

        def mkv(e, parent=None):
            k = e[0]
            if k == "y":
                if e[2] not in params:
                    p = ir.Parameter(e[2], tymap[e[1]])
                    f.add_parameter(p)
                    params[e[2]] = p
                return params[e[2]]
            if k == "c":
                v = ir.Const(inp[e[2]], e[2], tymap[e[1]])
            elif k == "bin":
                a = mkv(e[3])
                ia = len(nodes) - 1
                b = mkv(e[4])
                ib = len(nodes) - 1
                v = ir.Binop(a, e[1], b, "t%d" % len(order), tymap[e[2]])
                if e[3][0] != "y":
                    nodes[ia] = (nodes[ia][0], v, "a")
                if e[4][0] != "y":
                    nodes[ib] = (nodes[ib][0], v, "b")
            else:
                s = mkv(e[2])
                v = ir.Cast(s, "t%d" % len(order), tymap[e[1]])
                if e[2][0] != "y":
                    nodes[-1] = (nodes[-1][0], v, "src")
            order.append(v)
            nodes.append((v, None, None))
            return v

        root = mkv(self.expr)
        ret = ir.Return(root)
        if self.layout == "one" or len(order) < 2:
            blk = ir.Block("entry")
            f.add_block(blk)
            f.entry = blk
            for i in order:
                blk.add_instruction(i)
            blk.add_instruction(ret)
        else:
            # two blocks, the USING block is listed (and therefore visited by the pass) first, so the
            # root is evaluated through is_const/eval_const recursion over not-yet-folded operands
            b_use = ir.Block("use")
            b_def = ir.Block("entry")
            f.add_block(b_use)
            f.add_block(b_def)
            f.entry = b_def
            for i in order[:-1]:
                b_def.add_instruction(i)
            b_def.add_instruction(ir.Jump(b_use))
            b_use.add_instruction(order[-1])
            b_use.add_instruction(ret)
        return ir, m, f, ret, nodes

    def the_pass(self):
        if self.pas == "fold":
            from ppci.opt.constantfolding import ConstantFolder
            return ConstantFolder()
        if self.pas == "addzero":
            from ppci.opt.transform import RemoveAddZeroPass
            return RemoveAddZeroPass()
        raise ValueError(self.pas)

    def run(self, inp):
        ir, m, f, ret, nodes = self.build(inp)
        p = self.the_pass()
        p.run(m)
        consts = []
        for blk in f.blocks:
            for ins in blk:
                if isinstance(ins, ir.Const) and ins.ty.name in TYPES:
                    consts.append([ins.ty.name, ins.value])
        handled = sorted(p.ops) if self.pas == "fold" else []
        # per node of the source tree (post order): what its user's operand slot holds now (= what the
        # node was replaced by) and, for operator nodes, what its own operand slots hold now
        steps = []
        for obj, parent, slot in nodes:
            repl = describe(ret.result if parent is None else getattr(parent, slot), ir)
            if isinstance(obj, ir.Binop):
                steps.append([repl, describe(obj.a, ir), describe(obj.b, ir)])
            elif isinstance(obj, ir.Cast):
                steps.append([repl, describe(obj.src, ir)])
            else:
                steps.append([repl])
        return dict(after=describe(ret.result, ir), consts=consts, handled=handled, steps=steps)

    def post(self, inp, out):
        d0, v0 = eval_shape(self.expr, inp)
        if not out.ok:
            if out.exc == "CompilerError":
                # a diagnosed refusal is tolerated only where the source expression is undefined
                return {"compiler-error-only-if-undefined": sym_not(d0)}
            # the pass must not crash, whatever the constants are (zero divisor, negative or
            # oversized shift count included: such operations are to be left to run time)
            return {"pass-does-not-crash": False}
        o = out.value
        after = o["after"]
        has_param = shape_has_param(self.expr)
        rng = [R.in_range(v, *TYPES[t]) for t, v in o["consts"]]
        posts = {"consts-in-range": sym_and(*rng) if rng else True}
        if has_param or len(o["steps"]) != len(self.nodes):
            # end to end: the IR after the pass denotes the value of the source expression (for all y)
            d1, v1 = eval_desc(after, inp)
            posts["value-agrees"] = implies(d0, sym_and(d1, v1 == v0))
            return posts
        # all-constant trees: one obligation per node of the source tree, "what replaced the node denotes
        # the node's operator applied to what replaced its operands".  By induction over the tree the
        # conjunction is exactly: the IR after the pass denotes the value of the source expression
        # whenever that is defined (the replacement of the root is what the function returns).
        for i, (e, st) in enumerate(zip(self.nodes, o["steps"])):
            dr, vr = eval_desc(st[0], inp)
            if e[0] == "c":
                d, v = True, inp[e[2]]
            elif e[0] == "bin":
                da, va = eval_desc(st[1], inp)
                db, vb = eval_desc(st[2], inp)
                d, v = R.binop(e[1], va, vb, *TYPES[e[2]])
                # (operands in range: what consts-in-range demands of the constants that replaced them)
                d = sym_and(da, db, d, R.in_range(va, *TYPES[e[2]]), R.in_range(vb, *TYPES[e[2]]))
            else:
                d, va = eval_desc(st[1], inp)
                d = sym_and(d, R.in_range(va, *TYPES[shape_ty(e[2])]))
                v = R.cast(va, *TYPES[e[1]])
            tag = f"{i}:{e[0]}{e[1] if e[0] == 'bin' else ''}"
            posts[f"value-agrees@{tag}"] = implies(d, sym_and(dr, vr == v))
            # a node whose operands are constants now, of an operator the pass lists in its table (or a
            # cast), may stay unfolded only for operand values for which it is undefined (left to run
            # time).  Otherwise the pass would not evaluate anything and the check would be vacuous.
            if (self.pas == "fold" and e[0] != "c" and st[0][0] != "const"
                    and all(x[0] == "const" for x in st[1:]) and (e[0] == "cast" or e[1] in o["handled"])):
                posts[f"folds-when-defined@{tag}"] = sym_not(d)
        return posts


class CJumpHarness(Harness):
    """CJumpPass: `if c0 cond c1` with two constants becomes an unconditional jump to the right block"""
    shim_modules = ("ppci.ir", "ppci.opt.cjmp")

    def __init__(self, ty, cond):
        self.ty = ty
        self.cond = cond
        self.name = f"cjump {ty} c0 {cond} c1"
        self.params = dict(ty=ty, cond=cond)
        self.W = TYPES[ty][0] + 24

    def inputs(self, mk):
        lo, hi = R.type_range(*TYPES[self.ty])
        return dict(c0=mk.int("c0", lo, hi), c1=mk.int("c1", lo, hi))

    def run(self, inp):
        from ppci import ir
        from ppci.opt.cjmp import CJumpPass
        ty = getattr(ir, self.ty)
        m = ir.Module("m")
        f = ir.Procedure("f", ir.Binding.GLOBAL)
        m.add_function(f)
        entry, yes, no = ir.Block("entry"), ir.Block("yes"), ir.Block("no")
        for b in (entry, yes, no):
            f.add_block(b)
        f.entry = entry
        c0 = ir.Const(inp["c0"], "c0", ty)
        c1 = ir.Const(inp["c1"], "c1", ty)
        entry.add_instruction(c0)
        entry.add_instruction(c1)
        entry.add_instruction(ir.CJump(c0, self.cond, c1, yes, no))
        yes.add_instruction(ir.Exit())
        no.add_instruction(ir.Exit())
        CJumpPass().run(m)
        last = entry.last_instruction
        if isinstance(last, ir.Jump):
            return "yes" if last.target is yes else "no" if last.target is no else "other"
        return "not-folded"

    def post(self, inp, out):
        if not out.ok:
            return {"no-exception": False}
        exp = R.compare(self.cond, inp["c0"], inp["c1"])
        if out.value == "not-folded":
            raise core.EngineError("CJumpPass did not fold a comparison of two constants (vacuous)")
        if out.value == "yes":
            return {"jumps-to-the-run-time-target": exp}
        if out.value == "no":
            return {"jumps-to-the-run-time-target": sym_not(exp)}
        return {"jumps-to-the-run-time-target": False}


def mk_expr(expr, layout="one", pas="fold"):
    return ExprHarness(expr, layout, pas)


def mk_cjump(ty, cond):
    return CJumpHarness(ty, cond)


# ---------------------------------------------------------------------------------------------
def _other_ty(ty, k=1):
    """a deterministic 'different' integer type (other width AND other signedness for k=1)"""
    i = TYNAMES.index(ty)
    return TYNAMES[(i + 4 + k) % 8] if k else ty


def jobs(tier, seed):
    js = []

    def add(e, layout="one", pas="fold"):
        js.append(("mk_expr", dict(expr=e, layout=layout, pas=pas)))

    thorough = tier != "quick"
    # 1. c0 op c1: every IR operator (folded or not) x every integer type
    for ty in TYNAMES:
        for op in ALL_OPS:
            add(B(op, ty, C(ty, "c0"), C(ty, "c1")))
    # 2. casts of constants between all integer type pairs
    for s in TYNAMES:
        for d in TYNAMES:
            add(K(d, C(s, "c0")))
    # 3. chains with a run-time operand y
    for ty in TYNAMES:
        o = _other_ty(ty)
        for op1 in "+-":
            for op2 in "+-":
                add(B(op2, ty, B(op1, ty, Y(ty), C(ty, "c0")), C(ty, "c1")))
        for op in "+-":
            c_cast = K(ty, C(o, "c0"))
            c_bin = B("*", ty, C(ty, "c1"), C(ty, "c2"))
            forms = [(c_cast, C(ty, "c1")), (C(ty, "c0"), c_bin)]
            if thorough:
                forms += [(c_cast, c_bin), (c_bin, K(ty, C(o, "c0"))),
                          (B("-", ty, C(ty, "c0"), C(ty, "c3")), C(ty, "c1"))]
            for f1, f2 in forms:
                add(B(op, ty, B(op, ty, Y(ty), f1), f2))
            # 3-link chain
            add(B(op, ty, B(op, ty, B(op, ty, Y(ty), C(ty, "c0")), C(ty, "c1")), C(ty, "c2")))
            # constant on the left / right-nested: not rewritten by the pass, must stay equivalent
            add(B(op, ty, B(op, ty, C(ty, "c0"), Y(ty)), C(ty, "c1")))
            add(B(op, ty, C(ty, "c1"), B(op, ty, Y(ty), C(ty, "c0"))))
        add(B("*", ty, B("*", ty, Y(ty), C(ty, "c0")), C(ty, "c1")))
        # two run-time operands
        add(B("+", ty, B("+", ty, Y(ty, "y"), C(ty, "c0")), Y(ty, "z")))
    # 4. depth-2 constant trees over the folded operators
    if thorough:
        plan = [(ty, lay) for ty in TYNAMES for lay in ("one", "two")]
    else:
        plan = [("i8", "one"), ("i32", "one"), ("u16", "two"), ("u64", "two")]
    for ty, lay in plan:
        for op1 in FOLD_OPS:
            for op2 in FOLD_OPS:
                add(B(op2, ty, B(op1, ty, C(ty, "c0"), C(ty, "c1")), C(ty, "c2")), lay)
                if thorough and lay == "one" and op2 != "<<":
                    # (a computed left-shift count ranges over the whole type: 2**count is outside any engine width)
                    add(B(op2, ty, C(ty, "c2"), B(op1, ty, C(ty, "c0"), C(ty, "c1"))), lay)
    # 5. casts mixed with operators
    for ty in TYNAMES:
        others = [t for t in TYNAMES if t != ty] if thorough else [_other_ty(ty), _other_ty(ty, 2)]
        for o in others:
            for op in (FOLD_OPS if thorough else ["+", "%", ">>"]):
                add(B(op, ty, K(ty, C(o, "c0")), C(ty, "c1")), "two" if op == "%" else "one")
                add(K(o, B(op, ty, C(ty, "c0"), C(ty, "c1"))), "two" if op == "+" else "one")
            add(K(ty, K(o, C(ty, "c0"))))
            if thorough:
                for o2 in TYNAMES:
                    add(K(o2, K(o, C(ty, "c0"))), "two")
    # 6. the neighbouring compile-time evaluators: CJumpPass, RemoveAddZeroPass
    for ty in TYNAMES:
        for cond in R.CONDS:
            js.append(("mk_cjump", dict(ty=ty, cond=cond)))
        add(B("+", ty, Y(ty), C(ty, "c0")), "one", "addzero")
        add(B("+", ty, C(ty, "c0"), Y(ty)), "one", "addzero")
        add(B("*", ty, Y(ty), C(ty, "c0")), "one", "addzero")
        add(B("*", ty, C(ty, "c0"), Y(ty)), "one", "addzero")
        add(B("-", ty, Y(ty), C(ty, "c0")), "one", "addzero")
    only = os.environ.get("VERIF_ONLY")
    if only:
        js = [j for j in js if only in repr(j)]
    return js
