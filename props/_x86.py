"""Shared machinery of C08 (x86_64 integer operand-encoding layer): discovery of the encodable instruction
classes of the real x86_64 ISA object with every operand constructor they accept, the reading of ppci's printed
syntax as (mnemonic, operands), and the harness base that builds the instruction with symbolic operands, runs the
real encode() (+ the real relocation for pc-relative labels) and decodes the emitted bytes with ref/x86dec.py.

What is symbolic: every register number (real register objects of the real class, number constrained to the
numbers of that class's `registers` list = what the assembler accepts), every displacement / absolute address
(-2**31-2 .. 2**31+2), every immediate (four times the widest documented value on both sides), branch distance
and instruction address.  Enumerated (shapes): instruction class x operand constructor of its r/m operand.
"""
import importlib
from symx.harness import Harness
from symx import core
from symx.core import sym_and, sym_or, sym_not, implies, ite
from symx.seq import SymByteArray
from ref import x86dec
from ref.x86dec import NONE, RIP

ARCH = "x86_64"
MOD = "ppci.arch.x86_64.instructions"
DISP_LO, DISP_HI = -(1 << 31), (1 << 31) - 1
# input name prefix of a register number by register width (known-finding regions select by it)
RPFX = {8: "b", 16: "w", 32: "e", 64: "r"}

# ppci spelling -> manual mnemonic
ALIAS = {"jmpshort": "jmp"}
# classes of the instruction module that are outside the claim, with the reason
UNCLAIMED = {
    "Rep": "a prefix byte emitted as an instruction of its own (no instruction of the manual)",
}
# documented immediate ranges (SDM vol. 2 instruction pages): key (mnemonic, size of the register operand)
#   mov r, imm: the immediate has the operand's width -> signed and unsigned spelling of the width
#   add/and/sub/xor/cmp r64, imm32: sign-extended imm32
#   int imm8: 0..255


def imm_range(mn, regsize):
    if mn == "mov":
        return (-(1 << (regsize - 1)), (1 << regsize) - 1)
    if mn == "int":
        return (0, 255)
    if mn in ("add", "or", "adc", "sbb", "and", "sub", "xor", "cmp", "test", "imul", "push"):
        n = min(regsize, 32)
        if n == regsize:
            return (-(1 << (n - 1)), (1 << n) - 1)
        return (-(1 << (n - 1)), (1 << (n - 1)) - 1)
    return None


def mnemonic_of(cls):
    e = cls.syntax.syntax[0]
    return e if isinstance(e, str) else None


def _regsize(c):
    return c.bitsize


def shape_of(cls):
    """operand kinds of the class's syntax: [("r", bitsize) | ("i",) | ("s",) | ("rm", [constructor names])] or None"""
    from ppci.arch.registers import Register
    from ppci.arch.encoding import Operand
    out = []
    for a in cls.syntax.formal_arguments:
        c = a._cls
        if c is int:
            out.append(("i",))
        elif c is str:
            out.append(("s",))
        elif isinstance(c, tuple):
            out.append(("rm", [k.__name__ for k in c]))
        elif isinstance(c, type) and issubclass(c, Register):
            out.append(("r", c.bitsize))
        else:
            return None
    return out


def discover():
    """-> (claimed [(idx, class name, mnemonic, mode)], unclaimed [(class name, why)])
    mode = name of the operand constructor used for the class's r/m operand ("" if it has none)"""
    from ppci.api import get_arch
    arch = get_arch(ARCH)
    claimed, unclaimed = [], []
    for idx, cls in enumerate(arch.isa.instructions):
        if cls.__module__ != MOD:
            if getattr(cls, "syntax", None) and "x86_64" in cls.__module__:
                unclaimed.append((cls.__name__, "floating point module " + cls.__module__.split(".")[-1]))
            continue
        if not getattr(cls, "syntax", None):
            continue
        name = cls.__name__
        if name in UNCLAIMED:
            unclaimed.append((name, UNCLAIMED[name]))
            continue
        mn = mnemonic_of(cls)
        sh = shape_of(cls)
        if mn is None or sh is None:
            unclaimed.append((name, "syntax not understood"))
            continue
        rms = [s for s in sh if s[0] == "rm"]
        if len(rms) > 1:
            unclaimed.append((name, "two r/m operands"))
            continue
        if rms:
            for mode in rms[0][1]:
                claimed.append((idx, name, mn, mode))
        else:
            claimed.append((idx, name, mn, ""))
    return claimed, unclaimed


def le(bs):
    w = 0
    for i, b in enumerate(bs):
        w = w | (b << (8 * i))
    return w


class EncodeHarness(Harness):
    """builds cls(*symbolic operands), runs the real encode() (+ real relocation for pc-relative labels), decodes"""
    W = 72
    max_paths = 3000
    PREFIX = "x86.encode"

    def __init__(self, idx, cls, mn, mode, wide=0):
        self.idx, self.cls, self.mn, self.mode, self.wide = idx, cls, mn, mode, wide
        self.params = dict(idx=idx, cls=cls, mn=mn, mode=mode, wide=wide)
        self.name = f"{self.PREFIX}[{cls}#{idx}:{mn}{':' + mode if mode else ''}]"
        if cls == "MovImm" or wide:
            self.W = 96

    def modules(self):
        names = ["ppci.utils.bitfun", "ppci.arch.token", "ppci.arch.encoding", "ppci.arch.isa", "ppci.arch.registers",
                 "ppci.arch.x86_64.instructions", "ppci.arch.x86_64.registers"]
        return [importlib.import_module(n) for n in names]

    def the_class(self):
        from ppci.api import get_arch
        cls = get_arch(ARCH).isa.instructions[self.idx]
        assert cls.__name__ == self.cls, "instruction table changed under the job list"
        return cls

    def the_mode(self, cls):
        for a in cls.syntax.formal_arguments:
            if isinstance(a._cls, tuple):
                for k in a._cls:
                    if k.__name__ == self.mode:
                        return k
        raise AssertionError("operand constructor %s not accepted by %s" % (self.mode, cls))

    # -- inputs: one entry per leaf operand, named by its position path ("0", "1.0", "1.1" ...)
    def leaves(self):
        """[(path, kind, info)] kind: "r" (info = register class), "i" (imm), "d" (displacement / address), "s" """
        from ppci.arch.registers import Register
        cls = self.the_class()
        out = []
        for k, a in enumerate(cls.syntax.formal_arguments):
            c = a._cls
            if isinstance(c, tuple):
                con = self.the_mode(cls)
                for j, b in enumerate(con.syntax.formal_arguments):
                    cc = b._cls
                    if cc is int:
                        out.append((f"{k}_{j}", "d", None))
                    elif cc is str:
                        out.append((f"{k}_{j}", "s", None))
                    else:
                        assert issubclass(cc, Register)
                        out.append((f"{k}_{j}", "r", cc))
            elif c is int:
                out.append((f"{k}", "i", None))
            elif c is str:
                out.append((f"{k}", "s", None))
            else:
                out.append((f"{k}", "r", c))
        return out

    def label_kind(self):
        """"pcrel8" / "pcrel32" (relocation applied with a symbolic distance) | "field0" (absolute relocation,
        decided by C10/C11: only the base encoding with field 0 is compared) | None"""
        if self.cls == "ShortJump":
            return "pcrel8"
        if self.cls in ("NearJump", "Call") or self.the_class().__mro__[1].__name__ == "ConditionalJump":
            return "pcrel32"
        return "field0"

    def imm_bounds(self):
        cls = self.the_class()
        sizes = [a._cls.bitsize for a in cls.syntax.formal_arguments if isinstance(a._cls, type) and hasattr(a._cls, "bitsize")]
        rng = imm_range(self.mn, sizes[0] if sizes else 0)
        if rng is None:
            return None, (-(1 << 33), 1 << 33)
        f = 16 if self.wide else 4
        return rng, (f * rng[0] - 4, f * rng[1] + 4)

    def operand_inputs(self, mk):
        d = {}
        for path, kind, info in self.leaves():
            if kind == "r":
                nums = sorted(r.num for r in info.registers)
                nm = RPFX[info.bitsize] + path
                v = mk.int(nm, nums[0], nums[-1])
                if nums != list(range(nums[0], nums[-1] + 1)):
                    mk.assume(sym_or(*[v == n for n in nums]))
                d[nm] = v
            elif kind == "i":
                _, (lo, hi) = self.imm_bounds()
                d["i" + path] = mk.int("i" + path, lo, hi)
            elif kind == "d":
                d["d" + path] = mk.int("d" + path, DISP_LO - 2, DISP_HI + 3)
            elif kind == "s" and self.label_kind().startswith("pcrel"):
                bits = 8 if self.label_kind() == "pcrel8" else 32
                f = 16 if self.wide else 2
                d["off"] = mk.int("off", -f * (1 << (bits - 1)) - 16, f * (1 << (bits - 1)) + 16)
                d["P"] = mk.int("P", 0, (1 << 47) - 16)
                mk.assume(d["P"] + d["off"] >= 0)
                mk.assume(d["P"] + d["off"] < (1 << 47))
        # derived (not an input): number of 8-bit register operands with number 4..7 (AH CH DH BH); known-finding
        # regions refer to it
        d["hi8"] = sum([ite(sym_and(v >= 4, v <= 7), 1, 0) for k, v in d.items() if k[0] == "b"], 0)
        return d

    # -- the real code
    def build(self, i):
        """-> (instruction, printed operands)
        printed operands, read off the real syntax of the instruction (and of its operand constructor):
           ("reg", bitsize, manual register id of the register's NAME)   ("lit", text)   ("imm", value)
           ("mem", base id | NONE | RIP, index id | NONE, displacement)   ("label",)   ("memlabel",)"""
        from ppci.arch.registers import Register
        cls = self.the_class()

        def regnum(path, rc):
            return i[RPFX[rc.bitsize] + path]

        def mkreg(path, rc):
            return rc("r" + path, num=regnum(path, rc))

        def printed_reg(rc, num):
            # the NAME ppci prints for the register with this number, as the manual's id of that name
            table = {r.num: x86dec.reg_id(rc.bitsize, r.name) for r in rc.registers}
            if all(k == v for k, v in table.items()):
                return ("reg", rc.bitsize, num)
            pid = NONE
            for n, rid in table.items():
                pid = ite(num == n, rid, pid)
            return ("reg", rc.bitsize, pid)

        args, printed = [], []
        for k, a in enumerate(cls.syntax.formal_arguments):
            c = a._cls
            if isinstance(c, tuple):
                con = self.the_mode(cls)
                sub, regs, disp, lab, has_rip = [], [], 0, False, False
                for j, b in enumerate(con.syntax.formal_arguments):
                    cc, path = b._cls, f"{k}_{j}"
                    if cc is int:
                        sub.append(i["d" + path])
                        disp = i["d" + path]
                    elif cc is str:
                        sub.append("lbl")
                        lab = True
                    else:
                        sub.append(mkreg(path, cc))
                        regs.append(printed_reg(cc, regnum(path, cc)))
                args.append(con(*sub))
                lits = [e for e in con.syntax.syntax if isinstance(e, str) and e.strip() and e not in "[],"]
                if "[" not in con.syntax.syntax:
                    assert len(regs) == 1 and not lits, "register-direct operand constructor expected"
                    printed.append(regs[0])
                else:
                    assert lits in ([], ["rip"]), lits
                    assert all(r[1] == 64 for r in regs), "address registers are 64-bit registers"
                    base = RIP if lits else (regs[0][2] if regs else NONE)
                    index = regs[1][2] if len(regs) > 1 else NONE
                    assert len(regs) <= 2 and not (lits and regs)
                    printed.append(("memlabel",) if lab else ("mem", base, index, disp))
            elif c is int:
                args.append(i[f"i{k}"])
                printed.append(("imm", i[f"i{k}"]))
            elif c is str:
                args.append("lbl")
                printed.append(("label",))
            else:
                args.append(mkreg(f"{k}", c))
                printed.append(printed_reg(c, regnum(f"{k}", c)))
        # literal operands of the instruction's own syntax ("cl")
        seq, pos = [], 0
        for e in cls.syntax.syntax[1:]:
            if isinstance(e, str):
                if e.strip() and e not in (",", "*"):
                    seq.append(("lit", e))
            else:
                seq.append(printed[pos])
                pos += 1
        return cls(*args), seq

    def encode(self, i):
        """-> ("ok", [bytes], printed operands) | ("rejected", exception name)"""
        ins, printed = self.build(i)
        try:
            data = list(ins.encode())
            rels = list(ins.relocations())
            lk = self.label_kind() if any(p[0] in ("label", "memlabel") for p in printed) else None
            if lk and lk.startswith("pcrel"):
                assert len(rels) == 1, "one relocation expected for a label operand"
                r = rels[0]
                size = r.size()
                part = data[r.offset:r.offset + size]
                buf = bytearray(part) if core.ENG is None else SymByteArray(part)
                new = r.apply(i["P"] + i["off"], buf, i["P"] + r.offset)
                data = data[:r.offset] + list(new) + data[r.offset + size:]
        except Exception as e:      # noqa: any error = operand combination rejected
            return ("rejected", type(e).__name__)
        return ("ok", data, printed)

    def run_encode_decode(self, i):
        r = self.encode(i)
        if r[0] != "ok":
            return r
        _, data, printed = r
        d = x86dec.decode(data)
        return ("ok", data, printed, dict(ok=d.ok, mn=list(d.mn or ()), opsize=d.opsize, ops=[list(o) for o in d.ops],
                                          length=d.length, why=d.why))

    # -- comparison
    def premise(self, i, printed, dec):
        cs = []
        rng, _ = self.imm_bounds()
        for p in printed:
            if p[0] == "imm" and rng:
                cs.append(sym_and(p[1] >= rng[0], p[1] <= rng[1]))
            elif p[0] == "mem":
                cs.append(sym_and(p[3] >= DISP_LO, p[3] <= DISP_HI))
            elif p[0] == "label" and self.label_kind().startswith("pcrel"):
                bits = 8 if self.label_kind() == "pcrel8" else 32
                rel = i["off"] - dec["length"]
                cs.append(sym_and(rel >= -(1 << (bits - 1)), rel < (1 << (bits - 1))))
        return sym_and(*cs) if cs else True

    def matches(self, i, data, printed, dec):
        """-> dict label -> condition (without the premise)"""
        whole = bool(dec["ok"]) and dec["length"] == len(data)
        if not whole:
            return {"decodes-as-one-instruction": False, "decodes-to-printed-mnemonic": False,
                    "decodes-to-printed-operands": False}
        mn = ALIAS.get(self.mn, self.mn)
        m = mn in dec["mn"]
        dops = [tuple(o) for o in dec["ops"]]
        if len(dops) == len(printed) + 1 and dops[-1] == ("one",):
            dops = dops[:-1]                    # ppci's one-operand shl/shr: the manual's shift by 1 (D0/D1)
        if len(dops) != len(printed):
            return {"decodes-as-one-instruction": True, "decodes-to-printed-mnemonic": m,
                    "decodes-to-printed-operands": False}
        cs = []
        for p, o in zip(printed, dops):
            if p[0] == "reg":
                cs.append(o[0] == "reg" and sym_and(o[1] == p[1], o[2] == p[2]))
            elif p[0] == "lit":
                assert p[1] == "cl", p
                cs.append(o[0] == "reg" and sym_and(o[1] == 8, o[2] == 1))
            elif p[0] == "imm":
                cs.append(o[0] == "imm" and (p[1] % (1 << o[1])) == o[2])
            elif p[0] == "mem":
                if o[0] != "mem":
                    cs.append(False)
                    continue
                _, size, base, index, scale, disp = o
                cs.append(sym_and(base == p[1], index == p[2], disp == p[3],
                                  True if (type(p[2]) is int and p[2] == NONE) else scale == 1))
            elif p[0] == "label":
                if self.label_kind().startswith("pcrel"):
                    cs.append(o[0] == "rel" and o[1] + dec["length"] == i["off"])
                else:
                    cs.append(o[0] == "imm" and o[2] == 0)
            elif p[0] == "memlabel":
                cs.append(o[0] == "mem" and sym_and(o[2] == NONE, o[3] == NONE, o[5] == 0))
            else:
                raise AssertionError(p)
        return {"decodes-as-one-instruction": True, "decodes-to-printed-mnemonic": m,
                "decodes-to-printed-operands": sym_and(m, *cs)}


class X86EncodingHarness(EncodeHarness):
    """C08 obligation: encode() raised, or the bytes are exactly one instruction of the manual that has the
    printed mnemonic and exactly the printed operands (premise: integer operands within the documented range)"""

    def inputs(self, mk):
        return self.operand_inputs(mk)

    def run(self, i):
        return self.run_encode_decode(i)

    def post(self, i, out):
        if not out.ok:
            return {"harness-ran": False}
        r = out.value
        if r[0] == "rejected":
            return {"rejected": True}
        _, data, printed, dec = r
        prem = self.premise(i, printed, dec)
        return {k: implies(prem, v) for k, v in self.matches(i, data, printed, dec).items()}


def nonvacuous(claimed):
    """concrete sanity per (class, constructor): some plain operand choice is accepted by encode(); the list of
    combinations for which every attempt is rejected goes into the evidence (they hold vacuously)"""
    dead = []
    for (idx, cls, mn, mode) in claimed:
        h = X86EncodingHarness(idx, cls, mn, mode)
        ok = False
        for regpick in (0, 1, 2, -1):
            for num in (0, 1, 8, 100, 1000):
                vals = {}
                for path, kind, info in h.leaves():
                    if kind == "r":
                        nums = sorted(r.num for r in info.registers)
                        vals[RPFX[info.bitsize] + path] = nums[regpick % len(nums)]
                    elif kind == "i":
                        vals["i" + path] = num
                    elif kind == "d":
                        vals["d" + path] = num
                vals["off"], vals["P"] = 16, 4096
                try:
                    if h.encode(vals)[0] == "ok":
                        ok = True
                        break
                except Exception:       # noqa
                    pass
            if ok:
                break
        if not ok:
            dead.append(h.name)
    return dead


def selftest_result(seed=0, n_random=600):
    """finished result dict of the job `x86.selftest`: concrete validation of ref/x86dec.py (hand-checked encodings,
    the repo's assembler test vectors, random encodings of the subset cross-checked with GNU objdump when it is
    installed) + evidence lists (unclaimed classes, always-rejected combinations, register name tables)"""
    import time
    t0 = time.time()
    res = dict(harness="x86.selftest", violations=[], known_hits=[], inconclusive=[], errors=[], funcs=[],
               samples=[], stats=dict(paths=1, decisions=0, feas_queries=0, cut_paths=0, solver_s=0.0),
               obligations=1, discharged=0, validated=0, reached=1, twin_violated=1, exhaustive=True, nontrivial=1)
    try:
        st = x86dec.selftest(n_random=n_random, seed=seed)
        claimed, unclaimed = discover()
        assert len(claimed) > 300, "x86_64 instruction table not discovered"
        from ppci.arch.x86_64 import registers as R
        regs = {}
        for rc in (R.Register8, R.Register16, R.Register32, R.Register64):
            regs[rc.__name__] = {r.name: [r.num, x86dec.reg_id(rc.bitsize, r.name)] for r in rc.registers}
        res["discharged"] = 1
        res["samples"] = [dict(harness="x86.selftest", selftest=st, claimed_combinations=len(claimed),
                               unclaimed_classes=[list(u) for u in unclaimed], always_rejected=nonvacuous(claimed),
                               register_names=regs)]
    except (AssertionError, KeyError) as e:
        res["errors"].append(dict(kind="reference-selftest-failed", harness="x86.selftest", error=repr(e)[:500]))
    res["wall_s"] = time.time() - t0
    return res
