"""C33  Integer range sets behave as mathematical sets.

Real code: ppci.utils.integer_set.IntegerSet.{__init__, union, intersection, difference,
symmetric_difference, __or__/__and__/__sub__/__xor__, contains/__contains__, cardinality/__len__,
__iter__, __eq__, empty/__bool__} and merge_overlapping_intervals.

Pattern "one step from an arbitrary valid state": operand sets are *canonical symbolic states*
(k ranges whose 2k end points are solver variables, constrained only to be sorted, non-empty,
non-overlapping and non-adjacent - assumptions, no forking, no constructor involved), ONE real
operation is executed, and the result is judged against the denotation (ref/intset.py):
    * a symbolic probe x:   x in result  <=>  op(x in a, x in b)          (for all x at once)
    * the result's ranges are canonical (non-empty, sorted/non-overlapping, non-adjacent)
    * cardinality()/__len__/empty()/__bool__ of the result agree with the set denoted by the
      result's ranges (sum of sizes under pairwise disjointness), which the first two items tie to
      the operands; for operand shapes with <= 2 ranges in total cardinality is additionally
      compared with |a op b| computed by inclusion-exclusion on the operands' end points alone
The constructor (and merge_overlapping_intervals) are checked separately from ARBITRARY raw
values (ints and pairs; overlapping, nested, adjacent, reversed, duplicated), equality is checked
both on canonical states and on sets built by the constructor from two arbitrary raw lists
("equal sets compare equal"), iteration is checked with ranges at symbolic positions holding a
bounded number of elements each.  The number of ranges (shape) is enumerated; every end point is
symbolic.  Shapes with >= 4 ranges in total are cut into cells (position of b's least / greatest
element relative to a's ranges) that run in separate processes; a harness proves the cells cover
the input space.  Obligations are interval reasoning, so the prover first decides them in the
exact linear-integer translation (symx/solve.py) before falling back to bit-blasting.
"""
import os
from symx.harness import Harness
from symx import core
from symx.core import sym_and, sym_or, sym_not, implies, ite, SymInt, SymBool, PathCut
from ref import intset as R

PROPERTY = "C33"
LEVEL = "model_checking"

LO, HI = -(1 << 31), (1 << 31) - 1          # end points
OPS = ("union", "intersection", "difference", "symmetric_difference")
OPERATOR = {"union": "__or__", "intersection": "__and__", "difference": "__sub__",
            "symmetric_difference": "__xor__"}

QUICK_SHAPES = [(0, 0), (0, 1), (1, 0), (0, 2), (2, 0), (1, 1), (2, 1), (1, 2), (2, 2)]
THOROUGH_SHAPES = QUICK_SHAPES + [(0, 3), (3, 0), (3, 1), (1, 3), (4, 1), (1, 4), (3, 2), (2, 3)]

BOUNDS = {
    "quick": {"end points / probe": "every integer in [-2**31, 2**31) (probe: 2 beyond on each side)",
              "binary operations: (ranges in a, ranges in b)": [list(s) for s in QUICK_SHAPES],
              "symmetric_difference": "shapes with at most 3 ranges in total",
              "contains: ranges": "0..4", "cardinality/len/empty: ranges": "0..4",
              "constructor: raw arguments (each an int or a pair)": "0..2, all int/pair shapes",
              "merge_overlapping_intervals: sorted non-empty ranges": "0..4",
              "equality: canonical (ka,kb)": "ka,kb <= 2; constructor-built from raw lists (1,1),(2,1)",
              "iteration": "1 range of <= 5 elements, 2 ranges of <= 3 elements each, symbolic positions"},
    "thorough": {"end points / probe": "every integer in [-2**31, 2**31) (probe: 2 beyond on each side)",
                 "binary operations: (ranges in a, ranges in b)": [list(s) for s in THOROUGH_SHAPES],
                 "contains: ranges": "0..6", "cardinality/len/empty: ranges": "0..6",
                 "constructor: raw arguments (each an int or a pair)": "0..3, all int/pair shapes",
                 "merge_overlapping_intervals: sorted non-empty ranges": "0..6",
                 "equality: canonical (ka,kb)": "ka,kb <= 3; constructor-built from raw lists up to (2,2)",
                 "iteration": "1 range of <= 8, 2 ranges of <= 4 each, 3 ranges of <= 3 elements each, symbolic positions"},
}
OUTSIDE = ["more ranges per operand than the listed shapes (the loops are uniform in the number of ranges; stated, not claimed)",
           "end points of magnitude >= 2**31 (the code contains no width-dependent operation)",
           "__hash__ (hash of the ranges tuple: equal ranges give equal hashes; not executed symbolically) and __repr__",
           "order of iteration (the property speaks about the set of yielded values)",
           "arguments that are neither int nor pair (TypeError path of the constructor)"]
ASSUMPTIONS = ["operand states are canonical (sorted, non-empty, non-overlapping, non-adjacent ranges) - the representation invariant that every constructor/operation result is separately proved to establish",
               "denotation, cardinality by inclusion-exclusion and set equality via critical points are defined in /verif/ref/intset.py",
               "iteration: range(a, b) over symbolic bounds yields a, a+1, ... while < b (shim used only by the iteration harness)",
               "min/max of symbolic integers are evaluated as the if-then-else of a comparison (no fork)"]
SHIMS_USED = ["isinstance", "int", "range", "bool"]
JOB_TIMEOUT = {"quick": 900, "thorough": 3000}
CARD_ORACLE_MAX = 4     # total number of operand ranges up to which |result| is ALSO compared with the
                        # inclusion-exclusion count over the operands (bit-vector sums are costly to prove)


# ---------------------------------------------------------------------------------------------
def canon_state(mk, name, k):
    """k ranges with symbolic end points, canonical by assumption"""
    rs = []
    prev = None
    for i in range(k):
        lo = mk.int(f"{name}{i}lo", LO, HI)
        hi = mk.int(f"{name}{i}hi", LO, HI)
        mk.assume(lo <= hi)
        if prev is not None:
            mk.assume(prev + 1 < lo)
        prev = hi
        rs.append((lo, hi))
    return rs


def raw_values(mk, name, shape):
    """arbitrary constructor arguments: 'i' = an int, 't' = a pair (lo, hi) in any order relation"""
    vals = []
    for i, c in enumerate(shape):
        if c == "i":
            vals.append(mk.int(f"{name}{i}", LO, HI))
        else:
            vals.append((mk.int(f"{name}{i}lo", LO, HI), mk.int(f"{name}{i}hi", LO, HI)))
    return vals


def raw_ranges(vals):
    return [v if isinstance(v, tuple) else (v, v) for v in vals]


def make_set(ranges):
    """an IntegerSet in the given state (constructor not involved beyond the empty call)"""
    from ppci.utils.integer_set import IntegerSet
    s = IntegerSet()
    s.ranges = tuple((lo, hi) for lo, hi in ranges)
    return s


def plain_ranges(s):
    return [[r[0], r[1]] for r in s.ranges]


def probe(mk):
    return mk.int("x", LO - 2, HI + 2)


def _position(a, p, c):
    """point p lies in cell c of the line cut by the canonical ranges a:
    c = 2i   : in the gap before range i (after range i-1; i = len(a): after the last range)
    c = 2i+1 : inside range i"""
    i, inside = divmod(c, 2)
    if inside:
        return sym_and(a[i][0] <= p, p <= a[i][1])
    cs = [True]
    if i > 0:
        cs.append(a[i - 1][1] < p)
    if i < len(a):
        cs.append(p < a[i][0])
    return sym_and(*cs)


def _cell(a, b, split):
    """split = [c1] or [c1, c2]: position of b's least element (and of b's greatest element)
    relative to a's ranges"""
    cs = [_position(a, b[0][0], split[0])]
    if len(split) > 1:
        cs.append(_position(a, b[-1][1], split[1]))
    return sym_and(*cs)


def split_cells(ka, kb, level):
    """the cells of a partition of the input space of shape (ka, kb); only used to spread one shape
    over several worker processes (SplitCompleteHarness proves that the cells cover everything)"""
    if level == 0 or ka == 0 or kb == 0:
        return [None]
    n = 2 * ka + 1
    if level == 1:
        return [[c] for c in range(n)]
    return [[c1, c2] for c1 in range(n) for c2 in range(c1, n)]


def split_level(op, ka, kb):
    t = ka + kb
    if ka == 0 or kb == 0 or t <= 3:
        return 0
    if t == 4 or min(ka, kb) == 1:
        return 1
    return 2


def split_assume(mk, a, b, split):
    if split is not None:
        mk.assume(_cell(a, b, split))


def card_canon(ranges):
    t = 0
    for lo, hi in ranges:
        t = t + (hi - lo + 1)
    return t


def card_meet(a, b):
    """|A n B| for two lists of pairwise disjoint ranges"""
    t = 0
    for alo, ahi in a:
        for blo, bhi in b:
            t = t + R.size(ite(alo >= blo, alo, blo), ite(ahi <= bhi, ahi, bhi))
    return t


def card_op(op, a, b):
    ca, cb, m = card_canon(a), card_canon(b), card_meet(a, b)
    if op == "union":
        return ca + cb - m
    if op == "intersection":
        return m
    if op == "difference":
        return ca - m
    return ca + cb - m - m


class Base(Harness):
    shim_modules = ("ppci.utils.integer_set",)
    W = 44
    max_paths = 400000
    max_decisions = 4000
    prove_int_first = True      # obligations are interval/linear reasoning: decided as integer arithmetic


def result_view(r):
    return dict(type=type(r).__name__, ranges=plain_ranges(r), card=r.cardinality(), len=r.__len__(),
                empty=r.empty(), truth=r.__bool__())


def result_posts(v, denote, x, card=None):
    """obligations on a result set `v` (result_view) that must denote {x | denote}.
    cardinality()/len/empty/bool are judged against the set denoted by the result's own ranges
    (which the other obligations tie to the operands and prove canonical); where `card` is given
    the cardinality is additionally compared with |a op b| computed from the operands alone."""
    rr = v["ranges"]
    posts = {"result-is-IntegerSet": v["type"] == "IntegerSet",
             "membership-agrees": R.iff(R.member(rr, x), denote)}
    posts.update({"canonical:" + k: c for k, c in R.canonical_parts(rr).items()})
    # canonical ranges are non-empty and pairwise disjoint: the denoted set has sum(hi-lo+1) elements
    n = sum((hi - lo + 1 for lo, hi in rr), 0)
    posts["cardinality-of-denoted-ranges"] = implies(R.canonical(rr), sym_and(v["card"] == n, v["len"] == n))
    nothing = R.denotes_nothing(rr)
    posts["empty-and-bool-agree"] = sym_and(R.iff(v["empty"], nothing), R.iff(v["truth"], sym_not(nothing)))
    if card is not None:
        posts["cardinality-agrees-with-operands"] = sym_and(v["card"] == card, v["len"] == card)
    return posts


# ---------------------------------------------------------------------------------------------
class OpHarness(Base):
    """one binary set operation from two arbitrary canonical states"""

    def __init__(self, op, ka, kb, operator=False, split=None):
        self.op, self.ka, self.kb, self.operator, self.split = op, ka, kb, operator, split
        sp = "" if split is None else ",cell" + "-".join(str(c) for c in split)
        self.name = f"IntegerSet.{OPERATOR[op] if operator else op}[{ka},{kb}{sp}]"
        self.params = dict(op=op, ka=ka, kb=kb, operator=operator, split=split)

    def inputs(self, mk):
        a = canon_state(mk, "a", self.ka)
        b = canon_state(mk, "b", self.kb)
        split_assume(mk, a, b, self.split)
        return dict(a=a, b=b, x=probe(mk))

    def run(self, i):
        a, b = make_set(i["a"]), make_set(i["b"])
        r = getattr(a, OPERATOR[self.op] if self.operator else self.op)(b)
        return dict(result_view(r), a_after=plain_ranges(a), b_after=plain_ranges(b))

    def post(self, i, out):
        if not out.ok:
            return {"no-exception": False}
        a, b, x = i["a"], i["b"], i["x"]
        v = out.value
        posts = result_posts(v, R.SET_OPS[self.op](R.member(a, x), R.member(b, x)), x,
                             card_op(self.op, a, b) if self.ka + self.kb <= CARD_ORACLE_MAX else None)
        posts["operands-unchanged"] = sym_and(core.sym_eq(v["a_after"], [list(t) for t in a]),
                                              core.sym_eq(v["b_after"], [list(t) for t in b]))
        return posts


class SplitCompleteHarness(Base):
    """the cells used to spread a shape over processes cover the whole input space"""

    def __init__(self, ka, kb, level):
        self.ka, self.kb, self.level = ka, kb, level
        self.name = f"split-cells-cover[{ka},{kb},level{level}]"
        self.params = dict(ka=ka, kb=kb, level=level)

    def inputs(self, mk):
        return dict(a=canon_state(mk, "a", self.ka), b=canon_state(mk, "b", self.kb))

    def run(self, i):
        return 0

    def post(self, i, out):
        a, b = i["a"], i["b"]
        return {"cells-cover": sym_or(*[_cell(a, b, c) for c in split_cells(self.ka, self.kb, self.level)])}


class ContainsHarness(Base):
    def __init__(self, k):
        self.k = k
        self.name = f"IntegerSet.contains[{k}]"
        self.params = dict(k=k)

    def inputs(self, mk):
        return dict(a=canon_state(mk, "a", self.k), x=probe(mk))

    def run(self, i):
        a = make_set(i["a"])
        r1 = a.contains(i["x"])
        r2 = i["x"] in a
        return dict(contains=r1, op_in=r2)

    def post(self, i, out):
        if not out.ok:
            return {"no-exception": False}
        m = R.member(i["a"], i["x"])
        return {"contains-agrees": R.iff(out.value["contains"], m),
                "in-operator-agrees": R.iff(out.value["op_in"], m)}


class CardHarness(Base):
    """cardinality/len/empty/bool of an arbitrary canonical state"""

    def __init__(self, k):
        self.k = k
        self.name = f"IntegerSet.cardinality[{k}]"
        self.params = dict(k=k)

    def inputs(self, mk):
        return dict(a=canon_state(mk, "a", self.k))

    def run(self, i):
        a = make_set(i["a"])
        return dict(card=a.cardinality(), len=a.__len__(), empty=a.empty(), truth=a.__bool__())

    def post(self, i, out):
        if not out.ok:
            return {"no-exception": False}
        v = out.value
        c = R.card_disjoint(i["a"])    # canonical ranges are pairwise disjoint
        return {"cardinality-agrees": sym_and(v["card"] == c, v["len"] == c),
                "empty-and-bool-agree": sym_and(R.iff(v["empty"], c == 0), R.iff(v["truth"], c != 0))}


class CtorHarness(Base):
    """IntegerSet(*values) for arbitrary values"""

    def __init__(self, shape):
        self.shape = shape
        self.name = f"IntegerSet.__init__[{shape or '-'}]"
        self.params = dict(shape=shape)

    def inputs(self, mk):
        return dict(vals=raw_values(mk, "v", self.shape), x=probe(mk))

    def run(self, i):
        from ppci.utils.integer_set import IntegerSet
        return result_view(IntegerSet(*i["vals"]))

    def post(self, i, out):
        if not out.ok:
            return {"no-exception": False}
        raw = raw_ranges(i["vals"])
        return result_posts(out.value, R.member(raw, i["x"]), i["x"],
                            R.card(raw) if len(raw) <= 3 else None)


class MergeHarness(Base):
    """merge_overlapping_intervals on its documented input: sorted list of non-empty ranges"""

    def __init__(self, k):
        self.k = k
        self.name = f"merge_overlapping_intervals[{k}]"
        self.params = dict(k=k)

    def inputs(self, mk):
        rs = []
        for j in range(self.k):
            lo = mk.int(f"r{j}lo", LO, HI)
            hi = mk.int(f"r{j}hi", LO, HI)
            mk.assume(lo <= hi)
            if rs:
                plo, phi = rs[-1]
                mk.assume(sym_or(plo < lo, sym_and(plo == lo, phi <= hi)))   # lexicographic order
            rs.append((lo, hi))
        return dict(rs=rs, x=probe(mk))

    def run(self, i):
        from ppci.utils.integer_set import merge_overlapping_intervals
        return [[r[0], r[1]] for r in merge_overlapping_intervals(list(i["rs"]))]

    def post(self, i, out):
        if not out.ok:
            return {"no-exception": False}
        posts = {"membership-agrees": R.iff(R.member(out.value, i["x"]), R.member(i["rs"], i["x"]))}
        posts.update({"canonical:" + k: c for k, c in R.canonical_parts(out.value).items()})
        return posts


class EqCanonHarness(Base):
    """== / != on two arbitrary canonical states: true exactly when they denote the same set"""

    def __init__(self, ka, kb):
        self.ka, self.kb = ka, kb
        self.name = f"IntegerSet.__eq__[{ka},{kb}]"
        self.params = dict(ka=ka, kb=kb)

    def inputs(self, mk):
        return dict(a=canon_state(mk, "a", self.ka), b=canon_state(mk, "b", self.kb))

    def run(self, i):
        a, b = make_set(i["a"]), make_set(i["b"])
        return dict(eq=(a == b), ne=(a != b), eq_other=(a == 0))

    def post(self, i, out):
        if not out.ok:
            return {"no-exception": False}
        same = R.same_set(i["a"], i["b"])
        return {"eq-iff-same-set": R.iff(out.value["eq"], same),
                "ne-iff-different-set": R.iff(out.value["ne"], sym_not(same)),
                "not-equal-to-non-set": out.value["eq_other"] is False}


class EqCtorHarness(Base):
    """sets built by the constructor from two arbitrary raw lists compare equal iff they denote the same set"""

    def __init__(self, sa, sb):
        self.sa, self.sb = sa, sb
        self.name = f"IntegerSet.__eq__.constructed[{sa},{sb}]"
        self.params = dict(sa=sa, sb=sb)

    def inputs(self, mk):
        return dict(va=raw_values(mk, "a", self.sa), vb=raw_values(mk, "b", self.sb))

    def run(self, i):
        from ppci.utils.integer_set import IntegerSet
        a, b = IntegerSet(*i["va"]), IntegerSet(*i["vb"])
        return dict(eq=(a == b), ne=(a != b))

    def post(self, i, out):
        if not out.ok:
            return {"no-exception": False}
        same = R.same_set(raw_ranges(i["va"]), raw_ranges(i["vb"]))
        return {"eq-iff-same-set": R.iff(out.value["eq"], same),
                "ne-iff-different-set": R.iff(out.value["ne"], sym_not(same))}


LAWS = {
    # two routes to the same set of integers must give EQUAL objects ("equal sets compare equal")
    "union-commutes": lambda a, b: (a | b, b | a),
    "intersection-commutes": lambda a, b: (a & b, b & a),
    "symdiff-commutes": lambda a, b: (a ^ b, b ^ a),
    "symdiff-is-union-minus-intersection": lambda a, b: (a ^ b, (a | b) - (a & b)),
    "difference-plus-intersection-restores": lambda a, b: ((a - b) | (a & b), a),
    "difference-is-minus-intersection": lambda a, b: (a - b, a - (a & b)),
}


class LawHarness(Base):
    def __init__(self, law, ka, kb):
        self.law, self.ka, self.kb = law, ka, kb
        self.name = f"law.{law}[{ka},{kb}]"
        self.params = dict(law=law, ka=ka, kb=kb)

    def inputs(self, mk):
        return dict(a=canon_state(mk, "a", self.ka), b=canon_state(mk, "b", self.kb))

    def run(self, i):
        l, r = LAWS[self.law](make_set(i["a"]), make_set(i["b"]))
        return dict(eq=(l == r), ne=(l != r))

    def post(self, i, out):
        if not out.ok:
            return {"no-exception": False}
        return {"equal-sets-compare-equal": sym_and(out.value["eq"], sym_not(out.value["ne"]))}


# -- iteration ---------------------------------------------------------------------------------
class _SymRangeIter:
    """range(start, stop) with symbolic bounds: yields start, start+1, ... while < stop (one fork per element)"""

    def __init__(self, start, stop, cap):
        self.start, self.stop, self.cap = start, stop, cap

    def __iter__(self):
        v = self.start
        n = 0
        while v < self.stop:
            if n >= self.cap:
                raise PathCut("iteration cap")
            yield v
            v = v + 1
            n += 1


def _make_range_shim(cap):
    def rng(*a):
        if len(a) == 2 and any(type(v) is SymInt for v in a):
            return _SymRangeIter(a[0], a[1], cap)
        return range(*a)
    return rng


class IterHarness(Base):
    """iteration yields exactly the elements of the set, each once.  The ranges sit at arbitrary
    (symbolic) positions; each holds between 1 and m elements (the trip count of the real loop
    over range(lo, hi + 1) must be finite for an execution, so the size is bounded, the position not)."""

    def __init__(self, k, m):
        self.k, self.m = k, m
        self.name = f"IntegerSet.__iter__[{k} ranges,<={m} elements each]"
        self.params = dict(k=k, m=m)

    def shim_extra(self):
        return {"range": _make_range_shim(self.m + 1)}

    def inputs(self, mk):
        a = []
        prev = None
        for j in range(self.k):
            lo = mk.int(f"a{j}lo", LO, HI)
            n = mk.int(f"a{j}extra", 0, self.m - 1)      # hi - lo
            hi = lo + n
            mk.assume(hi <= HI)
            if prev is not None:
                mk.assume(prev + 1 < lo)
            prev = hi
            a.append((lo, hi))
        return dict(a=a, x=probe(mk))

    def run(self, i):
        return list(iter(make_set(i["a"])))

    def post(self, i, out):
        if not out.ok:
            return {"no-exception": False}
        ys = out.value
        a, x = i["a"], i["x"]
        distinct = [ys[p] != ys[q] for p in range(len(ys)) for q in range(p + 1, len(ys))]
        return {"yields-only-members": sym_and(True, *[R.member(a, y) for y in ys]),
                "yields-every-member": implies(R.member(a, x), sym_or(False, *[y == x for y in ys])),
                "yields-each-once": sym_and(True, *distinct),
                "count-is-cardinality": len(ys) == R.card_disjoint(a)}


# -- factories ---------------------------------------------------------------------------------
def mk_op(op, ka, kb, operator=False, split=None):
    return OpHarness(op, ka, kb, operator, split)


def mk_split(ka, kb, level):
    return SplitCompleteHarness(ka, kb, level)


def mk_contains(k):
    return ContainsHarness(k)


def mk_card(k):
    return CardHarness(k)


def mk_ctor(shape):
    return CtorHarness(shape)


def mk_merge(k):
    return MergeHarness(k)


def mk_eq(ka, kb):
    return EqCanonHarness(ka, kb)


def mk_eqctor(sa, sb):
    return EqCtorHarness(sa, sb)


def mk_law(law, ka, kb):
    return LawHarness(law, ka, kb)


def mk_iter(k, m):
    return IterHarness(k, m)


def _shapes(n):
    out = [""]
    for k in range(1, n + 1):
        out += ["".join(p) for p in __import__("itertools").product("ti", repeat=k)]
    return out


def jobs(tier, seed):
    quick = tier == "quick"
    heavy, light = [], []
    levels = set()
    for op in OPS:
        for ka, kb in (QUICK_SHAPES if quick else THOROUGH_SHAPES):
            if quick and op == "symmetric_difference" and ka + kb >= 4:
                continue        # composition of two differences and a union: thorough tier only
            lv = split_level(op, ka, kb)
            cells = split_cells(ka, kb, lv)
            for c in cells:
                (heavy if ka + kb >= 4 else light).append(("mk_op", dict(op=op, ka=ka, kb=kb, split=c)))
            if len(cells) > 1:
                levels.add((ka, kb, lv))
        for ka, kb in ((0, 1), (1, 0), (1, 1)):
            light.append(("mk_op", dict(op=op, ka=ka, kb=kb, operator=True)))
    for ka, kb, lv in sorted(levels):
        light.append(("mk_split", dict(ka=ka, kb=kb, level=lv)))
    kmax = 4 if quick else 6
    for k in range(kmax + 1):
        light.append(("mk_contains", dict(k=k)))
        light.append(("mk_card", dict(k=k)))
        light.append(("mk_merge", dict(k=k)))
    for sh in _shapes(2 if quick else 3) + ([] if quick else ["tttt"]):
        (heavy if len(sh) >= 3 else light).append(("mk_ctor", dict(shape=sh)))
    ke = 2 if quick else 3
    for ka in range(ke + 1):
        for kb in range(ke + 1):
            light.append(("mk_eq", dict(ka=ka, kb=kb)))
    for sa, sb in ([("t", "t"), ("tt", "t"), ("t", "i"), ("tt", "i")] if quick else
                   [("t", "t"), ("tt", "t"), ("t", "tt"), ("t", "i"), ("tt", "i"), ("tt", "tt"), ("ti", "tt")]):
        (heavy if len(sa) + len(sb) >= 4 else light).append(("mk_eqctor", dict(sa=sa, sb=sb)))
    for law in LAWS:
        for ka, kb in ([(1, 1)] if quick else [(1, 1), (2, 1), (1, 2)]):
            light.append(("mk_law", dict(law=law, ka=ka, kb=kb)))
    for k, m in ([(0, 1), (1, 5), (2, 3)] if quick else [(0, 1), (1, 8), (2, 4), (3, 3)]):
        light.append(("mk_iter", dict(k=k, m=m)))
    # longest jobs first
    heavy.sort(key=lambda j: -(j[1].get("ka", 0) + j[1].get("kb", 0) + len(j[1].get("shape", "")) +
                               (1 if j[1].get("op") == "symmetric_difference" else 0)))
    js = heavy + light
    only = os.environ.get("VERIF_ONLY")
    if only:
        js = [j for j in js if only in repr(j)]
    return js
