"""Shared machinery of C08 / C07 (RISC-V): discovery of the encodable instruction classes of the real
ISA objects, the table that says which manual instruction a printed ppci syntax denotes, and the
harness base that builds an instruction with symbolic operands and runs the real encode()
(+ the real relocation for pc-relative label operands).
"""
import importlib
from symx.harness import Harness
from symx import core
from symx.core import sym_and, sym_or, sym_not, implies, ite
from symx.seq import SymByteArray
from ref import rv32

MODS = {"riscv": "ppci.arch.riscv.instructions", "riscv:rvc": "ppci.arch.riscv.rvc_instructions"}

R3 = (("rd",), ("rs1",), ("rs2",))
I12 = (-2048, 2047, 1)


def _s(base, pos, fixed=None, imm=None, label=None):
    return dict(base=base, pos=pos, fixed=fixed or {}, imm=imm, label=label)


# (printed mnemonic, operand kinds by syntax position) -> manual instruction.
#   pos[k]  = decoded fields that must equal the k-th printed operand
#   fixed   = decoded fields with a fixed value (pseudo-instructions, manual ch. 25)
#   imm     = documented range (lo, hi, multiple-of) of the integer operand
#   label   = "pcrel": the label operand is a pc-relative target, the real relocation is applied with a
#             symbolic distance and the decoded offset must be that distance; "field0": hi/lo style
#             relocation (decided under C10/C11), only the base encoding (field = 0) is compared here
SPEC = {}
for _n in "add sub sll slt sltu xor srl sra or and mul div divu rem remu".split():
    SPEC[(_n, "rrr")] = _s(_n, R3)
for _n in "slli srli srai".split():
    SPEC[(_n, "rri")] = _s(_n, (("rd",), ("rs1",), ("imm",)), imm=(0, 31, 1))
for _n in "addi slti sltiu xori ori andi jalr".split():
    SPEC[(_n, "rri")] = _s(_n, (("rd",), ("rs1",), ("imm",)), imm=I12)
for _n in "lb lh lw lbu lhu".split():
    SPEC[(_n, "rir")] = _s(_n, (("rd",), ("imm",), ("rs1",)), imm=I12)
for _n in "sb sh sw".split():
    SPEC[(_n, "rir")] = _s(_n, (("rs2",), ("imm",), ("rs1",)), imm=I12)
_BR = (-4096, 4094, 2)
for _n in "beq bne blt bge bltu bgeu".split():
    SPEC[(_n, "rrs")] = _s(_n, (("rs1",), ("rs2",), ("imm",)), label="pcrel", imm=_BR)
for _n, _b in (("bgt", "blt"), ("ble", "bge"), ("bgtu", "bltu"), ("bleu", "bgeu")):
    SPEC[(_n, "rrs")] = _s(_b, (("rs2",), ("rs1",), ("imm",)), label="pcrel", imm=_BR)
_JR = (-(1 << 20), (1 << 20) - 2, 2)
SPEC.update({
    ("mv", "rr"): _s("addi", (("rd",), ("rs1",)), dict(imm=0)),
    ("nop", ""): _s("addi", (), dict(rd=0, rs1=0, imm=0)),
    ("ebreak", ""): _s("ebreak", ()), ("mret", ""): _s("mret", ()),
    ("lui", "ri"): _s("lui", (("rd",), ("imm",)), imm=(0, 0xFFFFF, 1)),
    ("auipc", "ri"): _s("auipc", (("rd",), ("imm",)), imm=(0, 0xFFFFF, 1)),
    ("jal", "rs"): _s("jal", (("rd",), ("imm",)), label="pcrel", imm=_JR),
    ("j", "s"): _s("jal", (("imm",),), dict(rd=0), label="pcrel", imm=_JR),
    ("lui", "rs"): _s("lui", (("rd",), ("imm",)), label="field0"),
    ("auipc", "rs"): _s("auipc", (("rd",), ("imm",)), label="field0"),
    ("addi", "rrs"): _s("addi", (("rd",), ("rs1",), ("imm",)), label="field0"),
    ("addi", "rs"): _s("addi", (("rd", "rs1"), ("imm",)), label="field0"),
    ("lw", "rsr"): _s("lw", (("rd",), ("imm",), ("rs1",)), label="field0"),
    ("csrs", "cr"): _s("csrrs", (("csr",), ("rs1",)), dict(rd=0)),
    ("csrw", "cr"): _s("csrrw", (("csr",), ("rs1",)), dict(rd=0)),
    ("csrr", "rc"): _s("csrrs", (("rd",), ("csr",)), dict(rs1=0)),
    ("csrwi", "ci"): _s("csrrwi", (("csr",), ("imm",)), dict(rd=0), imm=(0, 31, 1)),
    ("csrsi", "ci"): _s("csrrsi", (("csr",), ("imm",)), dict(rd=0), imm=(0, 31, 1)),
    ("csrci", "ci"): _s("csrrci", (("csr",), ("imm",)), dict(rd=0), imm=(0, 31, 1)),
})
for _n, _c in rv32.CSR_NUM.items():
    SPEC[("rd" + _n, "r")] = _s("csrrs", (("rd",),), dict(rs1=0, csr=_c))
# RV32C.  ppci prints c.slli/c.srli/c.srai/c.andi/c.addi in a three-operand form "rd, rs, imm"; the
# manual's instruction is "op rd, rd, imm": both printed registers must be the encoded rd.
for _n in "c.sub c.xor c.or c.and".split():
    SPEC[(_n, "rr")] = _s(_n, (("rd",), ("rs2",)))
for _n in "c.slli c.srli c.srai".split():
    SPEC[(_n, "rri")] = _s(_n, (("rd",), ("rd",), ("imm",)), imm=(0, 31, 1))
_CJ = (-2048, 2046, 2)
_CB = (-256, 254, 2)
SPEC.update({
    ("c.andi", "rri"): _s("c.andi", (("rd",), ("rd",), ("imm",)), imm=(-32, 31, 1)),
    ("c.addi", "rri"): _s("c.addi", (("rd",), ("rd",), ("imm",)), imm=(-32, 31, 1)),
    ("c.nop", ""): _s("c.nop", (), dict(imm=0)),
    ("c.ebreak", ""): _s("c.ebreak", ()),
    ("c.mv", "rr"): _s("c.mv", (("rd",), ("rs2",))),
    ("c.add", "rr"): _s("c.add", (("rd",), ("rs2",))),
    ("c.jal", "s"): _s("c.jal", (("imm",),), label="pcrel", imm=_CJ),
    ("c.j", "s"): _s("c.j", (("imm",),), label="pcrel", imm=_CJ),
    ("c.jr", "r"): _s("c.jr", (("rs1",),)),
    ("c.jalr", "r"): _s("c.jalr", (("rs1",),)),
    ("c.beqz", "rs"): _s("c.beqz", (("rs1",), ("imm",)), label="pcrel", imm=_CB),
    ("c.bnez", "rs"): _s("c.bnez", (("rs1",), ("imm",)), label="pcrel", imm=_CB),
    ("c.lw", "rir"): _s("c.lw", (("rd",), ("imm",), ("rs1",)), imm=(0, 124, 4)),
    ("c.sw", "rir"): _s("c.sw", (("rs2",), ("imm",), ("rs1",)), imm=(0, 124, 4)),
    ("c.lwsp", "ri"): _s("c.lwsp", (("rd",), ("imm",)), imm=(0, 252, 4)),
    ("c.swsp", "ri"): _s("c.swsp", (("rs2",), ("imm",)), imm=(0, 252, 4)),
    ("c.addi4spn", "ri"): _s("c.addi4spn", (("rd",), ("imm",)), imm=(4, 1020, 4)),
    ("c.addi16sp", "i"): _s("c.addi16sp", (("imm",),), imm=(-512, 496, 16, "nz")),
    ("c.li", "ri"): _s("c.li", (("rd",), ("imm",)), imm=(-32, 31, 1)),
    # c.lui rd, nzimm: ppci's operand is the value of lui's 20-bit field (1..31, 0xfffe0..0xfffff) or
    # its 6-bit two's complement form (-32..-1): both spellings denote the same field
    ("c.lui", "ri"): _s("c.lui", (("rd",), ("simm",)), imm=(-32, 31, 1, "nz")),
})
# pseudo-instructions that expand through render() (manual ch. 25): printed text -> architectural effect.
#   "li": rd = the 32-bit value of imm (signed and unsigned spellings), nothing else changes
PSEUDO_SPEC = {("li", "ri"): dict(effect="li", imm=(-(1 << 31), (1 << 32) - 1, 1), label=None, base=None, pos=(), fixed={})}
# spelling differences between ppci's assembler and the manual
ALIAS = {"c.bneqz": "c.bnez"}


def mnemonic_of(cls):
    out = []
    for e in cls.syntax.syntax:
        if not isinstance(e, str) or e.isspace():
            break
        if e in ("%", "(", "="):
            break
        out.append(e)
    return "".join(out)


def kinds_of(cls):
    from ppci.arch.riscv.registers import RiscvRegister, RiscvCsrRegister
    ks = ""
    for a in cls.syntax.formal_arguments:
        c = a._cls
        if c is int:
            ks += "i"
        elif c is str:
            ks += "s"
        elif c is RiscvRegister:
            ks += "r"
        elif c is RiscvCsrRegister:
            ks += "c"
        else:
            ks += "?"
    return ks


def discover(want_pseudo=False):
    """-> (claimed [(arch, idx, class name, mnemonic, kinds)], unclaimed [(arch, class name, why)])"""
    from ppci.api import get_arch
    from ppci.arch.generic_instructions import ArtificialInstruction
    claimed, unclaimed, pseudo = [], [], []
    for archname, modname in MODS.items():
        arch = get_arch(archname)
        for idx, cls in enumerate(arch.isa.instructions):
            if cls.__module__ != modname:
                continue
            if not getattr(cls, "syntax", None):
                continue
            mn = mnemonic_of(cls)
            mn = ALIAS.get(mn, mn)
            ks = kinds_of(cls)
            if issubclass(cls, ArtificialInstruction) or not hasattr(cls, "tokens"):
                if issubclass(cls, ArtificialInstruction) and (mn, ks) in PSEUDO_SPEC:
                    pseudo.append((archname, idx, cls.__name__, mn, ks))
                else:
                    unclaimed.append((archname, cls.__name__, "pseudo-instruction expanding through render() with no "
                                      "stated meaning here (label forms need relocations) / assembler directive"))
                continue
            if (mn, ks) not in SPEC:
                # a second class printing the same text as an earlier one is still compared with that text
                unclaimed.append((archname, cls.__name__, f"no manual instruction stated for syntax '{mn}' {ks!r}"))
                continue
            claimed.append((archname, idx, cls.__name__, mn, ks))
    if want_pseudo:
        return pseudo
    return claimed, unclaimed


def le(bs):
    w = 0
    for i, b in enumerate(bs):
        w = w | (b << (8 * i))
    return w


def in_range(v, rng):
    lo, hi, mult = rng[:3]
    c = sym_and(v >= lo, v <= hi)
    if mult > 1:
        c = sym_and(c, v % mult == 0)
    if len(rng) > 3:        # "nz": zero is a reserved encoding
        c = sym_and(c, v != 0)
    return c


class EncodeHarness(Harness):
    """builds cls(*symbolic operands), runs the real encode() (+ real relocation for pc-relative labels)"""
    W = 72
    max_paths = 4000
    IMM_BOUND = 1 << 33

    def __init__(self, arch, idx, cls, mn, ks, wide=0):
        self.arch, self.idx, self.cls, self.mn, self.ks = arch, idx, cls, mn, ks
        self.spec = SPEC[(mn, ks)]
        self.wide = wide            # thorough tier: immediates up to 2**48, label distance 16 x the documented reach
        self.params = dict(arch=arch, idx=idx, cls=cls, mn=mn, ks=ks, wide=wide)
        self.name = f"{self.PREFIX}[{arch}:{cls}#{idx}:{mn}]"
        if wide:
            self.IMM_BOUND = 1 << 48
            self.W = 96

    def modules(self):
        names = ["ppci.utils.bitfun", "ppci.arch.token", "ppci.arch.encoding", "ppci.arch.isa", "ppci.arch.registers",
                 "ppci.arch.riscv.instructions", "ppci.arch.riscv.rvc_instructions", "ppci.arch.riscv.tokens",
                 "ppci.arch.riscv.registers", "ppci.arch.riscv.relocations", "ppci.arch.riscv.rvc_relocations"]
        return [importlib.import_module(n) for n in names]

    def the_class(self):
        from ppci.api import get_arch
        cls = get_arch(self.arch).isa.instructions[self.idx]
        assert cls.__name__ == self.cls, "instruction table changed under the job list"
        return cls

    # -- inputs
    def operand_inputs(self, mk):
        d = {}
        for k, kd in enumerate(self.ks):
            if kd == "r":
                d[f"r{k}"] = mk.int(f"r{k}", 0, 31)
            elif kd == "c":
                d[f"c{k}"] = mk.int(f"c{k}", 0, 4095)
            elif kd == "i":
                d[f"i{k}"] = mk.int(f"i{k}", -self.IMM_BOUND, self.IMM_BOUND)
            elif kd == "s" and self.spec["label"] == "pcrel":
                lo, hi, mult = self.spec["imm"][:3]
                # distance: twice (thorough: 16 x) the documented reach; P: address of the instruction
                f = 16 if self.wide else 2
                d["off"] = mk.int("off", f * lo, f * hi + 2)
                d["P"] = mk.int("P", 0, (1 << 32) - 2)
                mk.assume(d["off"] % 2 == 0)
                mk.assume(d["P"] % 2 == 0)
                mk.assume(d["P"] + d["off"] >= 0)
                mk.assume(d["P"] + d["off"] < (1 << 32))
        return d

    # -- the real code
    def encode(self, i):
        """-> ("ok", [bytes], [printed operand values], [used nums], [defined nums]) | ("rejected", exc name)"""
        from ppci.arch.riscv.registers import RiscvRegister, RiscvCsrRegister
        from ppci.arch.registers import Register
        cls = self.the_class()
        args = []
        for k, kd in enumerate(self.ks):
            if kd == "r":
                args.append(RiscvRegister(f"r{k}", num=i[f"r{k}"]))
            elif kd == "c":
                args.append(RiscvCsrRegister(f"c{k}", num=i[f"c{k}"]))
            elif kd == "i":
                args.append(i[f"i{k}"])
            else:
                args.append("lbl")
        ins = cls(*args)
        printed = []
        for a in cls.syntax.formal_arguments:
            v = getattr(ins, a._name)
            printed.append(v.num if isinstance(v, Register) else (0 if isinstance(v, str) else v))
        used = [r.num for r in ins.used_registers if type(r) is RiscvRegister]
        defined = [r.num for r in ins.defined_registers if type(r) is RiscvRegister]
        defined += [r.num for r in ins.clobbers if type(r) is RiscvRegister]
        try:
            data = ins.encode()
            rels = ins.relocations()
            if self.spec["label"] == "pcrel":
                assert len(rels) == 1, "one relocation expected for a label operand"
                r = rels[0]
                size = r.size()
                part = list(data[r.offset:r.offset + size])
                buf = bytearray(part) if core.ENG is None else SymByteArray(part)
                new = r.apply(i["P"] + i["off"], buf, i["P"])
                data = list(data[:r.offset]) + list(new) + list(data[r.offset + size:])
                for k, kd in enumerate(self.ks):
                    if kd == "s":
                        printed[k] = i["off"]
        except Exception as e:      # noqa: any error = operand combination rejected
            return ("rejected", type(e).__name__)
        return ("ok", list(data), printed, used, defined)

    # -- what the manual says the printed text means
    def imm_premise(self, i, printed):
        """documented ranges of the integer / label operands (outside: C10 decides whether encode must reject)"""
        cs = []
        for k, kd in enumerate(self.ks):
            if kd == "i" and self.spec["imm"]:
                cs.append(in_range(printed[k], self.spec["imm"]))
            if kd == "s" and self.spec["label"] == "pcrel":
                cs.append(in_range(printed[k], self.spec["imm"]))
        return sym_and(*cs) if cs else True

    def decode_matches(self, data, printed):
        """-> (mnemonic matches, operands match)"""
        if len(data) not in (2, 4):
            return False, False
        d = rv32.decode(le(data), len(data))
        base = self.spec["base"]
        m = d.is_(base)
        try:
            f = d.fields(base)
        except KeyError:
            return False, False
        cs = []
        for k, fields in enumerate(self.spec["pos"]):
            for fld in fields:
                cs.append(f[fld] == printed[k])
        for fld, v in self.spec["fixed"].items():
            cs.append(f[fld] == v)
        return m, (sym_and(*cs) if cs else True)


class PseudoHarness(EncodeHarness):
    """builds a pseudo-instruction with symbolic operands, expands it through the real render() and encodes
    every rendered instruction with the real encode()"""

    def __init__(self, arch, idx, cls, mn, ks, wide=0):
        self.arch, self.idx, self.cls, self.mn, self.ks = arch, idx, cls, mn, ks
        self.spec = PSEUDO_SPEC[(mn, ks)]
        self.wide = wide
        self.params = dict(arch=arch, idx=idx, cls=cls, mn=mn, ks=ks, wide=wide)
        self.name = f"{self.PREFIX}[{arch}:{cls}#{idx}:{mn}]"
        lo, hi, _ = self.spec["imm"]
        self.IMM_LO, self.IMM_HI = lo, hi

    def operand_inputs(self, mk):
        d = {}
        for k, kd in enumerate(self.ks):
            if kd == "r":
                d[f"r{k}"] = mk.int(f"r{k}", 0, 31)
            elif kd == "i":
                d[f"i{k}"] = mk.int(f"i{k}", self.IMM_LO, self.IMM_HI)
        return d

    def expand(self, i):
        """-> ("ok", [[bytes] per rendered instruction], printed, used, defined, printed after render)
              | ("rejected", exc name)"""
        from ppci.arch.riscv.registers import RiscvRegister
        from ppci.arch.registers import Register
        from ppci.arch.generic_instructions import ArtificialInstruction
        cls = self.the_class()
        args = []
        for k, kd in enumerate(self.ks):
            args.append(RiscvRegister(f"r{k}", num=i[f"r{k}"]) if kd == "r" else i[f"i{k}"])
        ins = cls(*args)

        def shown():
            out = []
            for a in cls.syntax.formal_arguments:
                v = getattr(ins, a._name)
                out.append(v.num if isinstance(v, Register) else v)
            return out
        printed = shown()
        used = [r.num for r in ins.used_registers if type(r) is RiscvRegister]
        defined = [r.num for r in ins.defined_registers if type(r) is RiscvRegister]
        defined += [r.num for r in ins.clobbers if type(r) is RiscvRegister]
        try:
            seq = []
            work = list(ins.render())
            while work:
                x = work.pop(0)
                if isinstance(x, ArtificialInstruction):
                    work = list(x.render()) + work
                    continue
                assert not x.relocations(), "rendered instruction needs a relocation"
                seq.append(list(x.encode()))
        except Exception as e:      # noqa
            return ("rejected", type(e).__name__)
        return ("ok", seq, printed, used, defined, shown())
