"""C24  IR -> Python backend executes IR semantics exactly (ppci/lang/python/ir2py.py).

Translation validation with the generated code ON PROXIES:
  * the REAL `ir_to_python` runs concretely on an IR module of a stated finite family (built with the real
    ppci.ir API, or produced by the real C front end / optimiser from corpus/cprogs.py);
  * the GENERATED Python source (runtime class IrPy with correct/idiv/irem/ishl/ishr, load_*/store_* over
    struct.pack/unpack on a bytearray heap, alloca/free, the block-switch loop, phi fill code) is exec()-ed and
    called with symbolic arguments; its heap holds symbolic initial contents of the globals and of a 16-byte
    buffer behind every pointer argument; external functions are stubs that record the call and hand back
    declared symbolic results;
  * oracle: ref/irsem.py on the same module, same arguments, same initial memory, evaluated under the address
    map the generated code chose (addresses are the implementation's choice);
  * per path the solver decides, under irsem's premise (no UB in the source execution): no exception, returned
    value equal (canonical signed/unsigned reading of the IR type), every byte of every global / caller buffer
    equal, external call trace equal.
The pure runtime helpers correct/idiv/irem are recompiled from their generated source with their sign tests
merged into if-then-else terms (symx.ifconv, extended mode): still the real code, but one path per operation.
"""
import os
import io
import sys
import linecache
import hashlib
from symx.harness import Harness
from symx import core, shims
from symx.core import sym_and, sym_or, sym_not, implies, SymInt, SymBool
from ref import irsem
from corpus import cprogs

PROPERTY = "C24"
LEVEL = "translation_validation"
JOB_TIMEOUT = {"quick": 280, "thorough": 1500}
PTR_BITS = 32            # ir2py loads/stores pointers as 4 bytes
MARCH = "arm"            # 32-bit target (pointer size 4), the one ppci's own Python-backend tests use
BUF_LEN = 16
MAX_EXT = 4
INT_TYPES = ["i8", "i16", "i32", "i64", "u8", "u16", "u32", "u64"]
BINOPS = ["+", "-", "*", "/", "%", "|", "&", "^", "<<", ">>", "rol", "ror"]

BOUNDS = {
    "quick": {"op family": "every Binop operator (12) x every integer type (8) + ptr + - *; unary - ~ x 8 types; every Cast pair of "
                           "{i8..u64, ptr} (81); load and store of every type (9) at a symbolic in-bounds offset into a 16-byte global "
                           "between two other globals; 12 store-T1/load-T2 aliasing pairs; 7 phi/CFG templates",
              "C corpus": "43 programs of corpus/cprogs.py + 12 programs of props/C24.py (EXTRA_PROGS) through the real C front end "
                          "(march arm), unoptimised; 15 loop/branch programs also after optimize level 2 (phis)",
              "symbolic": "all arguments (full range of the IR type), initial contents of globals (<= 32 bytes), 16 bytes behind "
                          "each pointer argument, 4 external call results",
              "unwinding": "140 IR instructions per execution (paths reaching it are cut and counted), at most 400 paths per program"},
    "thorough": {"op family": "same + all 64 store-T1/load-T2 integer pairs (+3 with ptr), the 7 phi/CFG templates at every integer type",
                 "C corpus": "every program unoptimised and at optimize levels 1, 2, s",
                 "symbolic": "as quick", "unwinding": "300 IR instructions, at most 1500 paths per program"}}
OUTSIDE = ["floating point: f32/f64 values, float<->integer casts (the float-to-integer rounding clause of the property is NOT covered; "
           "no symbolic float domain)",
           "blob-typed loads/stores, CopyBlob, JumpTable, InlineAsm (ir2py raises NotImplementedError or is not exercised)",
           "pointer-typed constants outside 0 .. 2**32-1, function pointers / indirect calls, external variables",
           "programs outside the stated families (in particular out-of-object pointer arithmetic and observing the address of a local); "
           "executions longer than the unwinding bound",
           "external functions that modify memory visible to the caller"]
ASSUMPTIONS = ["IR reference semantics ref/irsem.py (wrap-around, truncating / %, arithmetic >> on signed, rol/ror, casts, little-endian memory), "
               "pointer width 32 bits",
               "premise: the source execution is defined (no division by zero, no signed division overflow, shift count < width, accesses "
               "inside one live region, no read of Undefined)",
               "the reference is evaluated under the address map chosen by the generated code for globals, literals and caller buffers "
               "(their IrPy heap addresses); allocas live in the reference's own stack area, so the VALUE of a local's address "
               "(comparison with null / other objects, cast to integer) is not compared",
               "generated-code builtins on proxies: round(x) of an integer is x; hex(x) only builds assertion messages; "
               "the helpers correct/idiv/irem run from their generated source with pure sign tests merged (symx.ifconv)"]
SHIMS_USED = ["isinstance", "int", "bytes", "struct"]
RULE = ("one evaluation = one IR module: real ir_to_python once per path, generated code executed on proxies next to the reference "
        "semantics, results/memory/trace compared by the solver for all inputs; non-trivial = more than one path")


# C programs in addition to corpus/cprogs.py (memory through pointers of every width, negative pointer offsets,
# pointer comparison loops, string literals, 64-bit arithmetic on the 32-bit target, loop exits that read header phis)
EXTRA_PROGS = {
    "x_uchar_buf": ("int f(unsigned char *p, int i) { p[i & 7] = p[(i + 1) & 7] + 200; return p[i & 7] + (signed char)p[8]; }", "f"),
    "x_short_global": ("short g[4]; unsigned short h[2];\n"
                       "int f(int i, int v) { g[i & 3] = (short)v; h[i & 1] = (unsigned short)(v >> 3); return g[(i + 1) & 3] + h[0] - h[1]; }", "f"),
    "x_neg_index": ("int f(int *p, int i) { int *q = p + 2; q[-1] = q[-(i & 1)] + i; return q[-2] - q[-1] + p[1]; }", "f"),
    "x_ptr_loop": ("int f(int *p, int n) { int *e = p + (n & 3); int s = 0; while (p < e) { s += *p; p++; } return s; }", "f"),
    "x_ptr_diff": ("int f(int *p, int n) { int *a = p + (n & 3); int *b = p + ((n >> 2) & 3); return (int)(a - b) + (a == b) + (a >= b) * 2; }", "f"),
    "x_string_lit": ("int f(int i) { const char *s = \"hello\"; return s[i & 3] + s[4]; }", "f"),
    "x_llong": ("long long f(long long a, long long b, int c) { return a * b + (a >> 3) - (b << 2) + c; }", "f"),
    "x_ullong_cmp": ("unsigned long long f(unsigned long long a, long long b) { return (a > (unsigned long long)b) + (a >> 63) + (unsigned long long)(b < 0); }", "f"),
    "x_dowhile_phi": ("int f(int n) { int c = 0; do { if (n & 1) c = c + 3; n = n / 2; } while (n > 0 && c < 6); return c; }", "f"),
    "x_swap_loop": ("int f(int a, int b, int n) { n = n & 3; while (n > 0) { int t = a; a = b; b = t + 1; n--; } return a * 2 - b; }", "f"),
    "x_store_widths": ("char c; short s; int i; long long l;\n"
                       "int f(long long v) { c = (char)v; s = (short)v; i = (int)v; l = v; return c + s; }", "f"),
    "x_unsigned_divshift": ("unsigned f(unsigned a, unsigned b) { return (a / (b | 1)) + (a % (b | 1)) + (a >> (b & 31)) + (a << (b & 31)); }", "f"),
}


# programs of the shared corpus used here (a fixed list: the corpus grows with other properties' needs;
# tail_swap_gcd - recursion through a symbolic signed remainder - is left out: its path feasibility queries
# nest srem terms and do not finish inside the job budget.  store_load_alias_store indexes an array with an
# unconstrained int: out-of-object accesses are outside irsem's premise (pointer provenance))
CORPUS_PROGS = ['add_zero', 'addr_of_local', 'arith', 'calls', 'char_wrap', 'compound', 'const_fold', 'cse_candidates', 'divmod',
                'do_while', 'empty_branches', 'empty_else_chain', 'extern_calls', 'extern_order', 'for_break', 'global_array',
                'global_rw', 'ifelse', 'incdec', 'load_after_store', 'local_array', 'logic', 'long_arith', 'mixed_width',
                'negative_consts', 'nested_loops', 'pointer_arg', 'recursion', 'shifts', 'store_call_store',
                'store_load_alias_store', 'store_narrowload_store', 'struct', 'switch', 'tail_call', 'tail_pass_through',
                'tail_rotate3', 'tail_self', 'ternary', 'udivmod', 'ulong_arith', 'unsigned_cmp', 'while_sum']


def c_source(prog):
    if prog in EXTRA_PROGS:
        return EXTRA_PROGS[prog]
    src, entry, _ext = cprogs.PROGS[prog]
    return src, entry


# ---------------------------------------------------------------------------------------------------------
# IR modules of the op families, built with the real ppci.ir API
def _ty(name):
    from ppci import ir
    return getattr(ir, name)


class _Fn:
    def __init__(self, ret, params, name="f"):
        from ppci import ir
        self.ir = ir
        self.m = ir.Module("m")
        if ret is None:
            self.f = ir.Procedure(name, ir.Binding.GLOBAL)
        else:
            self.f = ir.Function(name, ir.Binding.GLOBAL, _ty(ret))
        self.m.add_function(self.f)
        self.p = []
        for n, t in params:
            p = ir.Parameter(n, _ty(t))
            self.f.add_parameter(p)
            self.p.append(p)

    def block(self, name):
        b = self.ir.Block(name)
        self.f.add_block(b)
        if self.f.entry is None:
            self.f.entry = b
        return b

    def var(self, name, size, value=None):
        v = self.ir.Variable(name, self.ir.Binding.GLOBAL, size, 1, value)
        self.m.add_variable(v)
        return v


def _emit(block, ins):
    block.add_instruction(ins)
    return ins


def _three_globals(fn):
    return fn.var("g0", 8), fn.var("g", 16), fn.var("g1", 8)


def build_module(spec):
    """-> (module, entry function name, {arg index: (lo, hi)} range overrides)"""
    from ppci import ir
    kind = spec["kind"]
    if kind == "binop":
        t = spec["ty"]
        fn = _Fn(t, [("a", t), ("b", t)])
        e = fn.block("entry")
        r = _emit(e, ir.Binop(fn.p[0], spec["op"], fn.p[1], "r", _ty(t)))
        _emit(e, ir.Return(r))
        return fn.m, "f", {}
    if kind == "unop":
        t = spec["ty"]
        fn = _Fn(t, [("a", t)])
        e = fn.block("entry")
        r = _emit(e, ir.Unop(spec["op"], fn.p[0], "r", _ty(t)))
        _emit(e, ir.Return(r))
        return fn.m, "f", {}
    if kind == "cast":
        fn = _Fn(spec["dst"], [("a", spec["src"])])
        e = fn.block("entry")
        r = _emit(e, ir.Cast(fn.p[0], "r", _ty(spec["dst"])))
        _emit(e, ir.Return(r))
        return fn.m, "f", {}
    if kind in ("load", "store", "storeload"):
        t = spec["ty"]
        size = 4 if t == "ptr" else _ty(t).bits // 8
        if kind == "load":
            fn = _Fn(t, [("off", "u32")])
        elif kind == "store":
            fn = _Fn(None, [("off", "u32"), ("v", t)])
        else:
            fn = _Fn(spec["ty2"], [("off", "u32"), ("v", t), ("off2", "u32")])
        g0, g, g1 = _three_globals(fn)
        e = fn.block("entry")
        c = _emit(e, ir.Cast(fn.p[0], "c", ir.ptr))
        a = _emit(e, ir.Binop(g, "+", c, "addr", ir.ptr))
        rng = {0: (0, 16 - size)}
        if kind == "load":
            v = _emit(e, ir.Load(a, "v", _ty(t)))
            _emit(e, ir.Return(v))
        elif kind == "store":
            _emit(e, ir.Store(fn.p[1], a))
            _emit(e, ir.Exit())
        else:
            t2 = spec["ty2"]
            size2 = 4 if t2 == "ptr" else _ty(t2).bits // 8
            _emit(e, ir.Store(fn.p[1], a))
            c2 = _emit(e, ir.Cast(fn.p[2], "c2", ir.ptr))
            a2 = _emit(e, ir.Binop(g, "+", c2, "addr2", ir.ptr))
            v2 = _emit(e, ir.Load(a2, "v2", _ty(t2)))
            _emit(e, ir.Return(v2))
            rng[2] = (0, 16 - size2)
        return fn.m, "f", rng
    if kind == "phi":
        return _phi_template(spec["name"], spec.get("ty", "i32"))
    if kind == "c":
        from ppci.api import c_to_ir, optimize
        src, entry = c_source(spec["prog"])
        m = c_to_ir(io.StringIO(src), MARCH)
        if spec.get("opt"):
            optimize(m, level=spec["opt"])
        return m, entry, {}
    raise KeyError(kind)


def _phi_template(name, t):
    from ppci import ir
    T = _ty(t)
    if name == "diamond":
        # x = a < b ? a + 1 : b - 1 ; y = (other way) ; return x ^ y  (two phis in the join block)
        fn = _Fn(t, [("a", t), ("b", t)])
        a, b = fn.p
        e, l, r, j = fn.block("entry"), fn.block("left"), fn.block("right"), fn.block("join")
        one = _emit(e, ir.Const(1, "one", T))
        _emit(e, ir.CJump(a, "<", b, l, r))
        x1 = _emit(l, ir.Binop(a, "+", one, "x1", T))
        _emit(l, ir.Jump(j))
        x2 = _emit(r, ir.Binop(b, "-", one, "x2", T))
        _emit(r, ir.Jump(j))
        x = _emit(j, ir.Phi("x", T))
        y = _emit(j, ir.Phi("y", T))
        x.set_incoming(l, x1)
        x.set_incoming(r, x2)
        y.set_incoming(l, b)
        y.set_incoming(r, a)
        res = _emit(j, ir.Binop(x, "^", y, "res", T))
        _emit(j, ir.Return(res))
        return fn.m, "f", {}
    if name == "swap":
        # n times (x, y) = (y, x): phis that read each other (parallel copy)
        fn = _Fn(t, [("a", t), ("b", t), ("n", "u8")])
        a, b, n = fn.p
        e, h, body, x_ = fn.block("entry"), fn.block("head"), fn.block("body"), fn.block("exit")
        zero = _emit(e, ir.Const(0, "zero", ir.u8))
        one = _emit(e, ir.Const(1, "one", ir.u8))
        _emit(e, ir.Jump(h))
        x = _emit(h, ir.Phi("x", T))
        y = _emit(h, ir.Phi("y", T))
        i = _emit(h, ir.Phi("i", ir.u8))
        _emit(h, ir.CJump(i, "<", n, body, x_))
        i2 = _emit(body, ir.Binop(i, "+", one, "i2", ir.u8))
        _emit(body, ir.Jump(h))
        x.set_incoming(e, a)
        x.set_incoming(body, y)
        y.set_incoming(e, b)
        y.set_incoming(body, x)
        i.set_incoming(e, zero)
        i.set_incoming(body, i2)
        d = _emit(x_, ir.Binop(x, "-", y, "d", T))
        _emit(x_, ir.Return(d))
        return fn.m, "f", {2: (0, 3)}
    if name == "exit_uses_phi":
        # do { x2 = x + 1 } while (x2 < b); return x   -- the exit block reads the phi of the loop header
        fn = _Fn(t, [("a", t), ("b", t)])
        a, b = fn.p
        e, h, x_ = fn.block("entry"), fn.block("head"), fn.block("exit")
        one = _emit(e, ir.Const(1, "one", T))
        _emit(e, ir.Jump(h))
        x = _emit(h, ir.Phi("x", T))
        x2 = _emit(h, ir.Binop(x, "+", one, "x2", T))
        _emit(h, ir.CJump(x2, "<", b, h, x_))
        x.set_incoming(e, a)
        x.set_incoming(h, x2)
        _emit(x_, ir.Return(x))
        return fn.m, "f", {0: (0, 3), 1: (0, 3)}
    if name == "two_succ_phis":
        # one block with a conditional jump to two different blocks that both have phis fed from it
        fn = _Fn(t, [("a", t), ("b", t)])
        a, b = fn.p
        e, m_, l, r = fn.block("entry"), fn.block("mid"), fn.block("left"), fn.block("right")
        one = _emit(e, ir.Const(1, "one", T))
        _emit(e, ir.CJump(a, "==", b, l, m_))
        s = _emit(m_, ir.Binop(a, "+", b, "s", T))
        _emit(m_, ir.CJump(s, ">", a, l, r))
        pl = _emit(l, ir.Phi("pl", T))
        pl.set_incoming(e, one)
        pl.set_incoming(m_, s)
        rl = _emit(l, ir.Binop(pl, "*", a, "rl", T))
        _emit(l, ir.Jump(r))
        pr = _emit(r, ir.Phi("pr", T))
        pr.set_incoming(m_, b)
        pr.set_incoming(l, rl)
        rr = _emit(r, ir.Binop(pr, "-", one, "rr", T))
        _emit(r, ir.Return(rr))
        return fn.m, "f", {}
    if name == "loop_sum":
        # s = 0; for (i = 0; i != n; i++) s += a;  return s   (two loop-carried phis, one constant input)
        fn = _Fn(t, [("a", t), ("n", "u8")])
        a, n = fn.p
        e, h, body, x_ = fn.block("entry"), fn.block("head"), fn.block("body"), fn.block("exit")
        zero = _emit(e, ir.Const(0, "zero", T))
        z8 = _emit(e, ir.Const(0, "z8", ir.u8))
        o8 = _emit(e, ir.Const(1, "o8", ir.u8))
        _emit(e, ir.Jump(h))
        s = _emit(h, ir.Phi("s", T))
        i = _emit(h, ir.Phi("i", ir.u8))
        _emit(h, ir.CJump(i, "!=", n, body, x_))
        s2 = _emit(body, ir.Binop(s, "+", a, "s2", T))
        i2 = _emit(body, ir.Binop(i, "+", o8, "i2", ir.u8))
        _emit(body, ir.Jump(h))
        s.set_incoming(e, zero)
        s.set_incoming(body, s2)
        i.set_incoming(e, z8)
        i.set_incoming(body, i2)
        _emit(x_, ir.Return(s))
        return fn.m, "f", {1: (0, 4)}
    if name == "phi_chain":
        # value of an earlier phi flows into a later phi through a straight-line block
        fn = _Fn(t, [("a", t), ("b", t)])
        a, b = fn.p
        e, l, j, k, z = fn.block("entry"), fn.block("left"), fn.block("join"), fn.block("k"), fn.block("z")
        _emit(e, ir.CJump(a, ">=", b, l, j))
        na = _emit(l, ir.Unop("-", a, "na", T))
        _emit(l, ir.Jump(j))
        p = _emit(j, ir.Phi("p", T))
        p.set_incoming(e, b)
        p.set_incoming(l, na)
        _emit(j, ir.CJump(p, "<", a, k, z))
        q0 = _emit(k, ir.Binop(p, "&", b, "q0", T))
        _emit(k, ir.Jump(z))
        q = _emit(z, ir.Phi("q", T))
        q.set_incoming(j, p)
        q.set_incoming(k, q0)
        r = _emit(z, ir.Binop(q, "|", p, "r", T))
        _emit(z, ir.Return(r))
        return fn.m, "f", {}
    if name == "undef_phi":
        # phi with an Undefined input on the edge that is never read afterwards
        fn = _Fn(t, [("a", t), ("b", t)])
        a, b = fn.p
        e, l, j, u, d = fn.block("entry"), fn.block("left"), fn.block("join"), fn.block("use"), fn.block("dont")
        und = _emit(e, ir.Undefined("und", T))
        _emit(e, ir.CJump(a, "<", b, l, j))
        v = _emit(l, ir.Binop(a, "*", b, "v", T))
        _emit(l, ir.Jump(j))
        p = _emit(j, ir.Phi("p", T))
        p.set_incoming(e, und)
        p.set_incoming(l, v)
        _emit(j, ir.CJump(a, "<", b, u, d))
        _emit(u, ir.Return(p))
        _emit(d, ir.Return(b))
        return fn.m, "f", {}
    raise KeyError(name)


PHI_TEMPLATES = ["diamond", "swap", "exit_uses_phi", "two_succ_phis", "loop_sum", "phi_chain", "undef_phi"]


# ---------------------------------------------------------------------------------------------------------
def find_function(module, name):
    for f in module.functions:
        if f.name == name:
            return f
    raise KeyError(name)


def ty_range(ty):
    n = irsem.bits_of(ty, PTR_BITS)
    if irsem.is_signed(ty):
        return -(1 << (n - 1)), (1 << (n - 1)) - 1
    return 0, (1 << n) - 1


def is_ptr(ty):
    return type(ty).__name__ == "PointerTyp"


def max_int_bits(module):
    n = 32
    for f in module.functions:
        for p in f.arguments:
            if getattr(p.ty, "is_integer", False):
                n = max(n, p.ty.bits)
        for b in f:
            for i in b:
                ty = getattr(i, "ty", None)
                if ty is not None and getattr(ty, "is_integer", False):
                    n = max(n, ty.bits)
    return n


def engine_width(module):
    """engine bit-vector width that holds every intermediate of the generated code: operands need n (+ sign) bits,
    sums n + 1, the unreduced results of * << rol ror up to 2n bits (a too small width is an EngineBound error, exit 3)"""
    w = max_int_bits(module) + 8
    for f in module.functions:
        for b in f:
            for i in b:
                if type(i).__name__ == "Binop" and i.operation in ("*", "<<", "rol", "ror"):
                    n = i.ty.bits if getattr(i.ty, "is_integer", False) else PTR_BITS
                    w = max(w, 2 * n + 8)
    return w


class GeneratedStepLimit(Exception):
    """the generated code executed far more lines than the reference execution has instructions"""


class _LineLimit:
    def __init__(self, filename, limit):
        self.filename = filename
        self.limit = limit
        self.n = 0

    def glob(self, frame, event, arg):
        if frame.f_code.co_filename == self.filename:
            return self.loc
        return None

    def loc(self, frame, event, arg):
        if event == "line":
            self.n += 1
            if self.n > self.limit:
                raise GeneratedStepLimit()
        return self.loc


def _round(x, *a):
    if type(x) in (SymInt, SymBool) and not a:
        return x
    return round(x, *a)


def _hex(x):
    if type(x) is SymInt:
        return "<sym>"
    return hex(x)


def load_generated(src, symbolic):
    """exec the generated source; -> (namespace, pseudo file name)"""
    # pseudo file name (never on disk; source served through linecache for symx.ifconv); shaped so that the
    # function tracer lists the executed generated functions as ppci.lang.python.ir2py_generated:*
    fname = "<generated-%s>/ppci/lang/python/ir2py_generated.py" % hashlib.sha1(src.encode()).hexdigest()[:12]
    linecache.cache[fname] = (len(src), None, src.splitlines(True), fname)
    ns = {"__name__": "irpy_generated"}
    if symbolic:
        ns.update(int=shims.int_shim, bytearray=shims.bytearray_shim, bytes=shims.bytes_shim, round=_round, hex=_hex)
    exec(compile(src, fname, "exec"), ns)
    if symbolic:
        from symx import ifconv
        ns["struct"] = shims.struct_shim
        cls = ns["IrPy"]
        for h in ("correct", "idiv", "irem"):
            fn = cls.__dict__.get(h)
            if fn is not None:
                setattr(cls, h, ifconv.convert(getattr(cls, h), extended=True))
    return ns, fname


def term_val(t, signed):
    """z3 term -> canonical python int / SymInt"""
    t = irsem.z3.simplify(t)
    if irsem.z3.is_bv_value(t):
        return t.as_signed_long() if signed else t.as_long()
    if irsem.z3.is_true(t):
        return True
    if irsem.z3.is_false(t):
        return False
    if core.ENG is None:
        raise irsem.Unsupported(f"non-constant term in concrete mode: {t}")
    if irsem.z3.is_bool(t):
        return SymBool(t)
    return core.from_bv(t, signed=signed)


def _is_num(x):
    return type(x) in (int, bool, SymInt, SymBool)


def same_value(ty, py, ref):
    """generated value vs canonical reference value of IR type ty -> (equal modulo 2**bits, canonical representation).
    Stated in two parts so that the first is an n-bit obligation (the 2n+8-bit engine terms simplify away)."""
    if not _is_num(py):
        return False, False
    if is_ptr(ty):
        return (py & 0xFFFFFFFF) == ref, sym_and(py >= 0, py <= 0xFFFFFFFF)
    n = ty.bits
    lo, hi = ty_range(ty)
    if core.ENG is None or not (core.is_sym(py) or core.is_sym(ref)):
        return (int(py) - int(ref)) % (1 << n) == 0, lo <= py <= hi
    return SymBool(core.to_bv(py, n) == core.to_bv(ref, n)), sym_and(py >= lo, py <= hi)


class Ir2PyHarness(Harness):
    max_paths = 400
    max_decisions = 300
    cut_allowance = 10 ** 6      # loop unwinding cuts are expected and counted
    timeout_ms = 30000
    prove_timeout_ms = 20000
    prove_fresh_smt = "both"     # the cvc5 fallback tries the original assertions and z3's preprocessed solver state
    shim_modules = ()

    def __init__(self, spec):
        self.spec = spec
        self.params = dict(spec=spec)
        self.name = "ir2py[" + ",".join(f"{k}={v}" for k, v in spec.items()) + "]"
        m = build_module(spec)[0]
        self.W = engine_width(m)
        if os.environ.get("VERIF_TIER_ACTIVE", "quick") != "quick":
            self.max_paths = 1500
        if any(type(x).__name__ == "Binop" and x.operation in ("/", "%") and irsem.is_signed(x.ty)
               for f in m.functions for b in f for x in b):
            self.prove_timeout_ms = 4000     # sdiv/srem against |a| udiv |b|: z3 gives up, cvc5 (bit-vectors as integers) decides

    # -- inputs -------------------------------------------------------------------------------------------
    def inputs(self, mk):
        if core.ENG is not None and hasattr(core.ENG, "lemma"):
            # the engine's redundant division lemmas (valid facts, meant as solver hints) put a bit-blasted 64-bit
            # divider into every feasibility query of this harness; not recording them changes no verdict
            core.ENG.lemma = lambda c: None
        module, entry, ranges = build_module(self.spec)
        f = find_function(module, entry)
        raw = self.spec["kind"] != "c"
        args, bufs = [], {}
        for k, p in enumerate(f.arguments):
            if is_ptr(p.ty) and not raw:
                bufs[f"buf{k}"] = [mk.int(f"buf{k}[{j}]", 0, 255) for j in range(BUF_LEN)]
                args.append(("ptr", f"buf{k}"))
            else:
                lo, hi = ranges.get(k) or ty_range(p.ty)
                args.append(("int", mk.int(f"arg{k}", lo, hi)))
        glob = {}
        for v in module.variables:
            if v.value is None and v.amount <= 32:
                glob[v.name] = [mk.int(f"{v.name}[{j}]", 0, 255) for j in range(v.amount)]
        ext = []
        rbits = [irsem.bits_of(e.return_ty, PTR_BITS) for e in getattr(module, "externals", []) if hasattr(e, "return_ty")]
        if rbits:
            n = max(rbits)      # both readings (signed / unsigned) of the widest external result type
            ext = [mk.int(f"ext{k}", -(1 << (n - 1)), (1 << n) - 1) for k in range(MAX_EXT)]
        return dict(module=module, entry=entry, args=args, bufs=bufs, glob=glob, ext=ext)

    # -- run ----------------------------------------------------------------------------------------------
    def run(self, i):
        from ppci.lang.python import ir_to_python
        module, entry = i["module"], i["entry"]
        f = find_function(module, entry)
        symbolic = core.ENG is not None
        res = dict(status="ok")
        out = io.StringIO()
        try:
            ir_to_python([module], out)
        except NotImplementedError as e:
            res["status"] = "not-generated:NotImplementedError"
            return res
        except (core.Abort, core.PathCut, core.EngineError):
            raise
        except Exception as e:
            res["status"] = "generator-error:" + type(e).__name__
            return res
        src = out.getvalue()
        try:
            ns, fname = load_generated(src, symbolic)
        except SyntaxError:
            res["status"] = "generated-code-does-not-load:SyntaxError"
            return res
        rt = ns["rt"]
        heap0 = rt.HEAP_START
        # -- initial memory of the generated program: globals, then one buffer per pointer argument
        layout = {}
        for v in module.variables:
            layout[v.name] = ns[v.name]
            if v.name in i["glob"]:
                base = ns[v.name] - heap0
                for j, b in enumerate(i["glob"][v.name]):
                    rt.heap[base + j] = b
        for fn_ in module.functions:
            for b_ in fn_:
                for x_ in b_:
                    if type(x_).__name__ == "LiteralData":
                        layout[f"{fn_.name}_{x_.name}"] = ns[f"{fn_.name}_{x_.name}"]
        for name, data in i["bufs"].items():
            layout[name] = rt.heap_top()
            rt.heap.extend(list(data))
        # -- reference first (its unwinding bound cuts long executions before the generated loop spins)
        ms = 140 if os.environ.get("VERIF_TIER_ACTIVE", "quick") == "quick" else 300
        try:
            sem = irsem.IrSem(module, ptr_bits=PTR_BITS, ext_results=i["ext"], max_steps=ms, init_globals=i["glob"],
                              buffers=i["bufs"], layout=layout)
            argv = []
            for (kind, v), p in zip(i["args"], f.arguments):
                if kind == "ptr":
                    argv.append(irsem.z3.BitVecVal(layout[v], PTR_BITS))
                else:
                    argv.append(irsem.bvv(v, irsem.bits_of(p.ty, PTR_BITS)))
            try:
                r = sem.call(f, argv)
            except irsem.StepLimit as e:
                raise core.PathCut(str(e))
            rty = getattr(f, "return_ty", None)
            res["ref_ret"] = None if r is None else term_val(r, irsem.is_signed(rty))
            res["ref_mem"] = {k: [term_val(b, False) for b in bs] for k, bs in sorted(sem.visible_memory().items())}
            extty = {e.name: e for e in getattr(module, "externals", [])}
            res["ref_trace"] = [(n, [term_val(a, irsem.is_signed(t)) for a, t in zip(args, extty[n].argument_types)])
                                for n, args in sem.trace]
            res["premise"] = term_val(sem.premise(), False)
        except irsem.Unsupported as e:
            res["status"] = "reference-unsupported:" + str(e)[:60]
            return res
        # -- the generated code
        trace = []
        results = list(i["ext"])

        def stub(e):
            def call(*a):
                trace.append((e.name, list(a)))
                rty = getattr(e, "return_ty", None)
                if rty is None:
                    return None
                if not results:
                    raise core.PathCut("more external calls than declared results")
                v = results.pop(0)
                n = irsem.bits_of(rty, PTR_BITS)
                return term_val(irsem.bvv(v, n), irsem.is_signed(rty))
            return call
        for e in getattr(module, "externals", []):
            if hasattr(e, "argument_types"):
                rt.externals[e.name] = stub(e)
        pyargs = [layout[v] if kind == "ptr" else v for kind, v in i["args"]]
        lim = _LineLimit(fname, 60 * ms + 2000)
        old = sys.gettrace()
        sys.settrace(lim.glob)
        try:
            try:
                res["py_ret"] = ns[entry](*pyargs)
                res["py_exc"] = None
            finally:
                sys.settrace(old)
        except (core.Abort, core.PathCut, core.EngineError):
            raise
        except Exception as e:
            res["py_ret"] = None
            res["py_exc"] = type(e).__name__
        res["py_mem"] = {}
        for name in sorted(res["ref_mem"]):
            base = layout[name] - heap0
            res["py_mem"][name] = [rt.heap[base + j] for j in range(len(res["ref_mem"][name]))]
        res["py_trace"] = trace
        res["py_stack"] = len(rt.stack)
        return res

    # -- post ---------------------------------------------------------------------------------------------
    def post(self, i, out):
        if not out.ok:
            return {"harness-ran": False}
        v = out.value
        st = v["status"]
        if st != "ok":
            if st.startswith("not-generated") or st.startswith("reference-unsupported"):
                return {"not-comparable(" + st[:50] + ")": True}
            return {st.split(":")[0]: False}
        module = i["module"]
        f = find_function(module, i["entry"])
        prem = v["premise"]
        posts = {"no-exception": implies(prem, v["py_exc"] is None)}
        if v["py_exc"] is not None:
            return posts
        rty = getattr(f, "return_ty", None)
        if rty is None:
            posts["return-value"] = v["py_ret"] is None
        else:
            eq, canon = same_value(rty, v["py_ret"], v["ref_ret"])
            posts["return-value"] = implies(prem, eq)
            posts["return-value-canonical"] = implies(prem, canon)
        conds = []
        for name, bs in v["ref_mem"].items():
            conds += [a == b for a, b in zip(v["py_mem"][name], bs)]
        posts["memory"] = implies(prem, sym_and(*conds)) if conds else True
        if v["ref_trace"] or v["py_trace"]:
            extty = {e.name: e for e in getattr(module, "externals", [])}
            ok = [n for n, _ in v["ref_trace"]] == [n for n, _ in v["py_trace"]]
            conds = []
            if ok:
                for (n, a1), (_, a2) in zip(v["py_trace"], v["ref_trace"]):
                    if len(a1) != len(a2):
                        ok = False
                        break
                    for x, y, t in zip(a1, a2, extty[n].argument_types):
                        conds += list(same_value(t, x, y))
            posts["external-calls"] = implies(prem, sym_and(ok, *conds))
        return posts


def mk_ir2py(**kw):
    return Ir2PyHarness(kw["spec"])


# ---------------------------------------------------------------------------------------------------------
LOOPY = ["while_sum", "for_break", "do_while", "nested_loops", "ifelse", "ternary", "logic", "switch", "recursion", "tail_self",
         "x_ptr_loop", "x_dowhile_phi", "x_swap_loop", "x_neg_index", "x_short_global"]
# unoptimised `a / b + a % b` goes through alloca stores/loads (byte packing) around sdiv AND srem: only cvc5 on z3's
# preprocessed form decides it, after two 120 s attempts -> thorough tier only; quick takes the optimised module
QUICK_OPT_ONLY = ["divmod"]
ALIAS_QUICK = [("u32", "u8"), ("u8", "u32"), ("i16", "i8"), ("i8", "i16"), ("u64", "i16"), ("i16", "u64"), ("i32", "u16"),
               ("u16", "i32"), ("i64", "i32"), ("i32", "i64"), ("ptr", "u8"), ("u16", "ptr")]


def jobs(tier, seed):
    specs = []
    for t in INT_TYPES:
        for op in BINOPS:
            specs.append(dict(kind="binop", op=op, ty=t))
        for op in ("-", "~"):
            specs.append(dict(kind="unop", op=op, ty=t))
    for op in ("+", "-", "*"):
        specs.append(dict(kind="binop", op=op, ty="ptr"))
    for s in INT_TYPES + ["ptr"]:
        for d in INT_TYPES + ["ptr"]:
            specs.append(dict(kind="cast", src=s, dst=d))
    for t in INT_TYPES + ["ptr"]:
        specs.append(dict(kind="load", ty=t))
        specs.append(dict(kind="store", ty=t))
    if tier == "quick":
        pairs = ALIAS_QUICK
    else:
        pairs = [(a, b) for a in INT_TYPES for b in INT_TYPES] + [("ptr", "u8"), ("u16", "ptr"), ("ptr", "ptr")]
    for a, b in pairs:
        specs.append(dict(kind="storeload", ty=a, ty2=b))
    for n in PHI_TEMPLATES:
        specs.append(dict(kind="phi", name=n, ty="i32"))
        if tier != "quick":
            for t in INT_TYPES:
                if t != "i32":
                    specs.append(dict(kind="phi", name=n, ty=t))
    for p in [q for q in CORPUS_PROGS if q in cprogs.PROGS] + sorted(EXTRA_PROGS):
        if tier != "quick" or p not in QUICK_OPT_ONLY:
            specs.append(dict(kind="c", prog=p, opt=None))
        if tier != "quick" or p in LOOPY or p in QUICK_OPT_ONLY:
            specs.append(dict(kind="c", prog=p, opt="2"))
        if tier != "quick":
            specs.append(dict(kind="c", prog=p, opt="1"))
            specs.append(dict(kind="c", prog=p, opt="s"))
    js = [("mk_ir2py", dict(spec=s)) for s in specs]
    only = os.environ.get("VERIF_ONLY")
    if only:
        js = [j for j in js if only in repr(j)]
    return js
