"""Reference semantics of a small C subset (whole functions), executable on z3 terms and on plain values.

Independent of ppci (no ppci imports).  Programs are plain JSON-able data (nested lists / dicts, see
"Program format"); this module
  * renders a program to C source text (`render_program`),
  * checks that a program stays inside the subset whose meaning is fixed by the standard independent of
    evaluation order (`check_program`: unsequenced side effects, 6.5p2; at most one call per unsequenced
    region, 6.5.2.2p10),
  * executes it (`CSem`): values are z3 bit-vectors of the width of their C type, so the same code runs on
    symbolic inputs (branches fork through the active symx engine) and on concrete ones.

Source: ISO/IEC 9899:2011 (C11)
  6.2.5/6.3.1.1 integer types, ranks, integer promotions     6.3.1.3 integer conversions
  6.3.1.8 usual arithmetic conversions                        6.3.2.1 lvalue conversion, array decay
  6.4.4.1 type of a decimal integer constant (first of int, long, long long that fits; with u: unsigned
          int, unsigned long, unsigned long long; l/ul/ll/ull analogously)
  6.5.2.1 subscripting a[i] == *(a+i)   6.5.2.2 calls (arguments converted as if by assignment)
  6.5.2.3 . and ->      6.5.2.4/6.5.3.1 ++ -- (postfix: value before; as if += 1)
  6.5.3.2 & *           6.5.3.3 + - ~ !        6.5.4 casts       6.5.5 * / % (truncation toward zero;
          a/b not representable => both / and % undefined)       6.5.6 + - incl. pointer arithmetic
          (result must stay inside the array object or one past it; p-q: both in the same array object,
          result ptrdiff_t)     6.5.7 shifts (operands promoted separately; result type = promoted LEFT
          operand; count negative or >= width undefined; E1<<E2 signed: E1 negative or E1*2**E2 not
          representable undefined)   6.5.8/9 relational/equality (int 0/1; pointers: same object)
  6.5.10-12 & ^ |       6.5.13/14 && || (sequence point, right operand not evaluated when decided)
  6.5.15 ?:             6.5.16 assignment (value converted to the type of the left operand; E1 op= E2 is
          E1 = E1 op (E2) with E1 evaluated once)                6.5.17 comma
  6.5p5 signed overflow undefined      6.7.9 initialisation (missing elements zero; no initialiser for an
          automatic object: indeterminate, reading it is undefined here)
  6.8.4 if / switch (controlling expression promoted, case constants converted to the promoted type)
  6.8.5 while / do / for      6.8.6 break / continue / return (value converted to the return type; using the
          value of a call that fell off the end is undefined, 6.9.1p12)

Implementation-defined choices (stated, common to gcc/clang and to ppci's documentation): two's
complement; conversion of an out-of-range value to a signed type reduces modulo 2**N (6.3.1.3p3);
>> of a negative value is an arithmetic shift (6.5.7p5); plain char is signed; type sizes, alignments
(natural) and byte order come from the `Model`; ptrdiff_t / size_t are the signed / unsigned integer
types of pointer width.

Undefined behaviour is collected in `CSem.ub` (z3 Bools, a PREMISE of the property, never a failure).

Program format (JSON-able)
  program  = {"structs": {name: [[field, type], ...]}, "globals": [[name, type, init], ...],
              "externs": [[name, rettype, [paramtype, ...]], ...],
              "funcs": [[name, rettype, [[pname, ptype], ...], [stmt, ...]], ...]}
  type     = "char"|"schar"|"uchar"|"short"|"ushort"|"int"|"uint"|"long"|"ulong"|"llong"|"ullong"|"void"
             | ["ptr", type] | ["arr", type, n] | ["struct", name]
  init     = None | int (may be negative) | [int, ...] (array elements / struct fields in order)
  expr     = ["var", name] | ["lit", value>=0, suffix] | ["un", op, e] (neg inv lnot pos)
             | ["bin", op, a, b] (add sub mul div mod shl shr band bor bxor lt le gt ge eq ne land lor comma)
             | ["cast", type, e] | ["cond", c, a, b] | ["assign", op|"", lvalue, e]
             | ["incdec", "preinc"|"predec"|"postinc"|"postdec", lvalue]
             | ["index", a, i] | ["field", e, name] | ["arrow", e, name] | ["deref", e] | ["addr", lvalue]
             | ["call", fname, [e, ...]] | ["sizeof", type]
  stmt     = ["expr", e] | ["decl", type, name, None | e | ["list", [e, ...]]] | ["if", c, s, s|None]
             | ["while", c, s] | ["do", s, c] | ["for", stmt|None, c|None, e|None, s] | ["break"] | ["continue"]
             | ["return", e|None] | ["block", [stmt, ...]]
             | ["switch", e, [item, ...]]   item = ["case", int] | ["default"] | stmt
"""
import z3
from symx import core
from ref import csem

INT_TYPES = ("char", "schar", "uchar", "short", "ushort", "int", "uint", "long", "ulong", "llong", "ullong")
SPELL = dict(csem.SPELL)
SPELL["schar"] = "signed char"
SPELL["void"] = "void"
UNOPS = {"neg": "-", "inv": "~", "lnot": "!", "pos": "+"}
BINOPS = dict(csem.BINOPS)
BINOPS["comma"] = ","
ARITH = ("add", "sub", "mul", "div", "mod", "band", "bor", "bxor")
SHIFTS = ("shl", "shr")
CMPS = ("lt", "le", "gt", "ge", "eq", "ne")
INCDEC = {"preinc": ("++", True, "add"), "predec": ("--", True, "sub"),
          "postinc": ("++", False, "add"), "postdec": ("--", False, "sub")}


class Unsupported(Exception):
    """program outside the modelled subset (a generator bug, never a verdict)"""


class StepLimit(Exception):
    """unwinding bound reached"""


# ---------------------------------------------------------------------------------------------------
class Model:
    """data model of a target: csem.DataModel (integer sizes, char signedness) + pointer size;
    alignment of every scalar = its size (natural alignment) unless the target's ABI says otherwise (`aligns`)"""

    def __init__(self, name, dm, ptr_bytes, aligns=None):
        self.name = name
        self.dm = dm
        self.ptr_bytes = ptr_bytes
        self.ptr_bits = 8 * ptr_bytes
        self.aligns = dict(aligns or {})     # base type name / "ptr" -> alignment, where it is not the size
        by_size = {dm.size(t): t for t in ("llong", "long", "int")}   # the lowest rank >= int wins
        self.ptrdiff_t = by_size[ptr_bytes]
        self.size_t = "u" + self.ptrdiff_t

    @staticmethod
    def _b(t):
        return "char" if t == "schar" else t

    def bits(self, t):
        return self.dm.bits(self._b(t))

    def size(self, t):
        return self.dm.size(self._b(t))

    def signed(self, t):
        return True if t == "schar" else self.dm.signed(t)

    def promote(self, t):
        return self.dm.promote(self._b(t))

    def uac(self, a, b):
        return self.dm.uac(self._b(a), self._b(b))

    def lo(self, t):
        return self.dm.lo(self._b(t))

    def hi(self, t):
        return self.dm.hi(self._b(t))

    def align(self, t):
        if t == "ptr":
            return self.aligns.get("ptr", self.ptr_bytes)
        b = csem._BASE[self._b(t)]
        return self.aligns.get(b, self.dm.size(b))

    def lit_type(self, value, suffix):
        """6.4.4.1p5, decimal constants"""
        s = suffix.lower()
        cands = {"": ("int", "long", "llong"), "u": ("uint", "ulong", "ullong"), "l": ("long", "llong"),
                 "ul": ("ulong", "ullong"), "ll": ("llong",), "ull": ("ullong",)}[s]
        for t in cands:
            if value <= self.hi(t):
                return t
        raise Unsupported(f"literal {value}{suffix} has no type")


LP64 = Model("lp64", csem.LP64, 8)
ILP32 = Model("ilp32", csem.ILP32, 4)
IP16 = Model("ip16", csem.IP16, 2, aligns={"long": 2})     # msp430 EABI: 32-bit objects are 2-byte aligned


def T(t):
    """normalise a JSON type (lists) to a hashable one (tuples)"""
    if isinstance(t, (list, tuple)):
        return tuple(T(x) if isinstance(x, (list, tuple)) else x for x in t)
    return t


def is_int(t):
    return isinstance(t, str) and t in INT_TYPES


def is_ptr(t):
    return isinstance(t, tuple) and t[0] == "ptr"


def is_arr(t):
    return isinstance(t, tuple) and t[0] == "arr"


def is_struct(t):
    return isinstance(t, tuple) and t[0] == "struct"


# ---------------------------------------------------------------------------------------------------
# rendering
def type_text(t, name=""):
    t = T(t)
    if isinstance(t, str):
        return (SPELL[t] + " " + name).strip()
    if t[0] == "ptr":
        return type_text(t[1], "*" + name)
    if t[0] == "arr":
        return type_text(t[1], f"{name}[{t[2]}]")
    if t[0] == "struct":
        return (f"struct {t[1]} " + name).strip()
    raise Unsupported(str(t))


def render_expr(e):
    k = e[0]
    if k == "var":
        return e[1]
    if k == "lit":
        return f"{e[1]}{e[2]}"
    if k == "un":
        return f"({UNOPS[e[1]]} {render_expr(e[2])})"
    if k == "bin":
        return f"({render_expr(e[2])} {BINOPS[e[1]]} {render_expr(e[3])})"
    if k == "cast":
        return f"(({type_text(e[1])}){render_expr(e[2])})"
    if k == "cond":
        return f"({render_expr(e[1])} ? {render_expr(e[2])} : {render_expr(e[3])})"
    if k == "assign":
        op = BINOPS[e[1]] if e[1] else ""
        return f"({render_expr(e[2])} {op}= {render_expr(e[3])})"
    if k == "incdec":
        tok, pre, _ = INCDEC[e[1]]
        return f"({tok}{render_expr(e[2])})" if pre else f"({render_expr(e[2])}{tok})"
    if k == "index":
        return f"{render_expr(e[1])}[{render_expr(e[2])}]"
    if k == "field":
        return f"{render_expr(e[1])}.{e[2]}"
    if k == "arrow":
        return f"{render_expr(e[1])}->{e[2]}"
    if k == "deref":
        return f"(*{render_expr(e[1])})"
    if k == "addr":
        return f"(&{render_expr(e[1])})"
    if k == "call":
        return f"{e[1]}({', '.join(render_expr(a) for a in e[2])})"
    if k == "sizeof":
        return f"sizeof({type_text(e[1])})"
    raise Unsupported(f"expression {k}")


def _init_text(init):
    if isinstance(init, list) and init and init[0] == "list":
        return "{" + ", ".join(render_expr(x) for x in init[1]) + "}"
    return render_expr(init)


def render_stmt(s, ind="  "):
    k = s[0]
    if k == "expr":
        return f"{ind}{render_expr(s[1])};\n"
    if k == "decl":
        txt = type_text(s[1], s[2])
        if s[3] is not None:
            txt += " = " + _init_text(s[3])
        return f"{ind}{txt};\n"
    if k == "if":
        # a then-branch that could capture the else (dangling else) is braced; every other sub-statement is rendered
        # as written in the AST: a "block" with braces, anything else as a bare statement
        then = s[2]
        if s[3] is not None and then[0] not in ("expr", "return", "break", "continue", "block"):
            then = _blk(then)
        r = f"{ind}if ({render_expr(s[1])})\n" + _sub(then, ind)
        if s[3] is not None:
            r += f"{ind}else\n" + _sub(s[3], ind)
        return r
    if k == "while":
        return f"{ind}while ({render_expr(s[1])})\n" + _sub(s[2], ind)
    if k == "do":
        return f"{ind}do\n" + _sub(s[1], ind) + f"{ind}while ({render_expr(s[2])});\n"
    if k == "for":
        init = render_stmt(s[1], "").strip() if s[1] is not None else ";"
        c = render_expr(s[2]) if s[2] is not None else ""
        p = render_expr(s[3]) if s[3] is not None else ""
        return f"{ind}for ({init} {c}; {p})\n" + _sub(s[4], ind)
    if k == "break":
        return f"{ind}break;\n"
    if k == "continue":
        return f"{ind}continue;\n"
    if k == "return":
        return f"{ind}return{' ' + render_expr(s[1]) if s[1] is not None else ''};\n"
    if k == "block":
        return f"{ind}{{\n" + "".join(render_stmt(x, ind + "  ") for x in s[1]) + f"{ind}}}\n"
    if k == "switch":
        r = f"{ind}switch ({render_expr(s[1])}) {{\n"
        for it in s[2]:
            if it[0] == "case":
                v = it[1]
                r += f"{ind}case {v if v >= 0 else '(' + str(v) + ')'}:\n"
            elif it[0] == "default":
                r += f"{ind}default:\n"
            else:
                r += render_stmt(it, ind + "  ")
        return r + f"{ind}  ;\n{ind}}}\n"
    raise Unsupported(f"statement {k}")


def _blk(s):
    return s if s[0] == "block" else ["block", [s]]


def _sub(s, ind):
    """sub-statement of if / while / do / for: braces only where the AST has a block"""
    if s[0] == "block":
        return render_stmt(s, ind)
    if s[0] == "decl":
        raise Unsupported("a declaration is not a statement (must be inside a block)")
    return render_stmt(s, ind + "  ")


def _ginit_text(init):
    if isinstance(init, list):
        return "{" + ", ".join(str(x) for x in init) + "}"
    return str(init)


def render_program(p):
    out = []
    for name, fields in p.get("structs", {}).items():
        out.append(f"struct {name} {{ " + " ".join(type_text(t, f) + ";" for f, t in fields) + " };\n")
    for name, t, init in p.get("globals", []):
        out.append(type_text(t, name) + ("" if init is None else " = " + _ginit_text(init)) + ";\n")
    for name, rt, pts in p.get("externs", []):
        out.append(f"{type_text(rt)} {name}({', '.join(type_text(t) for t in pts) or 'void'});\n")
    for name, rt, params, body in p["funcs"]:
        ps = ", ".join(type_text(t, n) for n, t in params) or "void"
        out.append(f"{type_text(rt)} {name}({ps})\n{{\n" + "".join(render_stmt(s) for s in body) + "}\n")
    return "".join(out)


# ---------------------------------------------------------------------------------------------------
# static discipline: the meaning must not depend on the unspecified order of evaluation
def _effects(e, p, wr, rd, calls, seen=frozenset()):
    """collect variables possibly written / read and call count of expression e (callee bodies: the globals
    they write or read, transitively)"""
    k = e[0]
    if k == "var":
        rd.add(e[1])
    elif k in ("lit", "sizeof"):
        pass
    elif k == "assign":
        _lv_root(e[2], p, wr, rd, calls, write=True, read=bool(e[1]), seen=seen)
        _effects(e[3], p, wr, rd, calls, seen)
    elif k == "incdec":
        _lv_root(e[2], p, wr, rd, calls, write=True, read=True, seen=seen)
    elif k == "call":
        calls.append(e[1])
        for a in e[2]:
            _effects(a, p, wr, rd, calls, seen)
        w2, r2 = _func_effects(e[1], p, seen)
        wr |= w2
        rd |= r2
    else:
        for x in e[1:]:
            if isinstance(x, list) and x and isinstance(x[0], str) and x[0] in _EXPR_KINDS:
                _effects(x, p, wr, rd, calls, seen)


_EXPR_KINDS = {"var", "lit", "un", "bin", "cast", "cond", "assign", "incdec", "index", "field", "arrow", "deref",
               "addr", "call", "sizeof"}


def _lv_root(lv, p, wr, rd, calls, write, read, seen=frozenset(), sub=True):
    """an lvalue expression being written: its root variable (or '*' for anything reached through a pointer)"""
    k = lv[0]
    if k == "var":
        if write:
            wr.add(lv[1])
        if read:
            rd.add(lv[1])
    elif k in ("index", "deref", "arrow"):
        root = lv[1]
        if k == "index" and root[0] == "var" and root[1] in _array_names(p):
            # element of a named array object
            if write:
                wr.add(root[1])
            if read:
                rd.add(root[1])
        else:
            # through a pointer: the accessed object is not known statically ('*' = some aliasable object)
            if write:
                wr.add("*")
            if read:
                rd.add("*")
        if sub:
            for x in lv[1:]:
                if isinstance(x, list):
                    _effects(x, p, wr, rd, calls, seen)
    elif k == "field":
        _lv_root(lv[1], p, wr, rd, calls, write, read, seen, sub)
    else:
        raise Unsupported(f"lvalue {k}")


def _func_effects(name, p, seen=frozenset()):
    if name in seen:
        return set(), set()
    seen = seen | {name}
    for f in p["funcs"]:
        if f[0] == name:
            wr, rd, calls = set(), set(), []
            for s in f[3]:
                _stmt_exprs(s, lambda e: _effects(e, p, wr, rd, calls, seen))
            gl = {g[0] for g in p.get("globals", [])} | {"*"}
            return wr & gl, rd & gl
    return set(), set()       # external: assumed not to touch the program's objects


def _stmt_exprs(s, fn):
    k = s[0]
    if k == "expr":
        fn(s[1])
    elif k == "decl":
        if s[3] is not None:
            if s[3][0] == "list":
                for x in s[3][1]:
                    fn(x)
            else:
                fn(s[3])
    elif k == "if":
        fn(s[1])
        _stmt_exprs(s[2], fn)
        if s[3] is not None:
            _stmt_exprs(s[3], fn)
    elif k == "while":
        fn(s[1])
        _stmt_exprs(s[2], fn)
    elif k == "do":
        _stmt_exprs(s[1], fn)
        fn(s[2])
    elif k == "for":
        if s[1] is not None:
            _stmt_exprs(s[1], fn)
        if s[2] is not None:
            fn(s[2])
        if s[3] is not None:
            fn(s[3])
        _stmt_exprs(s[4], fn)
    elif k == "return":
        if s[1] is not None:
            fn(s[1])
    elif k == "block":
        for x in s[1]:
            _stmt_exprs(x, fn)
    elif k == "switch":
        fn(s[1])
        for it in s[2]:
            if it[0] not in ("case", "default"):
                _stmt_exprs(it, fn)


def _calls_external(name, p, seen=None):
    """does calling `name` (transitively) reach an external function (= is visible in the call trace)?"""
    seen = seen or set()
    if name in seen:
        return False
    seen.add(name)
    for f in p["funcs"]:
        if f[0] == name:
            calls = []
            for s in f[3]:
                _stmt_exprs(s, lambda e: _effects(e, p, set(), set(), calls, frozenset(seen)))
            return any(_calls_external(c, p, seen) for c in calls)
    return True


_INFO = {}


def _prog_info(p):
    """(names of array objects, names an access through a pointer may designate): globals, arrays, structs and
    every variable whose address is taken somewhere in the program (names are not distinguished by scope:
    conservative)"""
    key = id(p)
    hit = _INFO.get(key)
    if hit is not None and hit[0] is p:
        return hit[1]
    arrays, alias = set(), set()
    for name, t, _ in p.get("globals", []):
        alias.add(name)
        if is_arr(T(t)):
            arrays.add(name)

    def walk(x):
        if isinstance(x, list) and x:
            if x[0] == "decl" and len(x) == 4:
                t = T(x[1])
                if is_arr(t):
                    arrays.add(x[2])
                    alias.add(x[2])
                elif is_struct(t):
                    alias.add(x[2])
            if x[0] == "addr":
                y = x[1]
                while isinstance(y, list) and y[0] in ("field", "index"):
                    y = y[1]
                if isinstance(y, list) and y[0] == "var":
                    alias.add(y[1])
            for y in x:
                walk(y)
    for f in p["funcs"]:
        walk(f[3])
    if len(_INFO) > 64:
        _INFO.clear()
    _INFO[key] = (p, (arrays, alias))
    return arrays, alias


def _array_names(p):
    return _prog_info(p)[0]


def _interferes(w, x, p):
    """writes w against accesses x ('*' = some object reached through a pointer: may designate any aliasable
    object, never a scalar variable whose address is not taken)"""
    if not w or not x:
        return False
    alias = _prog_info(p)[1]
    if "*" in w and ("*" in x or x & alias):
        return True
    if "*" in x and (w & alias):
        return True
    return bool((w - {"*"}) & (x - {"*"}))


def _conflict(a, b, p):
    """two unsequenced operand groups (writes, reads, calls) interfere?"""
    wa, ra, ca = a
    wb, rb, cb = b
    if any(_calls_external(c, p) for c in ca) and any(_calls_external(c, p) for c in cb):
        return True                      # indeterminately sequenced calls: the order is visible in the trace
    return _interferes(wa, wb | rb, p) or _interferes(wb, wa | ra, p)


def check_expr(e, p):
    """raise Unsupported if the value / effects of e could depend on the unspecified evaluation order"""
    k = e[0]
    if k == "call":
        subs = list(e[2])
    else:
        subs = [x for x in e[1:] if isinstance(x, list) and x and isinstance(x[0], str) and x[0] in _EXPR_KINDS]
    for x in subs:
        check_expr(x, p)
    if (k == "bin" and e[1] in ("land", "lor", "comma")) or k == "cond":
        return                           # sequence point after the first operand; one of 2nd/3rd evaluated
    groups = []
    for x in subs:
        wr, rd, calls = set(), set(), []
        if k in ("assign", "incdec") and x is e[2]:
            _lv_operand_effects(x, p, wr, rd, calls)     # evaluating the lvalue: its index / pointer parts
        else:
            _effects(x, p, wr, rd, calls)
        groups.append((wr, rd, calls))
    for i in range(len(groups)):
        for j in range(i + 1, len(groups)):
            if _conflict(groups[i], groups[j], p):
                raise Unsupported(f"unsequenced operands interfere in {render_expr(e)}")
    if k in ("assign", "incdec"):
        # the store is sequenced after the value computations of the operands, but not after their side effects
        w0 = set()
        _lv_root(e[2], p, w0, set(), [], write=True, read=False, sub=False)     # the stored-to object only
        for (wr, rd, calls) in groups:
            if _interferes(w0, wr, p):
                raise Unsupported(f"object modified twice without sequence point in {render_expr(e)}")


def _lv_operand_effects(lv, p, wr, rd, calls):
    k = lv[0]
    if k == "var":
        return
    if k == "field":
        return _lv_operand_effects(lv[1], p, wr, rd, calls)
    for x in lv[1:]:
        if isinstance(x, list):
            _effects(x, p, wr, rd, calls)


def check_program(p):
    for f in p["funcs"]:
        for s in f[3]:
            _stmt_exprs(s, lambda e: check_expr(e, p))


# ---------------------------------------------------------------------------------------------------
# execution
def _decide(cond):
    c = z3.simplify(cond)
    if z3.is_true(c):
        return True
    if z3.is_false(c):
        return False
    if core.ENG is None:
        raise Unsupported(f"symbolic branch without engine: {c}")
    return core.ENG.decide(c)


def bvv(x, n):
    """z3 term of width n for an int / z3 term / SymInt (low n bits)"""
    if z3.is_expr(x):
        assert x.size() == n
        return x
    if type(x) in (core.SymInt, core.SymBool):
        return core.to_bv(x, n)
    return z3.BitVecVal(int(x) & ((1 << n) - 1), n)


class Obj:
    __slots__ = ("name", "size", "bytes", "kind", "typ")

    def __init__(self, name, size, data, kind, typ):
        self.name, self.size, self.bytes, self.kind, self.typ = name, size, data, kind, typ


class Ptr:
    """pointer value: object (None = null), byte offset (int or z3 term of ptr_bits), pointee type"""
    __slots__ = ("obj", "off", "elem")

    def __init__(self, obj, off, elem):
        self.obj, self.off, self.elem = obj, off, elem


class _Break(Exception):
    pass


class _Continue(Exception):
    pass


class _Return(Exception):
    def __init__(self, value):
        self.value = value


class CSem:
    def __init__(self, model, program, ext_results=(), init_globals=None, buffers=None, max_iter=24, max_depth=4):
        """init_globals: {name: [byte values]} initial contents of globals without initialiser (default: zero,
        6.7.9p10); buffers: {name: [byte values]}: caller-owned arrays behind pointer parameters."""
        self.M = model
        self.p = program
        self.ext_results = list(ext_results)
        self.ext_used = 0
        self.max_iter = max_iter
        self.max_depth = max_depth
        self.iters = 0
        self.ub = []
        self.trace = []
        self.structs = {n: [(f, T(t)) for f, t in fs] for n, fs in program.get("structs", {}).items()}
        self.funcs = {f[0]: f for f in program["funcs"]}
        self.externs = {x[0]: x for x in program.get("externs", [])}
        self.globals = {}
        self.objects = {}
        for name, t, init in program.get("globals", []):
            t = T(t)
            n = self.sizeof(t)
            if init is not None:
                data = self._image(t, init)
            elif init_globals and name in init_globals:
                assert len(init_globals[name]) == n, f"global {name}: size {n} != {len(init_globals[name])}"
                data = [bvv(b, 8) for b in init_globals[name]]
            else:
                data = [z3.BitVecVal(0, 8)] * n
            o = Obj(name, n, list(data), "global", t)
            self.globals[name] = (o, t)
            self.objects[name] = o
        self.buffers = {}
        for name, data in (buffers or {}).items():
            o = Obj(name, len(data), [bvv(b, 8) for b in data], "buffer", None)
            self.buffers[name] = o
            self.objects[name] = o
        self.scopes = []
        self._depth = 0

    # -- types / layout ---------------------------------------------------------------------------
    def sizeof(self, t):
        if is_int(t):
            return self.M.size(t)
        if is_ptr(t):
            return self.M.ptr_bytes
        if is_arr(t):
            return t[2] * self.sizeof(t[1])
        if is_struct(t):
            return self.layout(t[1])[0]
        raise Unsupported(f"sizeof {t}")

    def alignof(self, t):
        if is_int(t):
            return self.M.align(t)
        if is_ptr(t):
            return self.M.align("ptr")
        if is_arr(t):
            return self.alignof(t[1])
        if is_struct(t):
            return max([self.alignof(ft) for _, ft in self.structs[t[1]]] or [1])
        raise Unsupported(f"alignof {t}")

    def layout(self, sname):
        """(size, {field: (offset, type)}) -- 6.7.2.1p15: increasing addresses, each member suitably aligned"""
        off = 0
        fields = {}
        amax = 1
        for f, ft in self.structs[sname]:
            a = self.alignof(ft)
            amax = max(amax, a)
            off = (off + a - 1) // a * a
            fields[f] = (off, ft)
            off += self.sizeof(ft)
        return (off + amax - 1) // amax * amax, fields

    def value_bytes(self, t):
        """offsets of the bytes of an object of type t that hold values (everything except padding)"""
        if is_int(t) or is_ptr(t):
            return list(range(self.sizeof(t)))
        if is_arr(t):
            n = self.sizeof(t[1])
            return [k * n + o for k in range(t[2]) for o in self.value_bytes(t[1])]
        if is_struct(t):
            _, fields = self.layout(t[1])
            return [off + o for off, ft in fields.values() for o in self.value_bytes(ft)]
        raise Unsupported(str(t))

    def _image(self, t, init):
        """object representation of a constant initialiser (ints only)"""
        n = self.sizeof(t)
        data = [z3.BitVecVal(0, 8)] * n
        if is_int(t):
            v = init if not isinstance(init, list) else (init[0] if init else 0)
            return self._int_bytes(z3.BitVecVal(v & ((1 << (8 * n)) - 1), 8 * n))
        if is_arr(t):
            es = self.sizeof(t[1])
            for k, x in enumerate(init):
                data[k * es:(k + 1) * es] = self._image(t[1], x)
            return data
        if is_struct(t):
            _, fields = self.layout(t[1])
            for (f, (off, ft)), x in zip(fields.items(), init):
                data[off:off + self.sizeof(ft)] = self._image(ft, x)
            return data
        raise Unsupported(f"initialiser for {t}")

    def _int_bytes(self, v):
        n = v.size() // 8
        bs = [z3.simplify(z3.Extract(8 * k + 7, 8 * k, v)) for k in range(n)]
        return bs if self.M.dm.little_endian else bs[::-1]

    def _from_bytes(self, bs):
        if not self.M.dm.little_endian:
            bs = bs[::-1]
        return z3.Concat(*reversed(bs)) if len(bs) > 1 else bs[0]

    # -- undefined behaviour ----------------------------------------------------------------------
    def _ub(self, cond):
        if isinstance(cond, bool):
            cond = z3.BoolVal(cond)
        c = z3.simplify(cond)
        if not z3.is_false(c):
            self.ub.append(c)

    def defined(self):
        return z3.Not(z3.Or(*self.ub)) if self.ub else z3.BoolVal(True)

    # -- memory -----------------------------------------------------------------------------------
    def _off_const(self, off, obj=None, size=1, align=1):
        """concrete byte offset of an access.  A symbolic offset is DECIDED against every in-bounds, aligned
        candidate (forks through the engine: one path per feasible element), which keeps the memory terms of both
        compared semantics free of if-then-else chains / array reasoning; None = no candidate matches on this
        path (the access is out of bounds: undefined)"""
        if isinstance(off, int):
            return off
        s = z3.simplify(off)
        if z3.is_bv_value(s):
            return s.as_long()
        if obj is None or core.ENG is None:
            return None
        for k in self._cands(obj, off, size, align):
            if _decide(s == z3.BitVecVal(k, s.size())):
                return k
        return -1

    def _cands(self, obj, off, size, align):
        return [k for k in range(0, obj.size - size + 1) if k % align == 0]

    def load_bytes(self, obj, off, size, align=1):
        """list of byte terms of obj[off:off+size]; out of bounds / indeterminate => undefined"""
        if obj is None:
            self._ub(True)
            return [z3.BitVecVal(0, 8)] * size
        c = self._off_const(off, obj, size, align)
        if c is not None:
            if c < 0 or c + size > obj.size:
                self._ub(True)
                return [z3.BitVecVal(0, 8)] * size
            return [self._byte(obj, c + j) for j in range(size)]
        ks = self._cands(obj, off, size, align)
        self._ub(z3.Not(z3.Or(*[off == k for k in ks])) if ks else True)
        out = []
        for j in range(size):
            v = z3.BitVecVal(0, 8)
            for k in reversed(ks):
                v = z3.If(off == k, self._byte(obj, k + j, guard=(off == k)), v)
            out.append(v)
        return out

    def _byte(self, obj, k, guard=None):
        b = obj.bytes[k]
        if b is None:
            # indeterminate value of an automatic object (6.7.9p10, 6.3.2.1p2): reading is undefined
            self._ub(True if guard is None else guard)
            return z3.BitVecVal(0, 8)
        return b

    def store_bytes(self, obj, off, data, align=1):
        size = len(data)
        if obj is None:
            self._ub(True)
            return
        c = self._off_const(off, obj, size, align)
        if c is not None:
            if c < 0 or c + size > obj.size:
                self._ub(True)
                return
            for j in range(size):
                obj.bytes[c + j] = data[j]
            return
        ks = self._cands(obj, off, size, align)
        self._ub(z3.Not(z3.Or(*[off == k for k in ks])) if ks else True)
        for k in ks:
            for j in range(size):
                old = obj.bytes[k + j]
                if old is None:
                    # conditionally written indeterminate byte: keep it determinate-zero on the other
                    # branch would hide a later undefined read; such programs are not generated
                    raise Unsupported("symbolic store into an uninitialised object")
                obj.bytes[k + j] = z3.simplify(z3.If(off == k, data[j], old))

    # -- scopes -----------------------------------------------------------------------------------
    def lookup(self, name):
        for sc in reversed(self.scopes):
            if name in sc:
                return sc[name]
        if name in self.globals:
            return self.globals[name]
        raise Unsupported(f"unknown variable {name}")

    def declare(self, name, t, obj_or_cell):
        self.scopes[-1][name] = (obj_or_cell, t)

    # -- conversions ------------------------------------------------------------------------------
    def conv(self, v, ft, tt):
        """6.3.1.3 between integer types"""
        M = self.M
        n1, n2 = M.bits(ft), M.bits(tt)
        if n2 < n1:
            return z3.Extract(n2 - 1, 0, v)
        if n2 > n1:
            return z3.SignExt(n2 - n1, v) if M.signed(ft) else z3.ZeroExt(n2 - n1, v)
        return v

    def convert(self, v, ft, tt):
        """conversion as if by assignment (6.5.16.1) for the supported type pairs"""
        if is_int(ft) and is_int(tt):
            return self.conv(v, ft, tt)
        if is_ptr(ft) and is_ptr(tt) and ft == tt:
            return v
        if is_struct(ft) and ft == tt:
            return v
        raise Unsupported(f"conversion {ft} -> {tt}")

    def truth(self, v, t):
        """scalar compared unequal to 0 (z3 Bool)"""
        if is_int(t):
            return v != z3.BitVecVal(0, self.M.bits(t))
        if is_ptr(t):
            return z3.BoolVal(v.obj is not None)
        raise Unsupported(f"truth of {t}")

    def _int01(self, b):
        """int 1 / 0 for a truth value; decided (forks through the engine when symbolic) so that the value is
        a constant on every path -- the compared implementation branches on comparisons as well, which makes the
        decision implied by its path condition and keeps the solver's equalities syntactic"""
        n = self.M.bits("int")
        return z3.BitVecVal(1 if _decide(b) else 0, n)

    # -- expressions ------------------------------------------------------------------------------
    def lval(self, e):
        """-> ("mem", obj, off, type) | ("cell", cell, type)   (cell: [Ptr] holder of a pointer variable)"""
        k = e[0]
        if k == "var":
            o, t = self.lookup(e[1])
            if isinstance(o, list):
                return ("cell", o, t)
            return ("mem", o, 0, t)
        if k == "deref":
            p, t = self.ev(e[1])
            if not is_ptr(t):
                raise Unsupported("dereference of a non-pointer")
            return ("mem", p.obj, p.off, t[1])
        if k == "index":
            p, t = self.ev(["bin", "add", e[1], e[2]])
            return ("mem", p.obj, p.off, t[1])
        if k == "field":
            lv = self.lval(e[1])
            if lv[0] != "mem" or not is_struct(lv[3]):
                raise Unsupported("field of a non-struct")
            off, ft = self.layout(lv[3][1])[1][e[2]]
            return ("mem", lv[1], self._off_add(lv[2], off), ft)
        if k == "arrow":
            p, t = self.ev(e[1])
            if not (is_ptr(t) and is_struct(t[1])):
                raise Unsupported("-> on a non-struct-pointer")
            off, ft = self.layout(t[1][1])[1][e[2]]
            return ("mem", p.obj, self._off_add(p.off, off), ft)
        raise Unsupported(f"not an lvalue: {k}")

    def _off_add(self, off, k):
        if isinstance(off, int):
            return off + k
        return z3.simplify(off + z3.BitVecVal(k, self.M.ptr_bits))

    def load(self, lv):
        """lvalue conversion (6.3.2.1p2) / array decay (p3)"""
        if lv[0] == "cell":
            p = lv[1][0]
            if p is None:
                self._ub(True)
                p = Ptr(None, 0, lv[2][1])
            return p, lv[2]
        _, obj, off, t = lv
        if is_arr(t):
            return Ptr(obj, off, t[1]), ("ptr", t[1])
        if is_int(t):
            n = self.M.size(t)
            bs = self.load_bytes(obj, off, n, self.alignof(t))
            return z3.simplify(self._from_bytes(bs)), t
        if is_struct(t):
            n = self.sizeof(t)
            c = self._off_const(off)
            if c is None:
                raise Unsupported("struct value at a symbolic offset")
            if obj is None or c < 0 or c + n > obj.size:
                self._ub(True)
                return ("bytes", [z3.BitVecVal(0, 8)] * n), t
            vb = set(self.value_bytes(t))
            return ("bytes", [self._byte(obj, c + j) if j in vb else obj.bytes[c + j] for j in range(n)]), t
        raise Unsupported(f"load of {t}")

    def store(self, lv, v):
        if lv[0] == "cell":
            lv[1][0] = v
            return
        _, obj, off, t = lv
        if is_int(t):
            self.store_bytes(obj, off, self._int_bytes(v), self.alignof(t))
        elif is_struct(t):
            c = self._off_const(off)
            if c is None or obj is None:
                raise Unsupported("struct store at a symbolic offset")
            n = self.sizeof(t)
            if c < 0 or c + n > obj.size:
                self._ub(True)
                return
            vb = set(self.value_bytes(t))
            for j in range(n):
                if j in vb:
                    obj.bytes[c + j] = v[1][j]
                # padding bytes take unspecified values (6.2.6.1p6): left unchanged, never compared
        else:
            raise Unsupported(f"store of {t}")

    def ev(self, e):
        """-> (value, type): z3 bit-vector for integers, Ptr for pointers, ("bytes", [...]) for structs"""
        M = self.M
        k = e[0]
        if k == "lit":
            t = M.lit_type(e[1], e[2])
            return z3.BitVecVal(e[1], M.bits(t)), t
        if k in ("var", "deref", "index", "field", "arrow"):
            return self.load(self.lval(e))
        if k == "sizeof":
            return z3.BitVecVal(self.sizeof(T(e[1])), M.bits(M.size_t)), M.size_t
        if k == "addr":
            lv = self.lval(e[1])
            if lv[0] != "mem":
                raise Unsupported("address of a pointer variable")
            return Ptr(lv[1], lv[2], lv[3]), ("ptr", lv[3])
        if k == "cast":
            v, t = self.ev(e[2])
            tt = T(e[1])
            if tt == "void":
                return None, "void"
            return self.convert(v, t, tt), tt
        if k == "un":
            return self.ev_unop(e[1], e[2])
        if k == "bin":
            return self.ev_binop(e[1], e[2], e[3])
        if k == "cond":
            c, tc = self.ev(e[1])
            # result type is known statically (6.5.15p5); only the selected operand is evaluated
            ta, tb = self.typeof(e[2]), self.typeof(e[3])
            if _decide(self.truth(c, tc)):
                v, t = self.ev(e[2])
            else:
                v, t = self.ev(e[3])
            if is_int(ta) and is_int(tb):
                rt = M.uac(ta, tb)
                return self.conv(v, t, rt), rt
            if ta == tb:
                return v, t
            raise Unsupported("?: operand types")
        if k == "assign":
            return self.ev_assign(e[1], e[2], e[3])
        if k == "incdec":
            _, pre, op = INCDEC[e[1]]
            lv = self.lval(e[2])
            old, t = self.load(lv)
            one = z3.BitVecVal(1, M.bits("int"))
            new, nt = self.arith(op, old, t, one, "int")
            new = self.convert(new, nt, t)
            self.store(lv, new)
            return (new if pre else old), t
        if k == "call":
            return self.ev_call(e[1], e[2])
        raise Unsupported(f"expression {k}")

    def ev_unop(self, op, a):
        M = self.M
        v, t = self.ev(a)
        if op == "lnot":
            return self._int01(z3.Not(self.truth(v, t))), "int"
        if not is_int(t):
            raise Unsupported(f"unary {op} on {t}")
        p = M.promote(t)
        v = self.conv(v, t, p)
        n = M.bits(p)
        if op == "pos":
            return v, p
        if op == "inv":
            return ~v, p
        if op == "neg":
            if M.signed(p):
                self._ub(v == z3.BitVecVal(1 << (n - 1), n))
            return -v, p
        raise Unsupported(op)

    def ev_binop(self, op, a, b):
        M = self.M
        if op in ("land", "lor"):
            va, ta = self.ev(a)
            x = _decide(self.truth(va, ta))
            if (op == "land" and not x) or (op == "lor" and x):
                return z3.BitVecVal(1 if x else 0, M.bits("int")), "int"
            vb, tb = self.ev(b)
            return self._int01(self.truth(vb, tb)), "int"
        if op == "comma":
            self.ev(a)
            return self.ev(b)
        va, ta = self.ev(a)
        vb, tb = self.ev(b)
        return self.arith(op, va, ta, vb, tb)

    def arith(self, op, va, ta, vb, tb):
        """binary operator on evaluated operands (also used by compound assignment and ++/--)"""
        M = self.M
        if is_ptr(ta) or is_ptr(tb):
            return self.ptr_arith(op, va, ta, vb, tb)
        if not (is_int(ta) and is_int(tb)):
            raise Unsupported(f"{op} on {ta}, {tb}")
        if op in SHIFTS:
            t = M.promote(ta)
            tc = M.promote(tb)
            a = self.conv(va, ta, t)
            c = self.conv(vb, tb, tc)
            n, nc = M.bits(t), M.bits(tc)
            wn = z3.BitVecVal(n, nc)
            if M.signed(tc):
                self._ub(z3.Or(c < 0, c >= wn))
            else:
                self._ub(z3.UGE(c, wn))
            cc = self.conv(c, tc, t) if nc != n else c    # value preserved: 0 <= count < n
            if op == "shr":
                return (a >> cc) if M.signed(t) else z3.LShR(a, cc), t
            r = a << cc
            if M.signed(t):
                self._ub(z3.Or(a < 0, r < 0, (r >> cc) != a))
            return r, t
        t = M.uac(ta, tb)
        a = self.conv(va, ta, t)
        b = self.conv(vb, tb, t)
        n = M.bits(t)
        s = M.signed(t)
        zero = z3.BitVecVal(0, n)
        if op == "add":
            r = a + b
            if s:
                self._ub(z3.Or(z3.And(a >= 0, b >= 0, r < 0), z3.And(a < 0, b < 0, r >= 0)))
            return r, t
        if op == "sub":
            r = a - b
            if s:
                self._ub(z3.Or(z3.And(a >= 0, b < 0, r < 0), z3.And(a < 0, b >= 0, r >= 0)))
            return r, t
        if op == "mul":
            if s:
                self._ub(z3.Not(z3.And(z3.BVMulNoOverflow(a, b, True), z3.BVMulNoUnderflow(a, b))))
            return a * b, t
        if op in ("div", "mod"):
            self._ub(b == zero)
            if s:
                self._ub(z3.And(a == z3.BitVecVal(1 << (n - 1), n), b == z3.BitVecVal(-1, n)))
                return ((a / b) if op == "div" else z3.SRem(a, b)), t
            return (z3.UDiv(a, b) if op == "div" else z3.URem(a, b)), t
        if op == "band":
            return a & b, t
        if op == "bor":
            return a | b, t
        if op == "bxor":
            return a ^ b, t
        if op in CMPS:
            return self._int01(self._cmp(op, a, b, s)), "int"
        raise Unsupported(f"binary {op}")

    @staticmethod
    def _cmp(op, a, b, s):
        if op == "eq":
            return a == b
        if op == "ne":
            return a != b
        if op == "lt":
            return (a < b) if s else z3.ULT(a, b)
        if op == "le":
            return (a <= b) if s else z3.ULE(a, b)
        if op == "gt":
            return (a > b) if s else z3.UGT(a, b)
        return (a >= b) if s else z3.UGE(a, b)

    def _wide_off(self, off):
        W = 72
        if isinstance(off, int):
            return z3.BitVecVal(off, W)
        return z3.ZeroExt(W - self.M.ptr_bits, off)

    def ptr_arith(self, op, va, ta, vb, tb):
        M = self.M
        pb = M.ptr_bits
        if op == "add" and is_int(ta) and is_ptr(tb):
            va, ta, vb, tb = vb, tb, va, ta
        if op in ("add", "sub") and is_ptr(ta) and is_int(tb):
            es = self.sizeof(ta[1])
            W = 72
            n = M.bits(tb)
            i = z3.SignExt(W - n, vb) if M.signed(tb) else z3.ZeroExt(W - n, vb)
            d = i * z3.BitVecVal(es, W)
            off = self._wide_off(va.off)
            new = off + d if op == "add" else off - d
            if va.obj is None:
                self._ub(True)
                return Ptr(None, 0, ta[1]), ta
            # 6.5.6p8: the result must point into the array object or one past its last element
            self._ub(z3.Or(new < 0, new > z3.BitVecVal(va.obj.size, W)))
            r = z3.simplify(z3.Extract(pb - 1, 0, new))
            return Ptr(va.obj, r.as_long() if z3.is_bv_value(r) else r, ta[1]), ta
        if op == "sub" and is_ptr(ta) and is_ptr(tb) and ta == tb:
            if va.obj is not vb.obj or va.obj is None:
                self._ub(True)                       # 6.5.6p9
                return z3.BitVecVal(0, M.bits(M.ptrdiff_t)), M.ptrdiff_t
            es = self.sizeof(ta[1])
            a = self._ptr_term(va.off)
            b = self._ptr_term(vb.off)
            d = a - b                                # both offsets are small: no wrap in ptr_bits signed
            return d / z3.BitVecVal(es, pb), M.ptrdiff_t
        if op in CMPS and is_ptr(ta) and is_ptr(tb) and ta == tb:
            if va.obj is vb.obj and va.obj is not None:
                return self._int01(self._cmp(op, self._ptr_term(va.off), self._ptr_term(vb.off), False)), "int"
            if op in ("eq", "ne"):
                same = va.obj is None and vb.obj is None
                return z3.BitVecVal(int(same == (op == "eq")), M.bits("int")), "int"
            self._ub(True)                           # 6.5.8p5
            return z3.BitVecVal(0, M.bits("int")), "int"
        raise Unsupported(f"pointer operation {op} on {ta}, {tb}")

    def _ptr_term(self, off):
        return z3.BitVecVal(off, self.M.ptr_bits) if isinstance(off, int) else off

    def ev_assign(self, op, lhs, rhs):
        lv = self.lval(lhs)
        t = lv[2] if lv[0] == "cell" else lv[3]
        if op:
            old, _ = self.load(lv)
            vb, tb = self.ev(rhs)
            r, rt = self.arith(op, old, t, vb, tb)
        else:
            r, rt = self.ev(rhs)
        v = self.convert(r, rt, t)
        if is_int(t):
            v = z3.simplify(v)
        self.store(lv, v)
        return v, t

    def ev_call(self, name, args):
        M = self.M
        if name in self.externs:
            _, rt, pts = self.externs[name]
            rt = T(rt)
            vals = []
            for a, pt in zip(args, pts):
                v, t = self.ev(a)
                vals.append(z3.simplify(self.convert(v, t, T(pt))))
            if len(args) != len(pts):
                raise Unsupported("argument count")
            self.trace.append((name, vals))
            if rt == "void":
                return None, "void"
            if self.ext_used >= len(self.ext_results):
                raise StepLimit("more external calls than declared results")
            r = bvv(self.ext_results[self.ext_used], M.bits(rt))
            self.ext_used += 1
            return r, rt
        f = self.funcs[name]
        _, rt, params, body = f
        rt = T(rt)
        if len(args) != len(params):
            raise Unsupported("argument count")
        vals = []
        for a, (pn, pt) in zip(args, params):
            v, t = self.ev(a)
            vals.append(self.convert(v, t, T(pt)))
        r = self.call(name, vals)
        if rt == "void":
            return None, "void"
        if r is None:
            self._ub(True)                           # 6.9.1p12
            r = z3.BitVecVal(0, M.bits(rt)) if is_int(rt) else Ptr(None, 0, rt[1])
        return r, rt

    # -- static typing (needed for ?:) ---------------------------------------------------------------
    def typeof(self, e):
        M = self.M
        k = e[0]
        if k == "lit":
            return M.lit_type(e[1], e[2])
        if k == "var":
            t = self.lookup(e[1])[1]
            return ("ptr", t[1]) if is_arr(t) else t
        if k == "cast":
            return T(e[1])
        if k == "sizeof":
            return M.size_t
        if k == "un":
            if e[1] == "lnot":
                return "int"
            return M.promote(self.typeof(e[2]))
        if k == "bin":
            op = e[1]
            if op in CMPS or op in ("land", "lor"):
                return "int"
            if op == "comma":
                return self.typeof(e[3])
            ta, tb = self.typeof(e[2]), self.typeof(e[3])
            if op in SHIFTS:
                return M.promote(ta)
            if is_ptr(ta) and is_ptr(tb):
                return M.ptrdiff_t
            if is_ptr(ta):
                return ta
            if is_ptr(tb):
                return tb
            return M.uac(ta, tb)
        if k == "cond":
            ta, tb = self.typeof(e[2]), self.typeof(e[3])
            return M.uac(ta, tb) if is_int(ta) and is_int(tb) else ta
        if k in ("assign", "incdec"):
            return self.typeof(e[2])
        if k == "deref":
            return self._decay(self.typeof(e[1])[1])
        if k == "index":
            ta = self.typeof(e[1])
            return self._decay(ta[1])
        if k == "addr":
            return ("ptr", self._lvtype(e[1]))
        if k in ("field", "arrow"):
            return self._decay(self._lvtype(e))
        if k == "call":
            f = self.externs.get(e[1]) or self.funcs[e[1]]
            return T(f[1])
        raise Unsupported(f"typeof {k}")

    @staticmethod
    def _decay(t):
        return ("ptr", t[1]) if is_arr(t) else t

    def _lvtype(self, e):
        k = e[0]
        if k == "var":
            return self.lookup(e[1])[1]
        if k == "deref":
            return self.typeof(e[1])[1]
        if k == "index":
            return self.typeof(e[1])[1]
        if k == "field":
            st = self._lvtype(e[1])
            return self.layout(st[1])[1][e[2]][1]
        if k == "arrow":
            st = self.typeof(e[1])[1]
            return self.layout(st[1])[1][e[2]][1]
        raise Unsupported(f"lvalue type of {k}")

    # -- statements -------------------------------------------------------------------------------
    def call(self, name, argvals):
        """execute function `name` with converted argument values; returns value or None"""
        f = self.funcs[name]
        _, rt, params, body = f
        rt = T(rt)
        if self._depth >= self.max_depth:
            raise StepLimit("call depth")
        saved = self.scopes
        self._depth += 1
        self.scopes = [{}]
        try:
            for (pn, pt), v in zip(params, argvals):
                pt = T(pt)
                if is_ptr(pt):
                    self.declare(pn, pt, [v])
                else:
                    o = Obj(pn, self.sizeof(pt), [None] * self.sizeof(pt), "local", pt)
                    self.declare(pn, pt, o)
                    self.store(("mem", o, 0, pt), v)
            try:
                self.exec_list(body)
                return None
            except _Return as r:
                if r.value is None:
                    return None
                v, t = r.value
                return self.convert(v, t, rt)
        finally:
            self.scopes = saved
            self._depth -= 1

    def exec_list(self, stmts):
        self.scopes.append({})
        try:
            for s in stmts:
                self.exec(s)
        finally:
            self.scopes.pop()

    def _tick(self):
        self.iters += 1
        if self.iters > self.max_iter:
            raise StepLimit("loop unwinding bound")

    def cond(self, e):
        v, t = self.ev(e)
        return _decide(self.truth(v, t))

    def exec(self, s):
        k = s[0]
        if k == "expr":
            self.ev(s[1])
        elif k == "decl":
            self.exec_decl(T(s[1]), s[2], s[3])
        elif k == "if":
            if self.cond(s[1]):
                self.exec(s[2])
            elif s[3] is not None:
                self.exec(s[3])
        elif k == "while":
            while self.cond(s[1]):
                self._tick()
                try:
                    self.exec(s[2])
                except _Break:
                    break
                except _Continue:
                    pass
        elif k == "do":
            while True:
                self._tick()
                try:
                    self.exec(s[1])
                except _Break:
                    break
                except _Continue:
                    pass                               # 6.8.6.2: jumps to the loop-continuation portion
                if not self.cond(s[2]):
                    break
        elif k == "for":
            self.scopes.append({})
            try:
                if s[1] is not None:
                    self.exec(s[1])
                while s[2] is None or self.cond(s[2]):
                    self._tick()
                    try:
                        self.exec(s[4])
                    except _Break:
                        break
                    except _Continue:
                        pass
                    if s[3] is not None:
                        self.ev(s[3])
            finally:
                self.scopes.pop()
        elif k == "break":
            raise _Break()
        elif k == "continue":
            raise _Continue()
        elif k == "return":
            raise _Return(self.ev(s[1]) if s[1] is not None else None)
        elif k == "block":
            self.exec_list(s[1])
        elif k == "switch":
            self.exec_switch(s)
        else:
            raise Unsupported(f"statement {k}")

    def exec_switch(self, s):
        M = self.M
        v, t = self.ev(s[1])
        p = M.promote(t)
        v = self.conv(v, t, p)
        n = M.bits(p)
        items = s[2]
        start = None
        for i, it in enumerate(items):
            if it[0] == "case":
                if not (M.lo(p) <= it[1] <= M.hi(p)):
                    raise Unsupported("case constant outside the promoted type")
                if _decide(v == z3.BitVecVal(it[1], n)):
                    start = i
                    break
        if start is None:
            for i, it in enumerate(items):
                if it[0] == "default":
                    start = i
                    break
        if start is None:
            return
        self.scopes.append({})
        try:
            for it in items[start:]:
                if it[0] in ("case", "default"):
                    continue
                self.exec(it)
        except _Break:
            pass
        finally:
            self.scopes.pop()

    def exec_decl(self, t, name, init):
        if is_ptr(t):
            cell = [None]
            self.declare(name, t, cell)
            if init is not None:
                v, vt = self.ev(init)
                cell[0] = self.convert(v, vt, t)
            return
        n = self.sizeof(t)
        o = Obj(name, n, [None] * n, "local", t)
        if init is None:
            self.declare(name, t, o)
            return
        if init[0] == "list":
            # 6.7.9p19/21: the whole object is initialised; members without initialiser as if static (zero)
            o.bytes = [z3.BitVecVal(0, 8)] * n
            self.declare(name, t, o)
            if is_arr(t):
                es = self.sizeof(t[1])
                slots = [(k * es, t[1]) for k in range(t[2])]
            elif is_struct(t):
                slots = list(self.layout(t[1])[1].values())
            else:
                slots = [(0, t)]
            for (off, ft), x in zip(slots, init[1]):
                v, vt = self.ev(x)
                self.store(("mem", o, off, ft), self.convert(v, vt, ft))
            return
        # the scope of the identifier begins before its initialiser (6.2.1p7), but reading it there is undefined
        v, vt = self.ev(init)
        self.declare(name, t, o)
        self.store(("mem", o, 0, t), self.convert(v, vt, t))

    # -- entry ------------------------------------------------------------------------------------
    def run(self, fname, argvals):
        """argvals: per parameter an int / z3 term / SymInt (integers: low bits taken) or the NAME of a buffer
        (pointer parameters).  Returns the converted return value (z3 term) or None."""
        f = self.funcs[fname]
        vals = []
        for (pn, pt), a in zip(f[2], argvals):
            pt = T(pt)
            if is_ptr(pt):
                vals.append(Ptr(self.buffers[a], 0, pt[1]))
            else:
                vals.append(bvv(a, self.M.bits(pt)))
        return self.call(fname, vals)

    def global_bytes(self, name):
        """[(offset, byte term)] of the value-holding bytes of a global"""
        o, t = self.globals[name]
        return [(k, z3.simplify(o.bytes[k])) for k in self.value_bytes(t)]

    def buffer_bytes(self, name):
        return [z3.simplify(b) for b in self.buffers[name].bytes]
