"""ARM A32 reference model: decoder and single-step semantics (independent of ppci).

Written from the "ARM Architecture Reference Manual, ARMv7-A and ARMv7-R edition" (ARM DDI 0406C), ARM
instruction set encodings only (no Thumb, no VFP / Advanced SIMD / coprocessor instructions):
    A5.1-A5.5  instruction set encoding tables (the masks below),
    A8.8       the individual instruction pages (field layout, UNPREDICTABLE cases, operation pseudocode),
    A2.2.1     shift and rotate pseudocode (Shift_C, LSL_C ... RRX_C), AddWithCarry,
    A5.2.4     modified immediate constants (ARMExpandImm_C),
    A8.3       condition codes (ConditionPassed),
    A2.3.1     ARM core registers: reading R15 gives the address of the instruction + 8; writes to the PC
               (ALUWritePC / LoadWritePC / BXWritePC / BranchWritePC for ARMv7, ARM state).

Modelled subset
    data processing AND EOR SUB RSB ADD ADC SBC RSC TST TEQ CMP CMN ORR MOV BIC MVN with modified immediate,
    register shifted by immediate (incl. LSL/LSR/ASR/ROR/RRX spellings = "MOV (shifted register)") and
    register-shifted register operands, S bit, ADR; MOVW MOVT; MUL MLA MLS UMULL UMLAL SMULL SMLAL UMAAL;
    SDIV UDIV; LDR STR LDRB STRB (immediate, literal, register; offset / pre- / post-indexed), LDRH STRH LDRSB
    LDRSH (immediate, literal, register); LDM/STM (IA IB DA DB) incl. PUSH / POP; B BL BX BLX(register);
    SXTB SXTH UXTB UXTH; NOP.   SVC, MRS, MSR, YIELD/WFE/WFI/SEV are decoded and executed as opaque "system"
    steps.  Everything else (cond = 1111 space, LDRD/STRD, LDREX.., LDRT.., exception return forms
    "S = 1 with Rd = PC", LDM/STM with the S bit, media / saturating instructions ...) is "not legal" here.

Naming: one table entry per instruction page and operand form, "<mnemonic>_<form>" with form imm / reg
(register shifted by immediate) / rsr (register-shifted register) / lit; the shifted MOV forms are decoded
as mov_reg / mov_rsr with (stype, samt) = DecodeImmShift resp. stype + Rs (manual: "MOV (shifted register)"
lists LSL/LSR/ASR/ROR/RRX as equivalent spellings).  PUSH / POP are the STMDB SP! / LDMIA SP! encodings with
any non-empty list (for one register the manual's preferred name is STMDB / LDMIA; same operation).
ADR and the literal loads are second spellings of ADD/SUB (immediate) resp. LDR* (immediate) with Rn = PC (the
manual's "SEE ADR" / "SEE LDR (literal)"): the table decodes them as add_imm / sub_imm / ldr*_imm with rn = 15,
Decoded.is_("adr") / .fields("ldr_lit") give the alias view (offset relative to Align(PC, 4) = pc + 8).

decode(word)  works on plain ints, symx SymInt and raw z3 32-bit vectors: a table of
    (mask, match, name, format, extra condition); "which instruction is this" is one boolean per entry,
    operand extraction is bit slicing.  Every field dict carries "cond" and "unpred" (the manual's
    UNPREDICTABLE operand combinations of that page that depend on the encoding only).
step(state, word)  works on plain ints (PY) or z3 32-bit terms (Z3).  State: r0..r14, pc (address of the
    instruction; R15 reads as pc + 8), N Z C V, T (set by an interworking branch to an odd address), little-endian
    byte memory.  SCTLR.A = 0 (unaligned LDR/STR/LDRH/STRH allowed), LDM/STM at an unaligned address = fault flag.
"""
import z3
from symx import core
from symx.core import SymInt, SymBool

M32 = 0xFFFFFFFF
MIN32 = 0x80000000


# ---------------------------------------------------------------------------------------------
# value domains
class _Py:
    name = "py"

    def bits(self, w, hi, lo):
        return (w >> lo) & ((1 << (hi - lo + 1)) - 1)

    def sext(self, v, n):
        v &= (1 << n) - 1
        return v - (1 << n) if v >> (n - 1) else v

    def ite(self, c, a, b):
        return a if c else b

    def and_(self, *xs):
        return all(xs)

    def or_(self, *xs):
        return any(xs)

    def not_(self, x):
        return not x

    def false(self, c):
        return not c

    def ror32(self, v, r):
        r &= 31
        return ((v >> r) | (v << (32 - r))) & M32

    def const(self, v):
        return v


class _Sx(_Py):
    """symx SymInt (unbounded-integer semantics, engine must be active)"""
    name = "symx"

    def sext(self, v, n):
        return core.ite(v >= (1 << (n - 1)), v - (1 << n), v)

    def ite(self, c, a, b):
        return core.ite(c, a, b)

    def and_(self, *xs):
        return core.sym_and(*xs)

    def or_(self, *xs):
        return core.sym_or(*xs)

    def not_(self, x):
        return core.sym_not(x)

    def false(self, c):
        if type(c) is SymBool:
            return z3.is_false(z3.simplify(c.e))
        return not c

    def ror32(self, v, r):
        r = r & 31
        return ((v >> r) | (v << (32 - r))) & M32


class _Z3(_Py):
    """raw z3 32-bit vectors; every field value is a 32-bit term (signed offsets sign-extended)"""
    name = "z3"

    def bits(self, w, hi, lo):
        n = hi - lo + 1
        return z3.ZeroExt(32 - n, z3.Extract(hi, lo, w))

    def sext(self, v, n):
        return z3.SignExt(32 - n, z3.Extract(n - 1, 0, v))

    def ite(self, c, a, b):
        if type(c) is bool:
            return a if c else b
        if type(a) is bool or type(b) is bool or z3.is_bool(a) or z3.is_bool(b):
            return z3.If(c, _zb(a), _zb(b))
        return z3.If(c, _zv(a), _zv(b))

    def and_(self, *xs):
        xs = [x for x in xs if x is not True]
        if any(x is False for x in xs):
            return False
        if not xs:
            return True
        return z3.And(*[_zb(x) for x in xs]) if len(xs) > 1 else xs[0]

    def or_(self, *xs):
        xs = [x for x in xs if x is not False]
        if any(x is True for x in xs):
            return True
        if not xs:
            return False
        return z3.Or(*[_zb(x) for x in xs]) if len(xs) > 1 else xs[0]

    def not_(self, x):
        if type(x) is bool:
            return not x
        return z3.Not(x)

    def false(self, c):
        if type(c) is bool:
            return not c
        return z3.is_false(z3.simplify(c))

    def ror32(self, v, r):
        return z3.RotateRight(_zv(v), _zv(r) & 31)

    def const(self, v):
        return z3.BitVecVal(v & M32, 32)


def _zb(x):
    return z3.BoolVal(x) if type(x) is bool else x


def _zv(x):
    return z3.BitVecVal(x & M32, 32) if type(x) in (int, bool) else x


PY, SX, Z3 = _Py(), _Sx(), _Z3()


def domain_of(w):
    if type(w) is int or type(w) is bool:
        return PY
    if type(w) in (SymInt, SymBool):
        return SX
    if z3.is_bv(w):
        return Z3
    raise TypeError(f"arm32: unsupported word type {type(w)}")


# ---------------------------------------------------------------------------------------------
# field extractors.  Register fields: rd 15:12, rn 19:16, rm 3:0, rs 11:8 unless the page says otherwise.
LSL, LSR, ASR, ROR, RRX = 0, 1, 2, 3, 4
COND_NAMES = ["eq", "ne", "cs", "cc", "mi", "pl", "vs", "vc", "hi", "ls", "ge", "lt", "gt", "le", "al"]
COND_ALIASES = {"hs": 2, "lo": 3}


def _any15(D, *regs):
    return D.or_(*[r == 15 for r in regs])


def _imm_shift(D, w):
    """DecodeImmShift(type, imm5) (A8.4.3) -> (stype, samt)"""
    ty, imm5 = D.bits(w, 6, 5), D.bits(w, 11, 7)
    z = imm5 == 0
    rrx = D.and_(ty == 3, z)
    stype = D.ite(rrx, D.const(RRX), ty)
    samt = D.ite(D.and_(z, D.or_(ty == 1, ty == 2)), D.const(32), D.ite(rrx, D.const(1), imm5))
    return stype, samt


def _expand_imm(D, w):
    """ARMExpandImm(imm12) = ROR(ZeroExtend(imm8), 2 * rot)   (A5.2.4)"""
    imm8, rot = D.bits(w, 7, 0), D.bits(w, 11, 8)
    return D.ror32(imm8, rot + rot), rot, imm8


def _f_dp_imm(D, w):
    imm, rot, imm8 = _expand_imm(D, w)
    return dict(S=D.bits(w, 20, 20), rn=D.bits(w, 19, 16), rd=D.bits(w, 15, 12), imm=imm, rot=rot, imm8=imm8,
                unpred=False)


def _f_dp_reg(D, w):
    stype, samt = _imm_shift(D, w)
    return dict(S=D.bits(w, 20, 20), rn=D.bits(w, 19, 16), rd=D.bits(w, 15, 12), rm=D.bits(w, 3, 0),
                stype=stype, samt=samt, unpred=False)


def _f_dp_rsr(D, w):
    f = dict(S=D.bits(w, 20, 20), rn=D.bits(w, 19, 16), rd=D.bits(w, 15, 12), rm=D.bits(w, 3, 0),
             rs=D.bits(w, 11, 8), stype=D.bits(w, 6, 5))
    f["unpred"] = _any15(D, f["rd"], f["rn"], f["rm"], f["rs"])
    return f


def _cmp(fmt):
    """TST/TEQ/CMP/CMN: no destination, always set flags"""
    def f(D, w):
        d = fmt(D, w)
        del d["rd"]
        d["S"] = D.const(1)
        if "rs" in d:
            d["unpred"] = _any15(D, d["rn"], d["rm"], d["rs"])
        return d
    return f


def _mov(fmt):
    """MOV/MVN: no first operand"""
    def f(D, w):
        d = fmt(D, w)
        del d["rn"]
        if "rs" in d:
            d["unpred"] = _any15(D, d["rd"], d["rm"], d["rs"])
        return d
    return f


def _f_mov16(D, w):
    rd = D.bits(w, 15, 12)
    return dict(rd=rd, imm=(D.bits(w, 19, 16) << 12) | D.bits(w, 11, 0), unpred=rd == 15)


def _f_mul(D, w):           # MUL: Rd 19:16, Rm 11:8, Rn 3:0
    f = dict(S=D.bits(w, 20, 20), rd=D.bits(w, 19, 16), rm=D.bits(w, 11, 8), rn=D.bits(w, 3, 0))
    f["unpred"] = _any15(D, f["rd"], f["rn"], f["rm"])
    return f


def _f_mla(D, w):           # MLA / MLS: + Ra 15:12
    f = dict(S=D.bits(w, 20, 20), rd=D.bits(w, 19, 16), ra=D.bits(w, 15, 12), rm=D.bits(w, 11, 8), rn=D.bits(w, 3, 0))
    f["unpred"] = _any15(D, f["rd"], f["rn"], f["rm"], f["ra"])
    return f


def _f_mull(D, w):          # UMULL ...: RdHi 19:16, RdLo 15:12
    f = dict(S=D.bits(w, 20, 20), rdhi=D.bits(w, 19, 16), rdlo=D.bits(w, 15, 12), rm=D.bits(w, 11, 8), rn=D.bits(w, 3, 0))
    f["unpred"] = D.or_(_any15(D, f["rdhi"], f["rdlo"], f["rn"], f["rm"]), f["rdhi"] == f["rdlo"])
    return f


def _f_div(D, w):           # SDIV / UDIV: Rd 19:16, Rm 11:8, Rn 3:0
    f = dict(rd=D.bits(w, 19, 16), rm=D.bits(w, 11, 8), rn=D.bits(w, 3, 0))
    f["unpred"] = _any15(D, f["rd"], f["rn"], f["rm"])
    return f


def _puw(D, w):
    index = D.bits(w, 24, 24) == 1
    add = D.bits(w, 23, 23) == 1
    wback = D.or_(D.not_(index), D.bits(w, 21, 21) == 1)
    return index, add, wback


def _signed(D, add, imm):
    return D.ite(add, imm, (0 - imm) if D is not Z3 else -imm)


def _f_ls_imm(load, byte):
    def f(D, w):
        index, add, wback = _puw(D, w)
        rn, rt, imm = D.bits(w, 19, 16), D.bits(w, 15, 12), D.bits(w, 11, 0)
        if load:    # Rn = PC is the literal form (encoding: P = 1, W = 0)
            up = D.and_(wback, D.or_(rn == 15, rn == rt))
        else:
            up = D.and_(wback, D.or_(rn == 15, rn == rt))
        if byte:
            up = D.or_(up, rt == 15)
        return dict(rt=rt, rn=rn, uimm=imm, imm=_signed(D, add, imm), index=index, add=add, wback=wback, unpred=up)
    return f


def _f_ls_reg(load, byte):
    def f(D, w):
        index, add, wback = _puw(D, w)
        rn, rt, rm = D.bits(w, 19, 16), D.bits(w, 15, 12), D.bits(w, 3, 0)
        stype, samt = _imm_shift(D, w)
        up = D.or_(rm == 15, D.and_(wback, D.or_(rn == 15, rn == rt)))
        if byte:
            up = D.or_(up, rt == 15)
        return dict(rt=rt, rn=rn, rm=rm, stype=stype, samt=samt, index=index, add=add, wback=wback, unpred=up)
    return f


def _f_lsx_imm(load):       # halfword / signed byte, imm4H:imm4L
    def f(D, w):
        index, add, wback = _puw(D, w)
        rn, rt = D.bits(w, 19, 16), D.bits(w, 15, 12)
        imm = (D.bits(w, 11, 8) << 4) | D.bits(w, 3, 0)
        up = D.or_(rt == 15, D.and_(wback, D.or_(rn == 15, rn == rt)))
        return dict(rt=rt, rn=rn, uimm=imm, imm=_signed(D, add, imm), index=index, add=add, wback=wback, unpred=up)
    return f


def _f_lsx_reg(D, w):
    index, add, wback = _puw(D, w)
    rn, rt, rm = D.bits(w, 19, 16), D.bits(w, 15, 12), D.bits(w, 3, 0)
    up = D.or_(rt == 15, rm == 15, D.and_(wback, D.or_(rn == 15, rn == rt)))
    return dict(rt=rt, rn=rn, rm=rm, index=index, add=add, wback=wback, unpred=up)


def _lowest_is(D, lst, n):
    """bit n of lst is its lowest set bit (given that it is set)"""
    return (lst & ((D.const(1) << n) - 1)) == 0


def _bit_at(D, lst, n):
    return ((lst >> n) & 1) == 1


def _f_block(load):
    def f(D, w):
        rn, lst = D.bits(w, 19, 16), D.bits(w, 15, 0)
        wback = D.bits(w, 21, 21) == 1
        up = D.or_(rn == 15, lst == 0)
        if load:    # ARMv7: LDM with writeback and the base register in the list
            up = D.or_(up, D.and_(wback, _bit_at(D, lst, rn)))
        else:       # STM: the base register stored with writeback unless it is the lowest register: UNKNOWN value
            up = D.or_(up, D.and_(wback, _bit_at(D, lst, rn), D.not_(_lowest_is(D, lst, rn))))
        return dict(rn=rn, list=lst, wback=wback, unpred=up)
    return f


def _f_push(D, w):
    lst = D.bits(w, 15, 0)
    up = D.or_(lst == 0, D.and_(D.bits(w, 13, 13) == 1, D.not_(_lowest_is(D, lst, D.const(13)))))
    return dict(list=lst, unpred=up)


def _f_pop(D, w):
    lst = D.bits(w, 15, 0)
    return dict(list=lst, unpred=D.or_(lst == 0, D.bits(w, 13, 13) == 1))


def _f_branch(D, w):        # imm32 = SignExtend(imm24:'00'); target = PC (+8) + imm32
    return dict(imm=D.sext(D.bits(w, 23, 0) << 2, 26), unpred=False)


def _f_bx(D, w):
    return dict(rm=D.bits(w, 3, 0), unpred=False)


def _f_blx(D, w):
    rm = D.bits(w, 3, 0)
    return dict(rm=rm, unpred=rm == 15)


def _f_ext(D, w):           # SXTB ...: rotation = rotate:'000'
    rd, rm = D.bits(w, 15, 12), D.bits(w, 3, 0)
    return dict(rd=rd, rm=rm, rot=D.bits(w, 11, 10), unpred=_any15(D, rd, rm))


def _f_svc(D, w):
    return dict(imm=D.bits(w, 23, 0), unpred=False)


def _f_mrs(D, w):
    rd = D.bits(w, 15, 12)
    return dict(rd=rd, R=D.bits(w, 22, 22), unpred=rd == 15)


def _f_msr_reg(D, w):
    rn = D.bits(w, 3, 0)
    return dict(rn=rn, R=D.bits(w, 22, 22), mask=D.bits(w, 19, 16), unpred=D.or_(rn == 15, D.bits(w, 19, 16) == 0))


def _f_msr_imm(D, w):
    imm, rot, imm8 = _expand_imm(D, w)
    return dict(imm=imm, R=D.bits(w, 22, 22), mask=D.bits(w, 19, 16), unpred=False)


def _f_none(D, w):
    return dict(unpred=False)


# extra conditions
def _not_exc_return(D, f, w):   # "if Rd == '1111' && S == '1' then SEE SUBS PC, LR and related instructions"
    return D.not_(D.and_(f["rd"] == 15, f["S"] == 1))


def _not_t(D, f, w):            # "if P == '0' && W == '1' then SEE LDRT / STRT ..."
    return D.not_(D.and_(D.bits(w, 24, 24) == 0, D.bits(w, 21, 21) == 1))


def _not_sp_wb(D, f, w):        # "if W == '1' && Rn == '1101' ... then SEE PUSH / POP"
    return D.not_(D.and_(f["wback"], f["rn"] == 13))


def _msr_mask_nz(D, f, w):      # mask == 0000 && R == 0: hint space
    return D.not_(D.and_(f["mask"] == 0, f["R"] == 0))


# ---------------------------------------------------------------------------------------------
# the table.  All entries are in the conditional space (cond != 1111, checked in decode()).
DP = {"and": 0, "eor": 1, "sub": 2, "rsb": 3, "add": 4, "adc": 5, "sbc": 6, "rsc": 7, "tst": 8, "teq": 9, "cmp": 10,
      "cmn": 11, "orr": 12, "mov": 13, "bic": 14, "mvn": 15}
COMPARES = ("tst", "teq", "cmp", "cmn")
MOVES = ("mov", "mvn")
TABLE = []
for _n, _op in DP.items():
    if _n in COMPARES:      # S = 1, Rd (15:12) should be zero
        TABLE += [(0x0FF0F000, 0x02100000 | _op << 21, _n + "_imm", _cmp(_f_dp_imm), None),
                  (0x0FF0F010, 0x00100000 | _op << 21, _n + "_reg", _cmp(_f_dp_reg), None),
                  (0x0FF0F090, 0x00100010 | _op << 21, _n + "_rsr", _cmp(_f_dp_rsr), None)]
    elif _n in MOVES:       # Rn (19:16) should be zero
        TABLE += [(0x0FEF0000, 0x02000000 | _op << 21, _n + "_imm", _mov(_f_dp_imm), _not_exc_return),
                  (0x0FEF0010, 0x00000000 | _op << 21, _n + "_reg", _mov(_f_dp_reg), _not_exc_return),
                  (0x0FEF0090, 0x00000010 | _op << 21, _n + "_rsr", _mov(_f_dp_rsr), None)]
    else:
        TABLE += [(0x0FE00000, 0x02000000 | _op << 21, _n + "_imm", _f_dp_imm, _not_exc_return),
                  (0x0FE00010, 0x00000000 | _op << 21, _n + "_reg", _f_dp_reg, _not_exc_return),
                  (0x0FE00090, 0x00000010 | _op << 21, _n + "_rsr", _f_dp_rsr, None)]
TABLE += [
    (0x0FF00000, 0x03000000, "movw", _f_mov16, None), (0x0FF00000, 0x03400000, "movt", _f_mov16, None),
    (0x0FE0F0F0, 0x00000090, "mul", _f_mul, None), (0x0FE000F0, 0x00200090, "mla", _f_mla, None),
    (0x0FF000F0, 0x00600090, "mls", _f_mla, None), (0x0FF000F0, 0x00400090, "umaal", _f_mull, None),
    (0x0FE000F0, 0x00800090, "umull", _f_mull, None), (0x0FE000F0, 0x00A00090, "umlal", _f_mull, None),
    (0x0FE000F0, 0x00C00090, "smull", _f_mull, None), (0x0FE000F0, 0x00E00090, "smlal", _f_mull, None),
    (0x0FF0F0F0, 0x0710F010, "sdiv", _f_div, None), (0x0FF0F0F0, 0x0730F010, "udiv", _f_div, None),
    # load/store word and unsigned byte (A5.3)
    (0x0E500000, 0x04000000, "str_imm", _f_ls_imm(False, False), _not_t),
    (0x0E500000, 0x04100000, "ldr_imm", _f_ls_imm(True, False), _not_t),
    (0x0E500000, 0x04400000, "strb_imm", _f_ls_imm(False, True), _not_t),
    (0x0E500000, 0x04500000, "ldrb_imm", _f_ls_imm(True, True), _not_t),
    (0x0E500010, 0x06000000, "str_reg", _f_ls_reg(False, False), _not_t),
    (0x0E500010, 0x06100000, "ldr_reg", _f_ls_reg(True, False), _not_t),
    (0x0E500010, 0x06400000, "strb_reg", _f_ls_reg(False, True), _not_t),
    (0x0E500010, 0x06500000, "ldrb_reg", _f_ls_reg(True, True), _not_t),
    # extra load/store (A5.2.8): halfword, signed byte, signed halfword
    (0x0E5000F0, 0x004000B0, "strh_imm", _f_lsx_imm(False), _not_t),
    (0x0E5000F0, 0x005000B0, "ldrh_imm", _f_lsx_imm(True), _not_t),
    (0x0E5000F0, 0x005000D0, "ldrsb_imm", _f_lsx_imm(True), _not_t),
    (0x0E5000F0, 0x005000F0, "ldrsh_imm", _f_lsx_imm(True), _not_t),
    (0x0E500FF0, 0x000000B0, "strh_reg", _f_lsx_reg, _not_t),
    (0x0E500FF0, 0x001000B0, "ldrh_reg", _f_lsx_reg, _not_t),
    (0x0E500FF0, 0x001000D0, "ldrsb_reg", _f_lsx_reg, _not_t),
    (0x0E500FF0, 0x001000F0, "ldrsh_reg", _f_lsx_reg, _not_t),
    # block data transfer (A5.5): P U S(=0) W L
    (0x0FD00000, 0x08000000, "stmda", _f_block(False), None), (0x0FD00000, 0x08100000, "ldmda", _f_block(True), None),
    (0x0FD00000, 0x08800000, "stmia", _f_block(False), None), (0x0FD00000, 0x08900000, "ldmia", _f_block(True), _not_sp_wb),
    (0x0FD00000, 0x09000000, "stmdb", _f_block(False), _not_sp_wb), (0x0FD00000, 0x09100000, "ldmdb", _f_block(True), None),
    (0x0FD00000, 0x09800000, "stmib", _f_block(False), None), (0x0FD00000, 0x09900000, "ldmib", _f_block(True), None),
    (0x0FFF0000, 0x092D0000, "push", _f_push, None), (0x0FFF0000, 0x08BD0000, "pop", _f_pop, None),
    # branches
    (0x0F000000, 0x0A000000, "b", _f_branch, None), (0x0F000000, 0x0B000000, "bl", _f_branch, None),
    (0x0FFFFFF0, 0x012FFF10, "bx", _f_bx, None), (0x0FFFFFF0, 0x012FFF30, "blx_reg", _f_blx, None),
    # extend
    (0x0FFF03F0, 0x06AF0070, "sxtb", _f_ext, None), (0x0FFF03F0, 0x06BF0070, "sxth", _f_ext, None),
    (0x0FFF03F0, 0x06EF0070, "uxtb", _f_ext, None), (0x0FFF03F0, 0x06FF0070, "uxth", _f_ext, None),
    # hints, supervisor call, status register access
    (0x0FFFFFFF, 0x0320F000, "nop", _f_none, None), (0x0FFFFFFF, 0x0320F001, "yield", _f_none, None),
    (0x0FFFFFFF, 0x0320F002, "wfe", _f_none, None), (0x0FFFFFFF, 0x0320F003, "wfi", _f_none, None),
    (0x0FFFFFFF, 0x0320F004, "sev", _f_none, None),
    (0x0F000000, 0x0F000000, "svc", _f_svc, None),
    (0x0FBF0FFF, 0x010F0000, "mrs", _f_mrs, None),
    (0x0FB0FFF0, 0x0120F000, "msr_reg", _f_msr_reg, None),
    (0x0FB0F000, 0x0320F000, "msr_imm", _f_msr_imm, _msr_mask_nz),
]
NAMES = [e[2] for e in TABLE]
ALIASES = {"adr": None, "ldr_lit": "ldr_imm", "ldrb_lit": "ldrb_imm", "ldrh_lit": "ldrh_imm", "ldrsb_lit": "ldrsb_imm",
           "ldrsh_lit": "ldrsh_imm"}
SYSTEM = {"yield", "wfe", "wfi", "sev", "svc", "mrs", "msr_reg", "msr_imm"}


class Decoded:
    """result of decode(): per table entry one match condition and the extracted fields"""

    def __init__(self, D, word, entries):
        self.D = D
        self.word = word
        self.entries = entries          # [(cond, name, fields)]

    def is_(self, name):
        if name in ALIASES:
            return self._alias(name)[0]
        cs = [c for (c, n, f) in self.entries if n == name]
        if not cs:
            return False
        return cs[0]

    def fields(self, name):
        if name in ALIASES:
            return self._alias(name)[1]
        for (c, n, f) in self.entries:
            if n == name:
                return f
        raise KeyError(name)

    def _alias(self, name):
        """second spelling of table entries (manual: "SEE ADR" / "SEE LDR (literal)"): -> (condition, fields)"""
        D = self.D
        if name == "adr":       # ADD / SUB (immediate) with Rn = PC, S = 0: Rd = Align(PC, 4) +/- imm32
            got = [(c, n, f) for (c, n, f) in self.entries if n in ("add_imm", "sub_imm")]
            if not got:
                return False, {}
            f = got[0][2]
            isadd = D.or_(*[c for (c, n, _) in got if n == "add_imm"])
            cond = D.and_(D.or_(*[c for (c, n, _) in got]), f["rn"] == 15, f["S"] == 0)
            return cond, dict(rd=f["rd"], add=isadd, uimm=f["imm"], imm=_signed(D, isadd, f["imm"]), cond=f["cond"],
                              unpred=False)
        base = ALIASES[name]    # LDR* (literal): LDR* (immediate) with Rn = PC, P = 1, W = 0
        got = [(c, f) for (c, n, f) in self.entries if n == base]
        if not got:
            return False, {}
        c, f = got[0]
        cond = D.and_(c, f["rn"] == 15, f["index"], D.not_(f["wback"]))
        return cond, dict(rt=f["rt"], add=f["add"], uimm=f["uimm"], imm=f["imm"], cond=f["cond"], unpred=f["unpred"])

    @property
    def legal(self):
        return self.D.or_(*[c for (c, n, f) in self.entries])

    # -- concrete words only
    @property
    def mnemonic(self):
        hits = [n for (c, n, f) in self.entries if c]
        if len(hits) > 1:
            raise AssertionError(f"ambiguous decode {hits}")
        return hits[0] if hits else None

    @property
    def operands(self):
        n = self.mnemonic
        return None if n is None else dict(self.fields(n))


def decode(word):
    D = domain_of(word)
    entries = []
    cond = D.bits(word, 31, 28)
    uncond = cond == 15
    if D.false(D.not_(uncond)):
        return Decoded(D, word, entries)
    for (mask, match, name, fmt, extra) in TABLE:
        c = (word & mask) == match
        if D.false(c):
            continue
        f = fmt(D, word)
        f["cond"] = cond
        c = D.and_(c, D.not_(uncond))
        if extra is not None:
            c = D.and_(c, extra(D, f, word))
            if D.false(c):
                continue
        entries.append((c, name, f))
    return Decoded(D, word, entries)


# ---------------------------------------------------------------------------------------------
# single-step semantics.  Values: PY = ints in [0, 2**32) ; Z3 = 32-bit vectors.  Flags: bool / z3 Bool.
def _s32(a):
    return a - (1 << 32) if a >> 31 else a


class PyOps(_Py):
    sym = False

    def val(self, v):
        return v & M32

    def conc(self, v):
        return v

    def add(self, a, b):
        return (a + b) & M32

    def sub(self, a, b):
        return (a - b) & M32

    def band(self, a, b):
        return a & b

    def bor(self, a, b):
        return a | b

    def bxor(self, a, b):
        return a ^ b

    def bnot(self, a):
        return a ^ M32

    def shl(self, a, n):        # any n >= 0 (n >= 32: 0)
        return (a << n) & M32 if n < 64 else 0

    def shr(self, a, n):
        return a >> n if n < 64 else 0

    def sar(self, a, n):
        return (_s32(a) >> min(n, 64)) & M32

    def ror(self, a, n):
        return self.ror32(a, n)

    def eq(self, a, b):
        return a == b

    def ltu(self, a, b):
        return a < b

    def bit(self, a, i):        # i: concrete int
        return bool((a >> i) & 1)

    def b2v(self, c):
        return 1 if c else 0

    def add_c(self, x, y, cin):
        """AddWithCarry(x, y, carry_in) -> (result, carry_out, overflow)   (A2.2.1)"""
        us = x + y + (1 if cin else 0)
        ss = _s32(x) + _s32(y) + (1 if cin else 0)
        res = us & M32
        return res, us != res, _s32(res) != ss

    def mul(self, a, b):
        return (a * b) & M32

    def mull(self, a, b, signed):
        p = (_s32(a) * _s32(b)) if signed else a * b
        return p & M32, (p >> 32) & M32

    def add64(self, lo1, hi1, lo2, hi2):
        s = (lo1 | hi1 << 32) + (lo2 | hi2 << 32)
        return s & M32, (s >> 32) & M32

    def sdiv(self, a, b):       # RoundTowardsZero(SInt / SInt), divisor 0 -> 0
        sa, sb = _s32(a), _s32(b)
        if sb == 0:
            return 0
        q = abs(sa) // abs(sb)
        return (-q if (sa < 0) != (sb < 0) else q) & M32

    def udiv(self, a, b):
        return a // b if b else 0

    def byte(self, v, i):
        return (v >> (8 * i)) & 0xFF

    def cat(self, bs, signed):
        v = 0
        for i, b in enumerate(bs):
            v |= b << (8 * i)
        n = 8 * len(bs)
        if signed and v >> (n - 1):
            v -= 1 << n
        return v & M32

    def sextn(self, v, n):
        return self.sext(v, n) & M32


class Z3Ops(_Z3):
    sym = True

    def val(self, v):
        if type(v) in (int, bool):
            return z3.BitVecVal(v & M32, 32)
        if type(v) in (SymInt, SymBool):
            return core.to_bv(v, 32)
        return v

    def conc(self, v):
        if type(v) in (int, bool):
            return v
        s = z3.simplify(v)
        return s.as_long() if z3.is_bv_value(s) else None

    def add(self, a, b):
        return a + b

    def sub(self, a, b):
        return a - b

    def band(self, a, b):
        return a & b

    def bor(self, a, b):
        return a | b

    def bxor(self, a, b):
        return a ^ b

    def bnot(self, a):
        return ~a

    def shl(self, a, n):
        return a << n

    def shr(self, a, n):
        return z3.LShR(a, n)

    def sar(self, a, n):
        return a >> n

    def ror(self, a, n):
        return z3.RotateRight(a, n & 31)

    def eq(self, a, b):
        return a == b

    def ltu(self, a, b):
        return z3.ULT(a, b)

    def bit(self, a, i):
        return z3.Extract(i, i, a) == 1

    def b2v(self, c):
        if type(c) is bool:
            return z3.BitVecVal(int(c), 32)
        return z3.If(c, z3.BitVecVal(1, 32), z3.BitVecVal(0, 32))

    def add_c(self, x, y, cin):
        c = z3.ZeroExt(1, self.b2v(cin))
        us = z3.ZeroExt(1, x) + z3.ZeroExt(1, y) + c
        ss = z3.SignExt(1, x) + z3.SignExt(1, y) + c
        res = z3.Extract(31, 0, us)
        return res, z3.Extract(32, 32, us) == 1, z3.SignExt(1, res) != ss

    def mul(self, a, b):
        return a * b

    def mull(self, a, b, signed):
        ext = z3.SignExt if signed else z3.ZeroExt
        p = ext(32, a) * ext(32, b)
        return z3.Extract(31, 0, p), z3.Extract(63, 32, p)

    def add64(self, lo1, hi1, lo2, hi2):
        s = z3.Concat(hi1, lo1) + z3.Concat(hi2, lo2)
        return z3.Extract(31, 0, s), z3.Extract(63, 32, s)

    def sdiv(self, a, b):
        return z3.If(b == 0, z3.BitVecVal(0, 32), a / b)

    def udiv(self, a, b):
        return z3.If(b == 0, z3.BitVecVal(0, 32), z3.UDiv(a, b))

    def byte(self, v, i):
        return z3.Extract(8 * i + 7, 8 * i, v)

    def cat(self, bs, signed):
        e = z3.Concat(*reversed(bs)) if len(bs) > 1 else bs[0]
        n = 8 * len(bs)
        if n == 32:
            return e
        return z3.SignExt(32 - n, e) if signed else z3.ZeroExt(32 - n, e)

    def sextn(self, v, n):
        return z3.SignExt(32 - n, z3.Extract(n - 1, 0, v))


PYOPS, Z3OPS = PyOps(), Z3Ops()


class LogMemory:
    """background function addr -> byte, plus a log of (guarded) byte stores"""

    def __init__(self, ops, bg, log=()):
        self.ops = ops
        self.bg = bg
        self.log = tuple(log)

    def load_byte(self, addr):
        v = self.bg(addr)
        for (a, b, en) in self.log:
            v = self.ops.ite(self.ops.and_(en, self.ops.eq(a, addr)), b, v)
        return v

    def store_byte(self, addr, b, en=True):
        if en is False:
            return self
        return LogMemory(self.ops, self.bg, self.log + ((addr, b, en),))


def periodic_bg(ops, mbytes):
    """memory whose content at address a is mbytes[a mod len] (len a power of two >= the number of consecutive
    bytes one instruction can touch: all bytes an instruction sees are independent)"""
    bs = list(mbytes)
    n = len(bs)
    assert n & (n - 1) == 0
    if ops.sym:
        bs = [z3.Extract(7, 0, ops.val(b)) for b in bs]

    def bg(addr):
        k = ops.band(addr, ops.val(n - 1))
        kc = ops.conc(k)
        if kc is not None:
            return bs[kc]
        v = bs[0]
        for i in range(1, n):
            v = ops.ite(ops.eq(k, ops.val(i)), bs[i], v)
        return v
    return bg


class PyRegs:
    def __init__(self, vals):
        self.vals = list(vals)          # r0..r14

    def read(self, idx):
        return self.vals[idx] if idx < 15 else 0

    def write(self, idx, val, en):
        if not en or idx >= 15:
            return self
        v = list(self.vals)
        v[idx] = val
        return PyRegs(v)


class Z3Regs:
    """r0..r14 given by a read function on 4-bit indices (index 15 is never consulted) plus a write log.
    Z3Regs(vals=[15 terms]) / Z3Regs(arr=z3 Array(BitVec 4 -> BitVec 32)) / Z3Regs(fn=...)"""

    def __init__(self, vals=None, arr=None, fn=None, log=()):
        if vals is not None:
            vals = list(vals)

            def fn(j, vals=vals):
                s = z3.simplify(j)
                if z3.is_bv_value(s):
                    return vals[s.as_long()] if s.as_long() < 15 else z3.BitVecVal(0, 32)
                v = vals[0]
                for i in range(1, 15):
                    v = z3.If(j == i, vals[i], v)
                return v
        elif arr is not None:
            def fn(j, arr=arr):
                return z3.Select(arr, j)
        self.fn = fn
        self.log = tuple(log)

    @staticmethod
    def idx4(idx):
        if type(idx) in (int, bool):
            return z3.BitVecVal(idx & 15, 4)
        return z3.simplify(z3.Extract(3, 0, idx) if idx.size() > 4 else idx)

    def read(self, idx):
        j = self.idx4(idx)
        v = self.fn(j)
        for (c, i, val) in self.log:
            hit = z3.simplify(i == j)
            if z3.is_false(hit):
                continue
            v = z3.If(z3.And(_zb(c), hit), val, v)
        return v

    def write(self, idx, val, en):
        if en is False:
            return self
        return Z3Regs(fn=self.fn, log=self.log + ((en, self.idx4(idx), val),))


class State:
    def __init__(self, ops, regs, pc, n, z, c, v, mem, t=False, legal=True, system=False, unpred=False, fault=False,
                 passed=True):
        self.ops = ops
        self.regs = regs
        self.pc = pc
        self.n, self.z, self.c, self.v = n, z, c, v
        self.mem = mem
        self.t = t                  # Thumb state selected by an interworking branch
        self.legal = legal          # the stepped word was a modelled instruction
        self.system = system        # ... of the opaque system class (state unchanged except pc)
        self.unpred = unpred        # ... whose behaviour the manual leaves UNPREDICTABLE / UNKNOWN
        self.fault = fault          # ... that takes an alignment fault
        self.passed = passed        # ... whose condition passed


def make_state(r, pc, flags=(False, False, False, False), mem=None, membytes=None):
    """r: 15 values (r0..r14) or a Z3Regs; ints -> PY state, anything symbolic -> Z3 state"""
    if type(r) is Z3Regs:
        ops, regs = Z3OPS, r
    else:
        allv = list(r) + [pc] + list(flags) + (list(membytes) if membytes is not None else [])
        ops = PYOPS if all(type(v) in (int, bool) for v in allv) else Z3OPS
        regs = PyRegs([ops.val(v) for v in r]) if ops is PYOPS else Z3Regs(vals=[ops.val(v) for v in r])
    if mem is None:
        mem = LogMemory(ops, periodic_bg(ops, membytes if membytes is not None else [0] * 8))
    fl = [bool(f) if ops is PYOPS else (f if z3.is_expr(f) else (core.tobool(f) if type(f) is SymBool else bool(f)))
          for f in flags]
    return State(ops, regs, ops.val(pc), fl[0], fl[1], fl[2], fl[3], mem)


def read_reg(st, idx):
    """R[idx] as an instruction sees it: r15 reads as pc + 8"""
    o = st.ops
    if not o.sym:
        return o.add(st.pc, 8) if idx == 15 else st.regs.read(idx)
    j = Z3Regs.idx4(o.val(idx))
    if z3.is_bv_value(j):
        return st.pc + 8 if j.as_long() == 15 else st.regs.read(j)
    return z3.If(j == 15, st.pc + 8, st.regs.read(j))


def cond_passed(o, st, cond):
    """ConditionPassed() (A8.3) for the 4-bit condition field"""
    n, z, c, v = st.n, st.z, st.c, st.v
    base = [z, c, n, v, o.and_(c, o.not_(z)), o.eq(o.b2v(n), o.b2v(v)),
            o.and_(o.eq(o.b2v(n), o.b2v(v)), o.not_(z)), True]
    cc = o.conc(cond)
    if cc is not None:
        r = base[cc >> 1]
        return o.not_(r) if (cc & 1) and cc != 15 else r
    sel = z3.Extract(3, 1, cond)
    r = _zb(base[7])
    for k in range(6, -1, -1):
        r = z3.If(sel == k, _zb(base[k]), r)
    inv = z3.And(z3.Extract(0, 0, cond) == 1, z3.Extract(3, 0, cond) != 15)
    return z3.If(inv, z3.Not(r), r)


def shift_c(o, x, stype, amt, cin):
    """Shift_C(value, type, amount, carry_in) (A2.2.1); amount is a value (0..255), stype 0..4 (RRX = 4)"""
    one = o.val(1)
    am1 = o.sub(amt, one)
    lsl = (o.shl(x, amt), o.bit(o.shr(x, o.sub(o.val(32), amt)), 0))
    lsr = (o.shr(x, amt), o.bit(o.shr(x, am1), 0))
    asr = (o.sar(x, amt), o.bit(o.sar(x, am1), 0))
    rr = o.ror(x, amt)
    ror = (rr, o.bit(rr, 31))
    rrx = (o.bor(o.shl(o.b2v(cin), o.val(31)), o.shr(x, one)), o.bit(x, 0))
    sc = o.conc(stype)
    alts = [lsl, lsr, asr, ror, rrx]
    if sc is not None:
        res, car = alts[sc]
    else:
        res, car = rrx
        for k in (3, 2, 1, 0):
            hit = o.eq(stype, o.val(k))
            res, car = o.ite(hit, alts[k][0], res), o.ite(hit, alts[k][1], car)
    zero = o.eq(amt, o.val(0))
    return o.ite(zero, x, res), o.ite(zero, cin, car)


class _Eff:
    __slots__ = ("writes", "flags", "npc", "stores", "system", "unpred", "fault")

    def __init__(self, writes=(), flags=None, npc=None, stores=(), system=False, unpred=False, fault=False):
        self.writes = list(writes)      # [(index, value, enable)]; index 15 = branch (BXWritePC)
        self.flags = flags              # (enable, n, z, c, v)
        self.npc = npc                  # BranchWritePC target
        self.stores = list(stores)      # [(address, byte, enable)]
        self.system, self.unpred, self.fault = system, unpred, fault


def _nz(o, res):
    return o.bit(res, 31), o.eq(res, o.val(0))


def _dp(name, kind):
    base = name

    def sem(o, st, f):
        cin = st.c
        if kind == "imm":
            op2 = o.val(f["imm"])
            sc = o.ite(o.eq(o.val(f["rot"]), o.val(0)), cin, o.bit(op2, 31))
        elif kind == "reg":
            op2, sc = shift_c(o, read_reg(st, f["rm"]), o.val(f["stype"]), o.val(f["samt"]), cin)
        else:
            amt = o.band(read_reg(st, f["rs"]), o.val(0xFF))
            op2, sc = shift_c(o, read_reg(st, f["rm"]), o.val(f["stype"]), amt, cin)
        rn = read_reg(st, f["rn"]) if base not in MOVES else None
        arith = None
        if base in ("and", "tst"):
            res = o.band(rn, op2)
        elif base in ("eor", "teq"):
            res = o.bxor(rn, op2)
        elif base == "orr":
            res = o.bor(rn, op2)
        elif base == "bic":
            res = o.band(rn, o.bnot(op2))
        elif base == "mov":
            res = op2
        elif base == "mvn":
            res = o.bnot(op2)
        else:
            if base in ("sub", "cmp"):
                arith = o.add_c(rn, o.bnot(op2), True)
            elif base == "rsb":
                arith = o.add_c(o.bnot(rn), op2, True)
            elif base in ("add", "cmn"):
                arith = o.add_c(rn, op2, False)
            elif base == "adc":
                arith = o.add_c(rn, op2, cin)
            elif base == "sbc":
                arith = o.add_c(rn, o.bnot(op2), cin)
            elif base == "rsc":
                arith = o.add_c(o.bnot(rn), op2, cin)
            res = arith[0]
        n, z = _nz(o, res)
        if arith is not None:
            fl = (o.eq(o.val(f["S"]), o.val(1)), n, z, arith[1], arith[2])
        else:
            fl = (o.eq(o.val(f["S"]), o.val(1)), n, z, sc, st.v)
        wr = [] if base in COMPARES else [(f["rd"], res, True)]
        return _Eff(writes=wr, flags=fl)
    return sem


def _movw(o, st, f):
    return _Eff(writes=[(f["rd"], o.val(f["imm"]), True)])


def _movt(o, st, f):
    old = read_reg(st, f["rd"])
    return _Eff(writes=[(f["rd"], o.bor(o.band(old, o.val(0xFFFF)), o.shl(o.val(f["imm"]), o.val(16))), True)])


def _mul(o, st, f):
    res = o.mul(read_reg(st, f["rn"]), read_reg(st, f["rm"]))
    n, z = _nz(o, res)
    return _Eff(writes=[(f["rd"], res, True)], flags=(o.eq(o.val(f["S"]), o.val(1)), n, z, st.c, st.v))


def _mla(o, st, f):
    res = o.add(o.mul(read_reg(st, f["rn"]), read_reg(st, f["rm"])), read_reg(st, f["ra"]))
    n, z = _nz(o, res)
    return _Eff(writes=[(f["rd"], res, True)], flags=(o.eq(o.val(f["S"]), o.val(1)), n, z, st.c, st.v))


def _mls(o, st, f):
    res = o.sub(read_reg(st, f["ra"]), o.mul(read_reg(st, f["rn"]), read_reg(st, f["rm"])))
    return _Eff(writes=[(f["rd"], res, True)])


def _mull(signed, acc):
    def sem(o, st, f):
        lo, hi = o.mull(read_reg(st, f["rn"]), read_reg(st, f["rm"]), signed)
        if acc == "acc":        # UMLAL / SMLAL: + RdHi:RdLo
            lo, hi = o.add64(lo, hi, read_reg(st, f["rdlo"]), read_reg(st, f["rdhi"]))
        elif acc == "umaal":    # + RdHi + RdLo
            lo, hi = o.add64(lo, hi, read_reg(st, f["rdlo"]), o.val(0))
            lo, hi = o.add64(lo, hi, read_reg(st, f["rdhi"]), o.val(0))
        fl = None
        if acc != "umaal":
            fl = (o.eq(o.val(f["S"]), o.val(1)), o.bit(hi, 31), o.and_(o.eq(hi, o.val(0)), o.eq(lo, o.val(0))), st.c, st.v)
        return _Eff(writes=[(f["rdhi"], hi, True), (f["rdlo"], lo, True)], flags=fl)
    return sem


def _div(signed):
    def sem(o, st, f):
        a, b = read_reg(st, f["rn"]), read_reg(st, f["rm"])
        return _Eff(writes=[(f["rd"], o.sdiv(a, b) if signed else o.udiv(a, b), True)])
    return sem


def _load_bytes(o, st, addr, n, signed):
    bs = [st.mem.load_byte(o.add(addr, o.val(i))) for i in range(n)]
    return o.cat(bs, signed)


def _store_bytes(o, addr, val, n, en=True):
    return [(o.add(addr, o.val(i)), o.byte(val, i), en) for i in range(n)]


def _ls(load, size, signed, form):
    """LDR/STR/LDRB/STRB/LDRH/STRH/LDRSB/LDRSH; form: imm / reg (shifted) / xreg (plain register)"""
    def sem(o, st, f):
        base = read_reg(st, f["rn"])        # Rn = PC (literal form): Align(PC, 4) = pc + 8, pc is word aligned
        if form == "imm":
            oaddr = o.add(base, o.val(f["imm"]))
        else:
            off = read_reg(st, f["rm"])
            if form == "reg":
                off, _ = shift_c(o, off, o.val(f["stype"]), o.val(f["samt"]), st.c)
            oaddr = o.ite(f["add"], o.add(base, off), o.sub(base, off))
        index, wback = f["index"], f["wback"]
        addr = o.ite(index, oaddr, base)
        e = _Eff()
        if load:
            data = _load_bytes(o, st, addr, size, signed)
            e.writes.append((f["rn"], oaddr, wback))
            e.writes.append((f["rt"], data, True))
            if size == 4:       # "if t == 15 then if address<1:0> == '00' then LoadWritePC(data) else UNPREDICTABLE"
                e.unpred = o.and_(o.eq(o.val(f["rt"]), o.val(15)), o.not_(o.eq(o.band(addr, o.val(3)), o.val(0))))
        else:
            data = read_reg(st, f["rt"])        # t == 15: PCStoreValue() = pc + 8
            e.stores = _store_bytes(o, addr, data, size)
            e.writes.append((f["rn"], oaddr, wback))
        return e
    return sem


def _block(load, mode, sp=False):
    """LDM/STM; mode ia / ib / da / db; sp: PUSH (stmdb sp!) / POP (ldmia sp!)"""
    def sem(o, st, f):
        lst = o.val(f["list"])
        rn = o.val(13) if sp else f["rn"]
        wback = True if sp else f["wback"]
        base = read_reg(st, rn)
        bits = [o.bit(lst, i) for i in range(16)]
        cnt = o.val(0)
        before = []
        for i in range(16):
            before.append(cnt)
            cnt = o.add(cnt, o.b2v(bits[i]))
        n4 = o.shl(cnt, o.val(2))
        start = {"ia": base, "ib": o.add(base, o.val(4)), "da": o.add(o.sub(base, n4), o.val(4)),
                 "db": o.sub(base, n4)}[mode]
        newbase = o.add(base, n4) if mode in ("ia", "ib") else o.sub(base, n4)
        e = _Eff(fault=o.not_(o.eq(o.band(start, o.val(3)), o.val(0))))
        if load:
            e.writes.append((rn, newbase, wback))
        for i in range(16):
            if bits[i] is False:
                continue
            a = o.add(start, o.shl(before[i], o.val(2)))
            if load:
                e.writes.append((i, _load_bytes(o, st, a, 4, False), bits[i]))
            else:
                e.stores += _store_bytes(o, a, read_reg(st, i), 4, bits[i])
        if not load:
            e.writes.append((rn, newbase, wback))
        return e
    return sem


def _b(link):
    def sem(o, st, f):
        target = o.add(o.add(st.pc, o.val(8)), o.val(f["imm"]))
        wr = [(14, o.add(st.pc, o.val(4)), True)] if link else []
        return _Eff(writes=wr, npc=o.band(target, o.val(0xFFFFFFFC)))
    return sem


def _bx(link):
    def sem(o, st, f):
        target = read_reg(st, f["rm"])
        wr = [(14, o.add(st.pc, o.val(4)), True)] if link else []
        return _Eff(writes=wr + [(15, target, True)])
    return sem


def _ext(size, signed):
    def sem(o, st, f):
        rot = o.ror(read_reg(st, f["rm"]), o.shl(o.val(f["rot"]), o.val(3)))
        res = o.sextn(rot, size) if signed else o.band(rot, o.val((1 << size) - 1))
        return _Eff(writes=[(f["rd"], res, True)])
    return sem


def _nop(o, st, f):
    return _Eff()


def _system(o, st, f):
    return _Eff(system=True)


SEM = {"movw": _movw, "movt": _movt, "mul": _mul, "mla": _mla, "mls": _mls,
       "umull": _mull(False, None), "umlal": _mull(False, "acc"), "smull": _mull(True, None), "smlal": _mull(True, "acc"),
       "umaal": _mull(False, "umaal"), "sdiv": _div(True), "udiv": _div(False),
       "b": _b(False), "bl": _b(True), "bx": _bx(False), "blx_reg": _bx(True),
       "sxtb": _ext(8, True), "sxth": _ext(16, True), "uxtb": _ext(8, False), "uxth": _ext(16, False),
       "nop": _nop, "push": _block(False, "db", True), "pop": _block(True, "ia", True)}
for _n in DP:
    for _k in ("imm", "reg", "rsr"):
        SEM[f"{_n}_{_k}"] = _dp(_n, _k)
for _n, _ld, _sz, _sg in (("str", False, 4, False), ("ldr", True, 4, False), ("strb", False, 1, False),
                          ("ldrb", True, 1, False)):
    SEM[_n + "_imm"] = _ls(_ld, _sz, _sg, "imm")
    SEM[_n + "_reg"] = _ls(_ld, _sz, _sg, "reg")
for _n, _ld, _sz, _sg in (("strh", False, 2, False), ("ldrh", True, 2, False), ("ldrsb", True, 1, True),
                          ("ldrsh", True, 2, True)):
    SEM[_n + "_imm"] = _ls(_ld, _sz, _sg, "imm")
    SEM[_n + "_reg"] = _ls(_ld, _sz, _sg, "xreg")
for _m in ("ia", "ib", "da", "db"):
    SEM["stm" + _m] = _block(False, _m)
    SEM["ldm" + _m] = _block(True, _m)
for _n in SYSTEM:
    SEM[_n] = _system
assert set(SEM) == set(NAMES), set(SEM) ^ set(NAMES)


def step(st, word):
    """execute the A32 instruction `word` on state st -> new State.  An unmodelled word leaves registers, flags,
    memory and pc unchanged and sets legal=False."""
    o = st.ops
    w = o.val(word)
    d = decode(w)
    passed = cond_passed(o, st, d.D.bits(w, 31, 28))
    regs, mem = st.regs, st.mem
    seq = o.add(st.pc, o.val(4))
    npc = st.pc
    n, z, c, v, t = st.n, st.z, st.c, st.v, st.t
    legal = system = unpred = fault = False
    for (cnd, name, f) in d.entries:
        e = SEM[name](o, st, f)
        g = o.and_(cnd, passed)
        legal = o.or_(legal, cnd)
        system = o.or_(system, o.and_(cnd, e.system))
        unpred = o.or_(unpred, o.and_(cnd, f["unpred"]), o.and_(g, e.unpred))
        fault = o.or_(fault, o.and_(g, e.fault))
        inpc = seq
        for (idx, val, en) in e.writes:
            en2 = o.and_(g, en)
            if en2 is False:
                continue
            regs = regs.write(idx if not o.sym else o.val(idx), val, en2)
            is15 = o.eq(o.val(idx), o.val(15))
            ic = o.conc(o.val(idx)) if o.sym else idx
            if ic is not None and ic != 15:
                continue
            br = o.and_(en2, is15)          # BXWritePC (ALUWritePC / LoadWritePC in ARM state, ARMv7)
            inpc = o.ite(br, o.band(val, o.val(0xFFFFFFFE)), inpc)
            t = o.ite(br, o.bit(val, 0), t)
            unpred = o.or_(unpred, o.and_(br, o.eq(o.band(val, o.val(3)), o.val(2))))
        if e.npc is not None:
            inpc = o.ite(g, e.npc, inpc)
        npc = o.ite(cnd, inpc, npc)
        if e.flags is not None:
            en, fn, fz, fc, fv = e.flags
            en2 = o.and_(g, en)
            if en2 is not False:
                n, z, c, v = o.ite(en2, fn, n), o.ite(en2, fz, z), o.ite(en2, fc, c), o.ite(en2, fv, v)
        for (a, b, en) in e.stores:
            mem = mem.store_byte(a, b, o.and_(g, en))
    return State(o, regs, npc, n, z, c, v, mem, t, legal, system, unpred, fault, passed)


# ---------------------------------------------------------------------------------------------
# self-test ("validate the translator")
_REGNAMES = {f"r{i}": i for i in range(16)}
_REGNAMES.update(sp=13, lr=14, pc=15, fp=11, ip=12, sl=10, sb=9)
_SHIFTS = {"lsl": LSL, "lsr": LSR, "asr": ASR, "ror": ROR}


def split_mnemonic(mn, bases):
    """'subcc' -> ('sub', 3); None if not exactly one reading base + optional condition exists"""
    conds = {c: i for i, c in enumerate(COND_NAMES)}
    conds.update(COND_ALIASES)
    hits = []
    for b in bases:
        if mn == b:
            hits.append((b, 14))
        elif mn.startswith(b) and mn[len(b):] in conds:
            hits.append((b, conds[mn[len(b):]]))
    return hits[0] if len(hits) == 1 else None


_ASM_BASES = list(DP) + ["mul", "mla", "mls", "sdiv", "udiv", "lsl", "lsr", "asr", "ror", "b", "bl", "bx", "blx", "push",
                         "pop", "ldr", "str", "ldrb", "strb", "ldrh", "strh", "ldrsb", "ldrsh", "adr", "nop", "mcr", "mrc"]


def _parse_vectors(path):
    """[(test name, [assembler lines], bytes)] from a ppci assembler test file (self.feed / self.check calls)"""
    import ast
    out = []
    tree = ast.parse(open(path).read())
    for cls in [n for n in tree.body if isinstance(n, ast.ClassDef)]:
        for fn in [n for n in cls.body if isinstance(n, ast.FunctionDef) and n.name.startswith("test_")]:
            feeds, data = [], None
            for call in [n for n in ast.walk(fn) if isinstance(n, ast.Call) and isinstance(n.func, ast.Attribute)]:
                if not call.args or not isinstance(call.args[0], ast.Constant) or not isinstance(call.args[0].value, str):
                    continue
                if call.func.attr == "feed":
                    feeds.append((call.lineno, call.args[0].value))
                elif call.func.attr == "check":
                    data = bytes.fromhex(call.args[0].value.replace(" ", ""))
            if data is not None:
                lines = [ln.strip() for _, text in sorted(feeds) for ln in text.split("\n") if ln.strip()]
                out.append((fn.name, lines, data))
    return out


def _operands(rest):
    """split at top-level commas ([...] and {...} stay together)"""
    out, cur, depth = [], "", 0
    for ch in rest:
        if ch in "[{":
            depth += 1
        if ch in "]}":
            depth -= 1
        if ch == "," and depth == 0:
            out.append(cur.strip())
            cur = ""
        else:
            cur += ch
    if cur.strip():
        out.append(cur.strip())
    return out


def _int(s):
    return int(s.lstrip("#"), 0)


def _expect_from_asm(text, addr, labels):
    """(table entry name, expected fields) for one line in ppci's ARM assembler syntax; None = not modelled"""
    mn, _, rest = text.strip().partition(" ")
    sp = split_mnemonic(mn.lower(), _ASM_BASES)
    assert sp is not None, text
    base, cond = sp
    ops = _operands(rest)
    exp = dict(cond=cond)
    R = _REGNAMES
    if base in ("mcr", "mrc"):
        return None
    if base in DP:
        sh = None
        if ops and ops[-1].split()[0] in _SHIFTS and len(ops[-1].split()) == 2:
            k, n = ops.pop().split()
            sh = (_SHIFTS[k], _int(n))
        names = ["rn"] if base in COMPARES else (["rd"] if base in MOVES else ["rd", "rn"])
        for nm, o in zip(names, ops):
            exp[nm] = R[o]
        last = ops[len(names)]
        if last in R:
            exp["rm"] = R[last]
            exp["stype"], exp["samt"] = sh or (LSL, 0)
            return base + "_reg", exp
        exp["imm"] = _int(last)
        return base + "_imm", exp
    if base in ("lsl", "lsr", "asr", "ror"):       # ppci: register shift amounts only
        exp.update(rd=R[ops[0]], rm=R[ops[1]], rs=R[ops[2]], stype=_SHIFTS[base])
        return "mov_rsr", exp
    if base in ("mul", "sdiv", "udiv"):
        exp.update(rd=R[ops[0]], rn=R[ops[1]], rm=R[ops[2]])
        return base, exp
    if base in ("mla", "mls"):
        exp.update(rd=R[ops[0]], rn=R[ops[1]], rm=R[ops[2]], ra=R[ops[3]])
        return base, exp
    if base in ("b", "bl"):
        exp["imm"] = labels[ops[0]] - (addr + 8)
        return base, exp
    if base in ("bx", "blx"):
        exp["rm"] = R[ops[0]]
        return "bx" if base == "bx" else "blx_reg", exp
    if base in ("push", "pop"):
        m = 0
        for r in ops[0].strip("{}").split(","):
            m |= 1 << R[r.strip()]
        exp["list"] = m
        return base, exp
    if base == "adr":
        exp.update(rd=R[ops[0]], imm=labels[ops[1]] - (addr + 8))
        return "adr", exp
    if base in ("ldr", "str", "ldrb", "strb", "ldrh", "strh", "ldrsb", "ldrsh"):
        exp["rt"] = R[ops[0]]
        if ops[1].startswith("="):
            return base + "_lit", exp
        if not ops[1].startswith("["):
            exp["imm"] = labels[ops[1]] - (addr + 8)
            return base + "_lit", exp
        inner = _operands(ops[1].strip("[]"))
        exp.update(rn=R[inner[0]], index=True, wback=False)
        if len(inner) == 1:
            exp["imm"] = 0
            return base + "_imm", exp
        if inner[1] in R:
            exp.update(rm=R[inner[1]], add=True)
            return base + "_reg", exp
        exp["imm"] = _int(inner[1])
        return base + "_imm", exp
    if base == "nop":
        return "nop", exp
    raise AssertionError(f"no expectation for {text!r}")


def selftest(repo=None, verbose=False):
    """returns a dict of counters; raises AssertionError on any disagreement"""
    import os
    import random
    stats = dict(table_pairs=0, table_pairs_solver=0, known_words=0, vectors=0, vector_tests_skipped=0,
                 vectors_unmodelled=0, semantics_known=0, step_cross=0, decode_cross=0)
    # (A) the table is a function: no word matches two entries (solver for entries with side conditions)
    w = z3.BitVec("w", 32)
    for i in range(len(TABLE)):
        m1, v1, n1, f1, c1 = TABLE[i]
        assert v1 & ~m1 == 0 and m1 & 0xF0000000 == 0, n1
        for j in range(i + 1, len(TABLE)):
            m2, v2, n2, f2, c2 = TABLE[j]
            stats["table_pairs"] += 1
            if (v1 ^ v2) & m1 & m2:
                continue
            assert c1 is not None or c2 is not None, f"overlapping entries {n1} {n2}"
            s = z3.Solver()
            for (m, v, n, f, c) in (TABLE[i], TABLE[j]):
                s.add((w & m) == v)
                if c is not None:
                    fd = f(Z3, w)
                    s.add(_zb(c(Z3, fd, w)))
            stats["table_pairs_solver"] += 1
            assert s.check() == z3.unsat, f"overlapping entries {n1} {n2}: {s.model()}"
    # (B) encodings well known from the manual / GNU toolchain listings
    known = {
        0xE1A00000: ("mov_reg", dict(rd=0, rm=0, stype=0, samt=0, S=0)), 0xE12FFF1E: ("bx", dict(rm=14)),
        0xE92D4800: ("push", dict(list=0x4800)), 0xE8BD8800: ("pop", dict(list=0x8800)),
        0xE3A00001: ("mov_imm", dict(rd=0, imm=1)), 0xE3E00000: ("mvn_imm", dict(rd=0, imm=0)),
        0xE2800001: ("add_imm", dict(rd=0, rn=0, imm=1, S=0)), 0xE0810002: ("add_reg", dict(rd=0, rn=1, rm=2)),
        0xE0500001: ("sub_reg", dict(rd=0, rn=0, rm=1, S=1)), 0xE1500001: ("cmp_reg", dict(rn=0, rm=1)),
        0xE3500000: ("cmp_imm", dict(rn=0, imm=0)), 0xE3A004FF: ("mov_imm", dict(rd=0, imm=0xFF000000)),
        0xE59F0004: ("ldr_lit", dict(rt=0, imm=4)), 0xE5810000: ("str_imm", dict(rt=0, rn=1, imm=0, wback=False)),
        0xE52DE004: ("str_imm", dict(rt=14, rn=13, imm=-4, index=True, wback=True)),
        0xE49DF004: ("ldr_imm", dict(rt=15, rn=13, imm=4, index=False, wback=True)),
        0xE5B10004: ("ldr_imm", dict(rt=0, rn=1, imm=4, index=True, wback=True)),
        0xE7910102: ("ldr_reg", dict(rt=0, rn=1, rm=2, stype=0, samt=2, add=True, index=True, wback=False)),
        0xEBFFFFFE: ("bl", dict(imm=-8)), 0xEAFFFFFE: ("b", dict(imm=-8)), 0x0A000000: ("b", dict(imm=0, cond=0)),
        0xE0000291: ("mul", dict(rd=0, rn=1, rm=2)), 0xE0832190: ("umull", dict(rdhi=3, rdlo=2, rn=0, rm=1)),
        0xE0203291: ("mla", dict(rd=0, rn=1, rm=2, ra=3)), 0xE0603291: ("mls", dict(rd=0, rn=1, rm=2, ra=3)),
        0xE1A01081: ("mov_reg", dict(rd=1, rm=1, stype=LSL, samt=1)), 0xE1A00251: ("mov_rsr", dict(rd=0, rm=1, rs=2, stype=ASR)),
        0xE1A00061: ("mov_reg", dict(rd=0, rm=1, stype=RRX, samt=1)), 0xE1A00021: ("mov_reg", dict(rd=0, rm=1, stype=LSR, samt=32)),
        0xE1A000E1: ("mov_reg", dict(rd=0, rm=1, stype=ROR, samt=1)),
        0xE3001234: ("movw", dict(rd=1, imm=0x234)), 0xE34F1FFF: ("movt", dict(rd=1, imm=0xFFFF)),
        0xE320F000: ("nop", {}), 0xEF000000: ("svc", dict(imm=0)), 0xE10F0000: ("mrs", dict(rd=0)),
        0xE129F000: ("msr_reg", dict(rn=0, mask=9)), 0xE6EF0071: ("uxtb", dict(rd=0, rm=1, rot=0)),
        0xE6BF0071: ("sxth", dict(rd=0, rm=1)), 0xE1D100B2: ("ldrh_imm", dict(rt=0, rn=1, imm=2)),
        0xE1C100B2: ("strh_imm", dict(rt=0, rn=1, imm=2)), 0xE15100D1: ("ldrsb_imm", dict(rt=0, rn=1, imm=-1)),
        0xE710F211: ("sdiv", dict(rd=0, rn=1, rm=2)), 0xE730F211: ("udiv", dict(rd=0, rn=1, rm=2)),
        0xE8900006: ("ldmia", dict(rn=0, list=6, wback=False)), 0xE9A10030: ("stmib", dict(rn=1, list=0x30, wback=True)),
        0xE28F0008: ("adr", dict(rd=0, imm=8)), 0xE24F0008: ("adr", dict(rd=0, imm=-8)),
        0xE7F000F0: (None, None), 0xF57FF04F: (None, None), 0xE1A00010 | 15 << 8: ("mov_rsr", dict(rs=15, unpred=True)),
        0xE1F00000: (None, None),      # mvns with S... actually "mvns r0, r0" is 0xE1F00000: legal; replaced below
    }
    known[0xE1F00000] = ("mvn_reg", dict(rd=0, rm=0, S=1))
    known[0xE1B0F00E] = (None, None)    # movs pc, lr: exception return, not modelled
    def same(d, mn, exp, what):
        if mn in ALIASES:
            assert d.is_(mn), (what, d.mnemonic, mn)
            got = d.fields(mn)
        else:
            assert d.mnemonic == mn, (what, d.mnemonic, mn)
            got = d.operands
        for k, v in (exp or {}).items():
            assert got[k] == v, (what, k, got, exp)
    for wv, (mn, opsd) in known.items():
        same(decode(wv), mn, opsd, hex(wv))
        stats["known_words"] += 1
    # (C) the repo's assembler test vectors
    repo = repo or os.environ.get("PPCI_REPO", "/repo")
    for tname, lines, data in _parse_vectors(os.path.join(repo, "test", "arch", "test_armasm.py")):
        if any(ln.split()[0] in ("repeat", "endrepeat") for ln in lines):
            stats["vector_tests_skipped"] += 1
            continue
        labels, stmts, pos = {}, [], 0
        for t in lines:
            if t.endswith(":"):
                labels[t[:-1]] = pos
                continue
            stmts.append((t, pos))
            pos += 4
        if pos != len(data) and any(t.split()[1].startswith("=") for t, _ in stmts if len(t.split()) > 2 and "," in t
                                    ) or any("=" in t for t, _ in stmts):
            pass        # literal pool appended by "ldr rX, =label"
        else:
            assert pos == len(data), (tname, pos, len(data))
        for t, pos in stmts:
            if t.split()[0] in ("dd", "dcd", "db", "dw"):
                continue
            wv = int.from_bytes(data[pos:pos + 4], "little")
            d = decode(wv)
            e = _expect_from_asm(t, pos, labels)
            if e is None:
                assert d.mnemonic is None, (tname, t, d.mnemonic)
                stats["vectors_unmodelled"] += 1
                continue
            mn, exp = e
            same(d, mn, exp, (tname, t, hex(wv)))
            stats["vectors"] += 1
    # (D) hand-computed results of the manual's pseudocode
    def run(word, r=None, pc=0x1000, flags=(0, 0, 0, 0), mem=None):
        rr = [0] * 15
        for k, v in (r or {}).items():
            rr[k] = v
        st = make_state(rr, pc, flags=[bool(x) for x in flags], membytes=mem or list(range(64)))
        return step(st, word)

    def chk(word, r, expect, **kw):
        t = run(word, r, **kw)
        assert t.legal and not t.unpred and not t.fault, hex(word)
        for k, v in expect.items():
            if k == "pc":
                got = t.pc
            elif k in ("n", "z", "c", "v", "t"):
                got = int(getattr(t, k))
            elif isinstance(k, tuple):
                got = t.mem.load_byte(k[1])
            else:
                got = t.regs.read(k)
            assert got == v, (hex(word), k, hex(got), hex(v))
        stats["semantics_known"] += 1
    chk(0xE0910002, {1: 0x7FFFFFFF, 2: 1}, {0: 0x80000000, "n": 1, "z": 0, "c": 0, "v": 1, "pc": 0x1004})   # adds
    chk(0xE0510002, {1: 5, 2: 5}, {0: 0, "z": 1, "c": 1, "v": 0, "n": 0})                                  # subs
    chk(0xE1510002, {1: 1, 2: 2}, {"n": 1, "c": 0, "z": 0, "v": 0, 0: 0})                                  # cmp
    chk(0xE0510002, {1: 0x80000000, 2: 1}, {0: 0x7FFFFFFF, "v": 1, "c": 1, "n": 0})                        # subs overflow
    chk(0xE0A10002, {1: 0xFFFFFFFF, 2: 0}, {0: 0}, flags=(0, 0, 1, 0))                                     # adc
    chk(0xE0D10002, {1: 5, 2: 3}, {0: 1, "c": 1}, flags=(0, 0, 0, 0))                                      # sbcs: 5-3-1
    chk(0xE0710002, {1: 3, 2: 5}, {0: 2, "c": 1})                                                          # rsbs
    chk(0xE1B00021, {1: 0x80000000}, {0: 0, "c": 1, "z": 1, "n": 0})                                       # movs r0, r1, lsr #32
    chk(0xE1B00061, {1: 3}, {0: 0x80000001, "c": 1, "n": 1}, flags=(0, 0, 1, 0))                           # movs r0, r1, rrx
    chk(0xE1B00041, {1: 0x80000000}, {0: 0xFFFFFFFF, "c": 1, "n": 1})                                      # movs r0, r1, asr #32
    chk(0xE3B004FF, {}, {0: 0xFF000000, "c": 1, "n": 1, "z": 0})                                           # movs r0, #0xff000000
    chk(0xE3B000FF, {}, {0: 0xFF, "c": 1}, flags=(0, 0, 1, 0))                                             # rot = 0: C unchanged
    chk(0xE1B00211, {1: 1, 2: 0x120}, {0: 0, "c": 1, "z": 1})                                              # lsls r0, r1, r2 (32)
    chk(0xE1B00211, {1: 1, 2: 0x121}, {0: 0, "c": 0})                                                      # lsls by 33
    chk(0xE1B00231, {1: 0x80000000, 2: 32}, {0: 0, "c": 1})                                                # lsrs by 32
    chk(0xE1B00271, {1: 0x80000001, 2: 32}, {0: 0x80000001, "c": 1})                                       # rors by 32
    chk(0xE1B00211, {1: 5, 2: 0x100}, {0: 5, "c": 1}, flags=(0, 0, 1, 0))                                  # shift by 0 (low byte)
    chk(0xE1A0000F, {}, {0: 0x1008})                                                                       # mov r0, pc
    chk(0xE08F0001, {1: 4}, {0: 0x100C})                                                                   # add r0, pc, r1
    chk(0xE1A0F00E, {14: 0x2001}, {"pc": 0x2000, "t": 1})                                                  # mov pc, lr (interworking)
    chk(0xE12FFF1E, {14: 0x2000}, {"pc": 0x2000, "t": 0})                                                  # bx lr
    chk(0xE12FFF31, {1: 0x3000}, {"pc": 0x3000, 14: 0x1004})                                               # blx r1
    chk(0xEB000002, {}, {"pc": 0x1010, 14: 0x1004})                                                        # bl +8
    chk(0x0AFFFFFE, {}, {"pc": 0x1004})                                                                    # beq (Z clear)
    chk(0x0AFFFFFE, {}, {"pc": 0x1000}, flags=(0, 1, 0, 0))                                                # beq . (Z set)
    chk(0x91A04084, {4: 3}, {4: 6}, flags=(0, 0, 0, 0))                                                    # movls: C clear
    chk(0x91A04084, {4: 3}, {4: 3}, flags=(0, 0, 1, 0))                                                    # movls: C set, Z clear
    chk(0xC1A04084, {4: 3}, {4: 6}, flags=(1, 0, 0, 1))                                                    # movgt: N == V, Z clear
    chk(0xB1A04084, {4: 3}, {4: 6}, flags=(1, 0, 0, 0))                                                    # movlt: N != V
    chk(0xE92D4010, {4: 0x11223344, 14: 0xAABBCCDD, 13: 0x1000},
        {13: 0xFF8, ("m", 0xFF8): 0x44, ("m", 0xFFB): 0x11, ("m", 0xFFC): 0xDD, ("m", 0xFFF): 0xAA})       # push {r4, lr}
    chk(0xE8BD8010, {13: 0x1000}, {13: 0x1008, 4: 0x03020100, "pc": 0x07060504 & ~1, "t": 0})             # pop {r4, pc}
    chk(0xE891000C, {1: 0x1004}, {1: 0x1004, 2: 0x0B0A0908, 3: 0x0F0E0D0C}, mem=list(range(4, 68)))        # ldmia r1, {r2, r3}
    chk(0xE921000C, {1: 0x1010, 2: 0xA1A2A3A4, 3: 0xB1B2B3B4}, {1: 0x1008, ("m", 0x1008): 0xA4, ("m", 0x100C): 0xB4})  # stmdb r1!
    chk(0xE59F0004, {}, {0: 0x0F0E0D0C})                                                                   # ldr r0, [pc, #4] @0x1000 -> 0x100c
    chk(0xE5B10004, {1: 0x1000}, {0: 0x07060504, 1: 0x1004})                                               # ldr r0, [r1, #4]!
    chk(0xE4910004, {1: 0x1000}, {0: 0x03020100, 1: 0x1004})                                               # ldr r0, [r1], #4
    chk(0xE5110004, {1: 0x1008}, {0: 0x07060504, 1: 0x1008})                                               # ldr r0, [r1, #-4]
    chk(0xE7910102, {1: 0x1000, 2: 2}, {0: 0x0B0A0908})                                                    # ldr r0, [r1, r2, lsl #2]
    chk(0xE5C10001, {0: 0xABCD, 1: 0x2000}, {("m", 0x2001): 0xCD, ("m", 0x2002): 2})                       # strb
    chk(0xE1C100B2, {0: 0xABCD, 1: 0x2000}, {("m", 0x2002): 0xCD, ("m", 0x2003): 0xAB, ("m", 0x2004): 4})  # strh
    chk(0xE1D100D1, {1: 0x1000}, {0: 0xFFFFFF81}, mem=[0, 0x81] + [0] * 62)                                # ldrsb
    chk(0xE1D100F2, {1: 0x1000}, {0: 0xFFFF8001}, mem=[0, 0, 1, 0x80] + [0] * 60)                          # ldrsh
    chk(0xE1D100B2, {1: 0x1000}, {0: 0x8001}, mem=[0, 0, 1, 0x80] + [0] * 60)                              # ldrh
    chk(0xE0000291, {1: 0x10000, 2: 0x10001}, {0: 0x10000})                                                # mul (low word)
    chk(0xE0832190, {0: 0xFFFFFFFF, 1: 0xFFFFFFFF}, {2: 1, 3: 0xFFFFFFFE})                                 # umull
    chk(0xE0C32190, {0: 0xFFFFFFFF, 1: 2}, {2: 0xFFFFFFFE, 3: 0xFFFFFFFF})                                 # smull (-1 * 2)
    chk(0xE0603291, {1: 3, 2: 4, 3: 20}, {0: 8})                                                           # mls: 20 - 12
    chk(0xE0203291, {1: 3, 2: 4, 3: 20}, {0: 32})                                                          # mla
    chk(0xE710F211, {1: 0xFFFFFFF9, 2: 2}, {0: 0xFFFFFFFD})                                                # sdiv -7 / 2 = -3
    chk(0xE710F211, {1: 0x80000000, 2: 0xFFFFFFFF}, {0: 0x80000000})                                       # sdiv overflow
    chk(0xE710F211, {1: 7, 2: 0}, {0: 0})                                                                  # divide by zero
    chk(0xE730F211, {1: 0xFFFFFFF9, 2: 2}, {0: 0x7FFFFFFC})                                                # udiv
    chk(0xE3001234, {1: 0xFFFFFFFF}, {1: 0x234})                                                           # movw
    chk(0xE34F1FFF, {1: 0x1234}, {1: 0xFFFF1234})                                                          # movt
    chk(0xE6EF0471, {1: 0x12345678}, {0: 0x56})                                                            # uxtb r0, r1, ror #8
    chk(0xE6BF0071, {1: 0x8001}, {0: 0xFFFF8001})                                                          # sxth
    chk(0xE28F0008, {}, {0: 0x1010})                                                                       # adr r0, . + 16
    chk(0xE1100001, {0: 1, 1: 2}, {"z": 1, "c": 1}, flags=(0, 0, 1, 0))                                    # tst: C = shifter carry (unchanged)
    chk(0xE3300001, {0: 1}, {"z": 1})                                                                      # teq r0, #1
    chk(0xE1C10002, {1: 0xFF, 2: 0x0F}, {0: 0xF0})                                                         # bic
    assert run(0xE8910006, {1: 0x1002}).fault and run(0xE1A00F11).unpred and not run(0xE7F000F0).legal
    assert run(0xE12FFF1E, {14: 0x2002}).unpred and run(0xEF000000).system
    # (E) PY and Z3 back ends of step() agree; decode on z3 / SymInt-free words agrees with ints
    rnd = random.Random(406)
    words = []
    for (m, v, n, f, c) in TABLE:
        for _ in range(4):
            words.append(((rnd.getrandbits(32) & ~m) | v) & 0x0FFFFFFF | rnd.choice([14, 14, rnd.randrange(15)]) << 28)
    corner = [0, 1, M32, MIN32, 0x7FFFFFFF, 2, 0xFFFFFFFE, 32, 31, 33, 0x100, 0x120]
    for wv in words:
        r = [rnd.choice(corner) if rnd.random() < 0.4 else rnd.getrandbits(32) for _ in range(15)]
        if rnd.random() < 0.7:
            for k in (rnd.randrange(15), 13):
                r[k] &= ~3
        pc = rnd.getrandbits(30) << 2
        fl = [bool(rnd.getrandbits(1)) for _ in range(4)]
        mb = [rnd.getrandbits(8) for _ in range(64)]
        s1 = step(make_state(r, pc, flags=fl, membytes=mb), wv)
        bv = lambda x: z3.BitVecVal(x, 32)     # noqa
        variants = [make_state([bv(x) for x in r], bv(pc), flags=[z3.BoolVal(x) for x in fl],
                               membytes=[z3.BitVecVal(b, 8) for b in mb])]
        arr = z3.K(z3.BitVecSort(4), z3.BitVecVal(0, 32))
        for k in range(15):
            arr = z3.Store(arr, z3.BitVecVal(k, 4), bv(r[k]))
        variants.append(make_state(Z3Regs(arr=arr), bv(pc), flags=[z3.BoolVal(x) for x in fl],
                                   membytes=[z3.BitVecVal(b, 8) for b in mb]))
        sval = lambda e: (z3.simplify(e).as_long() if not z3.is_bool(e) else z3.is_true(z3.simplify(e))) \
            if z3.is_expr(e) else e     # noqa
        for zs in variants:
            s2 = step(zs, bv(wv))
            flags1 = [bool(x) for x in (s1.legal, s1.system, s1.unpred, s1.fault)]
            flags2 = [bool(sval(_zb(x) if type(x) is bool else x)) for x in (s2.legal, s2.system, s2.unpred, s2.fault)]
            assert flags1 == flags2, (hex(wv), decode(wv).mnemonic, flags1, flags2)
            if not s1.legal or s1.unpred:
                continue
            probes = [rnd.getrandbits(32)] + [a for (a, b, en) in s1.mem.log[:3]]
            got = [sval(s2.regs.read(k)) for k in range(15)] + [sval(s2.pc)] + \
                  [bool(sval(x)) for x in (s2.n, s2.z, s2.c, s2.v, s2.t)] + [sval(s2.mem.load_byte(bv(p))) for p in probes]
            want = [s1.regs.read(k) for k in range(15)] + [s1.pc] + [bool(x) for x in (s1.n, s1.z, s1.c, s1.v, s1.t)] + \
                   [s1.mem.load_byte(p) for p in probes]
            assert got == want, (hex(wv), decode(wv).mnemonic, got, want)
        dz = decode(bv(wv))
        hits = [n for (c, n, f) in dz.entries if z3.is_true(z3.simplify(_zb(c)))]
        assert hits == ([decode(wv).mnemonic] if decode(wv).mnemonic else []), (hex(wv), hits)
        if hits:
            fz, fp = dz.fields(hits[0]), decode(wv).operands
            for k in fp:
                assert sval(fz[k]) == (fp[k] & M32 if type(fp[k]) is int else fp[k]), (hex(wv), k)
        stats["decode_cross"] += 1
        stats["step_cross"] += 1
    return stats


if __name__ == "__main__":
    print(selftest())
