"""Reference semantics of the INTEGER subset of WebAssembly 1.0 (+ sign-extension operators), executable on
z3 terms (symbolic) and on concrete values alike.

Written from the WebAssembly Core Specification, section 4 (Execution):
  4.3.2 integer operations: iadd isub imul wrap modulo 2^N; idiv_u / irem_u / idiv_s / irem_s are PARTIAL
        (division by zero: undefined => the instruction traps; idiv_s(-2^(N-1), -1) undefined => trap;
        irem_s(-2^(N-1), -1) = 0; signed division truncates toward zero, the remainder has the sign of the
        dividend); iand ior ixor; ishl / ishr_u / ishr_s shift by (count modulo N); irotl / irotr rotate by
        (count modulo N); iclz ictz ipopcnt; ieqz ieq ine ilt_{u,s} igt ile ige give i32 0/1;
        iextendM_s; wrap, extend_{u,s}.
  4.4.1-4.4.8 instructions: numeric, parametric (drop, select: first operand if the i32 condition is
        non-zero), variable (local.get/set/tee, global.get/set), memory (effective address ea = i + offset
        computed WITHOUT wrap-around on the unsigned 32-bit operand i; trap if ea + N/8 > |mem|; little
        endian; loadN_sx extends, storeN wraps), memory.size (pages of 64 KiB), control (nop, unreachable
        traps, block / loop / if with block types, br l: keep the label's arity many values, unwind to the
        label; br to a loop label continues the loop; br_if; br_table: index i < len ? l_i : default;
        return; call; call_indirect: trap on index outside the table, uninitialised element, or
        function type mismatch), function invocation (locals beyond the parameters are zero).
  4.5 modules: globals initialised from constant expressions, active data segments copied at
        instantiation, active element segments fill the table, start function.
A trap is an OUTCOME (exception `Trap`), never undefined behaviour.

Input format: ppci's wasm component data structure (ppci.wasm.components: Module iterable of definitions
Type/Import/Func/Global/Memory/Data/Table/Elem/Export/Start; Func.instructions is the flat instruction
list with block/loop/if ... else ... end; attribute names only -- nothing of ppci is imported here).

Values are z3 bit-vectors of width 32 / 64.  Branching on a symbolic condition forks through the active symx
engine (as ref/irsem.py); with no engine every condition must simplify to a constant.  Linear memory is one
z3 Array (32-bit address -> byte) with a concrete size in pages; memory.grow is outside the model.
Floats, SIMD, reference types, multi-memory, memory.grow/fill/copy/init, table.* : `Unsupported`.
"""
import z3
from symx import core

PAGE = 65536


class Unsupported(Exception):
    """construct outside the modelled subset"""


class StepLimit(Exception):
    """unwinding bound reached"""


class Trap(Exception):
    """a WebAssembly trap; args[0] is a short reason"""


def _decide(cond):
    c = z3.simplify(cond)
    if z3.is_true(c):
        return True
    if z3.is_false(c):
        return False
    if core.ENG is None:
        raise Unsupported(f"symbolic branch without engine: {c}")
    return core.ENG.decide(c)


def bv(x, n):
    if z3.is_expr(x):
        assert x.size() == n, (x.size(), n)
        return x
    if isinstance(x, (core.SymInt, core.SymBool)):
        return core.to_bv(x, n)
    return z3.BitVecVal(int(x) & ((1 << n) - 1), n)


def _bits(typ):
    if typ == "i32":
        return 32
    if typ == "i64":
        return 64
    raise Unsupported(f"value type {typ}")


def _b2i(c):
    return z3.If(c, z3.BitVecVal(1, 32), z3.BitVecVal(0, 32))


def _clz(a):
    n = a.size()
    r = z3.BitVecVal(n, n)
    for k in range(n):              # highest set bit wins: iterate from bit 0 upwards
        r = z3.If(z3.Extract(k, k, a) == 1, z3.BitVecVal(n - 1 - k, n), r)
    return r


def _ctz(a):
    n = a.size()
    r = z3.BitVecVal(n, n)
    for k in reversed(range(n)):    # lowest set bit wins
        r = z3.If(z3.Extract(k, k, a) == 1, z3.BitVecVal(k, n), r)
    return r


def _popcnt(a):
    n = a.size()
    r = z3.BitVecVal(0, n)
    for k in range(n):
        r = r + z3.ZeroExt(n - 1, z3.Extract(k, k, a))
    return r


def _rotl(a, b):
    n = a.size()
    k = b & (n - 1)
    return (a << k) | z3.LShR(a, (z3.BitVecVal(n, n) - k) & (n - 1))


def _rotr(a, b):
    n = a.size()
    k = b & (n - 1)
    return z3.LShR(a, k) | (a << ((z3.BitVecVal(n, n) - k) & (n - 1)))


def _ext_s(a, m):
    n = a.size()
    return z3.SignExt(n - m, z3.Extract(m - 1, 0, a))


# opcode suffix -> function(a, b) for total binary operators
_BIN = {
    "add": lambda a, b: a + b, "sub": lambda a, b: a - b, "mul": lambda a, b: a * b,
    "and": lambda a, b: a & b, "or": lambda a, b: a | b, "xor": lambda a, b: a ^ b,
    "shl": lambda a, b: a << (b & (a.size() - 1)),
    "shr_s": lambda a, b: a >> (b & (a.size() - 1)),
    "shr_u": lambda a, b: z3.LShR(a, b & (a.size() - 1)),
    "rotl": _rotl, "rotr": _rotr,
}
_REL = {
    "eq": lambda a, b: a == b, "ne": lambda a, b: a != b,
    "lt_s": lambda a, b: a < b, "lt_u": lambda a, b: z3.ULT(a, b),
    "gt_s": lambda a, b: a > b, "gt_u": lambda a, b: z3.UGT(a, b),
    "le_s": lambda a, b: a <= b, "le_u": lambda a, b: z3.ULE(a, b),
    "ge_s": lambda a, b: a >= b, "ge_u": lambda a, b: z3.UGE(a, b),
}
_UN = {"clz": _clz, "ctz": _ctz, "popcnt": _popcnt,
       "extend8_s": lambda a: _ext_s(a, 8), "extend16_s": lambda a: _ext_s(a, 16),
       "extend32_s": lambda a: _ext_s(a, 32)}
_DIV = ("div_s", "div_u", "rem_s", "rem_u")
# memory instructions: suffix -> (bytes accessed, signed extension or None)
_LOAD = {"load": (None, None), "load8_s": (1, True), "load8_u": (1, False), "load16_s": (2, True),
         "load16_u": (2, False), "load32_s": (4, True), "load32_u": (4, False)}
_STORE = {"store": None, "store8": 1, "store16": 2, "store32": 4}


class _Block:
    __slots__ = ("kind", "ins", "body", "orelse")

    def __init__(self, kind, ins):
        self.kind, self.ins, self.body, self.orelse = kind, ins, [], None


def _nest(instructions):
    """flat instruction list -> tree (list of Instruction | _Block)"""
    top = []
    stack = [top]
    blocks = []
    for ins in instructions:
        op = ins.opcode
        if op in ("block", "loop", "if"):
            b = _Block(op, ins)
            stack[-1].append(b)
            blocks.append(b)
            stack.append(b.body)
        elif op == "else":
            b = blocks[-1]
            if b.kind != "if" or b.orelse is not None:
                raise Unsupported("else without if")
            b.orelse = []
            stack[-1] = b.orelse
        elif op == "end":
            if not blocks:
                continue            # the function body's own 'end' (binary form)
            blocks.pop()
            stack.pop()
        else:
            stack[-1].append(ins)
    if blocks:
        raise Unsupported("unterminated block")
    return top


class _Branch(Exception):
    def __init__(self, depth):
        self.depth = depth


class _Return(Exception):
    pass


class HostFunc:
    """imported function: results come from the caller-supplied callable; calls are recorded"""

    def __init__(self, name, typ, fn):
        self.name, self.typ, self.fn = name, typ, fn


class WasmSem:
    def __init__(self, module, host=None, max_steps=400, max_depth=3, instantiate=True):
        """host: {"modname.name": callable(list of terms) -> list of result terms} for imported functions."""
        self.max_steps = max_steps
        self.max_depth = max_depth
        self.steps = 0
        self.trace = []
        self.types = []
        self.funcs = []          # function index space: HostFunc | Func definition
        self.bodies = {}
        self.globals = []        # [typ, mutable, term]
        self.global_ids = []
        self.mem = None
        self.pages = 0
        self.table = None        # list of function indices / None
        self.exports = {}
        self.start = None
        datas, elems, glob_defs = [], [], []
        host = host or {}
        for d in module:
            k = type(d).__name__
            if k == "Type":
                self.types.append(d)
            elif k == "Import":
                if d.kind == "func":
                    nm = f"{d.modname}.{d.name}"
                    self.funcs.append(HostFunc(nm, self.types[d.info[0].index], host.get(nm)))
                elif d.kind == "memory":
                    self._mk_memory(d.info[0])
                else:
                    raise Unsupported(f"import of {d.kind}")
            elif k == "Func":
                self.funcs.append(d)
            elif k == "Global":
                glob_defs.append(d)
            elif k == "Memory":
                self._mk_memory(d.min)
            elif k == "Data":
                datas.append(d)
            elif k == "Table":
                if self.table is not None:
                    raise Unsupported("more than one table")
                self.table = [None] * d.min
            elif k == "Elem":
                elems.append(d)
            elif k == "Export":
                self.exports[d.name] = (d.kind, d.ref.index)
            elif k == "Start":
                self.start = d.ref.index
            elif k in ("Custom", "DataCount"):
                pass
            else:
                raise Unsupported(f"definition {k}")
        for g in glob_defs:
            self.globals.append([g.typ, bool(g.mutable), self._const_expr(g.init, _bits(g.typ))])
            self.global_ids.append(g.id)
        if instantiate:
            for e in elems:
                if not e.mode:
                    continue
                off = z3.simplify(self._const_expr(e.mode[1], 32)).as_long()
                if self.table is None or off + len(e.refs) > len(self.table):
                    raise Trap("out of bounds table access")
                for j, r in enumerate(e.refs):
                    if type(r).__name__ != "Ref":
                        raise Unsupported("element expression")
                    self.table[off + j] = r.index
            for d in datas:
                if not d.mode:
                    continue
                off = z3.simplify(self._const_expr(d.mode[1], 32)).as_long()
                if self.mem is None or off + len(d.data) > self.pages * PAGE:
                    raise Trap("out of bounds memory access")
                for j, b in enumerate(d.data):
                    self.mem = z3.Store(self.mem, z3.BitVecVal(off + j, 32), z3.BitVecVal(b, 8))
            if self.start is not None:
                self.invoke(self.start, [])

    def _mk_memory(self, pages):
        if self.mem is not None:
            raise Unsupported("more than one memory")
        self.mem = z3.K(z3.BitVecSort(32), z3.BitVecVal(0, 8))
        self.pages = int(pages)

    def _const_expr(self, expr, n):
        ins = [i for i in expr if i.opcode != "end"]
        if len(ins) != 1:
            raise Unsupported("constant expression")
        i = ins[0]
        if i.opcode in ("i32.const", "i64.const"):
            return bv(i.args[0], _bits(i.opcode[:3]))
        if i.opcode == "global.get":
            return self.globals[i.args[0].index][2]
        raise Unsupported(f"constant expression {i.opcode}")

    # -- state access for harnesses ---------------------------------------------------------------------
    def poke(self, addr, byte):
        self.mem = z3.Store(self.mem, z3.BitVecVal(addr, 32), bv(byte, 8))

    def peek(self, addr):
        """addr: int or 32-bit term"""
        return z3.simplify(z3.Select(self.mem, bv(addr, 32)))

    def func_type(self, idx):
        f = self.funcs[idx]
        return f.typ if isinstance(f, HostFunc) else self.types[f.ref.index]

    # -- execution --------------------------------------------------------------------------------------
    def invoke(self, func, args, depth=0):
        """func: function index or export name; args: values; -> list of result terms; raises Trap"""
        if isinstance(func, str):
            kind, func = self.exports[func]
            assert kind == "func"
        f = self.funcs[func]
        ty = self.func_type(func)
        if len(args) != len(ty.params):
            raise Unsupported("argument count")
        argv = [bv(a, _bits(p[1])) for a, p in zip(args, ty.params)]
        if isinstance(f, HostFunc):
            self.trace.append((f.name, [z3.simplify(a) for a in argv]))
            if f.fn is None:
                raise Unsupported(f"no host function for {f.name}")
            rs = list(f.fn(argv) or [])
            return [bv(r, _bits(t)) for r, t in zip(rs, ty.results)]
        if depth > self.max_depth:
            raise StepLimit("call depth")      # (the specification leaves stack exhaustion to the embedder)
        if func not in self.bodies:
            self.bodies[func] = _nest(f.instructions)
        locs = list(argv) + [z3.BitVecVal(0, _bits(t)) for _, t in f.locals]
        stack = []
        try:
            try:
                self._seq(self.bodies[func], stack, locs, depth)
            except _Branch as b:
                if b.depth != 0:
                    raise Unsupported("branch out of function")
        except _Return:
            pass
        n = len(ty.results)
        if len(stack) < n:
            raise Unsupported("invalid module: result stack underflow")
        res = stack[len(stack) - n:]
        for r, t in zip(res, ty.results):
            assert r.size() == _bits(t)
        return res

    def _blocktype(self, ins):
        bt = ins.args[0]
        if bt == "emptyblock":
            return 0, 0
        if isinstance(bt, str):
            _bits(bt)
            return 0, 1
        t = self.types[bt.index]
        return len(t.params), len(t.results)

    def _seq(self, seq, stack, locs, depth):
        for item in seq:
            self.steps += 1
            if self.steps > self.max_steps:
                raise StepLimit("max steps")
            if isinstance(item, _Block):
                self._block(item, stack, locs, depth)
            else:
                self._instr(item, stack, locs, depth)

    def _block(self, b, stack, locs, depth):
        nparams, nresults = self._blocktype(b.ins)
        body = b.body
        if b.kind == "if":
            c = stack.pop()
            if not _decide(c != 0):
                body = b.orelse if b.orelse is not None else []
        height = len(stack) - nparams
        if height < 0:
            raise Unsupported("invalid module: block parameter underflow")
        while True:
            try:
                self._seq(body, stack, locs, depth)
                return
            except _Branch as br:
                if br.depth > 0:
                    br.depth -= 1
                    raise
                arity = nparams if b.kind == "loop" else nresults
                vals = stack[len(stack) - arity:] if arity else []
                del stack[height:]
                stack.extend(vals)
                if b.kind != "loop":
                    return
                self.steps += 1
                if self.steps > self.max_steps:
                    raise StepLimit("max steps")

    def _instr(self, ins, stack, locs, depth):
        op = ins.opcode
        if "." in op:
            pre, suf = op.split(".", 1)
        else:
            pre, suf = "", op
        if pre in ("i32", "i64"):
            n = _bits(pre)
            if suf == "const":
                stack.append(bv(ins.args[0], n))
            elif suf in _BIN:
                b = stack.pop()
                a = stack.pop()
                assert a.size() == n and b.size() == n
                stack.append(_BIN[suf](a, b))
            elif suf in _DIV:
                b = stack.pop()
                a = stack.pop()
                assert a.size() == n and b.size() == n
                if _decide(b == 0):
                    raise Trap("integer divide by zero")
                if suf == "div_s":
                    if _decide(z3.And(a == z3.BitVecVal(1 << (n - 1), n), b == z3.BitVecVal(-1, n))):
                        raise Trap("integer overflow")
                    stack.append(a / b)
                elif suf == "div_u":
                    stack.append(z3.UDiv(a, b))
                elif suf == "rem_s":
                    stack.append(z3.SRem(a, b))
                else:
                    stack.append(z3.URem(a, b))
            elif suf in _REL:
                b = stack.pop()
                a = stack.pop()
                assert a.size() == n and b.size() == n
                stack.append(_b2i(_REL[suf](a, b)))
            elif suf == "eqz":
                a = stack.pop()
                assert a.size() == n
                stack.append(_b2i(a == 0))
            elif suf in _UN:
                a = stack.pop()
                assert a.size() == n
                if suf == "extend32_s" and n != 64:
                    raise Unsupported(op)
                stack.append(_UN[suf](a))
            elif op == "i32.wrap_i64":
                a = stack.pop()
                assert a.size() == 64
                stack.append(z3.Extract(31, 0, a))
            elif op in ("i64.extend_i32_s", "i64.extend_i32_u"):
                a = stack.pop()
                assert a.size() == 32
                stack.append(z3.SignExt(32, a) if op.endswith("_s") else z3.ZeroExt(32, a))
            elif suf in _LOAD:
                nbytes, signed = _LOAD[suf]
                if nbytes is None:
                    nbytes = n // 8
                if nbytes * 8 > n:
                    raise Unsupported(op)
                ea = self._ea(stack.pop(), ins.args[1], nbytes)
                bs = [z3.Select(self.mem, ea + k) for k in range(nbytes)]
                v = z3.Concat(*reversed(bs)) if nbytes > 1 else bs[0]
                if nbytes * 8 < n:
                    v = z3.SignExt(n - 8 * nbytes, v) if signed else z3.ZeroExt(n - 8 * nbytes, v)
                stack.append(v)
            elif suf in _STORE:
                nbytes = _STORE[suf] or n // 8
                if nbytes * 8 > n:
                    raise Unsupported(op)
                v = stack.pop()
                assert v.size() == n
                ea = self._ea(stack.pop(), ins.args[1], nbytes)
                for k in range(nbytes):
                    self.mem = z3.Store(self.mem, ea + k, z3.Extract(8 * k + 7, 8 * k, v))
            else:
                raise Unsupported(op)
            return
        if pre in ("f32", "f64", "v128"):
            raise Unsupported(op)
        if op == "nop":
            return
        if op == "unreachable":
            raise Trap("unreachable")
        if op == "drop":
            stack.pop()
        elif op == "select":
            c = stack.pop()
            v2 = stack.pop()
            v1 = stack.pop()
            assert v1.size() == v2.size()
            stack.append(z3.If(c != 0, v1, v2))
        elif op == "local.get":
            stack.append(locs[ins.args[0].index])
        elif op == "local.set":
            v = stack.pop()
            assert v.size() == locs[ins.args[0].index].size()
            locs[ins.args[0].index] = z3.simplify(v)      # (term hygiene only: same value, smaller term)
        elif op == "local.tee":
            assert stack[-1].size() == locs[ins.args[0].index].size()
            stack[-1] = z3.simplify(stack[-1])
            locs[ins.args[0].index] = stack[-1]
        elif op == "global.get":
            stack.append(self.globals[ins.args[0].index][2])
        elif op == "global.set":
            g = self.globals[ins.args[0].index]
            v = stack.pop()
            assert v.size() == g[2].size()
            g[2] = z3.simplify(v)
        elif op == "memory.size":
            if self.mem is None:
                raise Unsupported("memory.size without memory")
            stack.append(z3.BitVecVal(self.pages, 32))
        elif op == "br":
            raise _Branch(ins.args[0].index)
        elif op == "br_if":
            c = stack.pop()
            if _decide(c != 0):
                raise _Branch(ins.args[0].index)
        elif op == "br_table":
            labels = list(ins.args[0])
            i = stack.pop()
            for k, l in enumerate(labels[:-1]):
                if _decide(i == z3.BitVecVal(k, 32)):
                    raise _Branch(l.index)
            raise _Branch(labels[-1].index)
        elif op == "return":
            raise _Return()
        elif op == "call":
            self._call(ins.args[0].index, stack, depth)
        elif op == "call_indirect":
            if self.table is None:
                raise Unsupported("call_indirect without table")
            want = self.types[ins.args[0].index]
            i = stack.pop()
            target = None
            for k, fidx in enumerate(self.table):
                if _decide(i == z3.BitVecVal(k, 32)):
                    if fidx is None:
                        raise Trap("uninitialized element")
                    target = fidx
                    break
            else:
                raise Trap("undefined element")
            have = self.func_type(target)
            if [p[1] for p in have.params] != [p[1] for p in want.params] or list(have.results) != list(want.results):
                raise Trap("indirect call type mismatch")
            self._call(target, stack, depth)
        else:
            raise Unsupported(op)

    def _call(self, fidx, stack, depth):
        ty = self.func_type(fidx)
        n = len(ty.params)
        args = stack[len(stack) - n:] if n else []
        del stack[len(stack) - n:]
        stack.extend(self.invoke(fidx, args, depth + 1))

    def _ea(self, base, offset, nbytes):
        """effective address (32-bit term, after the bounds check)"""
        if self.mem is None:
            raise Unsupported("memory instruction without memory")
        assert base.size() == 32
        ea = z3.ZeroExt(2, base) + z3.BitVecVal(int(offset), 34)
        if _decide(z3.UGT(ea + nbytes, z3.BitVecVal(self.pages * PAGE, 34))):
            raise Trap("out of bounds memory access")
        return z3.Extract(31, 0, ea)
