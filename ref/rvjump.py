"""RISC-V direct jump / branch decoding, written from the manual (independent of ppci).

Source: The RISC-V Instruction Set Manual, Volume I: Unprivileged ISA, 20191213
  * 2.5 "Control Transfer Instructions", fig. 2.3/2.4 - J-type immediate
        imm[20|10:1|11|19:12] in inst[31|30:21|20|19:12], JAL opcode 1101111, rd = inst[11:7]
  * 2.3 B-type immediate  imm[12|10:5] in inst[31|30:25], imm[4:1|11] in inst[11:8|7], BRANCH opcode 1100011
  * 1.5 instruction length encoding: inst[1:0] != 11  <=> 16-bit instruction
  * 16.4 (RVC control transfer), table 16.5-16.7 - CJ format: funct3 = inst[15:13], op = inst[1:0] = 01,
        jump target offset[11|4|9:8|10|6|7|3:1|5] in inst[12|11|10:9|8|7|6|5:3|2];
        C.J  (funct3 101) expands to jal x0, offset ; C.JAL (funct3 001, RV32C only) expands to jal x1, offset.
All functions run on plain ints and on symx proxies.
"""
from symx.core import ite, sym_and, sym_or


def bits(w, hi, lo):
    return (w >> lo) & ((1 << (hi - lo + 1)) - 1)


def sext(v, n):
    return ite(v >= (1 << (n - 1)), v - (1 << n), v)


def le(bs):
    v = 0
    for i, b in enumerate(bs):
        v = v | (b << (8 * i))
    return v


def is_16bit(b0):
    """first (lowest-address) byte of an instruction: 16-bit encoding?"""
    return (b0 & 3) != 3


def jal32(w):
    """(is JAL, rd, byte offset) of a 32-bit instruction word"""
    imm = (bits(w, 31, 31) << 20) | (bits(w, 19, 12) << 12) | (bits(w, 20, 20) << 11) | (bits(w, 30, 21) << 1)
    return (w & 0x7F) == 0x6F, bits(w, 11, 7), sext(imm, 21)


def cj16(h):
    """(is C.J or C.JAL, link register number, byte offset) of a 16-bit instruction"""
    imm = (bits(h, 12, 12) << 11) | (bits(h, 11, 11) << 4) | (bits(h, 10, 9) << 8) | (bits(h, 8, 8) << 10) | \
        (bits(h, 7, 7) << 6) | (bits(h, 6, 6) << 7) | (bits(h, 5, 3) << 1) | (bits(h, 2, 2) << 5)
    f3 = bits(h, 15, 13)
    op = h & 3
    ok = sym_and(op == 1, sym_or(f3 == 5, f3 == 1))
    rd = ite(f3 == 1, 1, 0)
    return ok, rd, sext(imm, 12)


def branch32(w):
    """(is conditional branch, byte offset) of a 32-bit instruction word"""
    imm = (bits(w, 31, 31) << 12) | (bits(w, 7, 7) << 11) | (bits(w, 30, 25) << 5) | (bits(w, 11, 8) << 1)
    return (w & 0x7F) == 0x63, sext(imm, 13)


CJ_MIN, CJ_MAX = -2048, 2046          # range of the CJ-format offset (even values)
