"""MIPS32 (release 1 / 2) reference decoder (independent of ppci).

Written from "MIPS32 Architecture For Programmers, Volume II: The MIPS32 Instruction Set" (MD00086):
    table A.2   encoding of the opcode field (bits 31..26),
    table A.3   SPECIAL opcode, encoding of the function field (bits 5..0),
    table A.4   REGIMM, encoding of the rt field (bits 20..16),
    table A.5   SPECIAL2 function field,   table A.6  SPECIAL3 function field (release 2),
    and the individual instruction pages: field layout (which fields must be zero), the "Format:" line
    (= operand order of the assembler syntax) and the meaning of the immediate (sign_extend / zero_extend /
    offset << 2 relative to the delay slot / 256 MB region of the delay slot for J, JAL).

Instruction word layout (bit 31 = most significant):
    R-type   opcode[31:26] rs[25:21] rt[20:16] rd[15:11] sa[10:6] function[5:0]
    I-type   opcode[31:26] rs[25:21] rt[20:16] immediate[15:0]          (loads/stores: rs = base, immediate = offset)
    J-type   opcode[31:26] instr_index[25:0]

Modelled: the integer user-mode instruction set of MIPS32 release 2 (no CP0/CP1/CP2 instructions, no MOVF/MOVT,
no CACHE/PREF/SYNCI, no MIPS16e / MIPS64 / release 6 encodings).  A word that matches no table entry is "reserved
here" (Decoded.mnemonic is None).  Assembler idioms (NOP = SLL r0,r0,0; B = BEQ r0,r0; BAL = BGEZAL r0; MOVE, LI,
NEGU ...) are NOT separate entries: the decoder names the real instruction.  The only alternative operand form
listed is the manual's own second "Format:" line of JALR / JALR.HB: "JALR rs (rd = 31 implied)".

Byte order: ppci's mips back end emits the word little-endian (its token classes use the default "<" order: the
repo's test vector `add v0, v1, a0` is 20 10 64 00 = 0x00641020); word_of_bytes() reads 4 bytes that way.

decode(w) works on a plain int and on a z3 32-bit vector.  Both use the SAME shift/mask expressions (the only
difference: logical shift right is `>>` on the non-negative int and z3.LShR on the vector), every field is a 32-bit
value: signed immediates / offsets are two's complement (compare modulo 2**32).

Entry = (name, mask, match, {field: extractor}, [operand form, ...], shape)
    operand form = (tuple of field names in the order of the manual's "Format:" line, {field: required value})
    shape        = "plain"  op a, b, c      |  "mem"  op rt, offset(base)
"""
import z3

M32 = 0xFFFFFFFF


def _is_int(w):
    return type(w) is int


def _shr(w, n):
    if n == 0:
        return w
    return (w >> n) if _is_int(w) else z3.LShR(w, n)


def bits(w, hi, lo):
    return _shr(w, lo) & ((1 << (hi - lo + 1)) - 1)


def sext16(w):
    """sign_extend(immediate[15:0]) as a 32-bit two's complement value"""
    v = w & 0xFFFF
    return (v | (0xFFFF0000 * ((v >> 15) & 1))) & M32 if _is_int(w) else (v | (0xFFFF0000 * (z3.LShR(v, 15) & 1)))


def _rs(w):
    return bits(w, 25, 21)


def _rt(w):
    return bits(w, 20, 16)


def _rd(w):
    return bits(w, 15, 11)


def _sa(w):
    return bits(w, 10, 6)


def _simm(w):
    return sext16(w)


def _uimm(w):
    return w & 0xFFFF


def _boff(w):
    """branch: sign_extend(offset || 00), relative to the address of the delay slot (PC + 4)"""
    return (sext16(w) << 2) & M32 if _is_int(w) else (sext16(w) << 2)


def _index(w):
    return w & 0x3FFFFFF


def _code20(w):
    return bits(w, 25, 6)


def _code10(w):
    return bits(w, 15, 6)


OP, RS, RT, RD, SA, FN = 0xFC000000, 0x03E00000, 0x001F0000, 0x0000F800, 0x000007C0, 0x0000003F

TABLE = []
SHAPE = {}


def _e(name, mask, match, fields, forms, shape="plain"):
    assert match & ~mask == 0, name
    forms = [f if (len(f) == 2 and isinstance(f[1], dict)) else (f, {}) for f in forms]
    TABLE.append((name, mask, match, fields, forms, shape))
    SHAPE[name] = shape


def _op(n):
    return n << 26


# --- SPECIAL (opcode 0), table A.3 -----------------------------------------------------------------------
_F3 = dict(rs=_rs, rt=_rt, rd=_rd)
# shifts by immediate: SLL rd, rt, sa (rs field = 0; SRL: bit 21 is the release-2 rotate bit)
_e("sll", OP | RS | FN, 0, dict(rt=_rt, rd=_rd, sa=_sa), [("rd", "rt", "sa")])
_e("srl", OP | RS | FN, 2, dict(rt=_rt, rd=_rd, sa=_sa), [("rd", "rt", "sa")])
_e("rotr", OP | RS | FN, (1 << 21) | 2, dict(rt=_rt, rd=_rd, sa=_sa), [("rd", "rt", "sa")])
_e("sra", OP | RS | FN, 3, dict(rt=_rt, rd=_rd, sa=_sa), [("rd", "rt", "sa")])
# shifts by register: SLLV rd, rt, rs   (rd <- rt shifted by rs[4:0]); sa field = 0 (SRLV: bit 6 = rotate)
_e("sllv", OP | SA | FN, 4, _F3, [("rd", "rt", "rs")])
_e("srlv", OP | SA | FN, 6, _F3, [("rd", "rt", "rs")])
_e("rotrv", OP | SA | FN, (1 << 6) | 6, _F3, [("rd", "rt", "rs")])
_e("srav", OP | SA | FN, 7, _F3, [("rd", "rt", "rs")])
# JR rs: rt = rd = 0, hint (sa field): 0, bit 10 = .HB (release 2)
_e("jr", OP | RT | RD | SA | FN, 8, dict(rs=_rs), [("rs",)])
_e("jr.hb", OP | RT | RD | SA | FN, (16 << 6) | 8, dict(rs=_rs), [("rs",)])
# JALR rs (rd = 31 implied) / JALR rd, rs: rt = 0
_e("jalr", OP | RT | SA | FN, 9, dict(rs=_rs, rd=_rd), [(("rs",), dict(rd=31)), ("rd", "rs")])
_e("jalr.hb", OP | RT | SA | FN, (16 << 6) | 9, dict(rs=_rs, rd=_rd), [(("rs",), dict(rd=31)), ("rd", "rs")])
_e("movz", OP | SA | FN, 10, _F3, [("rd", "rs", "rt")])
_e("movn", OP | SA | FN, 11, _F3, [("rd", "rs", "rt")])
_e("syscall", OP | FN, 12, dict(code=_code20), [(), ("code",)])
_e("break", OP | FN, 13, dict(code=_code20), [(), ("code",)])
_e("sync", OP | RS | RT | RD | FN, 15, dict(stype=_sa), [(), ("stype",)])
_e("mfhi", OP | RS | RT | SA | FN, 16, dict(rd=_rd), [("rd",)])
_e("mthi", OP | RT | RD | SA | FN, 17, dict(rs=_rs), [("rs",)])
_e("mflo", OP | RS | RT | SA | FN, 18, dict(rd=_rd), [("rd",)])
_e("mtlo", OP | RT | RD | SA | FN, 19, dict(rs=_rs), [("rs",)])
for _n, _f in (("mult", 24), ("multu", 25), ("div", 26), ("divu", 27)):
    _e(_n, OP | RD | SA | FN, _f, dict(rs=_rs, rt=_rt), [("rs", "rt")])
# three-register ALU: OP rd, rs, rt; sa field = 0
for _n, _f in (("add", 32), ("addu", 33), ("sub", 34), ("subu", 35), ("and", 36), ("or", 37), ("xor", 38), ("nor", 39),
               ("slt", 42), ("sltu", 43)):
    _e(_n, OP | SA | FN, _f, _F3, [("rd", "rs", "rt")])
for _n, _f in (("tge", 48), ("tgeu", 49), ("tlt", 50), ("tltu", 51), ("teq", 52), ("tne", 54)):
    _e(_n, OP | FN, _f, dict(rs=_rs, rt=_rt, code=_code10), [("rs", "rt"), ("rs", "rt", "code")])

# --- REGIMM (opcode 1), table A.4 ------------------------------------------------------------------------
for _n, _c in (("bltz", 0), ("bgez", 1), ("bltzl", 2), ("bgezl", 3), ("bltzal", 16), ("bgezal", 17), ("bltzall", 18),
               ("bgezall", 19)):
    _e(_n, OP | RT, _op(1) | (_c << 16), dict(rs=_rs, offset=_boff), [("rs", "offset")])
for _n, _c in (("tgei", 8), ("tgeiu", 9), ("tlti", 10), ("tltiu", 11), ("teqi", 12), ("tnei", 14)):
    _e(_n, OP | RT, _op(1) | (_c << 16), dict(rs=_rs, imm=_simm), [("rs", "imm")])

# --- opcode table A.2 ------------------------------------------------------------------------------------
# J / JAL target: the 26-bit instr_index shifted left 2, upper 4 bits = those of the delay slot's address
_e("j", OP, _op(2), dict(index=_index), [("index",)])
_e("jal", OP, _op(3), dict(index=_index), [("index",)])
for _n, _o in (("beq", 4), ("bne", 5), ("beql", 20), ("bnel", 21)):
    _e(_n, OP, _op(_o), dict(rs=_rs, rt=_rt, offset=_boff), [("rs", "rt", "offset")])
for _n, _o in (("blez", 6), ("bgtz", 7), ("blezl", 22), ("bgtzl", 23)):
    _e(_n, OP | RT, _op(_o), dict(rs=_rs, offset=_boff), [("rs", "offset")])
# OP rt, rs, immediate: ADDI ADDIU SLTI SLTIU sign_extend(immediate); ANDI ORI XORI zero_extend(immediate)
for _n, _o in (("addi", 8), ("addiu", 9), ("slti", 10), ("sltiu", 11)):
    _e(_n, OP, _op(_o), dict(rs=_rs, rt=_rt, imm=_simm), [("rt", "rs", "imm")])
for _n, _o in (("andi", 12), ("ori", 13), ("xori", 14)):
    _e(_n, OP, _op(_o), dict(rs=_rs, rt=_rt, imm=_uimm), [("rt", "rs", "imm")])
# LUI rt, immediate: rs field = 0 (release 1 / 2; a non-zero rs field is reserved -- AUI only from release 6)
_e("lui", OP | RS, _op(15), dict(rt=_rt, imm=_uimm), [("rt", "imm")])

# --- SPECIAL2 (opcode 28), table A.5 ---------------------------------------------------------------------
for _n, _f in (("madd", 0), ("maddu", 1), ("msub", 4), ("msubu", 5)):
    _e(_n, OP | RD | SA | FN, _op(28) | _f, dict(rs=_rs, rt=_rt), [("rs", "rt")])
_e("mul", OP | SA | FN, _op(28) | 2, _F3, [("rd", "rs", "rt")])
_e("clz", OP | SA | FN, _op(28) | 32, _F3, [("rd", "rs")])       # rt field should repeat rd (not checked)
_e("clo", OP | SA | FN, _op(28) | 33, _F3, [("rd", "rs")])
_e("sdbbp", OP | FN, _op(28) | 63, dict(code=_code20), [(), ("code",)])

# --- SPECIAL3 (opcode 31), table A.6 (release 2) ---------------------------------------------------------
_e("ext", OP | FN, _op(31) | 0, dict(rs=_rs, rt=_rt, pos=_sa, sizem1=_rd), [("rt", "rs", "pos", "sizem1")])
_e("ins", OP | FN, _op(31) | 4, dict(rs=_rs, rt=_rt, pos=_sa, msb=_rd), [("rt", "rs", "pos", "msb")])
for _n, _s in (("wsbh", 2), ("seb", 16), ("seh", 24)):
    _e(_n, OP | RS | SA | FN, _op(31) | (_s << 6) | 32, dict(rt=_rt, rd=_rd), [("rd", "rt")])
_e("rdhwr", OP | RS | SA | FN, _op(31) | 59, dict(rt=_rt, rd=_rd), [("rt", "rd")])

# --- loads / stores: OP rt, offset(base) -----------------------------------------------------------------
for _n, _o in (("lb", 32), ("lh", 33), ("lwl", 34), ("lw", 35), ("lbu", 36), ("lhu", 37), ("lwr", 38),
               ("sb", 40), ("sh", 41), ("swl", 42), ("sw", 43), ("swr", 46), ("ll", 48), ("sc", 56)):
    _e(_n, OP, _op(_o), dict(rt=_rt, base=_rs, offset=_simm), [("rt", "offset", "base")], "mem")

# documented range (lo, hi, multiple-of) of an integer operand of the assembler syntax, by the way the field is read
_RANGE = {_simm: (-32768, 32767, 1), _uimm: (0, 65535, 1), _sa: (0, 31, 1), _boff: (-131072, 131068, 4),
          _code20: (0, (1 << 20) - 1, 1), _code10: (0, 1023, 1), _rd: (0, 31, 1)}


def operand_range(name, field):
    """range of the values the manual documents for that operand (None: register / J-format target)"""
    if field in REGISTER_FIELDS or field == "index":
        return None
    return _RANGE[_BY_NAME[name][3][field]]


NAMES = [t[0] for t in TABLE]
_BY_NAME = {t[0]: t for t in TABLE}
assert len(_BY_NAME) == len(TABLE)
REGISTER_FIELDS = ("rs", "rt", "rd", "base")

# register names of the o32 ABI ("MIPSpro Assembly Language Programmer's Guide" / SYSV ABI MIPS supplement, fig. 3-18)
ABI_NAMES = ["zero", "at", "v0", "v1", "a0", "a1", "a2", "a3", "t0", "t1", "t2", "t3", "t4", "t5", "t6", "t7",
             "s0", "s1", "s2", "s3", "s4", "s5", "s6", "s7", "t8", "t9", "k0", "k1", "gp", "sp", "fp", "ra"]
REG_NUMBER = {n: k for k, n in enumerate(ABI_NAMES)}
REG_NUMBER["s8"] = 30
for _k in range(32):
    REG_NUMBER[f"r{_k}"] = _k
    REG_NUMBER[f"${_k}"] = _k
    REG_NUMBER["$" + ABI_NAMES[_k]] = _k


class Decoded:
    """view of one instruction word: is_(name) = the word is that instruction, fields(name) = its operand fields"""

    def __init__(self, w):
        self.w = w
        self.concrete = _is_int(w)

    def is_(self, name):
        _, mask, match, _, _, _ = _BY_NAME[name]
        return (self.w & mask) == match

    def fields(self, name):
        return {k: f(self.w) for k, f in _BY_NAME[name][3].items()}

    def forms(self, name, nops):
        """[(operand values in the manual's assembler order, condition)] of the forms with nops operands"""
        f = self.fields(name)
        out = []
        for order, fixed in _BY_NAME[name][4]:
            if len(order) != nops:
                continue
            cs = [f[k] == v for k, v in fixed.items()]
            if self.concrete:
                c = all(cs)
            else:
                c = z3.And(*cs) if cs else True
            out.append(([f[k] for k in order], c))
        return out

    @property
    def entries(self):
        return [(self.is_(n), n) for n in NAMES]

    @property
    def mnemonic(self):
        assert self.concrete
        hits = [n for n in NAMES if self.is_(n)]
        assert len(hits) <= 1, hits
        return hits[0] if hits else None


def decode(w):
    if _is_int(w):
        assert 0 <= w <= M32
    return Decoded(w)


def word_of_bytes(bs):
    """little-endian, as ppci's mips back end emits it"""
    w = 0
    for k, b in enumerate(bs):
        w = w | (b << (8 * k))
    return w


def signed32(v):
    v &= M32
    return v - (1 << 32) if v >> 31 else v


def jump_target(index, pc):
    """J / JAL: PC region branch -- upper 4 bits of the address of the delay slot (pc + 4), index || 00 below"""
    if _is_int(index) and _is_int(pc):
        return (((pc + 4) & M32) & 0xF0000000) | ((index << 2) & 0x0FFFFFFF)
    return ((pc + 4) & 0xF0000000) | ((index << 2) & 0x0FFFFFFF)


def disasm(w, pc=0):
    """(mnemonic, [operands]) of a concrete word in the manual's assembler order (first listed form that applies);
    registers as ("r", n), integers as ("i", signed value), jump / branch targets as ("a", address)"""
    d = decode(w)
    n = d.mnemonic
    if n is None:
        return None, []
    f = d.fields(n)
    cands = [(o, fx) for o, fx in _BY_NAME[n][4] if all(f[k] == v for k, v in fx.items())]
    order = cands[-1][0]
    for o, fx in cands:         # the shortest form that hides no non-zero field
        if not any(v for k, v in f.items() if k not in o and k not in fx):
            order = o
            break
    ops = []
    for k in order:
        if k in REGISTER_FIELDS:
            ops.append(("r", f[k]))
        elif k == "index":
            ops.append(("a", jump_target(f[k], pc)))
        elif k == "offset" and SHAPE[n] != "mem":
            ops.append(("a", (pc + 4 + signed32(f[k])) & M32))
        else:
            ops.append(("i", signed32(f[k])))
    return n, ops


def text(w, pc=0):
    n, ops = disasm(w, pc)
    if n is None:
        return f".word 0x{w:08x}"
    s = [f"${v}" if t == "r" else (hex(v) if t == "a" else str(v)) for t, v in ops]
    if SHAPE[n] == "mem":
        return f"{n} {s[0]}, {s[1]}({s[2]})"
    return (n + " " + ", ".join(s)).strip()


# ---------------------------------------------------------------------------------------------------------
# self test
def _parse_vectors(path):
    """[(test name, [assembler lines], bytes)] from a ppci assembler test file (self.feed / self.check calls)"""
    import ast
    out = []
    tree = ast.parse(open(path).read())
    for cls in [n for n in tree.body if isinstance(n, ast.ClassDef)]:
        for fn in [n for n in cls.body if isinstance(n, ast.FunctionDef) and n.name.startswith("test_")]:
            feeds, data = [], None
            for call in [n for n in ast.walk(fn) if isinstance(n, ast.Call) and isinstance(n.func, ast.Attribute)]:
                if not call.args or not isinstance(call.args[0], ast.Constant) or not isinstance(call.args[0].value, str):
                    continue
                if call.func.attr == "feed":
                    feeds.append((call.lineno, call.args[0].value))
                elif call.func.attr == "check":
                    data = bytes.fromhex(call.args[0].value.replace(" ", ""))
            if data is not None:
                lines = [ln.strip() for _, t in sorted(feeds) for ln in t.split("\n") if ln.strip()]
                out.append((fn.name, lines, data))
    return out


def parse_asm(line, labels=None):
    """'lw r1, -8(r30)' -> ('lw', [('r', 1), ('i', -8), ('r', 30)]); labels -> ('a', address)"""
    import re
    labels = labels or {}
    parts = line.strip().split(None, 1)
    mn = parts[0].lower()
    ops = []
    if len(parts) > 1:
        for tok in [t for t in re.split(r"[,()\s]+", parts[1]) if t]:
            if tok.lower() in REG_NUMBER:
                ops.append(("r", REG_NUMBER[tok.lower()]))
            elif tok in labels:
                ops.append(("a", labels[tok]))
            else:
                ops.append(("i", int(tok, 0)))
    return mn, ops


def selftest(repo=None):
    """returns a dict of counters; raises AssertionError on any disagreement"""
    import os
    stats = dict(table_entries=len(TABLE), table_pairs=0, known_words=0, vectors=0, int_vs_z3_words=0)
    # (A) the table is a function of the word: no two entries can match the same word
    for i in range(len(TABLE)):
        n1, m1, v1 = TABLE[i][:3]
        for j in range(i + 1, len(TABLE)):
            n2, m2, v2 = TABLE[j][:3]
            stats["table_pairs"] += 1
            assert (v1 ^ v2) & m1 & m2, f"overlapping entries {n1} {n2}"
    # every form names only extracted fields; the operand forms of one entry differ in operand count
    for n, m, v, f, forms, shape in TABLE:
        counts = [len(o) for o, fx in forms]
        assert len(set(counts)) == len(counts), n
        for o, fx in forms:
            assert all(k in f for k in o) and all(k in f for k in fx), n
    # (B) encodings well known from GNU toolchain listings (gcc -S / objdump -d output, mips-opc.c match values)
    R, I, A = "r", "i", "a"
    known = {
        0x00000000: "sll $0, $0, 0",            # nop
        0x00000040: "sll $0, $0, 1",            # ssnop
        0x000000C0: "sll $0, $0, 3",            # ehb
        0x03E00008: "jr $31",
        0x0320F809: "jalr $25",                 # jalr t9 (rd = 31 implied)
        0x27BDFFE0: "addiu $29, $29, -32",
        0xAFBF001C: "sw $31, 28($29)",
        0x8FBF001C: "lw $31, 28($29)",
        0x3C011234: "lui $1, 4660",
        0x00851021: "addu $2, $4, $5",
        0x03A0F021: "addu $30, $29, $0",        # move s8, sp
        0x03C0E821: "addu $29, $30, $0",        # move sp, s8
        0x0080C821: "addu $25, $4, $0",         # move t9, a0
        0x00041023: "subu $2, $0, $4",          # negu v0, a0
        0x00021080: "sll $2, $2, 2",
        0x00021C02: "srl $3, $2, 16",
        0x00221C02: "rotr $3, $2, 16",
        0x00021FC3: "sra $3, $2, 31",
        0x00441004: "sllv $2, $4, $2",          # sllv v0, a0, v0: rd, rt, rs
        0x00A41806: "srlv $3, $4, $5",          # srlv v1, a0, a1
        0x00A41807: "srav $3, $4, $5",
        0x24020001: "addiu $2, $0, 1",          # li v0, 1
        0x20420001: "addi $2, $2, 1",
        0x28420005: "slti $2, $2, 5",
        0x2C820001: "sltiu $2, $4, 1",
        0x3042FFFF: "andi $2, $2, 65535",
        0x34421234: "ori $2, $2, 4660",
        0x38420001: "xori $2, $2, 1",
        0x0000000C: "syscall",
        0x0000000D: "break",
        0x0000000F: "sync",
        0x0C100000: "jal 0x400000",
        0x08100000: "j 0x400000",
        0x10000003: "beq $0, $0, 0x10",         # b . + 16 (pc = 0)
        0x1440FFFD: "bne $2, $0, 0xfffffff8",   # offset -12 relative to the delay slot at 4
        0x04110001: "bgezal $0, 0x8",           # bal
        0x04410002: "bgez $2, 0xc",
        0x18400002: "blez $2, 0xc",
        0x00001012: "mflo $2",
        0x00001010: "mfhi $2",
        0x00850018: "mult $4, $5",
        0x0062001A: "div $3, $2",
        0x0062001B: "divu $3, $2",
        0x70851002: "mul $2, $4, $5",
        0x0085102A: "slt $2, $4, $5",
        0x0085102B: "sltu $2, $4, $5",
        0x00851024: "and $2, $4, $5",
        0x00851025: "or $2, $4, $5",
        0x00851026: "xor $2, $4, $5",
        0x00851027: "nor $2, $4, $5",
        0x00851020: "add $2, $4, $5",
        0x00851022: "sub $2, $4, $5",
        0x00851023: "subu $2, $4, $5",
        0x0044100A: "movz $2, $2, $4",
        0x0044100B: "movn $2, $2, $4",
        0x004001F4: "teq $2, $0, 7",            # gcc's division-by-zero trap
        0x70821020: "clz $2, $4",
        0x7C031C20: "seb $3, $3",
        0x7C03E83B: "rdhwr $3, $29",            # TLS pointer read
        0x80820000: "lb $2, 0($4)",
        0x84820000: "lh $2, 0($4)",
        0x90820000: "lbu $2, 0($4)",
        0x94820000: "lhu $2, 0($4)",
        0x88820003: "lwl $2, 3($4)",
        0x98820000: "lwr $2, 0($4)",
        0xA0820000: "sb $2, 0($4)",
        0xA4820000: "sh $2, 0($4)",
        0xA8820003: "swl $2, 3($4)",
        0xB8820000: "swr $2, 0($4)",            # opcode 0x2E (0x2C is MIPS64 SDL: reserved in MIPS32)
        0xC0820000: "ll $2, 0($4)",
        0xE0820000: "sc $2, 0($4)",
        0x8C82FFFC: "lw $2, -4($4)",
        # reserved / not MIPS32 release 2 integer instructions
        0xB0820000: ".word 0xb0820000",         # opcode 0x2C
        0x3C410005: ".word 0x3c410005",         # LUI with rs != 0
        0x00200008 | (1 << 16): ".word 0x00210008",   # JR with rt != 0
        0x00851060: ".word 0x00851060",         # ADD with sa != 0
        0xFFFFFFFF: ".word 0xffffffff",
    }
    for wv, exp in known.items():
        assert text(wv, 0) == exp, (hex(wv), text(wv, 0), exp)
        stats["known_words"] += 1
    # (C) the repo's own assembler test vectors through this decoder
    repo = repo or os.environ.get("PPCI_REPO", "/repo")
    for tname, lines, data in _parse_vectors(os.path.join(repo, "test", "arch", "test_mips.py")):
        labels, stmts, pos = {}, [], 0
        for t in lines:
            if t.endswith(":"):
                labels[t[:-1]] = pos
                continue
            stmts.append((t, pos))
            pos += 4
        assert pos == len(data), (tname, pos, len(data))
        for t, pos in stmts:
            got = disasm(word_of_bytes(data[pos:pos + 4]), pos)
            assert got == parse_asm(t, labels), (tname, t, got, parse_asm(t, labels))
            stats["vectors"] += 1
    assert stats["vectors"] >= 6
    # (D) the int and the z3 variant of the (shared) slicing expressions agree: for every entry, match condition and
    # fields of the z3 decode, evaluated at pseudo-random words, equal the int decode (cheap guard against a typo in
    # _shr / sext16; the expressions themselves are one and the same code)
    import random
    rnd = random.Random(20260923)
    wz = z3.BitVec("w", 32)
    dz = decode(wz)
    words = list(known)[:20] + [rnd.getrandbits(32) for _ in range(40)]
    for n in NAMES:
        cz, fz = dz.is_(n), dz.fields(n)
        for wv in words[:12] + [(_BY_NAME[n][2] | (rnd.getrandbits(32) & ~_BY_NAME[n][1])) & M32 for _ in range(4)]:
            di = decode(wv)
            sub = [(wz, z3.BitVecVal(wv, 32))]
            assert z3.is_true(z3.simplify(z3.substitute(cz, *sub))) == bool(di.is_(n)), (n, hex(wv))
            fi = di.fields(n)
            for k in fi:
                assert z3.simplify(z3.substitute(fz[k], *sub)).as_long() == fi[k], (n, k, hex(wv))
            stats["int_vs_z3_words"] += 1
    return stats


if __name__ == "__main__":
    print(selftest())
