"""Reference reader for Intel HEX object files, written from the format specification
(Intel "Hexadecimal Object File Format Specification", Revision A, 1988).  No ppci imports.

Record:  ':' LL AAAA TT DD*LL CC      (all fields two hex digits per byte, either case)
  LL   RECLEN   number of data bytes
  AAAA LOAD OFFSET (big endian); "0000" for every record type but 00
  TT   RECTYP   00 data, 01 end of file, 02 extended segment address, 03 start segment address,
                04 extended linear address, 05 start linear address
  CC   CHKSUM   two's complement of the sum of all preceding bytes, i.e. the sum of ALL record
                bytes including CC is 0 modulo 256
Addresses of the bytes of a data record (DRLO = load offset, DRI = index of the byte in the record):
  after a type 04 record with upper linear base address ULBA:   (ULBA<<16 + DRLO + DRI) mod 4G
  after a type 02 record with upper segment base address USBA:  (USBA<<4) + ((DRLO + DRI) mod 64K)
  before any of the two: both bases are zero (the two rules differ only for a record running over
  offset FFFF; such a record is reported as not conforming here).
The type 01 record has RECLEN 00 and is the last record of the file.

Everything works on plain Python values (str lines) and on symx proxies (lines whose characters are
symbolic code points): record-level checks are computed without branching on symbolic values and are
returned as conditions; only the layout decisions of `normalize` branch (the engine forks there).
"""
from symx.core import sym_and, sym_or, sym_not, ite

M32 = 1 << 32


def cps_of(line):
    """code points of a text line (plain str or proxy string exposing .cps)"""
    c = getattr(line, "cps", None)
    if c is not None:
        return list(c)
    return [ord(ch) for ch in line]


def hexval(c):
    """(value, is_hex_digit) of one character code, branch-free"""
    dig = sym_and(c >= 48, c <= 57)
    low = sym_and(c >= 97, c <= 102)
    upp = sym_and(c >= 65, c <= 70)
    v = ite(dig, c - 48, ite(low, c - 87, ite(upp, c - 55, 0)))
    return v, sym_or(dig, low, upp)


def parse_record(line, canon=None):
    """Decode one record line (no line terminator).  Returns a dict:
       ok       condition: start code, hex digits, RECLEN matches the line length, checksum correct
       reclen, offset, typ, data (list of byte values), checksum_ok, reclen_ok  (for diagnostics)
    or None if the line cannot be a record at all (too short / odd number of digits): malformed.

    canon (optional, proof engineering only): a function (digit_codes, byte_values, byte_valid) ->
    (byte_values', byte_valid') that may replace a decoded byte value / its "both characters are hex
    digits" condition by an EQUAL simpler term; the caller's canon is responsible for proving every
    replacement (symx.hexlemma does, by a solver-checked lemma).  Without canon (and on plain values)
    the reader is used as is."""
    cps = cps_of(line)
    if len(cps) < 11 or (len(cps) - 1) % 2:
        return None
    bs, valid = [], []
    for i in range(1, len(cps), 2):
        h, okh = hexval(cps[i])
        l, okl = hexval(cps[i + 1])
        valid.append(sym_and(okh, okl))
        bs.append(h * 16 + l)
    if canon is not None:
        bs, valid = canon(cps[1:], bs, valid)
    conds = [cps[0] == 58] + valid
    reclen = bs[0]
    data = bs[4:-1]
    reclen_ok = reclen == len(data)
    total = 0
    for b in bs:
        total = total + b
    checksum_ok = (total % 256) == 0
    return dict(ok=sym_and(reclen_ok, checksum_ok, *conds), reclen=reclen, offset=bs[1] * 256 + bs[2],
                typ=bs[3], data=data, reclen_ok=reclen_ok, checksum_ok=checksum_ok,
                syntax_ok=sym_and(*conds))


def be(bs):
    v = 0
    for b in bs:
        v = v * 256 + b
    return v


def decode(lines, canon=None):
    """Decode a whole file (list of lines without terminators; empty lines are not allowed).
    Returns dict(records_ok=condition, structure_ok=condition, conforming=both,
                 segments=[(address, [bytes])...] in file order,
                 start_linear=value|None, start_segment=value|None, records=n).
    records_ok: every line is a well-formed record (start code, digits, RECLEN, checksum);
    structure_ok: record types, field lengths and the end-of-file rules."""
    conds = []
    rconds = []
    segments = []
    start_linear = None
    start_segment = None
    mode = None
    base = 0
    eof = False
    n = 0
    for line in lines:
        n += 1
        if eof:
            conds.append(False)       # record after the end-of-file record
            break
        r = parse_record(line, canon)
        if r is None:
            rconds.append(False)
            continue
        rconds.append(r["ok"])
        typ = r["typ"]
        data = r["data"]
        if typ == 0:                 # (a symbolic record type forks here)
            if not data:
                continue
            off = r["offset"]
            if mode == "linear":
                start = (base + off) % M32
                if start + len(data) > M32:        # wraps around 4G: split
                    k = None
                    for j in range(1, len(data)):
                        if start + j == M32:
                            k = j
                    segments.append((start, data[:k]))
                    segments.append((0, data[k:]))
                else:
                    segments.append((start, data))
            else:
                if mode is None:
                    conds.append(off + len(data) <= 0x10000)     # ambiguous otherwise
                if off + len(data) > 0x10000:      # wraps inside the 64K segment: split
                    k = None
                    for j in range(1, len(data)):
                        if off + j == 0x10000:
                            k = j
                    segments.append((base + off, data[:k]))
                    segments.append((base, data[k:]))
                else:
                    segments.append((base + off, data))
        elif typ == 1:
            conds.append(len(data) == 0)
            conds.append(r["offset"] == 0)
            eof = True
        elif typ == 2:
            conds.append(len(data) == 2)
            conds.append(r["offset"] == 0)
            mode = "segment"
            base = be(data[:2]) * 16
        elif typ == 3:
            conds.append(len(data) == 4)
            conds.append(r["offset"] == 0)
            start_segment = be(data[:4])
        elif typ == 4:
            conds.append(len(data) == 2)
            conds.append(r["offset"] == 0)
            mode = "linear"
            base = be(data[:2]) * 65536
        elif typ == 5:
            conds.append(len(data) == 4)
            conds.append(r["offset"] == 0)
            start_linear = be(data[:4])
        else:
            conds.append(False)       # unknown record type
    conds.append(eof)                 # the file ends with an end-of-file record
    records_ok = sym_and(*rconds) if rconds else True
    structure_ok = sym_and(*conds)
    return dict(records_ok=records_ok, structure_ok=structure_ok, conforming=sym_and(records_ok, structure_ok),
                segments=segments,
                start_linear=start_linear, start_segment=start_segment, records=n)


def normalize(segments):
    """The memory image denoted by a list of (address, bytes) pieces, as a canonical list of maximal
    regions sorted by address: (regions, overlap).  overlap=True iff two pieces claim the same address
    (regions is None then).  Pure specification of 'the merged regions'."""
    segs = [(a, list(d)) for a, d in segments if len(d)]
    # cheap first pass: join pieces that continue their predecessor (the common case in a file)
    joined = []
    for a, d in segs:
        if joined and joined[-1][0] + len(joined[-1][1]) == a:
            joined[-1] = (joined[-1][0], joined[-1][1] + d)
        else:
            joined.append((a, d))
    # insertion sort by start address
    srt = []
    for a, d in joined:
        i = len(srt)
        while i > 0 and a < srt[i - 1][0]:
            i -= 1
        srt.insert(i, (a, d))
    out = []
    for a, d in srt:
        if out:
            pa, pd = out[-1]
            end = pa + len(pd)
            if end > a:
                return None, True
            if end == a:
                out[-1] = (pa, pd + d)
                continue
        out.append((a, d))
    return out, False


def selftest():
    """known-good records from the specification / common references (plain values)"""
    r = parse_record(":10010000214601360121470136007EFE09D2190140")
    assert r["ok"] and r["typ"] == 0 and r["offset"] == 0x0100 and len(r["data"]) == 16 and r["data"][0] == 0x21
    assert not parse_record(":10010000214601360121470136007EFE09D2190141")["ok"]          # checksum
    assert not parse_record(":0F010000214601360121470136007EFE09D2190141")["reclen_ok"]   # length
    d = decode([":020000040800F2", ":04FFFE00AABBCCDDF1", ":0400000508000135B9", ":00000001FF"])
    assert d["conforming"] and d["start_linear"] == 0x08000135
    assert normalize(d["segments"]) == ([(0x0800FFFE, [0xAA, 0xBB, 0xCC, 0xDD])], False)   # linear: no 64K wrap
    d = decode([":020000021000EC", ":04FFFE00AABBCCDDF1", ":00000001FF"])
    assert d["conforming"] and normalize(d["segments"]) == ([(0x10000, [0xCC, 0xDD]), (0x1FFFE, [0xAA, 0xBB])], False)
    assert not decode([":00000001FF", ":00000001FF"])["structure_ok"]
    assert not decode([":020000040800F2"])["structure_ok"]
    assert normalize([(5, [1]), (3, [2, 3]), (9, [4])]) == ([(3, [2, 3, 1]), (9, [4])], False)
    assert normalize([(5, [1, 2]), (6, [3])])[1] is True
    return True
