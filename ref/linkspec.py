"""Reference notions for the linker property C12 (independent of ppci; runs on ints and symx proxies).

What a static linker owes its inputs (System V gABI ch. 4 "Sections": sh_addralign - "the value of
sh_addr must be congruent to 0, modulo the value of sh_addralign ... only 0 and positive integral powers
of two are allowed"; GNU ld manual 3.6 "SECTIONS"/3.7 "MEMORY": input sections of one name are
concatenated in command-line order into the output section, the location counter is advanced to the
alignment of every input section, an output section that does not fit its MEMORY region is an error):

  * merge_offsets   offset of every input piece inside the output section of its name: pieces in input
                    order, every start rounded up to the piece's alignment (least padding)
  * layout_positions  walk of one memory region: location counter semantics of SECTION / ALIGN /
                    DEFINESYMBOL / SECTIONDATA
  * aligned / roundup for power-of-two alignments
"""
from symx.core import ite, sym_and, sym_or


def aligned(x, a):
    """x is a multiple of the power of two a"""
    return (x & (a - 1)) == 0


def roundup(x, a):
    """least multiple of the power of two a that is >= x  (x >= 0)"""
    return (x + (a - 1)) - ((x + (a - 1)) & (a - 1))


def merge_offsets(pieces):
    """pieces: [(length, alignment)] in input order -> ([offset], total size)"""
    offs = []
    cur = 0
    for ln, al in pieces:
        cur = roundup(cur, al)
        offs.append(cur)
        cur = cur + ln
    return offs, cur


def layout_positions(location, inputs):
    """inputs: [('sec', size, alignment) | ('align', a) | ('def',) | ('data', size)]
    -> ([position per input], end) where end = one past the last byte occupied by a section
    (the quantity that must not exceed location + size of the region)."""
    cur = location
    end = location
    pos = []
    for it in inputs:
        if it[0] == "sec":
            cur = roundup(cur, it[2])
            pos.append(cur)
            cur = cur + it[1]
            end = cur
        elif it[0] == "data":
            pos.append(cur)
            cur = cur + it[1]
            end = cur
        elif it[0] == "align":
            cur = roundup(cur, it[1])
            pos.append(cur)
        elif it[0] == "def":
            pos.append(cur)
            # a symbol definition is a (zero-sized) item at the current location
            end = ite(cur > end, cur, end)
        else:
            raise ValueError(it)
    return pos, end


def le_bytes(v, n):
    return [(v >> (8 * i)) & 0xFF for i in range(n)]


def disjoint(a0, alen, b0, blen):
    """half-open byte ranges [a0,a0+alen) and [b0,b0+blen) share no byte"""
    if alen == 0 or blen == 0:
        return True
    return sym_or(a0 + alen <= b0, b0 + blen <= a0)
