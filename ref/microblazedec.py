"""Xilinx MicroBlaze reference decoder (independent of ppci).

Written from the "MicroBlaze Processor Reference Guide" (UG081 / UG984), chapter "MicroBlaze Instruction Set
Architecture": the instruction formats (Type A: opcode rD rA rB + 11 function bits; Type B: opcode rD rA IMM16), the
instruction pages (opcode, the fields a page fixes, the assembler line `op rD, rA, rB` = operand order, meaning of IMM)
and the summary table "MicroBlaze Instruction Set Summary".

The manual numbers bits from the MOST significant end (bit 0 = msb, bit 31 = lsb); below, fields are given in the
usual lsb-0 numbering of the 32-bit word:
    Type A   opcode[31:26] rD[25:21] rA[20:16] rB[15:11] function[10:0]
    Type B   opcode[31:26] rD[25:21] rA[20:16] IMM[15:0]
Instructions are stored big-endian (most significant byte first): the repo's own test vector `add r2, r5, r7` is
00 45 38 00, `addik r5, r0, 65` is 30 a0 00 41.  word_of_bytes() reads 4 bytes that way.

Meaning of IMM: every Type B instruction uses sext(IMM) -- unless it is preceded by `imm IMM'`, which supplies the
upper half: the 32-bit operand is then IMM' || IMM (imm32()).  The `imm` instruction's own operand is a 16-bit
pattern (both readings -32768..32767 / 0..65535 are used for it; it is compared modulo 2**16).
Branches: bri/brid/brlid and the conditional beqi.. family are relative to the address of the branch instruction
itself (PC <- PC + operand); brai/braid/bralid/brki are absolute (PC <- operand); brlid/bralid/brki/brld/brald/brk
store the PC in rD.  (branch_target())

Modelled (124 entries): add rsub [c][k] cmp cmpu, addi.. rsubikc, mul mulh mulhu mulhsu muli, bsrl bsra bsll,
bsrli bsrai bslli, idiv idivu, fadd frsub fmul fdiv fcmp.* flt fint fsqrt, or and xor andn pcmpbf pcmpbc pcmpeq pcmpne,
ori andi xori andni, sra src srl sext8 sext16 clz swapb swaph wic wdc wdc.flush wdc.clear, br brd brld bra brad brald brk,
beq..bged, imm, rtsd rtid rtbd rted, bri brid brlid brai braid bralid brki, beqi..bgeid, lbu lhu lw sb sh sw,
lbui lhui lwi sbi shi swi.   NOT modelled, i.e. "reserved here" (Decoded.mnemonic is None): the special purpose
register / MSR instructions (opcode 0x25: mfs mts msrset msrclr), the stream link instructions (get/put, opcode 0x1b),
mbar, sleep, the reversed / exclusive / extended-address load-store variants (lwx, swx, lbur ...), bsefi/bsifi, the
double precision and 64-bit extensions.  Every field an instruction page shows as zeros must be zero.

decode(w) works on a plain int and on a z3 32-bit vector with the SAME shift/mask expressions.

Entry = (name, mask, match, {field: extractor}, operand order of the manual's assembler line)
"""
import z3

M32 = 0xFFFFFFFF


def _is_int(w):
    return type(w) is int


def _shr(w, n):
    if n == 0:
        return w
    return (w >> n) if _is_int(w) else z3.LShR(w, n)


def bits(w, hi, lo):
    return _shr(w, lo) & ((1 << (hi - lo + 1)) - 1)


def sext16(w):
    """sext(IMM) as a 32-bit two's complement value"""
    v = w & 0xFFFF
    return (v | (0xFFFF0000 * ((v >> 15) & 1))) & M32 if _is_int(w) else (v | (0xFFFF0000 * (z3.LShR(v, 15) & 1)))


def _rd(w):
    return bits(w, 25, 21)


def _ra(w):
    return bits(w, 20, 16)


def _rb(w):
    return bits(w, 15, 11)


def _simm(w):
    return sext16(w)


def _himm(w):
    """operand of `imm`: the raw 16-bit pattern"""
    return w & 0xFFFF


def _imm5(w):
    return w & 0x1F


OP, RD, RA, RB, FN, IMM = 0xFC000000, 0x03E00000, 0x001F0000, 0x0000F800, 0x000007FF, 0x0000FFFF

TABLE = []


def _e(name, mask, match, fields, order):
    assert match & ~mask == 0, name
    assert all(k in fields for k in order), name
    TABLE.append((name, mask, match, fields, tuple(order)))


def _op(n):
    return n << 26


_F3 = dict(rd=_rd, ra=_ra, rb=_rb)
_FI = dict(rd=_rd, ra=_ra, imm=_simm)
_F2 = dict(rd=_rd, ra=_ra)

# --- integer add / subtract / compare: opcode 000 K C S (S = 1: rsub), Type A, function bits 0 ---------------
for _n, _o in (("add", 0), ("rsub", 1), ("addc", 2), ("rsubc", 3), ("addk", 4), ("rsubk", 5), ("addkc", 6), ("rsubkc", 7)):
    _e(_n, OP | FN, _op(_o), _F3, ("rd", "ra", "rb"))
# cmp / cmpu share the rsubk opcode (000101); function 1 / 3 (bit 30 = U)
_e("cmp", OP | FN, _op(5) | 1, _F3, ("rd", "ra", "rb"))
_e("cmpu", OP | FN, _op(5) | 3, _F3, ("rd", "ra", "rb"))
# Type B: opcode 001 K C S
for _n, _o in (("addi", 8), ("rsubi", 9), ("addic", 10), ("rsubic", 11), ("addik", 12), ("rsubik", 13), ("addikc", 14),
               ("rsubikc", 15)):
    _e(_n, OP, _op(_o), _FI, ("rd", "ra", "imm"))

# --- multiply (010000), barrel shift (010001: bit 10 = S (left), bit 9 = T (arithmetic)), divide (010010) ---
for _n, _f in (("mul", 0), ("mulh", 1), ("mulhsu", 2), ("mulhu", 3)):
    _e(_n, OP | FN, _op(0x10) | _f, _F3, ("rd", "ra", "rb"))
for _n, _f in (("bsrl", 0x000), ("bsra", 0x200), ("bsll", 0x400)):
    _e(_n, OP | FN, _op(0x11) | _f, _F3, ("rd", "ra", "rb"))
_e("idiv", OP | FN, _op(0x12) | 0, _F3, ("rd", "ra", "rb"))
_e("idivu", OP | FN, _op(0x12) | 2, _F3, ("rd", "ra", "rb"))
_e("muli", OP, _op(0x18), _FI, ("rd", "ra", "imm"))
# barrel shift immediate (011001): bits 15..11 = 0, S, T, bits 8..5 = 0, IMM5
for _n, _f in (("bsrli", 0x000), ("bsrai", 0x200), ("bslli", 0x400)):
    _e(_n, OP | 0xFFE0, _op(0x19) | _f, dict(rd=_rd, ra=_ra, imm5=_imm5), ("rd", "ra", "imm5"))

# --- floating point (010110): function = bits 10..7 operation, fcmp: bits 6..4 condition -------------------------
for _n, _f in (("fadd", 0x000), ("frsub", 0x080), ("fmul", 0x100), ("fdiv", 0x180),
               ("fcmp.un", 0x200), ("fcmp.lt", 0x210), ("fcmp.eq", 0x220), ("fcmp.le", 0x230), ("fcmp.gt", 0x240),
               ("fcmp.ne", 0x250), ("fcmp.ge", 0x260)):
    _e(_n, OP | FN, _op(0x16) | _f, _F3, ("rd", "ra", "rb"))
for _n, _f in (("flt", 0x280), ("fint", 0x300), ("fsqrt", 0x380)):
    _e(_n, OP | RB | FN, _op(0x16) | _f, _F2, ("rd", "ra"))      # rB field = 0

# --- logic (1000xx) and pattern compare (function bit 10 set) ----------------------------------------------------
for _n, _o in (("or", 0x20), ("and", 0x21), ("xor", 0x22), ("andn", 0x23)):
    _e(_n, OP | FN, _op(_o), _F3, ("rd", "ra", "rb"))
for _n, _o in (("pcmpbf", 0x20), ("pcmpbc", 0x21), ("pcmpeq", 0x22), ("pcmpne", 0x23)):
    _e(_n, OP | FN, _op(_o) | 0x400, _F3, ("rd", "ra", "rb"))
for _n, _o in (("ori", 0x28), ("andi", 0x29), ("xori", 0x2A), ("andni", 0x2B)):
    _e(_n, OP, _op(_o), _FI, ("rd", "ra", "imm"))

# --- opcode 100100: one-bit shifts, sign extension, clz, byte swaps (op rD, rA; low 16 bits fixed) and cache writes --
for _n, _f in (("sra", 0x0001), ("src", 0x0021), ("srl", 0x0041), ("sext8", 0x0060), ("sext16", 0x0061),
               ("clz", 0x00E0), ("swapb", 0x01E0), ("swaph", 0x01E2)):
    _e(_n, OP | IMM, _op(0x24) | _f, _F2, ("rd", "ra"))
# wic rA, rB / wdc rA, rB: rD field = 0
for _n, _f in (("wic", 0x068), ("wdc", 0x064), ("wdc.flush", 0x074), ("wdc.clear", 0x066)):
    _e(_n, OP | RD | FN, _op(0x24) | _f, dict(ra=_ra, rb=_rb), ("ra", "rb"))

# --- unconditional branches: the rA field holds D A L 0 0 (delay slot, absolute, link) -------------------------------
_BR = (("br", 0x00, False), ("brd", 0x10, False), ("brld", 0x14, True), ("bra", 0x08, False), ("brad", 0x18, False),
       ("brald", 0x1C, True), ("brk", 0x0C, True))
for _n, _c, _link in _BR:
    if _link:
        _e(_n, OP | RA | FN, _op(0x26) | (_c << 16), dict(rd=_rd, rb=_rb), ("rd", "rb"))
        _e(_n + "i" if _n == "brk" else _n[:-1] + "id", OP | RA, _op(0x2E) | (_c << 16), dict(rd=_rd, imm=_simm), ("rd", "imm"))
    else:
        _e(_n, OP | RD | RA | FN, _op(0x26) | (_c << 16), dict(rb=_rb), ("rb",))
        # br -> bri, brd -> brid, bra -> brai, brad -> braid
        _ni = _n[:-1] + "id" if _n.endswith("d") else _n + "i"
        _e(_ni, OP | RD | RA, _op(0x2E) | (_c << 16), dict(imm=_simm), ("imm",))

# --- conditional branches: the rD field holds D 0 cond (eq ne lt le gt ge = 0..5) ------------------------------------
for _k, _c in enumerate(("eq", "ne", "lt", "le", "gt", "ge")):
    _e("b" + _c, OP | RD | FN, _op(0x27) | (_k << 21), dict(ra=_ra, rb=_rb), ("ra", "rb"))
    _e("b" + _c + "d", OP | RD | FN, _op(0x27) | ((0x10 | _k) << 21), dict(ra=_ra, rb=_rb), ("ra", "rb"))
    _e("b" + _c + "i", OP | RD, _op(0x2F) | (_k << 21), dict(ra=_ra, imm=_simm), ("ra", "imm"))
    _e("b" + _c + "id", OP | RD, _op(0x2F) | ((0x10 | _k) << 21), dict(ra=_ra, imm=_simm), ("ra", "imm"))

# --- imm (101100, rD = rA = 0) and the returns (101101; rD field: rtsd 10000, rtid 10001, rtbd 10010, rted 10100) ---
_e("imm", OP | RD | RA, _op(0x2C), dict(imm=_himm), ("imm",))
for _n, _c in (("rtsd", 0x10), ("rtid", 0x11), ("rtbd", 0x12), ("rted", 0x14)):
    _e(_n, OP | RD, _op(0x2D) | (_c << 21), dict(ra=_ra, imm=_simm), ("ra", "imm"))

# --- load / store ----------------------------------------------------------------------------------------------------
for _n, _o in (("lbu", 0x30), ("lhu", 0x31), ("lw", 0x32), ("sb", 0x34), ("sh", 0x35), ("sw", 0x36)):
    _e(_n, OP | FN, _op(_o), _F3, ("rd", "ra", "rb"))
for _n, _o in (("lbui", 0x38), ("lhui", 0x39), ("lwi", 0x3A), ("sbi", 0x3C), ("shi", 0x3D), ("swi", 0x3E)):
    _e(_n, OP, _op(_o), _FI, ("rd", "ra", "imm"))


NAMES = [t[0] for t in TABLE]
_BY_NAME = {t[0]: t for t in TABLE}
assert len(_BY_NAME) == len(TABLE), "duplicate name"
REGISTER_FIELDS = ("rd", "ra", "rb")
# documented range (lo, hi) of an integer operand, by the way the field is read; compare mask
_RANGE = {_simm: (-32768, 32767), _himm: (-32768, 65535), _imm5: (0, 31)}
_CMPMASK = {_simm: M32, _himm: 0xFFFF, _imm5: M32}
# Type B branches whose (32-bit) operand is added to the address of the branch instruction / taken as address
PC_RELATIVE = ("bri", "brid", "brlid") + tuple("b" + c + s for c in ("eq", "ne", "lt", "le", "gt", "ge") for s in ("i", "id"))
ABSOLUTE = ("brai", "braid", "bralid", "brki")
TYPE_B = tuple(n for n in NAMES if _BY_NAME[n][3].get("imm") is _simm)


def order(name):
    return _BY_NAME[name][4]


def operand_range(name, field):
    """(lo, hi) of the values the manual documents for that integer operand"""
    return _RANGE[_BY_NAME[name][3][field]]


def compare_mask(name, field):
    """bits in which a printed integer operand must agree with the decoded field value"""
    return _CMPMASK[_BY_NAME[name][3][field]]


# register names: r0 .. r31 (the manual's general purpose registers; ppci prints them in upper case)
REG_NUMBER = {}
for _k in range(32):
    REG_NUMBER[f"r{_k}"] = _k


class Decoded:
    """view of one instruction word: is_(name) = the word is that instruction, fields(name) = its operand fields"""

    def __init__(self, w):
        self.w = w
        self.concrete = _is_int(w)

    def is_(self, name):
        _, mask, match, _, _ = _BY_NAME[name]
        return (self.w & mask) == match

    def fields(self, name):
        return {k: f(self.w) for k, f in _BY_NAME[name][3].items()}

    def operands(self, name):
        f = self.fields(name)
        return [f[k] for k in _BY_NAME[name][4]]

    @property
    def entries(self):
        return [(self.is_(n), n) for n in NAMES]

    @property
    def mnemonic(self):
        assert self.concrete
        hits = [n for n in NAMES if self.is_(n)]
        assert len(hits) <= 1, hits
        return hits[0] if hits else None


def decode(w):
    if _is_int(w):
        assert 0 <= w <= M32
    return Decoded(w)


def word_of_bytes(bs):
    """big-endian: most significant byte first"""
    w = 0
    for b in bs:
        w = (w << 8) | b
    return w


def signed32(v):
    v &= M32
    return v - (1 << 32) if v >> 31 else v


def imm32(prefix_word, word):
    """operand of a Type B instruction `word` that follows `imm` (prefix_word): IMM' || IMM (32-bit value)"""
    hi = (prefix_word & 0xFFFF) << 16
    return (hi | (word & 0xFFFF)) & M32 if _is_int(hi) and _is_int(word) else (hi | (word & 0xFFFF))


def branch_target(name, pc, operand):
    """address a Type B branch at address pc goes to (32-bit); operand = sext(IMM) or imm32()"""
    if name in ABSOLUTE:
        return operand & M32 if _is_int(operand) else operand
    assert name in PC_RELATIVE, name
    if _is_int(pc) and _is_int(operand):
        return (pc + operand) & M32
    return pc + operand


def disasm(w, pc=0):
    """(mnemonic, [operands]) of a concrete word in the manual's assembler order; registers as ("r", n), integers as
    ("i", signed value; `imm`: the unsigned 16-bit pattern)"""
    d = decode(w)
    n = d.mnemonic
    if n is None:
        return None, []
    f = d.fields(n)
    ops = []
    for k in _BY_NAME[n][4]:
        if k in REGISTER_FIELDS:
            ops.append(("r", f[k]))
        elif n == "imm":
            ops.append(("i", f[k]))
        else:
            ops.append(("i", signed32(f[k])))
    return n, ops


def text(w, pc=0):
    n, ops = disasm(w, pc)
    if n is None:
        return f".word 0x{w:08x}"
    s = [f"r{v}" if t == "r" else str(v) for t, v in ops]
    return (n + " " + ", ".join(s)).strip()


# ---------------------------------------------------------------------------------------------------------
# self test
def _parse_vectors(path):
    """[(test name, [assembler lines], bytes)] from a ppci assembler test file (self.feed / self.check calls)"""
    import ast
    out = []
    tree = ast.parse(open(path).read())
    for cls in [n for n in tree.body if isinstance(n, ast.ClassDef)]:
        for fn in [n for n in cls.body if isinstance(n, ast.FunctionDef) and n.name.startswith("test_")]:
            feeds, data = [], None
            for call in [n for n in ast.walk(fn) if isinstance(n, ast.Call) and isinstance(n.func, ast.Attribute)]:
                if not call.args or not isinstance(call.args[0], ast.Constant) or not isinstance(call.args[0].value, str):
                    continue
                if call.func.attr == "feed":
                    feeds.append((call.lineno, call.args[0].value))
                elif call.func.attr == "check":
                    data = bytes.fromhex(call.args[0].value.replace(" ", ""))
            if data is not None:
                lines = [ln.strip() for _, t in sorted(feeds) for ln in t.split("\n") if ln.strip()]
                out.append((fn.name, lines, data))
    return out


def parse_asm(line):
    """'addik r5, r0, 65' -> ('addik', [('r', 5), ('r', 0), ('i', 65)])"""
    import re
    parts = line.strip().split(None, 1)
    mn = parts[0].lower()
    ops = []
    if len(parts) > 1:
        for tok in [t for t in re.split(r"[,\s]+", parts[1]) if t]:
            if tok.lower() in REG_NUMBER:
                ops.append(("r", REG_NUMBER[tok.lower()]))
            else:
                ops.append(("i", int(tok, 0)))
    return mn, ops


def selftest(repo=None):
    """returns a dict of counters; raises AssertionError on any disagreement"""
    import os
    stats = dict(table_entries=len(TABLE), table_pairs=0, known_words=0, vectors=0, int_vs_z3_words=0)
    # (A) the table is a function of the word: no two entries can match the same word
    for i in range(len(TABLE)):
        n1, m1, v1 = TABLE[i][:3]
        for j in range(i + 1, len(TABLE)):
            n2, m2, v2 = TABLE[j][:3]
            stats["table_pairs"] += 1
            assert (v1 ^ v2) & m1 & m2, f"overlapping entries {n1} {n2}"
    # (B) encodings well known from GNU toolchain listings (mb-gcc / mb-objdump -d output, microblaze-opc.h values)
    known = {
        0x80000000: "or r0, r0, r0",            # nop
        0xB60F0008: "rtsd r15, 8",              # function return
        0x3021FFE0: "addik r1, r1, -32",        # prologue
        0x30210020: "addik r1, r1, 32",
        0xF9E10000: "swi r15, r1, 0",
        0xE9E10000: "lwi r15, r1, 0",
        0xFA61001C: "swi r19, r1, 28",
        0xEA61001C: "lwi r19, r1, 28",
        0x12610000: "addk r19, r1, r0",
        0x10330000: "addk r1, r19, r0",
        0xB0000000: "imm 0",
        0xB000FFFF: "imm 65535",
        0xB8000000: "bri 0",                    # endless loop
        0xB810FFFC: "brid -4",
        0xB9F40010: "brlid r15, 16",            # call
        0xB9FC0100: "bralid r15, 256",
        0xB8080050: "brai 80",                  # reset vector style jump
        0xB8180050: "braid 80",
        0xBA0C0018: "brki r16, 24",             # software break
        0xB9CC0008: "brki r14, 8",              # system call
        0xBC030010: "beqi r3, 16",
        0xBE030010: "beqid r3, 16",
        0xBC230010: "bnei r3, 16",
        0xBE23FFF0: "bneid r3, -16",
        0xBC430010: "blti r3, 16",
        0xBC630010: "blei r3, 16",
        0xBC830010: "bgti r3, 16",
        0xBCA30010: "bgei r3, 16",
        0xBE520008: "bltid r18, 8",
        0xBEB20008: "bgeid r18, 8",
        0x00453800: "add r2, r5, r7",
        0x04642800: "rsub r3, r4, r5",
        0x08642800: "addc r3, r4, r5",
        0x0C642800: "rsubc r3, r4, r5",
        0x10642800: "addk r3, r4, r5",
        0x14642800: "rsubk r3, r4, r5",
        0x18642800: "addkc r3, r4, r5",
        0x1C642800: "rsubkc r3, r4, r5",
        0x16441801: "cmp r18, r4, r3",
        0x16441803: "cmpu r18, r4, r3",
        0x20640001: "addi r3, r4, 1",
        0x2464FFFF: "rsubi r3, r4, -1",
        0x28640001: "addic r3, r4, 1",
        0x2C640001: "rsubic r3, r4, 1",
        0x34640001: "rsubik r3, r4, 1",
        0x38640001: "addikc r3, r4, 1",
        0x3C640001: "rsubikc r3, r4, 1",
        0x40632000: "mul r3, r3, r4",
        0x40642801: "mulh r3, r4, r5",
        0x40642802: "mulhsu r3, r4, r5",
        0x40642803: "mulhu r3, r4, r5",
        0x60640005: "muli r3, r4, 5",
        0x44642800: "bsrl r3, r4, r5",
        0x44642A00: "bsra r3, r4, r5",
        0x44642C00: "bsll r3, r4, r5",
        0x64630002: "bsrli r3, r3, 2",
        0x64630202: "bsrai r3, r3, 2",
        0x64630402: "bslli r3, r3, 2",
        0x48641800: "idiv r3, r4, r3",
        0x48641802: "idivu r3, r4, r3",
        0x58642800: "fadd r3, r4, r5",
        0x58642880: "frsub r3, r4, r5",
        0x58642900: "fmul r3, r4, r5",
        0x58642980: "fdiv r3, r4, r5",
        0x58642A10: "fcmp.lt r3, r4, r5",
        0x58642A20: "fcmp.eq r3, r4, r5",
        0x58642A60: "fcmp.ge r3, r4, r5",
        0x58640280: "flt r3, r4",
        0x58640300: "fint r3, r4",
        0x58640380: "fsqrt r3, r4",
        0x80642800: "or r3, r4, r5",
        0x84642800: "and r3, r4, r5",
        0x88642800: "xor r3, r4, r5",
        0x8C642800: "andn r3, r4, r5",
        0x80642C00: "pcmpbf r3, r4, r5",
        0x88642C00: "pcmpeq r3, r4, r5",
        0x8C642C00: "pcmpne r3, r4, r5",
        0xA0630001: "ori r3, r3, 1",
        0xA46300FF: "andi r3, r3, 255",
        0xA863FFFF: "xori r3, r3, -1",
        0xAC630001: "andni r3, r3, 1",
        0x90630001: "sra r3, r3",
        0x90630021: "src r3, r3",
        0x90630041: "srl r3, r3",
        0x90630060: "sext8 r3, r3",
        0x90630061: "sext16 r3, r3",
        0x90032068: "wic r3, r4",
        0x90032064: "wdc r3, r4",
        0x98001800: "br r3",
        0x98101800: "brd r3",
        0x98081800: "bra r3",
        0x98181800: "brad r3",
        0x99F41800: "brld r15, r3",
        0x99FC1800: "brald r15, r3",
        0x9C032000: "beq r3, r4",
        0x9E032000: "beqd r3, r4",
        0x9C232000: "bne r3, r4",
        0x9CA32000: "bge r3, r4",
        0x9EA32000: "bged r3, r4",
        0xB62E0000: "rtid r14, 0",
        0xB6500000: "rtbd r16, 0",
        0xB6910000: "rted r17, 0",
        0xC0642800: "lbu r3, r4, r5",
        0xC4642800: "lhu r3, r4, r5",
        0xC8642800: "lw r3, r4, r5",
        0xD0642800: "sb r3, r4, r5",
        0xD4642800: "sh r3, r4, r5",
        0xD8642800: "sw r3, r4, r5",
        0xE0640000: "lbui r3, r4, 0",
        0xE4640000: "lhui r3, r4, 0",
        0xE8730004: "lwi r3, r19, 4",
        0xF0640000: "sbi r3, r4, 0",
        0xF4640000: "shi r3, r4, 0",
        0xF8730004: "swi r3, r19, 4",
        # reserved here / fields that must be zero
        0x00453801: ".word 0x00453801",         # add with a function bit
        0x48641801: ".word 0x48641801",         # idiv function 1
        0xB0010000: ".word 0xb0010000",         # imm with rA != 0
        0x98011800: ".word 0x98011800",         # br: rA field 00001 is no D/A/L combination
        0x9CC32000: ".word 0x9cc32000",         # conditional branch, condition 6
        0xB4000000: ".word 0xb4000000",         # return with rD field 0
        0xFFFFFFFF: ".word 0xffffffff",
    }
    for wv, exp in known.items():
        assert text(wv, 0) == exp, (hex(wv), text(wv, 0), exp)
        stats["known_words"] += 1
    # imm prefix + branch arithmetic (manual: imm page, bri page)
    assert imm32(0xB0001234, 0xB8005678) == 0x12345678
    assert branch_target("bri", 0x1004, imm32(0xB000FFFF, 0xB800FFFC)) == 0x1000
    assert branch_target("brlid", 0x100, sext16(0xB9F40010)) == 0x110
    assert branch_target("brai", 0x100, sext16(0xB8080050)) == 0x50
    # (C) the repo's own assembler test vectors through this decoder
    repo = repo or os.environ.get("PPCI_REPO", "/repo")
    for tname, lines, data in _parse_vectors(os.path.join(repo, "test", "arch", "test_microblaze.py")):
        assert 4 * len(lines) == len(data), (tname, lines, len(data))
        for k, t in enumerate(lines):
            got = disasm(word_of_bytes(data[4 * k:4 * k + 4]), 4 * k)
            assert got == parse_asm(t), (tname, t, got, parse_asm(t))
            stats["vectors"] += 1
    assert stats["vectors"] >= 2
    # (D) the int and the z3 variant of the (shared) slicing expressions agree
    import random
    rnd = random.Random(20260923)
    wz = z3.BitVec("w", 32)
    dz = decode(wz)
    words = list(known)[:12]
    for n in NAMES:
        cz, fz = dz.is_(n), dz.fields(n)
        for wv in words + [(_BY_NAME[n][2] | (rnd.getrandbits(32) & ~_BY_NAME[n][1])) & M32 for _ in range(4)]:
            di = decode(wv)
            sub = [(wz, z3.BitVecVal(wv, 32))]
            assert z3.is_true(z3.simplify(z3.substitute(cz, *sub))) == bool(di.is_(n)), (n, hex(wv))
            fi = di.fields(n)
            for k in fi:
                assert z3.simplify(z3.substitute(fz[k], *sub)).as_long() == fi[k], (n, k, hex(wv))
            stats["int_vs_z3_words"] += 1
    return stats


if __name__ == "__main__":
    print(selftest())
