"""Xtensa reference decoder (independent of ppci): core ISA + the options ppci's back end touches.

Written from the "Xtensa Instruction Set Architecture (ISA) Reference Manual" (Tensilica): chapter 7 "Instruction
formats and opcodes" (the opcode maps: table "Whole Opcode Space" op0, QRST op1, RST0/RST1/RST2/RST3 op2, ST0 r,
SNM0 m, JR/CALLX n, SYNC t, ST1 r, RT0 s, FP0/FP1OP, LSAI r, LSCI r, CALLN n, SI n, BZ/BI0/BI1 m, B r, ST2, ST3/S3)
and chapter 6, the individual instruction pages (assembler syntax = operand order, how the immediate field is read:
zero-/sign-extension, scaling, bias, the address a PC-relative operand denotes).

Little-endian instruction formats (bit 0 = least significant bit of the first byte; ppci emits little-endian only):
    RRR    op2[23:20] op1[19:16] r[15:12] s[11:8] t[7:4] op0[3:0]
    RRI8   imm8[23:16] r[15:12] s[11:8] t[7:4] op0[3:0]
    RI16   imm16[23:8] t[7:4] op0[3:0]
    RSR    op2[23:20] op1[19:16] sr[15:8] t[7:4] op0[3:0]
    CALL   offset[23:6] n[5:4] op0[3:0]
    CALLX  op2[23:20] op1[19:16] r[15:12] s[11:8] m[7:6] n[5:4] op0[3:0]
    BRI8   imm8[23:16] r[15:12] s[11:8] m[7:6] n[5:4] op0[3:0]
    BRI12  imm12[23:12] s[11:8] m[7:6] n[5:4] op0[3:0]
    RRRN   r[15:12] s[11:8] t[7:4] op0[3:0]                      (16-bit, Code Density Option)
    RI7    imm7[3:0] = [15:12], s[11:8], i = bit 7, imm7[6:4] = [6:4], op0[3:0]
    RI6    imm6[3:0] = [15:12], s[11:8], i,z = bits 7,6, imm6[5:4] = [5:4], op0[3:0]
The length of an instruction is a function of op0: 0..7 = 24 bits, 8..13 = 16 bits (Code Density Option), 14, 15 reserved.

Modelled (entry per instruction, mask/match over the instruction word): the Core Architecture instructions, Code Density
Option, 32-bit Integer Multiply/Divide Options, MUL16, Miscellaneous Operations Option (sext, clamps, min/max, nsa/nsau),
Boolean Option, Floating-Point Coprocessor Option, Loop Option, Windowed Register Option (call4/8/12, callx4/8/12, entry,
retw, movsp, rotw, l32e/s32e), rsr/wsr/xsr/rur/wur, the synchronisation instructions, rsil/waiti/break/syscall/rfe,
l32ai/s32ri/s32c1i.  NOT modelled (decode gives no mnemonic): the MAC16 option (op0 = 4), the TLB and cache instruction
groups, rfi/rfde/rfwo/rfwu/rfme..., simcall, ldpte/hwwitlba style implementation instructions, FLIX / wide formats.
Assembler macros of the manual (MOV = OR ar, as, as; NOP when there is no NOP opcode, BBCI.L ...) are not entries: the
decoder names the real instruction.

decode(w, nbytes) works on a plain int and on a z3 32-bit vector (the 16-/24-bit instruction word zero-extended); both use
the SAME shift/mask expressions.  Every field value is a 32-bit value, signed ones in two's complement.

Entry = (name, nbytes, mask, match, {field: extractor}, operands)
    operands = tuple of (field, kind) in the order of the manual's assembler syntax; kind:
        "a" address register a0..a15   "f" floating-point register f0..f15   "b" boolean register b0..b15
        "i" integer (documented range in RANGE[extractor])   "l" label (target address = extractor(w, pc))
        "sr" special register number
"""
import z3

M32 = 0xFFFFFFFF


def _is_int(w):
    return type(w) is int


def _shr(w, n):
    if n == 0:
        return w
    return (w >> n) if _is_int(w) else z3.LShR(w, n)


def bits(w, hi, lo):
    return _shr(w, lo) & ((1 << (hi - lo + 1)) - 1)


def _sext(v, n):
    """sign-extend the n-bit value v (already masked) to 32 bits"""
    sign = _shr(v, n - 1) & 1
    hi = (M32 << n) & M32
    return (v | (hi * sign)) & M32 if _is_int(v) else (v | (hi * sign))


def _m32(v):
    return v & M32 if _is_int(v) else v


# --- fields ---------------------------------------------------------------------------------------------------
def _op0(w):
    return bits(w, 3, 0)


def _t(w):
    return bits(w, 7, 4)


def _s(w):
    return bits(w, 11, 8)


def _r(w):
    return bits(w, 15, 12)


def _op1(w):
    return bits(w, 19, 16)


def _op2(w):
    return bits(w, 23, 20)


def _imm8(w):
    return bits(w, 23, 16)


def _simm8(w):
    """ADDI: sign-extended imm8"""
    return _sext(bits(w, 23, 16), 8)


def _simm8_256(w):
    """ADDMI: sign-extended imm8 shifted left by 8"""
    return _m32(_sext(bits(w, 23, 16), 8) << 8)


def _imm8x2(w):
    return bits(w, 23, 16) << 1


def _imm8x4(w):
    return bits(w, 23, 16) << 2


def _simm12(w):
    """MOVI: imm12 = s field (bits 11..8 of the value) || imm8 (bits 7..0), sign-extended"""
    return _sext((bits(w, 11, 8) << 8) | bits(w, 23, 16), 12)


def _tp7(w):
    """SEXT / CLAMPS: t field + 7"""
    return bits(w, 7, 4) + 7


def _sa_srai(w):
    """SRAI: sa[4] = op2[0] (bit 20), sa[3:0] = s"""
    return (bits(w, 20, 20) << 4) | bits(w, 11, 8)


def _sa_slli(w):
    """SLLI: the field (bit 20 || t) holds 32 - sa"""
    return _m32(32 - ((bits(w, 20, 20) << 4) | bits(w, 7, 4)))


def _sa_ssai(w):
    """SSAI: sa[4] = t[0] (bit 4), sa[3:0] = s"""
    return (bits(w, 4, 4) << 4) | bits(w, 11, 8)


def _ext_shift(w):
    """EXTUI shiftimm: bit 4 = op1[0] (bit 16), bits 3..0 = s"""
    return (bits(w, 16, 16) << 4) | bits(w, 11, 8)


def _ext_mask(w):
    """EXTUI maskimm = op2 + 1"""
    return bits(w, 23, 20) + 1


def _bbi(w):
    """BBCI / BBSI bit number: bit 4 = r[0] (bit 12), bits 3..0 = t"""
    return (bits(w, 12, 12) << 4) | bits(w, 7, 4)


def _sr(w):
    return bits(w, 15, 8)


def _rx4(w):
    """L32I.N / S32I.N: imm4 (r field) * 4"""
    return bits(w, 15, 12) << 2


def _addin(w):
    """ADDI.N: t field, 0 stands for -1"""
    t = bits(w, 7, 4)
    if _is_int(w):
        return M32 if t == 0 else t
    return z3.If(t == 0, z3.BitVecVal(M32, 32), t)


def _movin(w):
    """MOVI.N: imm7 = bits 6..4 || r; values 96..127 stand for -32..-1"""
    v = (bits(w, 6, 4) << 4) | bits(w, 15, 12)
    if _is_int(w):
        return (v - 128) & M32 if v >= 96 else v
    return z3.If(z3.UGE(v, 96), v - 128, v)


_B4CONST = [-1, 1, 2, 3, 4, 5, 6, 7, 8, 10, 12, 16, 32, 64, 128, 256]
_B4CONSTU = [32768, 65536, 2, 3, 4, 5, 6, 7, 8, 10, 12, 16, 32, 64, 128, 256]


def _lookup(table, idx):
    if _is_int(idx):
        return table[idx] & M32
    e = z3.BitVecVal(table[15] & M32, 32)
    for k in range(14, -1, -1):
        e = z3.If(idx == k, z3.BitVecVal(table[k] & M32, 32), e)
    return e


def _b4const(w):
    return _lookup(_B4CONST, bits(w, 15, 12))


def _b4constu(w):
    return _lookup(_B4CONSTU, bits(w, 15, 12))


def _entry_imm(w):
    """ENTRY: imm12 * 8"""
    return bits(w, 23, 12) << 3


def _l32e_imm(w):
    """L32E / S32E: r field, offset = (r - 16) * 4  (-64..-4)"""
    return _m32((bits(w, 15, 12) << 2) - 64)


def _imm4_t(w):
    return bits(w, 7, 4)


def _imm4_s(w):
    return bits(w, 11, 8)


def _rotw(w):
    return _sext(bits(w, 7, 4), 4)


# --- PC-relative operands: address the operand denotes, given the address pc of the instruction --------------------
def _pcadd(pc, off):
    if _is_int(pc) and _is_int(off):
        return (pc + off) & M32
    return pc + off


def _tgt8(w, pc):
    """RRI8 / BRI8 branches: PC + 4 + sign_extend(imm8)"""
    return _pcadd(_pcadd(pc, 4), _sext(bits(w, 23, 16), 8))


def _tgt12(w, pc):
    """BRI12 (BEQZ BNEZ BLTZ BGEZ): PC + 4 + sign_extend(imm12)"""
    return _pcadd(_pcadd(pc, 4), _sext(bits(w, 23, 12), 12))


def _tgt18(w, pc):
    """J: PC + 4 + sign_extend(offset18)"""
    return _pcadd(_pcadd(pc, 4), _sext(bits(w, 23, 6), 18))


def _tgtcall(w, pc):
    """CALL0/4/8/12: (PC[31:2] + sign_extend(offset18) + 1) || 00"""
    return _pcadd(_pcadd(pc & 0xFFFFFFFC, 4), _m32(_sext(bits(w, 23, 6), 18) << 2))


def _tgtl32r(w, pc):
    """L32R (no Extended L32R option): ((PC + 3) & ~3) + (0xFFFF || imm16 || 00)"""
    base = _pcadd(pc, 3) & 0xFFFFFFFC
    return _pcadd(base, _m32((0xFFFF0000 | bits(w, 23, 8)) << 2))


def _tgtloop(w, pc):
    """LOOP / LOOPNEZ / LOOPGTZ: LEND = PC + 4 + zero_extend(imm8)"""
    return _pcadd(_pcadd(pc, 4), bits(w, 23, 16))


def _tgt6(w, pc):
    """BEQZ.N / BNEZ.N: PC + 4 + zero_extend(imm6), imm6 = bits 5..4 || r"""
    return _pcadd(_pcadd(pc, 4), (bits(w, 5, 4) << 4) | bits(w, 15, 12))


# documented range (lo, hi, multiple-of, excluded values) -- or ("set", values) -- of an integer operand, by the way its
# field is read
RANGE = {_imm8: (0, 255, 1, ()), _simm8: (-128, 127, 1, ()), _simm8_256: (-32768, 32512, 256, ()),
         _imm8x2: (0, 510, 2, ()), _imm8x4: (0, 1020, 4, ()), _simm12: (-2048, 2047, 1, ()), _tp7: (7, 22, 1, ()),
         _sa_srai: (0, 31, 1, ()), _sa_slli: (1, 31, 1, ()), _sa_ssai: (0, 31, 1, ()), _ext_shift: (0, 31, 1, ()),
         _ext_mask: (1, 16, 1, ()), _bbi: (0, 31, 1, ()), _rx4: (0, 60, 4, ()), _addin: (-1, 15, 1, (0,)),
         _movin: (-32, 95, 1, ()), _entry_imm: (0, 32760, 8, ()), _l32e_imm: (-64, -4, 4, ()),
         _imm4_t: (0, 15, 1, ()), _imm4_s: (0, 15, 1, ()), _rotw: (-8, 7, 1, ()),
         _b4const: ("set", tuple(_B4CONST)), _b4constu: ("set", tuple(_B4CONSTU))}
# reach (lo, hi, multiple-of) of a label operand: signed byte distance the field can express, measured from `base(pc)`
REACH = {_tgt8: (-128, 127, 1), _tgt12: (-2048, 2047, 1), _tgt18: (-131072, 131071, 1),
         _tgtcall: (-524288, 524284, 4), _tgtl32r: (-262144, -4, 4), _tgtloop: (0, 255, 1), _tgt6: (0, 63, 1)}


def reach_base(fn, pc):
    """the address the signed distance of REACH[fn] is measured from"""
    if fn is _tgtcall:
        return _pcadd(pc & 0xFFFFFFFC, 4)
    if fn is _tgtl32r:
        return _pcadd(pc, 3) & 0xFFFFFFFC
    return _pcadd(pc, 4)


# --- the table --------------------------------------------------------------------------------------------------
OP0, T, S, R, OP1, OP2, N_, M_ = 0xF, 0xF0, 0xF00, 0xF000, 0xF0000, 0xF00000, 0x30, 0xC0
TABLE = []


def _e(name, nbytes, mask, match, fields, operands):
    assert match & ~mask == 0, name
    assert mask < (1 << (8 * nbytes)), name
    for f, k in operands:
        assert f in fields, (name, f)
    TABLE.append((name, nbytes, mask, match, fields, tuple(operands)))


def _rrr(op2, op1, r=0, s=0, t=0, op0=0):
    return (op2 << 20) | (op1 << 16) | (r << 12) | (s << 8) | (t << 4) | op0


_AR3 = (dict(r=_r, s=_s, t=_t), (("r", "a"), ("s", "a"), ("t", "a")))
_QRST = OP2 | OP1 | OP0

# RST0 (op0 = 0, op1 = 0): three address registers
for _n, _c in (("and", 1), ("or", 2), ("xor", 3), ("add", 8), ("addx2", 9), ("addx4", 10), ("addx8", 11),
               ("sub", 12), ("subx2", 13), ("subx4", 14), ("subx8", 15)):
    _e(_n, 3, _QRST, _rrr(_c, 0), *_AR3)
# ST0 (op2 = 0): r selects
#   SNM0 (r = 0): m, n select; ILL = all zero; RET/RETW have s = 0
_e("ill", 3, 0xFFFFFF, 0x000000, {}, ())
_e("ret", 3, 0xFFFFFF, 0x000080, {}, ())
_e("retw", 3, 0xFFFFFF, 0x000090, {}, ())
_e("jx", 3, 0xFFF0FF, 0x0000A0, dict(s=_s), (("s", "a"),))
for _k, _n in enumerate(("callx0", "callx4", "callx8", "callx12")):
    _e(_n, 3, 0xFFF0FF, 0x0000C0 | (_k << 4), dict(s=_s), (("s", "a"),))
_e("movsp", 3, _QRST | R, _rrr(0, 0, 1), dict(s=_s, t=_t), (("t", "a"), ("s", "a")))
#   SYNC (r = 2, s = 0): t selects
for _n, _c in (("isync", 0), ("rsync", 1), ("esync", 2), ("dsync", 3), ("excw", 8), ("memw", 12), ("extw", 13), ("nop", 15)):
    _e(_n, 3, 0xFFFFFF, _rrr(0, 0, 2, 0, _c), {}, ())
#   RFEI (r = 3): only RFE (t = 0, s = 0) and RFUE (s = 1) are modelled
_e("rfe", 3, 0xFFFFFF, 0x003000, {}, ())
_e("rfue", 3, 0xFFFFFF, 0x003100, {}, ())
_e("break", 3, _QRST | R, _rrr(0, 0, 4), dict(s=_imm4_s, t=_imm4_t), (("s", "i"), ("t", "i")))
_e("syscall", 3, 0xFFFFFF, 0x005000, {}, ())
_e("rsil", 3, _QRST | R, _rrr(0, 0, 6), dict(s=_imm4_s, t=_t), (("t", "a"), ("s", "i")))
_e("waiti", 3, _QRST | R | T, _rrr(0, 0, 7), dict(s=_imm4_s), (("s", "i"),))
for _n, _c in (("any4", 8), ("all4", 9), ("any8", 10), ("all8", 11)):
    _e(_n, 3, _QRST | R, _rrr(0, 0, _c), dict(s=_s, t=_t), (("t", "b"), ("s", "b")))
# ST1 (op2 = 4): r selects
for _n, _c in (("ssr", 0), ("ssl", 1), ("ssa8l", 2), ("ssa8b", 3)):
    _e(_n, 3, _QRST | R | T, _rrr(4, 0, _c), dict(s=_s), (("s", "a"),))
_e("ssai", 3, _QRST | R | 0xE0, _rrr(4, 0, 4), dict(sa=_sa_ssai), (("sa", "i"),))
_e("rer", 3, _QRST | R, _rrr(4, 0, 6), dict(s=_s, t=_t), (("t", "a"), ("s", "a")))
_e("wer", 3, _QRST | R, _rrr(4, 0, 7), dict(s=_s, t=_t), (("t", "a"), ("s", "a")))
_e("rotw", 3, _QRST | R | S, _rrr(4, 0, 8), dict(t=_rotw), (("t", "i"),))
_e("nsa", 3, _QRST | R, _rrr(4, 0, 14), dict(s=_s, t=_t), (("t", "a"), ("s", "a")))
_e("nsau", 3, _QRST | R, _rrr(4, 0, 15), dict(s=_s, t=_t), (("t", "a"), ("s", "a")))
# RT0 (op2 = 6): s selects
_e("neg", 3, _QRST | S, _rrr(6, 0, 0, 0), dict(r=_r, t=_t), (("r", "a"), ("t", "a")))
_e("abs", 3, _QRST | S, _rrr(6, 0, 0, 1), dict(r=_r, t=_t), (("r", "a"), ("t", "a")))

# RST1 (op1 = 1)
_e("slli", 3, 0xE00000 | OP1 | OP0, _rrr(0, 1), dict(r=_r, s=_s, sa=_sa_slli), (("r", "a"), ("s", "a"), ("sa", "i")))
_e("srai", 3, 0xE00000 | OP1 | OP0, _rrr(2, 1), dict(r=_r, t=_t, sa=_sa_srai), (("r", "a"), ("t", "a"), ("sa", "i")))
_e("srli", 3, _QRST, _rrr(4, 1), dict(r=_r, t=_t, sa=_imm4_s), (("r", "a"), ("t", "a"), ("sa", "i")))
_e("xsr", 3, _QRST, _rrr(6, 1), dict(sr=_sr, t=_t), (("t", "a"), ("sr", "sr")))
_e("src", 3, _QRST, _rrr(8, 1), *_AR3)
_e("srl", 3, _QRST | S, _rrr(9, 1), dict(r=_r, t=_t), (("r", "a"), ("t", "a")))
_e("sll", 3, _QRST | T, _rrr(10, 1), dict(r=_r, s=_s), (("r", "a"), ("s", "a")))
_e("sra", 3, _QRST | S, _rrr(11, 1), dict(r=_r, t=_t), (("r", "a"), ("t", "a")))
_e("mul16u", 3, _QRST, _rrr(12, 1), *_AR3)
_e("mul16s", 3, _QRST, _rrr(13, 1), *_AR3)

# RST2 (op1 = 2)
_BR3 = (dict(r=_r, s=_s, t=_t), (("r", "b"), ("s", "b"), ("t", "b")))
for _n, _c in (("andb", 0), ("andbc", 1), ("orb", 2), ("orbc", 3), ("xorb", 4)):
    _e(_n, 3, _QRST, _rrr(_c, 2), *_BR3)
for _n, _c in (("mull", 8), ("muluh", 10), ("mulsh", 11), ("quou", 12), ("quos", 13), ("remu", 14), ("rems", 15)):
    _e(_n, 3, _QRST, _rrr(_c, 2), *_AR3)

# RST3 (op1 = 3)
_e("rsr", 3, _QRST, _rrr(0, 3), dict(sr=_sr, t=_t), (("t", "a"), ("sr", "sr")))
_e("wsr", 3, _QRST, _rrr(1, 3), dict(sr=_sr, t=_t), (("t", "a"), ("sr", "sr")))
_e("sext", 3, _QRST, _rrr(2, 3), dict(r=_r, s=_s, imm=_tp7), (("r", "a"), ("s", "a"), ("imm", "i")))
_e("clamps", 3, _QRST, _rrr(3, 3), dict(r=_r, s=_s, imm=_tp7), (("r", "a"), ("s", "a"), ("imm", "i")))
for _n, _c in (("min", 4), ("max", 5), ("minu", 6), ("maxu", 7), ("moveqz", 8), ("movnez", 9), ("movltz", 10), ("movgez", 11)):
    _e(_n, 3, _QRST, _rrr(_c, 3), *_AR3)
for _n, _c in (("movf", 12), ("movt", 13)):
    _e(_n, 3, _QRST, _rrr(_c, 3), dict(r=_r, s=_s, t=_t), (("r", "a"), ("s", "a"), ("t", "b")))

# EXTUI (op1 = 4, 5)
_e("extui", 3, 0x0E0000 | OP0, _rrr(0, 4), dict(r=_r, t=_t, shift=_ext_shift, mask=_ext_mask),
   (("r", "a"), ("t", "a"), ("shift", "i"), ("mask", "i")))

# LSCX (op1 = 8), LSC4 (op1 = 9)
for _n, _c in (("lsx", 0), ("lsxu", 1), ("ssx", 4), ("ssxu", 5)):
    _e(_n, 3, _QRST, _rrr(_c, 8), dict(r=_r, s=_s, t=_t), (("r", "f"), ("s", "a"), ("t", "a")))
_e("l32e", 3, _QRST, _rrr(0, 9), dict(t=_t, s=_s, imm=_l32e_imm), (("t", "a"), ("s", "a"), ("imm", "i")))
_e("s32e", 3, _QRST, _rrr(4, 9), dict(t=_t, s=_s, imm=_l32e_imm), (("t", "a"), ("s", "a"), ("imm", "i")))

# FP0 (op1 = 10)
_FR3 = (dict(r=_r, s=_s, t=_t), (("r", "f"), ("s", "f"), ("t", "f")))
for _n, _c in (("add.s", 0), ("sub.s", 1), ("mul.s", 2), ("madd.s", 4), ("msub.s", 5)):
    _e(_n, 3, _QRST, _rrr(_c, 10), *_FR3)
for _n, _c in (("round.s", 8), ("trunc.s", 9), ("floor.s", 10), ("ceil.s", 11), ("utrunc.s", 14)):
    _e(_n, 3, _QRST, _rrr(_c, 10), dict(r=_r, s=_s, t=_imm4_t), (("r", "a"), ("s", "f"), ("t", "i")))
for _n, _c in (("float.s", 12), ("ufloat.s", 13)):
    _e(_n, 3, _QRST, _rrr(_c, 10), dict(r=_r, s=_s, t=_imm4_t), (("r", "f"), ("s", "a"), ("t", "i")))
#   FP1OP (op2 = 15): t selects
for _n, _c in (("mov.s", 0), ("abs.s", 1), ("neg.s", 6)):
    _e(_n, 3, _QRST | T, _rrr(15, 10, 0, 0, _c), dict(r=_r, s=_s), (("r", "f"), ("s", "f")))
_e("rfr", 3, _QRST | T, _rrr(15, 10, 0, 0, 4), dict(r=_r, s=_s), (("r", "a"), ("s", "f")))
_e("wfr", 3, _QRST | T, _rrr(15, 10, 0, 0, 5), dict(r=_r, s=_s), (("r", "f"), ("s", "a")))
# FP1 (op1 = 11)
for _n, _c in (("un.s", 1), ("oeq.s", 2), ("ueq.s", 3), ("olt.s", 4), ("ult.s", 5), ("ole.s", 6), ("ule.s", 7)):
    _e(_n, 3, _QRST, _rrr(_c, 11), dict(r=_r, s=_s, t=_t), (("r", "b"), ("s", "f"), ("t", "f")))
for _n, _c in (("moveqz.s", 8), ("movnez.s", 9), ("movltz.s", 10), ("movgez.s", 11)):
    _e(_n, 3, _QRST, _rrr(_c, 11), dict(r=_r, s=_s, t=_t), (("r", "f"), ("s", "f"), ("t", "a")))
for _n, _c in (("movf.s", 12), ("movt.s", 13)):
    _e(_n, 3, _QRST, _rrr(_c, 11), dict(r=_r, s=_s, t=_t), (("r", "f"), ("s", "f"), ("t", "b")))

# L32R (op0 = 1)
_e("l32r", 3, OP0, 1, dict(t=_t, label=_tgtl32r), (("t", "a"), ("label", "l")))

# LSAI (op0 = 2): r selects; OP at, as, imm
for _n, _c, _f in (("l8ui", 0, _imm8), ("l16ui", 1, _imm8x2), ("l32i", 2, _imm8x4), ("s8i", 4, _imm8), ("s16i", 5, _imm8x2),
                   ("s32i", 6, _imm8x4), ("l16si", 9, _imm8x2), ("l32ai", 11, _imm8x4), ("addi", 12, _simm8),
                   ("addmi", 13, _simm8_256), ("s32c1i", 14, _imm8x4), ("s32ri", 15, _imm8x4)):
    _e(_n, 3, R | OP0, (_c << 12) | 2, dict(t=_t, s=_s, imm=_f), (("t", "a"), ("s", "a"), ("imm", "i")))
_e("movi", 3, R | OP0, (10 << 12) | 2, dict(t=_t, imm=_simm12), (("t", "a"), ("imm", "i")))

# LSCI (op0 = 3): r selects; OP ft, as, imm8 * 4
for _n, _c in (("lsi", 0), ("ssi", 4), ("lsiu", 8), ("ssiu", 12)):
    _e(_n, 3, R | OP0, (_c << 12) | 3, dict(t=_t, s=_s, imm=_imm8x4), (("t", "f"), ("s", "a"), ("imm", "i")))

# CALLN (op0 = 5): n selects
for _k, _n in enumerate(("call0", "call4", "call8", "call12")):
    _e(_n, 3, N_ | OP0, (_k << 4) | 5, dict(label=_tgtcall), (("label", "l"),))

# SI (op0 = 6): n selects
_e("j", 3, N_ | OP0, 0x06, dict(label=_tgt18), (("label", "l"),))
for _k, _n in enumerate(("beqz", "bnez", "bltz", "bgez")):
    _e(_n, 3, M_ | N_ | OP0, (_k << 6) | 0x16, dict(s=_s, label=_tgt12), (("s", "a"), ("label", "l")))
for _k, _n in enumerate(("beqi", "bnei", "blti", "bgei")):
    _e(_n, 3, M_ | N_ | OP0, (_k << 6) | 0x26, dict(s=_s, imm=_b4const, label=_tgt8), (("s", "a"), ("imm", "i"), ("label", "l")))
_e("entry", 3, M_ | N_ | OP0, 0x36, dict(s=_s, imm=_entry_imm), (("s", "a"), ("imm", "i")))
#   B1 (n = 3, m = 1): r selects
_e("bf", 3, R | M_ | N_ | OP0, 0x0076, dict(s=_s, label=_tgt8), (("s", "b"), ("label", "l")))
_e("bt", 3, R | M_ | N_ | OP0, 0x1076, dict(s=_s, label=_tgt8), (("s", "b"), ("label", "l")))
for _n, _c in (("loop", 8), ("loopnez", 9), ("loopgtz", 10)):
    _e(_n, 3, R | M_ | N_ | OP0, (_c << 12) | 0x76, dict(s=_s, label=_tgtloop), (("s", "a"), ("label", "l")))
_e("bltui", 3, M_ | N_ | OP0, 0xB6, dict(s=_s, imm=_b4constu, label=_tgt8), (("s", "a"), ("imm", "i"), ("label", "l")))
_e("bgeui", 3, M_ | N_ | OP0, 0xF6, dict(s=_s, imm=_b4constu, label=_tgt8), (("s", "a"), ("imm", "i"), ("label", "l")))

# B (op0 = 7): r selects; OP as, at, label
for _n, _c in (("bnone", 0), ("beq", 1), ("blt", 2), ("bltu", 3), ("ball", 4), ("bbc", 5), ("bany", 8), ("bne", 9),
               ("bge", 10), ("bgeu", 11), ("bnall", 12), ("bbs", 13)):
    _e(_n, 3, R | OP0, (_c << 12) | 7, dict(s=_s, t=_t, label=_tgt8), (("s", "a"), ("t", "a"), ("label", "l")))
_e("bbci", 3, 0xE000 | OP0, (6 << 12) | 7, dict(s=_s, bit=_bbi, label=_tgt8), (("s", "a"), ("bit", "i"), ("label", "l")))
_e("bbsi", 3, 0xE000 | OP0, (14 << 12) | 7, dict(s=_s, bit=_bbi, label=_tgt8), (("s", "a"), ("bit", "i"), ("label", "l")))

# Code Density Option (16-bit)
_e("l32i.n", 2, OP0, 8, dict(t=_t, s=_s, imm=_rx4), (("t", "a"), ("s", "a"), ("imm", "i")))
_e("s32i.n", 2, OP0, 9, dict(t=_t, s=_s, imm=_rx4), (("t", "a"), ("s", "a"), ("imm", "i")))
_e("add.n", 2, OP0, 10, dict(r=_r, s=_s, t=_t), (("r", "a"), ("s", "a"), ("t", "a")))
_e("addi.n", 2, OP0, 11, dict(r=_r, s=_s, imm=_addin), (("r", "a"), ("s", "a"), ("imm", "i")))
_e("movi.n", 2, 0x80 | OP0, 0x0C, dict(s=_s, imm=_movin), (("s", "a"), ("imm", "i")))
_e("beqz.n", 2, 0xC0 | OP0, 0x8C, dict(s=_s, label=_tgt6), (("s", "a"), ("label", "l")))
_e("bnez.n", 2, 0xC0 | OP0, 0xCC, dict(s=_s, label=_tgt6), (("s", "a"), ("label", "l")))
_e("mov.n", 2, R | OP0, 0x000D, dict(t=_t, s=_s), (("t", "a"), ("s", "a")))
_e("ret.n", 2, 0xFFFF, 0xF00D, {}, ())
_e("retw.n", 2, 0xFFFF, 0xF01D, {}, ())
_e("break.n", 2, R | T | OP0, 0xF02D, dict(s=_imm4_s), (("s", "i"),))
_e("nop.n", 2, 0xFFFF, 0xF03D, {}, ())
_e("ill.n", 2, 0xFFFF, 0xF06D, {}, ())

# assembler macros the manual defines (instruction page "MOV": "MOV is an assembler macro that uses the OR instruction ...
# MOV ar, as  is  OR ar, as, as"): printed mnemonic -> (real instruction, for each of ITS operands the index of the
# printed operand it repeats)
MACROS = {"mov": ("or", (0, 1, 1))}

NAMES = [t[0] for t in TABLE]
_BY_NAME = {t[0]: t for t in TABLE}
assert len(_BY_NAME) == len(TABLE)


def length_of_op0(op0):
    """instruction length in bytes as a function of op0 (None: reserved)"""
    if op0 < 8:
        return 3
    return 2 if op0 < 14 else None


def operand_range(name, field):
    """(lo, hi, multiple-of, excluded) or ("set", values) of an integer operand"""
    return RANGE[_BY_NAME[name][4][field]]


def label_reach(name, field):
    """((lo, hi, multiple-of), target function) of a label operand"""
    fn = _BY_NAME[name][4][field]
    return REACH[fn], fn


class Decoded:
    """view of one instruction word of nbytes bytes: is_(name), fields(name, pc)"""

    def __init__(self, w, nbytes):
        self.w, self.nbytes = w, nbytes
        self.concrete = _is_int(w)

    def is_(self, name):
        _, nb, mask, match, _, _ = _BY_NAME[name]
        if nb != self.nbytes:
            return False
        return (self.w & mask) == match

    def operands(self, name, pc=0):
        """[(value, kind)] in the manual's assembler order; label operands: the address they denote"""
        _, nb, mask, match, fields, ops = _BY_NAME[name]
        out = []
        for f, k in ops:
            fn = fields[f]
            out.append((fn(self.w, pc) if k == "l" else fn(self.w), k))
        return out

    @property
    def mnemonic(self):
        assert self.concrete
        hits = [n for n in NAMES if self.is_(n)]
        assert len(hits) <= 1, hits
        return hits[0] if hits else None


def decode(w, nbytes):
    if _is_int(w):
        assert 0 <= w < (1 << (8 * nbytes))
    return Decoded(w, nbytes)


def word_of_bytes(bs):
    """little-endian: the first byte holds op0 (bits 3..0) and t (bits 7..4)"""
    w = 0
    for k, b in enumerate(bs):
        w = w | (b << (8 * k))
    return w


def signed32(v):
    v &= M32
    return v - (1 << 32) if v >> 31 else v


def disasm_bytes(data, pc=0):
    """[(pc, mnemonic or None, [(kind, value)])] of a concrete byte string; stops at a reserved op0"""
    out, pos = [], 0
    while pos < len(data):
        n = length_of_op0(data[pos] & 15)
        if n is None or pos + n > len(data):
            out.append((pc + pos, None, []))
            break
        out.append((pc + pos,) + disasm(word_of_bytes(data[pos:pos + n]), n, pc + pos))
        pos += n
    return out


def disasm(w, nbytes, pc=0):
    d = decode(w, nbytes)
    n = d.mnemonic
    if n is None:
        return None, []
    return n, [(k, v if k in ("a", "f", "b", "sr", "l") else signed32(v)) for v, k in d.operands(n, pc)]


def text(w, nbytes, pc=0):
    n, ops = disasm(w, nbytes, pc)
    if n is None:
        return f".byte {w:#x}/{nbytes}"
    s = [f"{k}{v}" if k in ("a", "f", "b") else hex(v) if k == "l" else str(v) for k, v in ops]
    return (n + " " + ", ".join(s)).strip()


# ---------------------------------------------------------------------------------------------------------
# self test
def _parse_vectors(path):
    """[(test name, [assembler lines], bytes)] from a ppci assembler test file (self.feed / self.check calls)"""
    import ast
    out = []
    tree = ast.parse(open(path).read())
    for cls in [n for n in tree.body if isinstance(n, ast.ClassDef)]:
        for fn in [n for n in cls.body if isinstance(n, ast.FunctionDef) and n.name.startswith("test_")]:
            feeds, data = [], None
            for call in [n for n in ast.walk(fn) if isinstance(n, ast.Call) and isinstance(n.func, ast.Attribute)]:
                if not call.args or not isinstance(call.args[0], ast.Constant) or not isinstance(call.args[0].value, str):
                    continue
                if call.func.attr == "feed":
                    feeds.append((call.lineno, call.args[0].value))
                elif call.func.attr == "check":
                    data = bytes.fromhex(call.args[0].value.replace(" ", ""))
            if data is not None:
                lines = [ln.strip() for _, t in sorted(feeds) for ln in t.split("\n") if ln.strip()]
                out.append((fn.name, lines, data))
    return out


def parse_asm(line, labels=None):
    """'l32i.n a1, a5, 28' -> ('l32i.n', [('a', 1), ('a', 5), ('i', 28)]); labels -> ('l', address)"""
    import re
    labels = labels or {}
    parts = line.strip().split(None, 1)
    mn = parts[0].lower()
    ops = []
    if len(parts) > 1:
        for tok in [t for t in re.split(r"[,\s]+", parts[1]) if t]:
            m = re.fullmatch(r"([afb])(\d+)", tok.lower())
            if m and int(m.group(2)) < 16:
                ops.append((m.group(1), int(m.group(2))))
            elif tok in labels:
                ops.append(("l", labels[tok]))
            else:
                ops.append(("i", int(tok, 0)))
    return mn, ops


def selftest(repo=None):
    """returns a dict of counters; raises AssertionError on any disagreement"""
    import os
    stats = dict(table_entries=len(TABLE), table_pairs=0, known_words=0, vectors=0, int_vs_z3_words=0)
    # (A) the table is a function of the word: no two entries of the same length can match the same word; the
    # length classes are separated by op0 (every 3-byte entry fixes or allows only op0 < 8, every 2-byte one 8..13)
    for i in range(len(TABLE)):
        n1, b1, m1, v1 = TABLE[i][:4]
        assert m1 & OP0 == OP0, n1
        assert length_of_op0(v1 & OP0) == b1, n1
        for j in range(i + 1, len(TABLE)):
            n2, b2, m2, v2 = TABLE[j][:4]
            if b1 != b2:
                continue
            stats["table_pairs"] += 1
            assert (v1 ^ v2) & m1 & m2, f"overlapping entries {n1} {n2}"
    # (B) encodings well known from GNU toolchain listings (xtensa-*-objdump -d of ESP8266 / ESP32 / xtensa-lx code)
    known = [
        ("800000", "ret"), ("900000", "retw"), ("0df0", "ret.n"), ("1df0", "retw.n"), ("3df0", "nop.n"), ("f02000", "nop"),
        ("000000", "ill"), ("6df0", "ill.n"), ("c02000", "memw"), ("002000", "isync"), ("102000", "rsync"),
        ("202000", "esync"), ("302000", "dsync"), ("d02000", "extw"), ("005000", "syscall"), ("003000", "rfe"),
        ("a00000", "jx a0"), ("c00000", "callx0 a0"), ("d00000", "callx4 a0"), ("e00800", "callx8 a8"), ("f00800", "callx12 a8"),
        ("364100", "entry a1, 32"), ("366100", "entry a1, 48"),
        ("12c1f0", "addi a1, a1, -16"), ("12c110", "addi a1, a1, 16"), ("026103", "s32i a0, a1, 12"),
        ("022103", "l32i a0, a1, 12"), ("0931", "s32i.n a0, a1, 12"), ("0831", "l32i.n a0, a1, 12"),
        ("ad02", "mov.n a10, a2"), ("2d03", "mov.n a2, a3"), ("0c02", "movi.n a2, 0"), ("7cf2", "movi.n a2, -1"),
        ("1c02", "movi.n a2, 16"), ("2a23", "add.n a2, a3, a2"), ("1b22", "addi.n a2, a2, 1"), ("0b22", "addi.n a2, a2, -1"),
        ("22a000", "movi a2, 0"), ("22a0ff", "movi a2, 255"), ("22afff", "movi a2, -1"), ("203074", "extui a3, a2, 0, 8"),
        ("20e613", "wsr a2, 230"), ("20e603", "rsr a2, 230"), ("206300", "rsil a2, 3"), ("007000", "waiti 0"),
        ("f04100", "break 1, 15"), ("202060", "neg a2, a2"), ("202160", "abs a2, a2"), ("302280", "add a2, a2, a3"),
        ("3022c0", "sub a2, a2, a3"), ("302210", "and a2, a2, a3"), ("302220", "or a2, a2, a3"), ("302230", "xor a2, a2, a3"),
        ("302282", "mull a2, a2, a3"), ("3022c2", "quou a2, a2, a3"), ("3022d2", "quos a2, a2, a3"), ("3022e2", "remu a2, a2, a3"),
        ("3022f2", "rems a2, a2, a3"), ("0022a1", "sll a2, a2"), ("202091", "srl a2, a2"), ("2020b1", "sra a2, a2"),
        ("000240", "ssr a2"), ("001240", "ssl a2"), ("202441", "srli a2, a2, 4"), ("202421", "srai a2, a2, 4"),
        ("c02211", "slli a2, a2, 4"), ("002223", "sext a2, a2, 7"), ("802223", "sext a2, a2, 15"),
        ("220300", "l8ui a2, a3, 0"), ("221301", "l16ui a2, a3, 2"), ("229301", "l16si a2, a3, 2"), ("224300", "s8i a2, a3, 0"),
        ("225301", "s16i a2, a3, 2"), ("22d301", "addmi a2, a3, 256"), ("22d3ff", "addmi a2, a3, -256"),
        ("1602" + "00", "beqz a2, 0x4"), ("5602" + "00", "bnez a2, 0x4"), ("9602" + "00", "bltz a2, 0x4"), ("d602" + "00", "bgez a2, 0x4"),
        ("371200", "beq a2, a3, 0x4"), ("379200", "bne a2, a3, 0x4"), ("372200", "blt a2, a3, 0x4"), ("37a200", "bge a2, a3, 0x4"),
        ("373200", "bltu a2, a3, 0x4"), ("37b200", "bgeu a2, a3, 0x4"), ("378200", "bany a2, a3, 0x4"), ("370200", "bnone a2, a3, 0x4"),
        ("374200", "ball a2, a3, 0x4"), ("37c200", "bnall a2, a3, 0x4"), ("375200", "bbc a2, a3, 0x4"), ("37d200", "bbs a2, a3, 0x4"),
        ("06ffff", "j 0x0"), ("060000", "j 0x4"), ("050000", "call0 0x4"), ("c5ffff", "call0 0x0"),
        ("21ffff", "l32r a2, 0xfffffffc"), ("8c02", "beqz.n a2, 0x4"), ("cc12", "bnez.n a2, 0x5"),
        ("30210a", "add.s f2, f1, f3"), ("1021fa", "abs.s f2, f1"), ("0021fa", "mov.s f2, f1"), ("6021fa", "neg.s f2, f1"),
        ("302102", "andb b2, b1, b3"), ("302112", "andbc b2, b1, b3"),
        ("040000", None), ("0e00", None), ("0f00", None), ("607000", None),
    ]
    for hx, exp in known:
        data = bytes.fromhex(hx)
        n = length_of_op0(data[0] & 15)
        got = None if n is None else text(word_of_bytes(data), n, 0)
        if exp is None:
            assert n is None or disasm(word_of_bytes(data), n, 0)[0] is None, (hx, got)
        else:
            assert n == len(data), (hx, n)
            assert got == exp, (hx, got, exp)
        stats["known_words"] += 1
    # (C) the repo's own assembler test vectors through this decoder
    repo = repo or os.environ.get("PPCI_REPO", "/repo")
    for tname, lines, data in _parse_vectors(os.path.join(repo, "test", "arch", "test_xtensa.py")):
        dis = disasm_bytes(data, 0)
        assert all(m is not None for _, m, _ in dis), (tname, dis)
        assert sum(1 for _ in dis) == sum(1 for ln in lines if not ln.endswith(":")), (tname, dis)
        # labels: `name: insn` on one line = the address of that instruction
        labels, stmts = {}, []
        for ln in lines:
            if ":" in ln:
                lab, ln = ln.split(":", 1)
                labels[lab.strip()] = dis[len(stmts)][0] if len(stmts) < len(dis) else len(data)
                ln = ln.strip()
            if ln:
                stmts.append(ln)
        for ln, (pc, mn, ops) in zip(stmts, dis):
            want = parse_asm(ln, labels)
            assert (mn, ops) == want, (tname, ln, (mn, ops), want)
            stats["vectors"] += 1
    assert stats["vectors"] >= 60, stats
    # (D) the int and the z3 evaluation of the shared slicing expressions agree
    import random
    rnd = random.Random(20260923)
    for nb in (2, 3):
        wz, pz = z3.BitVec("w", 32), z3.BitVec("pc", 32)
        dz = decode(wz, nb)
        for n in NAMES:
            if _BY_NAME[n][1] != nb:
                continue
            cz, oz = dz.is_(n), dz.operands(n, pz)
            mask, match = _BY_NAME[n][2], _BY_NAME[n][3]
            full = (1 << (8 * nb)) - 1
            words = [rnd.getrandbits(8 * nb) for _ in range(3)] + [(match | (rnd.getrandbits(8 * nb) & ~mask)) & full for _ in range(5)]
            for wv in words:
                pcv = rnd.getrandbits(32)
                di = decode(wv, nb)
                sub = [(wz, z3.BitVecVal(wv, 32)), (pz, z3.BitVecVal(pcv, 32))]
                assert z3.is_true(z3.simplify(z3.substitute(cz, *sub))) == bool(di.is_(n)), (n, hex(wv))
                for (vz, k), (vi, k2) in zip(oz, di.operands(n, pcv)):
                    vz = z3.simplify(z3.substitute(vz, *sub)) if z3.is_expr(vz) else z3.BitVecVal(vz, 32)
                    assert vz.as_long() == vi & M32, (n, k, hex(wv), vz, vi)
                stats["int_vs_z3_words"] += 1
    return stats


if __name__ == "__main__":
    print(selftest())
