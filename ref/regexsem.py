"""Reference semantics of regular expressions (independent of ppci).

AST (JSON-able nested lists/tuples; produced by the enumerator in props/C31.py):

    ["eps"]                    the empty expression ""
    ["lit", cp]                one literal character (code point)
    ["dot"]                    '.'  : any one symbol of the alphabet
    ["cls", [[lo, hi], ...]]   '[...]': one symbol whose code point lies in one of the ranges (lo == hi: single char)
    ["grp", e]                 '(e)'  : grouping only
    ["cat", e1, e2]            e1 e2
    ["alt", e1, e2]            e1 | e2
    ["star", e] ["plus", e] ["opt", e]     e*  e+  e?

Language definition (textbook, whole-string matching):
    L(eps) = {""}; L(lit c) = {c}; L(dot) = SIGMA; L(cls R) = {c | c in R};
    L(e1 e2) = L(e1) L(e2); L(e1|e2) = L(e1) u L(e2); L(e*) = L(e)^*; L(e+) = L(e) L(e)^*; L(e?) = L(e) u {""}

The matcher is a set-of-end-positions matcher:  ends(ast, s, i) = { j | s[i:j] in L(ast) }, represented
as a dict  j -> condition.  `s` is a list of code points that may be symbolic (symx SymInt); the
condition is then a SymBool formula over the code points (no forking); on plain ints it is a bool.

render(ast) gives the expression text with the standard precedence
    alternation  <  concatenation  <  postfix (* + ?)  <  atom
(parentheses only where that precedence requires them, plus explicit "grp" nodes), in the syntax
shared by ppci's regex parser and Python's `re`; selftest() validates the matcher against
re.fullmatch(text, s, re.DOTALL) on concrete strings.
"""
import re
from symx.core import sym_and, sym_or, sym_not

META = set("\\.[]()|*+?^$-{}")


# ---------------------------------------------------------------------------
# rendering
def _esc(cp):
    c = chr(cp)
    return "\\" + c if c in META else c


_PREC = {"alt": 0, "cat": 1, "star": 2, "plus": 2, "opt": 2}
_POST = {"star": "*", "plus": "+", "opt": "?"}


def _prec(ast):
    return _PREC.get(ast[0], 3)


def _r(ast, need):
    k = ast[0]
    if k == "eps":
        txt = ""
        if need > 0:
            raise ValueError("eps only at top level")
    elif k == "lit":
        txt = _esc(ast[1])
    elif k == "dot":
        txt = "."
    elif k == "cls":
        txt = "[" + "".join(_esc(lo) if lo == hi else _esc(lo) + "-" + _esc(hi) for lo, hi in ast[1]) + "]"
    elif k == "grp":
        txt = "(" + _r(ast[1], 0) + ")"
    elif k == "cat":
        txt = _r(ast[1], 1) + _r(ast[2], 1)
    elif k == "alt":
        txt = _r(ast[1], 0) + "|" + _r(ast[2], 0)
    elif k in _POST:
        txt = _r(ast[1], 3) + _POST[k]
    else:
        raise ValueError(k)
    if _prec(ast) < need:
        txt = "(" + txt + ")"
    return txt


def render(ast):
    return _r(ast, 0)


def size(ast):
    return 1 + sum(size(x) for x in ast[1:] if isinstance(x, (list, tuple)) and x and isinstance(x[0], str))


# ---------------------------------------------------------------------------
# matching
def nullable(ast):
    k = ast[0]
    if k in ("eps", "star", "opt"):
        return True
    if k in ("lit", "dot", "cls"):
        return False
    if k in ("grp", "plus"):
        return nullable(ast[1])
    if k == "cat":
        return nullable(ast[1]) and nullable(ast[2])
    if k == "alt":
        return nullable(ast[1]) or nullable(ast[2])
    raise ValueError(k)


def _false(c):
    return c is False


def _add(d, j, c):
    if _false(c):
        return
    if j in d:
        d[j] = True if (d[j] is True or c is True) else sym_or(d[j], c)
    else:
        d[j] = c


def _conj(a, b):
    if a is True:
        return b
    if b is True:
        return a
    if _false(a) or _false(b):
        return False
    return sym_and(a, b)


class Matcher:
    """ends(ast, i) over one fixed string s (list of code points, possibly symbolic); memoised."""

    def __init__(self, s):
        self.s = list(s)
        self.n = len(self.s)
        self.memo = {}

    def ends(self, ast, i):
        key = (id(ast), i)
        r = self.memo.get(key)
        if r is None:
            r = self._ends(ast, i)
            self.memo[key] = (r, ast)      # keep ast alive: id() stays unique
            return r
        return r[0]

    def _one(self, i, cond):
        if i >= self.n:
            return {}
        c = cond(self.s[i])
        return {} if _false(c) else {i + 1: c}

    def _ends(self, ast, i):
        k = ast[0]
        if k == "eps":
            return {i: True}
        if k == "lit":
            return self._one(i, lambda ch: ch == ast[1])
        if k == "dot":
            return self._one(i, lambda ch: True)
        if k == "cls":
            return self._one(i, lambda ch: sym_or(*[(ch == lo) if lo == hi else sym_and(ch >= lo, ch <= hi)
                                                    for lo, hi in ast[1]]))
        if k == "grp":
            return self.ends(ast[1], i)
        if k == "alt":
            d = dict(self.ends(ast[1], i))
            for j, c in self.ends(ast[2], i).items():
                _add(d, j, c)
            return d
        if k == "cat":
            d = {}
            for m, c1 in self.ends(ast[1], i).items():
                for j, c2 in self.ends(ast[2], m).items():
                    _add(d, j, _conj(c1, c2))
            return d
        if k == "opt":
            d = dict(self.ends(ast[1], i))
            _add(d, i, True)
            return d
        if k == "star":
            # closure over positions in increasing order; an iteration that consumes nothing adds nothing
            reach = {i: True}
            for m in range(i, self.n + 1):
                if m not in reach:
                    continue
                for j, c in self.ends(ast[1], m).items():
                    if j > m:
                        _add(reach, j, _conj(reach[m], c))
            return reach
        if k == "plus":
            # e+ = e e*
            d = {}
            for m, c1 in self.ends(ast[1], i).items():
                for j, c2 in self._star_from(ast, m).items():
                    _add(d, j, _conj(c1, c2))
            return d
        raise ValueError(k)

    def _star_from(self, plus_ast, m):
        key = ("star", id(plus_ast))
        star = self.memo.get(key)
        if star is None:
            star = ["star", plus_ast[1]]
            self.memo[key] = star
        return self.ends(star, m)

    def matches(self, ast, i, j):
        """condition for s[i:j] in L(ast)"""
        return self.ends(ast, i).get(j, False)


def in_language(ast, s):
    """condition (bool / SymBool) that the whole string s (list of code points or str) is in L(ast)"""
    if isinstance(s, str):
        s = [ord(c) for c in s]
    return Matcher(s).matches(ast, 0, len(s))


def tokenize(asts, s):
    """reference maximal-munch tokenisation of a CONCRETE string: returns (status, [(index, start, end)])
    with status "ok" | "nomatch"; index = first expression (in order) matching the longest prefix.
    Expressions must not be nullable."""
    if isinstance(s, str):
        s = [ord(c) for c in s]
    m = Matcher(s)
    p, out = 0, []
    while p < len(s):
        best = None
        for e in range(len(s), p, -1):
            hit = [r for r, a in enumerate(asts) if m.matches(a, p, e)]
            if hit:
                best = (hit[0], p, e)
                break
        if best is None:
            return "nomatch", out
        out.append(best)
        p = best[2]
    return "ok", out


# ---------------------------------------------------------------------------
def selftest_strings(alphabet="abcx*\n", maxlen=3, long_alphabet="ab", long_len=5):
    import itertools
    strings = [""]
    for n in range(1, maxlen + 1):
        strings += ["".join(t) for t in itertools.product(alphabet, repeat=n)]
    for n in range(maxlen + 1, long_len + 1):
        strings += ["".join(t) for t in itertools.product(long_alphabet, repeat=n)]
    return strings


def selftest_one(ast, strings):
    """compare the matcher with Python's re.fullmatch(text, s, re.DOTALL) on concrete strings;
    returns None or (text, string, description) of the first mismatch"""
    txt = render(ast)
    try:
        rx = re.compile(txt, re.DOTALL)
    except re.error as e:
        return (txt, None, "re.error: %s" % e)
    for s in strings:
        want = rx.fullmatch(s) is not None
        got = bool(in_language(ast, s))
        if want != got:
            return (txt, s, "re=%s regexsem=%s" % (want, got))
    return None


def selftest(asts, **kw):
    strings = selftest_strings(**kw)
    return [b for b in (selftest_one(a, strings) for a in asts) if b]
