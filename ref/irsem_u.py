"""IrSemU: ref/irsem.IrSem with indeterminate stack memory, for checks that compare against real machine code.

Additions to the base semantics (nothing else changes):
 * the bytes of an `alloc` are INDETERMINATE until written.  A typed `load` of an indeterminate byte is outside
   the premise (like reading `Undefined`); a blob copy (`CopyBlob`, struct assignment incl. padding) may copy
   indeterminate bytes, and the destination bytes then are indeterminate too (`undefined_bytes(region)`):
   an implementation may leave anything there.
 * every `alloc` gets fresh addresses (frames are never reused), so "written" marks cannot leak between frames.
 * an address that is symbolic is concretised through the active engine when it has at most
   `engine.choose_limit` feasible values (one path per value), so that array reasoning is only left for
   genuinely unbounded pointers.
"""
import z3
from symx import core
from ref import irsem
from ref.irsem import IrSem, Region, STACK_BASE

STACK_SPAN = 0x8000


def concretise(addr):
    """addr (z3 32-bit term) -> z3 value if the engine can enumerate its feasible values, else the term itself"""
    a = z3.simplify(addr)
    if z3.is_bv_value(a) or core.ENG is None:
        return a
    try:
        v = core.ENG.choose(core.from_bv(a, signed=False))
    except core.SymbolicEscape:
        return a
    return z3.BitVecVal(v, a.size())


class IrSemU(IrSem):
    def __init__(self, *a, **kw):
        super().__init__(*a, **kw)
        self.W = z3.K(z3.BitVecSort(self.pb), z3.BoolVal(False))     # stack byte has been written
        self.P = z3.K(z3.BitVecSort(self.pb), z3.BoolVal(False))     # byte received a copy of an indeterminate byte
        self.fresh_top = STACK_BASE
        self.whole = {}      # concrete address -> (nbytes, value term) of the last store, while no later store overlaps it

    def undefined(self, a):
        a = z3.simplify(a)
        ins = z3.And(z3.UGE(a, z3.BitVecVal(STACK_BASE, self.pb)), z3.ULT(a, z3.BitVecVal(STACK_BASE + STACK_SPAN, self.pb)))
        return z3.simplify(z3.Or(z3.And(ins, z3.Not(z3.Select(self.W, a))), z3.Select(self.P, a)))

    def _mark(self, a, undef):
        self.W = z3.Store(self.W, a, z3.BoolVal(True))
        self.P = z3.Store(self.P, a, undef)

    def load(self, addr, nbytes, home=None):
        addr = concretise(addr)
        for k in range(nbytes):
            u = self.undefined(addr + k)
            if not z3.is_false(u):
                self.ub.append(u)
        r = super().load(addr, nbytes, home)
        if z3.is_bv_value(addr):
            w = self.whole.get(addr.as_long())
            if w is not None and w[0] == nbytes:
                return w[1]          # the very term that was stored (byte-wise reassembly denotes the same value)
        return r

    def store(self, addr, val, nbytes, home=None):
        addr = concretise(addr)
        super().store(addr, val, nbytes, home)
        self._forget(addr, nbytes)
        if z3.is_bv_value(addr):
            self.whole[addr.as_long()] = (nbytes, val)
        for k in range(nbytes):
            self._mark(z3.simplify(addr + k), z3.BoolVal(False))

    def _forget(self, addr, nbytes):
        if not z3.is_bv_value(addr):
            self.whole = {}
            return
        a = addr.as_long()
        for k in [k for k, (n, _) in self.whole.items() if k < a + nbytes and a < k + n]:
            del self.whole[k]

    def _alloc(self, name, amount, alignment):
        al = max(alignment, 1)
        a = (self.fresh_top + al - 1) // al * al
        self.fresh_top = a + amount
        if self.fresh_top > STACK_BASE + STACK_SPAN:
            raise irsem.StepLimit("stack area of the model exhausted")
        self.regions.append(Region(name, a, amount, "stack"))
        return a

    def step(self, ins, k, env, depth):
        if k == "Alloc":
            env[ins] = ("blob", self._alloc(ins.name, ins.amount, ins.alignment))
        elif k == "LiteralData":
            a = self._alloc(ins.name, len(ins.data), 8)
            for j, b in enumerate(ins.data):
                self.mem = z3.Store(self.mem, z3.BitVecVal(a + j, self.pb), z3.BitVecVal(b, 8))
                self._forget(z3.BitVecVal(a + j, self.pb), 1)
                self._mark(z3.BitVecVal(a + j, self.pb), z3.BoolVal(False))
            env[ins] = ("blob", a)
        elif k == "CopyBlob":
            d = concretise(self.value(ins.dst, env))
            s = concretise(self.value(ins.src, env))
            us = [self.undefined(s + j) for j in range(ins.amount)]
            try:
                self._cur_home = self.home_of(ins.src, env)          # provenance of the base semantics
                data = IrSem.load(self, s, ins.amount)
                self._cur_home = self.home_of(ins.dst, env)
                IrSem.store(self, d, data, ins.amount)
            finally:
                self._cur_home = None
            self._forget(d, ins.amount)
            for j in range(ins.amount):
                self._mark(z3.simplify(d + j), us[j])
        else:
            super().step(ins, k, env, depth)

    def undefined_bytes(self, name):
        """per byte of a global / buffer region: z3 Bool 'the reference leaves this byte indeterminate'"""
        for r in self.regions:
            if r.name == name and r.kind in ("global", "buffer"):
                return [self.undefined(z3.BitVecVal(r.base + k, self.pb)) for k in range(r.size)]
        raise KeyError(name)
