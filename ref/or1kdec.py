"""OpenRISC 1000 ORBIS32 reference decoder (independent of ppci).

Written from the "OpenRISC 1000 Architecture Manual" (architecture version 1.x), chapter 5 "Instruction Set", ORBIS32
class I / II instruction pages: per instruction the 32-bit layout (opcode in bits 31..26, secondary opcode fields,
reserved fields), the "Format:" line (= operand order of the assembler syntax) and the description (how the immediate
is extended: exts / extz; jump target = address of the jump instruction + exts(N << 2)).

Instruction word layout (bit 31 = most significant; instructions are stored big-endian):
    register forms      opcode[31:26] D[25:21] A[20:16] B[15:11] ...secondary opcode / reserved [10:0]
    immediate forms     opcode[31:26] D[25:21] A[20:16] I/K[15:0]
    store forms         opcode[31:26] I[15:11] in [25:21]  A[20:16] B[15:11] I[10:0]      (also l.mtspr: K split alike)
    jump forms          opcode[31:26] N[25:0]

Reserved fields: the manual draws them as "reserved"; software writes them as zero, and this decoder only names a word
when every reserved field of the instruction is zero (a word with a non-zero reserved field is "reserved here":
Decoded.mnemonic is None).

Modelled with operands: the ORBIS32 integer instructions l.j l.jal l.bnf l.bf l.nop l.movhi l.macrc l.sys l.trap
l.msync l.psync l.csync l.rfe l.jr l.jalr l.lwa, loads l.ld l.lwz l.lws l.lbz l.lbs l.lhz l.lhs, l.addi l.addic l.andi
l.ori l.xori l.muli l.mfspr l.mtspr, shifts/rotate by immediate, l.sfXXi, l.mac l.msb l.macu l.msbu, stores l.swa l.sd
l.sw l.sb l.sh, the opcode 0x38 ALU group (add addc sub and or xor mul muld div divu mulu muldu sll srl sra ror exths
extbs exthz extbz extws extwz cmov ff1 fl1) and l.sfXX.
Named WITHOUT operand forms (layout not relied upon here, can never be a claimed instruction): l.adrp, l.maci, the
ORFPX floating point opcode 0x32 ("lf.*"), the ORVDX vector opcode 0x0a ("lv.*") and l.cust1..8.

decode(w) works on a plain int and on a z3 32-bit vector.  Both use the SAME shift/mask expressions (logical shift
right is `>>` on the non-negative int and z3.LShR on the vector); every field is a 32-bit value, sign-extended
immediates are two's complement (compare modulo 2**32).

Entry = (name, mask, match, {field: extractor}, [operand form], shape)
    operand form = tuple of field names in the order of the manual's "Format:" line
    shape        = "plain" op a, b, c  |  "load" op rD, I(rA)  |  "store" op I(rA), rB
"""
import z3

M32 = 0xFFFFFFFF


def _is_int(w):
    return type(w) is int


def _shr(w, n):
    if n == 0:
        return w
    return (w >> n) if _is_int(w) else z3.LShR(w, n)


def bits(w, hi, lo):
    return _shr(w, lo) & ((1 << (hi - lo + 1)) - 1)


def sext16(v):
    """exts(v[15:0]) as a 32-bit two's complement value"""
    v = v & 0xFFFF
    return v | (0xFFFF0000 * (_shr(v, 15) & 1))


def _d(w):
    return bits(w, 25, 21)


def _a(w):
    return bits(w, 20, 16)


def _b(w):
    return bits(w, 15, 11)


def _simm(w):
    return sext16(w)


def _uimm(w):
    return w & 0xFFFF


def _split(w):
    """16-bit immediate of the store layout: I[15:11] in bits 25..21, I[10:0] in bits 10..0"""
    return (bits(w, 25, 21) << 11) | (w & 0x7FF)


def _ssplit(w):
    return sext16(_split(w))


def _l6(w):
    return w & 0x3F


def _n26(w):
    """exts(N << 2): the signed byte distance of a jump, as a 32-bit two's complement value"""
    v = (w & 0x3FFFFFF) << 2
    return (v | (0xF0000000 * (_shr(w, 25) & 1))) & M32 if _is_int(w) else (v | (0xF0000000 * (_shr(w, 25) & 1)))


OP = 0xFC000000
D, A, B = 0x03E00000, 0x001F0000, 0x0000F800
LOW11 = 0x7FF

TABLE = []
SHAPE = {}


def _e(name, mask, match, fields, forms, shape="plain"):
    assert match & ~mask == 0, name
    TABLE.append((name, mask & M32, match, fields, [tuple(f) for f in forms], shape))
    SHAPE[name] = shape


def _op(n):
    return n << 26


# --- jumps / branches: opcode, N (26 bits).  target = address of this instruction + exts(N << 2) ---------------------
_e("l.j", OP, _op(0x00), dict(n=_n26), [("n",)])
_e("l.jal", OP, _op(0x01), dict(n=_n26), [("n",)])
_e("l.adrp", OP, _op(0x02), {}, [])                                 # named only
_e("l.bnf", OP, _op(0x03), dict(n=_n26), [("n",)])
_e("l.bf", OP, _op(0x04), dict(n=_n26), [("n",)])
# l.nop K: bits 31..24 = 0x15, bits 23..16 reserved, K[15:0]
_e("l.nop", 0xFFFF0000, 0x15000000, dict(k=_uimm), [("k",)])
# l.movhi rD,K: opcode 0x06, D, bits 20..17 reserved, bit 16 = 0, K.   l.macrc rD: same opcode, bits 16..0 = 0x10000
_e("l.movhi", OP | A, _op(0x06), dict(d=_d, k=_uimm), [("d", "k")])
_e("l.macrc", OP | A | 0xFFFF, _op(0x06) | 0x10000, dict(d=_d), [("d",)])
# opcode 0x08: l.sys K (0x2000 ....), l.trap K (0x2100 ....), l.msync, l.psync, l.csync (all other bits fixed)
_e("l.sys", 0xFFFF0000, 0x20000000, dict(k=_uimm), [("k",)])
_e("l.trap", 0xFFFF0000, 0x21000000, dict(k=_uimm), [("k",)])
_e("l.msync", M32, 0x22000000, {}, [()])
_e("l.psync", M32, 0x22800000, {}, [()])
_e("l.csync", M32, 0x23000000, {}, [()])
_e("l.rfe", M32, _op(0x09), {}, [()])
_e("lv.*", OP, _op(0x0A), {}, [])                                   # ORVDX64, named only
# l.jr rB / l.jalr rB: opcode, bits 25..16 reserved, B, bits 10..0 reserved
_e("l.jr", OP | D | A | LOW11, _op(0x11), dict(b=_b), [("b",)])
_e("l.jalr", OP | D | A | LOW11, _op(0x12), dict(b=_b), [("b",)])
_e("l.maci", OP, _op(0x13), {}, [])                                 # named only
# loads: OP rD, I(rA);  EA = exts(I) + rA
_LD = dict(d=_d, a=_a, i=_simm)
for _n, _o in (("l.lwa", 0x1B), ("l.ld", 0x20), ("l.lwz", 0x21), ("l.lws", 0x22), ("l.lbz", 0x23), ("l.lbs", 0x24),
               ("l.lhz", 0x25), ("l.lhs", 0x26)):
    _e(_n, OP, _op(_o), _LD, [("d", "i", "a")], "load")
for _k in range(4):
    _e(f"l.cust{_k + 1}", OP, _op(0x1C + _k), {}, [])               # named only
    _e(f"l.cust{_k + 5}", OP, _op(0x3C + _k), {}, [])
# OP rD, rA, I (exts): l.addi l.addic l.xori l.muli;  OP rD, rA, K (extz): l.andi l.ori
for _n, _o in (("l.addi", 0x27), ("l.addic", 0x28), ("l.xori", 0x2B), ("l.muli", 0x2C)):
    _e(_n, OP, _op(_o), dict(d=_d, a=_a, i=_simm), [("d", "a", "i")])
for _n, _o in (("l.andi", 0x29), ("l.ori", 0x2A)):
    _e(_n, OP, _op(_o), dict(d=_d, a=_a, k=_uimm), [("d", "a", "k")])
_e("l.mfspr", OP, _op(0x2D), dict(d=_d, a=_a, k=_uimm), [("d", "a", "k")])
_e("l.mtspr", OP, _op(0x30), dict(a=_a, b=_b, k=_split), [("a", "b", "k")])
# shift / rotate by immediate: opcode 0x2E, D, A, bits 15..8 reserved, op[7:6], L[5:0]
for _n, _o in (("l.slli", 0), ("l.srli", 1), ("l.srai", 2), ("l.rori", 3)):
    _e(_n, OP | 0xFF00 | 0xC0, _op(0x2E) | (_o << 6), dict(d=_d, a=_a, l=_l6), [("d", "a", "l")])
# set flag, immediate: opcode 0x2F, op[25:21], A, I (exts)
_SF = (("eq", 0x0), ("ne", 0x1), ("gtu", 0x2), ("geu", 0x3), ("ltu", 0x4), ("leu", 0x5), ("gts", 0xA), ("ges", 0xB),
       ("lts", 0xC), ("les", 0xD))
for _n, _o in _SF:
    _e(f"l.sf{_n}i", OP | D, _op(0x2F) | (_o << 21), dict(a=_a, i=_simm), [("a", "i")])
# MAC group: opcode 0x31, bits 25..21 reserved, A, B, bits 10..4 reserved, op[3:0]
for _n, _o in (("l.mac", 1), ("l.msb", 2), ("l.macu", 3), ("l.msbu", 4)):
    _e(_n, OP | D | LOW11, _op(0x31) | _o, dict(a=_a, b=_b), [("a", "b")])
_e("lf.*", OP, _op(0x32), {}, [])                                   # ORFPX32/64, named only
# stores: OP I(rA), rB;  EA = exts(I) + rA;  I split over bits 25..21 and 10..0
for _n, _o in (("l.swa", 0x33), ("l.sd", 0x34), ("l.sw", 0x35), ("l.sb", 0x36), ("l.sh", 0x37)):
    _e(_n, OP, _op(_o), dict(a=_a, b=_b, i=_ssplit), [("i", "a", "b")], "store")
# ALU group: opcode 0x38, D, A, B, bit 10 reserved, op[9:8], bits 7..4 reserved, op[3:0]
_F3 = dict(d=_d, a=_a, b=_b)
for _n, _hi, _lo in (("l.add", 0, 0x0), ("l.addc", 0, 0x1), ("l.sub", 0, 0x2), ("l.and", 0, 0x3), ("l.or", 0, 0x4),
                     ("l.xor", 0, 0x5), ("l.mul", 3, 0x6), ("l.div", 3, 0x9), ("l.divu", 3, 0xA), ("l.mulu", 3, 0xB),
                     ("l.cmov", 0, 0xE)):
    _e(_n, OP | LOW11, _op(0x38) | (_hi << 8) | _lo, _F3, [("d", "a", "b")])
# l.muld / l.muldu rA,rB: D reserved
for _n, _lo in (("l.muld", 0x7), ("l.muldu", 0xC)):
    _e(_n, OP | D | LOW11, _op(0x38) | (3 << 8) | _lo, dict(a=_a, b=_b), [("a", "b")])
# shifts by register: bit 10 reserved, op[9:6], bits 5..4 reserved, bits 3..0 = 0x8
for _n, _o in (("l.sll", 0), ("l.srl", 1), ("l.sra", 2), ("l.ror", 3)):
    _e(_n, OP | LOW11, _op(0x38) | (_o << 6) | 0x8, _F3, [("d", "a", "b")])
# extensions rD,rA: bits 15..10 reserved, op[9:6], bits 5..4 reserved, bits 3..0 = 0xC (byte/half) / 0xD (word)
for _n, _o in (("l.exths", 0), ("l.extbs", 1), ("l.exthz", 2), ("l.extbz", 3)):
    _e(_n, OP | B | LOW11, _op(0x38) | (_o << 6) | 0xC, dict(d=_d, a=_a), [("d", "a")])
for _n, _o in (("l.extws", 0), ("l.extwz", 1)):
    _e(_n, OP | B | LOW11, _op(0x38) | (_o << 6) | 0xD, dict(d=_d, a=_a), [("d", "a")])
# find first / last 1: rD,rA; bits 15..10 reserved, op[9:8] = 0 / 1, bits 3..0 = 0xF
_e("l.ff1", OP | B | LOW11, _op(0x38) | 0x00F, dict(d=_d, a=_a), [("d", "a")])
_e("l.fl1", OP | B | LOW11, _op(0x38) | 0x10F, dict(d=_d, a=_a), [("d", "a")])
# set flag: opcode 0x39, op[25:21], A, B, bits 10..0 reserved
for _n, _o in _SF:
    _e(f"l.sf{_n}", OP | D | LOW11, _op(0x39) | (_o << 21), dict(a=_a, b=_b), [("a", "b")])

NAMES = [t[0] for t in TABLE]
_BY_NAME = {t[0]: t for t in TABLE}
assert len(_BY_NAME) == len(TABLE)
REGISTER_FIELDS = ("d", "a", "b")

# documented range (lo, hi) of an integer operand of the assembler syntax, by the way the field is read
_RANGE = {_simm: (-32768, 32767), _ssplit: (-32768, 32767), _uimm: (0, 65535), _split: (0, 65535), _l6: (0, 63)}
# raw width of the field behind an integer operand (what a hi()/lo() half is compared with)
_RAW16 = (_simm, _ssplit, _uimm, _split)


def operand_range(name, field):
    """range of the values the manual documents for that operand (None: register / jump distance)"""
    if field in REGISTER_FIELDS or field == "n":
        return None
    return _RANGE[_BY_NAME[name][3][field]]


def is_16bit_immediate(name, field):
    return field not in REGISTER_FIELDS and _BY_NAME[name][3][field] in _RAW16


class Decoded:
    """view of one instruction word: is_(name) = the word is that instruction, fields(name) = its operand fields"""

    def __init__(self, w):
        self.w = w
        self.concrete = _is_int(w)

    def is_(self, name):
        _, mask, match, _, _, _ = _BY_NAME[name]
        return (self.w & mask) == match

    def fields(self, name):
        return {k: f(self.w) for k, f in _BY_NAME[name][3].items()}

    def operands(self, name, nops):
        """operand values in the manual's assembler order, or None if the instruction has no form with nops operands"""
        f = self.fields(name)
        for order in _BY_NAME[name][4]:
            if len(order) == nops:
                return [f[k] for k in order]
        return None

    @property
    def entries(self):
        return [(self.is_(n), n) for n in NAMES]

    @property
    def mnemonic(self):
        assert self.concrete
        hits = [n for n in NAMES if self.is_(n)]
        assert len(hits) <= 1, hits
        return hits[0] if hits else None


def decode(w):
    if _is_int(w):
        assert 0 <= w <= M32
    return Decoded(w)


def order_of(name, nops):
    for order in _BY_NAME[name][4]:
        if len(order) == nops:
            return order
    return None


def word_of_bytes(bs):
    """big-endian: the OpenRISC 1000 stores the most significant byte of an instruction at the lowest address"""
    w = 0
    for b in bs:
        w = (w << 8) | b
    return w


def signed32(v):
    v &= M32
    return v - (1 << 32) if v >> 31 else v


def jump_target(dist, pc):
    """l.j / l.jal / l.bf / l.bnf: exts(N << 2) is added to the address of the jump instruction itself"""
    if _is_int(dist) and _is_int(pc):
        return (pc + dist) & M32
    return pc + dist


def hi16(s):
    """hi(symbol) of the OpenRISC assembler: bits 31..16 of the address (for l.movhi)"""
    return _shr(s, 16) & 0xFFFF


def lo16(s):
    """lo(symbol): bits 15..0 of the address"""
    return s & 0xFFFF


def disasm(w, pc=0):
    """(mnemonic, [operands]) of a concrete word in the manual's assembler order; registers as ("r", n), integers as
    ("i", signed value), jump targets as ("a", address).  (None, []) for a reserved word, (name, None) for the
    named-only groups"""
    d = decode(w)
    n = d.mnemonic
    if n is None:
        return None, []
    forms = _BY_NAME[n][4]
    if not forms:
        return n, None
    f = d.fields(n)
    ops = []
    for k in forms[0]:
        if k in REGISTER_FIELDS:
            ops.append(("r", f[k]))
        elif k == "n":
            ops.append(("a", jump_target(f[k], pc)))
        else:
            ops.append(("i", signed32(f[k])))
    return n, ops


def text(w, pc=0):
    n, ops = disasm(w, pc)
    if n is None:
        return f".word 0x{w:08x}"
    if ops is None:
        return f"{n} (0x{w:08x})"
    s = [f"r{v}" if t == "r" else (hex(v) if t == "a" else str(v)) for t, v in ops]
    if SHAPE[n] == "load":
        return f"{n} {s[0]}, {s[1]}({s[2]})"
    if SHAPE[n] == "store":
        return f"{n} {s[0]}({s[1]}), {s[2]}"
    return (n + " " + ", ".join(s)).strip()


# ---------------------------------------------------------------------------------------------------------
# self test
def _parse_vectors(path):
    """[(test name, [assembler lines], bytes)] from a ppci assembler test file (self.feed / self.check calls)"""
    import ast
    out = []
    tree = ast.parse(open(path).read())
    for cls in [n for n in tree.body if isinstance(n, ast.ClassDef)]:
        for fn in [n for n in cls.body if isinstance(n, ast.FunctionDef) and n.name.startswith("test_")]:
            feeds, data = [], None
            for call in [n for n in ast.walk(fn) if isinstance(n, ast.Call) and isinstance(n.func, ast.Attribute)]:
                if not call.args or not isinstance(call.args[0], ast.Constant) or not isinstance(call.args[0].value, str):
                    continue
                if call.func.attr == "feed":
                    feeds.append((call.lineno, call.args[0].value))
                elif call.func.attr == "check":
                    data = bytes.fromhex(call.args[0].value.replace(" ", ""))
            if data is not None:
                lines = [ln.strip() for _, t in sorted(feeds) for ln in t.split("\n") if ln.strip()]
                out.append((fn.name, lines, data))
    return out


def parse_asm(line, labels=None):
    """'l.lwz r1, -8(r30)' -> ('l.lwz', [('r', 1), ('i', -8), ('r', 30)]); labels -> ('a', address);
    hi(label) / lo(label) -> ('i', half of the address)"""
    import re
    labels = labels or {}
    parts = line.strip().split(None, 1)
    mn = parts[0].lower()
    ops = []
    if len(parts) > 1:
        rest = parts[1]
        for m in re.finditer(r"(hi|lo)\((\w+)\)", rest):
            half = hi16(labels[m.group(2)]) if m.group(1) == "hi" else lo16(labels[m.group(2)])
            rest = rest.replace(m.group(0), str(half))
        for tok in [t for t in re.split(r"[,()\s]+", rest) if t]:
            if re.fullmatch(r"r\d+", tok.lower()):
                ops.append(("r", int(tok[1:])))
            elif tok in labels:
                ops.append(("a", labels[tok]))
            else:
                ops.append(("i", int(tok, 0)))
    return mn, ops


def selftest(repo=None):
    """returns a dict of counters; raises AssertionError on any disagreement"""
    import os
    import re
    stats = dict(table_entries=len(TABLE), table_pairs=0, known_words=0, vectors=0, int_vs_z3_words=0)
    # (A) the table is a function of the word: no two entries can match the same word
    for i in range(len(TABLE)):
        n1, m1, v1 = TABLE[i][:3]
        for j in range(i + 1, len(TABLE)):
            n2, m2, v2 = TABLE[j][:3]
            stats["table_pairs"] += 1
            assert (v1 ^ v2) & m1 & m2, f"overlapping entries {n1} {n2}"
    for n, m, v, f, forms, shape in TABLE:
        counts = [len(o) for o in forms]
        assert len(set(counts)) == len(counts), n
        for o in forms:
            assert all(k in f for k in o), n
    # (B) encodings well known from GNU toolchain output for or1k (gcc -S | as | objdump -d: function prologues and
    # epilogues, constant loads, the simulator's l.nop codes, newlib/linux syscall stubs) and the instruction pages
    known = {
        0x15000000: "l.nop 0",
        0x15000001: "l.nop 1",                  # NOP_EXIT of or1ksim
        0x15000004: "l.nop 4",                  # NOP_PUTC
        0x9C21FFFC: "l.addi r1, r1, -4",
        0x9C21FFF8: "l.addi r1, r1, -8",
        0x9C410008: "l.addi r2, r1, 8",
        0xD4014800: "l.sw 0(r1), r9",
        0xD4011004: "l.sw 4(r1), r2",
        0xD7E14FFC: "l.sw -4(r1), r9",
        0xD7E117F8: "l.sw -8(r1), r2",
        0x85210000: "l.lwz r9, 0(r1)",
        0x8521FFFC: "l.lwz r9, -4(r1)",
        0x8441FFF8: "l.lwz r2, -8(r1)",
        0x44004800: "l.jr r9",
        0x48005800: "l.jalr r11",
        0x18600000: "l.movhi r3, 0",
        0x1860CAFE: "l.movhi r3, 51966",
        0x18610000: "l.macrc r3",
        0xA8630000: "l.ori r3, r3, 0",
        0xA8A0FFFF: "l.ori r5, r0, 65535",
        0xE0841800: "l.add r4, r4, r3",
        0xE1640004: "l.or r11, r4, r0",         # l.or r11,r4,r0: the usual register move
        0xE0631802: "l.sub r3, r3, r3",
        0xE0632003: "l.and r3, r3, r4",
        0xE0632005: "l.xor r3, r3, r4",
        0xE0632001: "l.addc r3, r3, r4",
        0xE1632306: "l.mul r11, r3, r4",
        0xE1632309: "l.div r11, r3, r4",
        0xE163230A: "l.divu r11, r3, r4",
        0xE163230B: "l.mulu r11, r3, r4",
        0xE0632008: "l.sll r3, r3, r4",
        0xE0632048: "l.srl r3, r3, r4",
        0xE0632088: "l.sra r3, r3, r4",
        0xE06320C8: "l.ror r3, r3, r4",
        0xE064000C: "l.exths r3, r4",
        0xE064004C: "l.extbs r3, r4",
        0xE064008C: "l.exthz r3, r4",
        0xE06400CC: "l.extbz r3, r4",
        0xE064200E: "l.cmov r3, r4, r4",
        0xE064000F: "l.ff1 r3, r4",
        0xE064010F: "l.fl1 r3, r4",
        0xB8630002: "l.slli r3, r3, 2",
        0xB8630042: "l.srli r3, r3, 2",
        0xB863009F: "l.srai r3, r3, 31",
        0xB86300C8: "l.rori r3, r3, 8",
        0xE4032000: "l.sfeq r3, r4",
        0xE4232000: "l.sfne r3, r4",
        0xE4432000: "l.sfgtu r3, r4",
        0xE4632000: "l.sfgeu r3, r4",
        0xE4832000: "l.sfltu r3, r4",
        0xE4A32000: "l.sfleu r3, r4",
        0xE5432000: "l.sfgts r3, r4",
        0xE5632000: "l.sfges r3, r4",
        0xE5832000: "l.sflts r3, r4",
        0xE5A32000: "l.sfles r3, r4",
        0xBC030000: "l.sfeqi r3, 0",
        0xBC230000: "l.sfnei r3, 0",
        0xBD43FFFF: "l.sfgtsi r3, -1",
        0xBDA30009: "l.sflesi r3, 9",
        0x00000000: "l.j 0x0",
        0x03FFFFFF: "l.j 0xfffffffc",
        0x04000002: "l.jal 0x8",
        0x10000003: "l.bf 0xc",
        0x0FFFFFFE: "l.bnf 0xfffffff8",
        0x20000001: "l.sys 1",                  # linux system call
        0x21000001: "l.trap 1",                 # gdb breakpoint
        0x22000000: "l.msync",
        0x22800000: "l.psync",
        0x23000000: "l.csync",
        0x24000000: "l.rfe",
        0xB4600011: "l.mfspr r3, r0, 17",       # read SR
        0xC0001811: "l.mtspr r0, r3, 17",       # write SR
        0xC0201801: "l.mtspr r0, r3, 2049",     # MACLO: K[15:11] = 1
        0x8C640000: "l.lbz r3, 0(r4)",
        0x90640000: "l.lbs r3, 0(r4)",
        0x94640000: "l.lhz r3, 0(r4)",
        0x98640000: "l.lhs r3, 0(r4)",
        0x88640000: "l.lws r3, 0(r4)",
        0x6C640000: "l.lwa r3, 0(r4)",
        0xCC041800: "l.swa 0(r4), r3",
        0xD8041800: "l.sb 0(r4), r3",
        0xDC041802: "l.sh 2(r4), r3",
        0xA4630FFF: "l.andi r3, r3, 4095",
        0xAC63FFFF: "l.xori r3, r3, -1",        # the bitwise NOT idiom: I is sign-extended
        0xA063FFFF: "l.addic r3, r3, -1",
        0xB063000A: "l.muli r3, r3, 10",
        0xC4032001: "l.mac r3, r4",
        0xC4032002: "l.msb r3, r4",
        # reserved words / named-only groups
        0x15010000: ".word 0x15010000",         # l.nop with a reserved bit set
        0x14000000: ".word 0x14000000",         # opcode 0x05 without the 01 in bits 25..24
        0xE0841810: ".word 0xe0841810",         # l.add with reserved bit 4
        0xE0841C00: ".word 0xe0841c00",         # l.add with reserved bit 10
        0xE064080C: ".word 0xe064080c",         # l.exths with a B field
        0x44204800: ".word 0x44204800",         # l.jr with a D field
        0xE4032001: ".word 0xe4032001",         # l.sfeq with reserved low bits
        0xE4C32000: ".word 0xe4c32000",         # opcode 0x39, flag op 6
        0xB8630102: ".word 0xb8630102",         # l.slli with reserved bit 8
        0x18630000: ".word 0x18630000",         # opcode 0x06 with reserved bits 20..17
        0xFFFFFFFF: "l.cust8 (0xffffffff)",
        0xC8000000: "lf.* (0xc8000000)",
    }
    for wv, exp in known.items():
        assert text(wv, 0) == exp, (hex(wv), text(wv, 0), exp)
        stats["known_words"] += 1
    # (C) the repo's own assembler test vectors through this decoder
    repo = repo or os.environ.get("PPCI_REPO", "/repo")
    for tname, lines, data in _parse_vectors(os.path.join(repo, "test", "arch", "test_or1k.py")):
        labels, stmts, pos = {}, [], 0
        for t in lines:
            m = re.match(r"^(\w+):\s*(.*)$", t)
            if m:
                labels[m.group(1)] = pos
                t = m.group(2).strip()
                if not t:
                    continue
            if t.split()[0] == "db":
                pos += 1
                continue
            stmts.append((t, pos))
            pos += 4
        assert pos == len(data), (tname, pos, len(data))
        for t, pos in stmts:
            got = disasm(word_of_bytes(data[pos:pos + 4]), pos)
            assert got == parse_asm(t, labels), (tname, t, got, parse_asm(t, labels))
            stats["vectors"] += 1
    assert stats["vectors"] >= 60
    # (D) the int and the z3 variant of the (shared) slicing expressions agree: for every entry, match condition and
    # fields of the z3 decode, evaluated at pseudo-random words, equal the int decode
    import random
    rnd = random.Random(20260923)
    wz = z3.BitVec("w", 32)
    dz = decode(wz)
    words = list(known)[:12]
    for n in NAMES:
        cz, fz = dz.is_(n), dz.fields(n)
        for wv in words + [(_BY_NAME[n][2] | (rnd.getrandbits(32) & ~_BY_NAME[n][1])) & M32 for _ in range(6)]:
            di = decode(wv)
            sub = [(wz, z3.BitVecVal(wv, 32))]
            assert z3.is_true(z3.simplify(z3.substitute(cz, *sub))) == bool(di.is_(n)), (n, hex(wv))
            if di.is_(n):
                fi = di.fields(n)
                for k in fi:
                    assert z3.simplify(z3.substitute(fz[k], *sub)).as_long() == fi[k], (n, k, hex(wv))
            stats["int_vs_z3_words"] += 1
    return stats


if __name__ == "__main__":
    print(selftest())
