"""Reference reader for ELF object files, written from the specification.  No ppci imports.

Sources: System V Application Binary Interface (gABI), chapter 4 "Object Files" (ELF header, sections,
string table, symbol table, relocation) and chapter 5 "Program Loading" (program header); the 64-bit
layouts from "ELF-64 Object File Format" v1.5; machine numbers from the gABI e_machine registry; x86-64
relocation numbers from the System V ABI AMD64 supplement, table 4.10.

Data representation (gABI fig. 4-2 / ELF-64 table 1):  Half = 2 bytes, Word/Sword = 4, Xword/Sxword = 8,
Addr/Off = 4 (ELFCLASS32) or 8 (ELFCLASS64); byte order of EVERY multi-byte field is given by
e_ident[EI_DATA]: ELFDATA2LSB (1) least significant byte first, ELFDATA2MSB (2) most significant first.

  Elf32_Ehdr  e_ident[16] e_type:H e_machine:H e_version:W e_entry:A e_phoff:O e_shoff:O e_flags:W e_ehsize:H
              e_phentsize:H e_phnum:H e_shentsize:H e_shnum:H e_shstrndx:H                  (52 / 64 bytes)
  Elf32_Shdr  sh_name:W sh_type:W sh_flags:W sh_addr:A sh_offset:O sh_size:W sh_link:W sh_info:W
              sh_addralign:W sh_entsize:W                                                   (40 bytes)
  Elf64_Shdr  same order; sh_flags, sh_size, sh_addralign, sh_entsize are Xword         (64 bytes)
  Elf32_Sym   st_name:W st_value:A st_size:W st_info:B st_other:B st_shndx:H               (16 bytes)
  Elf64_Sym   st_name:W st_info:B st_other:B st_shndx:H st_value:A st_size:X               (24 bytes)
              st_info = (bind << 4) + (type & 0xf)
  Elf32_Rel   r_offset:A r_info:W          r_info = (sym << 8) + (type & 0xff)             ( 8 bytes)
  Elf32_Rela  ... r_addend:Sword                                                            (12 bytes)
  Elf64_Rel   r_offset:A r_info:X          r_info = (sym << 32) + (type & 0xffffffff)      (16 bytes)
  Elf64_Rela  ... r_addend:Sxword                                                           (24 bytes)
  Elf32_Phdr  p_type:W p_offset:O p_vaddr:A p_paddr:A p_filesz:W p_memsz:W p_flags:W p_align:W      (32 bytes)
  Elf64_Phdr  p_type:W p_flags:W p_offset:O p_vaddr:A p_paddr:A p_filesz:X p_memsz:X p_align:X      (56 bytes)

The reader works on plain values (bytes) and on symx proxies (a list of byte values some of which are
symbolic).  Fields that decide the STRUCTURE of the file (offsets, counts, sizes, table indices, types) must
be concrete; `_c` concretises them (on a proxy the engine forks over the feasible values).  Every other
field is assembled from its bytes with shifts and ors and stays symbolic.  Well-formedness rules are
collected as (label, condition) pairs in `Elf.wf`, never branched on.
"""
from symx.core import sym_and, sym_or, sym_not, ite, implies

# e_ident
EI_CLASS, EI_DATA, EI_VERSION, EI_OSABI, EI_ABIVERSION, EI_PAD = 4, 5, 6, 7, 8, 9
ELFCLASS32, ELFCLASS64 = 1, 2
ELFDATA2LSB, ELFDATA2MSB = 1, 2
EV_CURRENT = 1
ET_NONE, ET_REL, ET_EXEC, ET_DYN, ET_CORE = 0, 1, 2, 3, 4
# e_machine registry (gABI)
EM = {"x86_64": 62, "arm": 40, "riscv": 243, "xtensa": 94, "microblaze": 189, "i386": 3, "none": 0}
# sections
SHN_UNDEF, SHN_LORESERVE, SHN_ABS, SHN_COMMON, SHN_XINDEX = 0, 0xFF00, 0xFFF1, 0xFFF2, 0xFFFF
SHT_NULL, SHT_PROGBITS, SHT_SYMTAB, SHT_STRTAB, SHT_RELA, SHT_HASH, SHT_DYNAMIC, SHT_NOTE, SHT_NOBITS, SHT_REL, \
    SHT_SHLIB, SHT_DYNSYM = range(12)
SHF_WRITE, SHF_ALLOC, SHF_EXECINSTR, SHF_INFO_LINK = 1, 2, 4, 0x40
# symbols
STB_LOCAL, STB_GLOBAL, STB_WEAK = 0, 1, 2
STT_NOTYPE, STT_OBJECT, STT_FUNC, STT_SECTION, STT_FILE = 0, 1, 2, 3, 4
# segments
PT_NULL, PT_LOAD, PT_DYNAMIC, PT_INTERP, PT_NOTE, PT_SHLIB, PT_PHDR = range(7)
PF_X, PF_W, PF_R = 1, 2, 4

# System V ABI, AMD64 supplement, table 4.10 (name -> number, field, calculation)
R_X86_64 = {"NONE": 0, "64": 1, "PC32": 2, "GOT32": 3, "PLT32": 4, "COPY": 5, "GLOB_DAT": 6, "JUMP_SLOT": 7,
            "RELATIVE": 8, "GOTPCREL": 9, "32": 10, "32S": 11, "16": 12, "PC16": 13, "8": 14, "PC8": 15, "PC64": 24}
# acceptable type numbers for the relocation kinds ppci's x86_64 back end declares (by what the kind computes):
#   rel32   word32 := S + A - P   -> R_X86_64_PC32; for a call to an undefined function R_X86_64_PLT32
#                                    (L + A - P) is what assemblers emit and equally right
#   abs64 / absaddr64  word64 := S + A   -> R_X86_64_64
#   abs32   word32 := S + A       -> R_X86_64_32 (zero-extending) or R_X86_64_32S (sign-extending)
X86_64_KINDS = {"rel32": (2, 4), "abs64": (1,), "absaddr64": (1,), "abs32": (10, 11)}

EHDR = {1: [("e_type", 2), ("e_machine", 2), ("e_version", 4), ("e_entry", 4), ("e_phoff", 4), ("e_shoff", 4),
            ("e_flags", 4), ("e_ehsize", 2), ("e_phentsize", 2), ("e_phnum", 2), ("e_shentsize", 2),
            ("e_shnum", 2), ("e_shstrndx", 2)],
        2: [("e_type", 2), ("e_machine", 2), ("e_version", 4), ("e_entry", 8), ("e_phoff", 8), ("e_shoff", 8),
            ("e_flags", 4), ("e_ehsize", 2), ("e_phentsize", 2), ("e_phnum", 2), ("e_shentsize", 2),
            ("e_shnum", 2), ("e_shstrndx", 2)]}
SHDR = {1: [("sh_name", 4), ("sh_type", 4), ("sh_flags", 4), ("sh_addr", 4), ("sh_offset", 4), ("sh_size", 4),
            ("sh_link", 4), ("sh_info", 4), ("sh_addralign", 4), ("sh_entsize", 4)],
        2: [("sh_name", 4), ("sh_type", 4), ("sh_flags", 8), ("sh_addr", 8), ("sh_offset", 8), ("sh_size", 8),
            ("sh_link", 4), ("sh_info", 4), ("sh_addralign", 8), ("sh_entsize", 8)]}
SYM = {1: [("st_name", 4), ("st_value", 4), ("st_size", 4), ("st_info", 1), ("st_other", 1), ("st_shndx", 2)],
       2: [("st_name", 4), ("st_info", 1), ("st_other", 1), ("st_shndx", 2), ("st_value", 8), ("st_size", 8)]}
REL = {1: [("r_offset", 4), ("r_info", 4)], 2: [("r_offset", 8), ("r_info", 8)]}
RELA = {1: [("r_offset", 4), ("r_info", 4), ("r_addend", -4)], 2: [("r_offset", 8), ("r_info", 8), ("r_addend", -8)]}
PHDR = {1: [("p_type", 4), ("p_offset", 4), ("p_vaddr", 4), ("p_paddr", 4), ("p_filesz", 4), ("p_memsz", 4),
            ("p_flags", 4), ("p_align", 4)],
        2: [("p_type", 4), ("p_flags", 4), ("p_offset", 8), ("p_vaddr", 8), ("p_paddr", 8), ("p_filesz", 8),
            ("p_memsz", 8), ("p_align", 8)]}


def size_of(layout):
    return sum(abs(n) for _, n in layout)


class Malformed(Exception):
    """the file cannot be navigated at all (a table lies outside the file ...)"""

    def __init__(self, label):
        Exception.__init__(self, label)
        self.label = label


def _c(v):
    """structure-deciding value -> plain int (forks on a proxy)"""
    if type(v) is int:
        return v
    return int(v)


def field(bs, little, signed=False):
    """value of a field from its bytes (list), per EI_DATA"""
    n = len(bs)
    order = list(bs) if little else list(bs)[::-1]
    v = order[0]
    for i in range(1, n):
        v = v | (order[i] << (8 * i))
    if signed:
        v = ite(v >= (1 << (8 * n - 1)), v - (1 << (8 * n)), v)
    return v


def unpack(data, off, layout, little):
    out = {}
    for name, n in layout:
        out[name] = field(data[off:off + abs(n)], little, signed=n < 0)
        off += abs(n)
    return out


def is_pow2_or_zero(v):
    return (v & (v - 1)) == 0 if type(v) is int else sym_or(v == 0, (v & (v - 1)) == 0)


class Elf:
    """what a reader sees"""

    def __init__(self):
        self.wf = []            # (label, condition)
        self.cls = None         # 1 / 2
        self.little = None
        self.ehdr = {}
        self.shdrs = []         # field dicts (index = section number)
        self.names = []         # section names (str or None)
        self.data = []          # section contents (lists of byte values; [] for NOBITS/NULL)
        self.phdrs = []
        self.symtabs = {}       # section index -> list of entry dicts (+ name, bind, type)
        self.relocs = {}        # section index -> dict(target=, symtab=, rela=bool, entries=[dict(offset, sym, type, addend)])
        self.size = 0

    def need(self, label, cond):
        self.wf.append((label, cond))

    def wellformed(self, prefix=""):
        cs = [c for l, c in self.wf if l.startswith(prefix)]
        return sym_and(*cs) if cs else True

    def failing(self):
        return [l for l, c in self.wf if type(c) is bool and not c]

    def section_index(self, name):
        hits = [i for i, n in enumerate(self.names) if n == name and i > 0]
        return hits

    @property
    def bits(self):
        return 32 if self.cls == 1 else 64

    def all_symbols(self):
        out = []
        for idx in sorted(self.symtabs):
            out.extend(self.symtabs[idx][1:])
        return out

    def loads(self):
        return [p for p in self.phdrs if p["p_type"] == PT_LOAD]


def cstring(tab, off):
    """NUL-terminated string at offset off of a string table (list of byte values) -> (str|None, ok)"""
    if off < 0 or off >= len(tab):
        return None, False
    out = []
    i = off
    while i < len(tab):
        b = _c(tab[i])
        if b == 0:
            return bytes(out).decode("latin1"), True
        out.append(b)
        i += 1
    return None, False      # runs off the table


def read(raw):
    """Parse an ELF file given as bytes / list of byte values.  Returns Elf; raises Malformed(label) when a
    table lies outside the file or the identification is unusable."""
    data = list(raw)
    size = len(data)
    elf = Elf()
    elf.size = size
    if size < 16:
        raise Malformed("ident:file shorter than e_ident")
    magic = [_c(b) for b in data[:4]]
    elf.need("ident:magic", magic == [0x7F, 0x45, 0x4C, 0x46])
    cls, dat, ver = _c(data[EI_CLASS]), _c(data[EI_DATA]), _c(data[EI_VERSION])
    if magic != [0x7F, 0x45, 0x4C, 0x46] or cls not in (1, 2) or dat not in (1, 2):
        raise Malformed("ident:magic/class/data")
    elf.need("ident:version", ver == EV_CURRENT)
    elf.need("ident:padding", sym_and(*[b == 0 for b in data[EI_PAD:16]]))
    elf.cls, elf.little = cls, dat == ELFDATA2LSB
    elf.osabi = data[EI_OSABI]
    little = elf.little
    ehsize = 16 + size_of(EHDR[cls])
    if size < ehsize:
        raise Malformed("header:file shorter than the ELF header")
    h = unpack(data, 16, EHDR[cls], little)
    elf.ehdr = h
    elf.need("header:e_version", h["e_version"] == EV_CURRENT)
    elf.need("header:e_ehsize", h["e_ehsize"] == ehsize)
    phoff, phnum, phentsize = _c(h["e_phoff"]), _c(h["e_phnum"]), _c(h["e_phentsize"])
    shoff, shnum, shentsize = _c(h["e_shoff"]), _c(h["e_shnum"]), _c(h["e_shentsize"])
    shstrndx = _c(h["e_shstrndx"])
    etype = _c(h["e_type"])
    elf.etype = etype

    # ---- program header table
    if phnum:
        elf.need("header:e_phentsize", phentsize == size_of(PHDR[cls]))
        if phentsize < size_of(PHDR[cls]) or phoff + phnum * phentsize > size or phoff < ehsize:
            raise Malformed("header:program header table outside the file")
        for i in range(phnum):
            elf.phdrs.append(unpack(data, phoff + i * phentsize, PHDR[cls], little))
    else:
        elf.need("header:e_phoff zero without a program header table", phoff == 0)
    elf.need("header:relocatable file has no program headers", not (etype == ET_REL and phnum))

    # ---- section header table
    if shnum:
        elf.need("header:e_shentsize", shentsize == size_of(SHDR[cls]))
        if shentsize < size_of(SHDR[cls]) or shoff + shnum * shentsize > size or shoff < ehsize:
            raise Malformed("header:section header table outside the file")
        for i in range(shnum):
            elf.shdrs.append(unpack(data, shoff + i * shentsize, SHDR[cls], little))
        if phnum:
            a0, a1, b0, b1 = phoff, phoff + phnum * phentsize, shoff, shoff + shnum * shentsize
            elf.need("header:tables overlap", a1 <= b0 or b1 <= a0)
    else:
        elf.need("header:e_shoff zero without a section header table", shoff == 0)
    # index 0 is reserved: all members zero (no SHN_XINDEX extension in use)
    if shnum:
        elf.need("sections:entry 0 is null", sym_and(*[v == 0 for v in elf.shdrs[0].values()]))
    elf.need("header:e_shstrndx", shstrndx < shnum if shnum else shstrndx == SHN_UNDEF)

    # ---- section extents and contents
    extents = []
    for i, s in enumerate(elf.shdrs):
        typ = _c(s["sh_type"])
        off, sz = _c(s["sh_offset"]), _c(s["sh_size"])
        s["_type"], s["_off"], s["_size"] = typ, off, sz
        if i == 0 or typ in (SHT_NULL, SHT_NOBITS):
            elf.data.append([])
            continue
        if off + sz > size:
            raise Malformed(f"sections:[{i}] extends past the end of the file")
        elf.data.append(data[off:off + sz])
        if sz:
            extents.append((off, off + sz, i))
            elf.need(f"sections:[{i}] overlaps the ELF header", off >= ehsize)
            if phnum:
                elf.need(f"sections:[{i}] overlaps the program header table",
                         off + sz <= phoff or phoff + phnum * phentsize <= off)
            if shnum:
                elf.need(f"sections:[{i}] overlaps the section header table",
                         off + sz <= shoff or shoff + shnum * shentsize <= off)
    extents.sort()
    for (a0, a1, i), (b0, b1, j) in zip(extents, extents[1:]):
        elf.need(f"sections:[{i}] and [{j}] overlap in the file", a1 <= b0)
    for i, s in enumerate(elf.shdrs):
        if i == 0:
            continue
        al = s["sh_addralign"]
        elf.need(f"sections:[{i}] sh_addralign is 0 or a power of two", is_pow2_or_zero(al))
        # "sh_addr must be congruent to 0, modulo the value of sh_addralign" (power of two: mask test)
        elf.need(f"addr-aligned:[{i}] sh_addr is a multiple of sh_addralign", sym_or(al == 0, (s["sh_addr"] & (al - 1)) == 0))

    # ---- section names
    elf.names = [None] * len(elf.shdrs)
    if shnum and 0 < shstrndx < shnum:
        st = elf.shdrs[shstrndx]
        elf.need("strings:e_shstrndx designates a string table", st["_type"] == SHT_STRTAB)
        tab = elf.data[shstrndx]
        for i, s in enumerate(elf.shdrs):
            nm, ok = cstring(tab, _c(s["sh_name"]))
            elf.names[i] = nm
            elf.need(f"strings:[{i}] sh_name inside the section name string table", ok)
    for i, s in enumerate(elf.shdrs):
        if s["_type"] == SHT_STRTAB and s["_size"]:
            tab = elf.data[i]
            elf.need(f"strings:[{i}] string table starts with NUL", tab[0] == 0)
            elf.need(f"strings:[{i}] string table ends with NUL", tab[-1] == 0)

    # ---- symbol tables
    for i, s in enumerate(elf.shdrs):
        if s["_type"] not in (SHT_SYMTAB, SHT_DYNSYM):
            continue
        entsize = size_of(SYM[cls])
        elf.need(f"symtab:[{i}] sh_entsize", s["sh_entsize"] == entsize)
        elf.need(f"symtab:[{i}] sh_size is a multiple of the entry size", s["_size"] % entsize == 0)
        link = _c(s["sh_link"])
        okl = 0 < link < shnum and elf.shdrs[link]["_type"] == SHT_STRTAB
        elf.need(f"symtab:[{i}] sh_link designates a string table", okl)
        strtab = elf.data[link] if okl else []
        n = s["_size"] // entsize
        entries = []
        for k in range(n):
            e = unpack(elf.data[i], k * entsize, SYM[cls], little)
            info = _c(e["st_info"])
            e["bind"], e["type"] = info >> 4, info & 0xF
            e["shndx"] = _c(e["st_shndx"])
            if k:
                nm, ok = cstring(strtab, _c(e["st_name"]))
                e["name"] = nm
                elf.need(f"symtab:[{i}] symbol {k} st_name inside the string table", ok)
                elf.need(f"symtab:[{i}] symbol {k} st_shndx designates a section",
                         e["shndx"] < shnum or e["shndx"] >= SHN_LORESERVE)
            else:
                e["name"] = ""
            entries.append(e)
        if n:
            elf.need(f"symtab:[{i}] entry 0 is the null symbol",
                     sym_and(*[entries[0][f] == 0 for f, _ in SYM[cls]]))
        info = _c(s["sh_info"])
        # sh_info: one greater than the symbol table index of the last local symbol; locals precede the others
        elf.need(f"symtab:[{i}] sh_info within the table", 1 <= info <= max(n, 1))
        for k, e in enumerate(entries):
            if k == 0:
                continue
            if k < info:
                elf.need(f"symtab:[{i}] symbol {k} below sh_info is local", e["bind"] == STB_LOCAL)
            else:
                elf.need(f"symtab:[{i}] symbol {k} from sh_info on is not local", e["bind"] != STB_LOCAL)
        elf.symtabs[i] = entries

    # ---- relocation tables
    for i, s in enumerate(elf.shdrs):
        if s["_type"] not in (SHT_RELA, SHT_REL):
            continue
        rela = s["_type"] == SHT_RELA
        layout = (RELA if rela else REL)[cls]
        entsize = size_of(layout)
        elf.need(f"reloc:[{i}] sh_entsize", s["sh_entsize"] == entsize)
        elf.need(f"reloc:[{i}] sh_size is a multiple of the entry size", s["_size"] % entsize == 0)
        link, target = _c(s["sh_link"]), _c(s["sh_info"])
        okl = 0 < link < shnum and link in elf.symtabs
        elf.need(f"reloc:[{i}] sh_link designates the symbol table", okl)
        if etype == ET_REL or _c(s["sh_flags"]) & SHF_INFO_LINK:
            elf.need(f"reloc:[{i}] sh_info designates the section to relocate",
                     0 < target < shnum and elf.shdrs[target]["_type"] not in (SHT_NULL, SHT_RELA, SHT_REL,
                                                                              SHT_SYMTAB, SHT_STRTAB))
        nsyms = len(elf.symtabs[link]) if okl else 0
        entries = []
        for k in range(s["_size"] // entsize):
            e = unpack(elf.data[i], k * entsize, layout, little)
            r_info = _c(e["r_info"])
            if cls == 1:
                sym, typ = r_info >> 8, r_info & 0xFF
            else:
                sym, typ = r_info >> 32, r_info & 0xFFFFFFFF
            elf.need(f"reloc:[{i}] entry {k} symbol index inside the symbol table", sym < nsyms)
            entries.append(dict(offset=e["r_offset"], sym=sym, type=typ, addend=e.get("r_addend", 0)))
        elf.relocs[i] = dict(target=target, symtab=link if okl else None, rela=rela, entries=entries)

    # ---- segments
    last_load = None
    for k, p in enumerate(elf.phdrs):
        p["_type"] = _c(p["p_type"])
        p["_off"], p["_filesz"] = _c(p["p_offset"]), _c(p["p_filesz"])
        if p["_type"] == PT_NULL:
            continue
        if p["_off"] + p["_filesz"] > size:
            raise Malformed(f"segments:[{k}] extends past the end of the file")
        p["_data"] = data[p["_off"]:p["_off"] + p["_filesz"]]
        if p["_type"] != PT_LOAD:
            continue
        elf.need(f"segments:[{k}] p_filesz <= p_memsz", p["p_filesz"] <= p["p_memsz"])
        al = p["p_align"]
        elf.need(f"segments:[{k}] p_align is 0, 1 or a power of two", is_pow2_or_zero(al))
        # "p_vaddr should equal p_offset, modulo p_align" (values 0 and 1: no alignment required)
        elf.need(f"segments-congruent:[{k}] p_vaddr = p_offset modulo p_align",
                 sym_or(al == 0, ((p["p_vaddr"] - p["p_offset"]) & (al - 1)) == 0))
        elf.need(f"segments:[{k}] memory extent inside the address space",
                 p["p_vaddr"] + p["p_memsz"] <= (1 << elf.bits))
        if last_load is not None:
            # "Loadable segment entries in the program header table appear in ascending order, sorted on p_vaddr"
            elf.need(f"segments-ascending:[{k}] PT_LOAD entries sorted on p_vaddr", last_load["p_vaddr"] <= p["p_vaddr"])
        last_load = p
    return elf


# ------------------------------------------------------------------------------------------------
# memory image denoted by the PT_LOAD segments
def select(lst, idx):
    """lst[idx] for a possibly symbolic idx known to be in range (ite chain; plain indexing on plain values)"""
    if type(idx) is int:
        return lst[idx]
    acc = lst[-1]
    for i in range(len(lst) - 2, -1, -1):
        acc = ite(idx == i, lst[i], acc)
    return acc


def segment_covers(p, a):
    """does PT_LOAD segment p occupy virtual address a"""
    return sym_and(p["p_vaddr"] <= a, a < p["p_vaddr"] + p["p_memsz"])


def segment_byte(p, a):
    """the byte a loader places at virtual address a (inside the segment): file bytes for the first
    p_filesz bytes, zero for the rest up to p_memsz"""
    d = p["_data"]
    if not d:
        return 0
    rel = a - p["p_vaddr"]
    if type(rel) is int:
        return d[rel] if 0 <= rel < len(d) else 0
    return ite(sym_and(rel >= 0, rel < len(d)), select(d, rel), 0)


def selftest():
    """hand-assembled little- and big-endian ELF32 files (plain values)"""
    import struct

    def build(order):
        o = order
        strtab = b"\0.strtab\0.symtab\0.text\0foo\0"
        text = bytes([1, 2, 3, 4, 5, 6, 7, 8])
        sym = struct.pack(o + "IIIBBH", 0, 0, 0, 0, 0, 0) + struct.pack(o + "IIIBBH", 23, 4, 2, (1 << 4) | 2, 0, 1)
        body = text + sym + strtab
        off_text, off_sym, off_str = 52 + 32, 52 + 32 + 8, 52 + 32 + 8 + 32
        shoff = (52 + 32 + len(body) + 3) & ~3
        pad = shoff - (52 + 32 + len(body))
        ident = bytes([0x7F, 69, 76, 70, 1, 1 if o == "<" else 2, 1, 0]) + bytes(8)
        eh = struct.pack(o + "HHIIIIIHHHHHH", 2, 40, 1, 0x8004, 52, shoff, 0, 52, 32, 1, 40, 4, 3)
        ph = struct.pack(o + "IIIIIIII", 1, off_text, 0x8000, 0x8000, 8, 12, 5, 4)
        sh = bytes(40)
        sh += struct.pack(o + "IIIIIIIIII", 17, 1, 6, 0x8000, off_text, 8, 0, 0, 4, 0)
        sh += struct.pack(o + "IIIIIIIIII", 9, 2, 0, 0, off_sym, 32, 3, 1, 4, 16)
        sh += struct.pack(o + "IIIIIIIIII", 1, 3, 0, 0, off_str, len(strtab), 0, 0, 1, 0)
        return ident + eh + ph + body + bytes(pad) + sh

    for o in "<>":
        e = read(build(o))
        assert e.failing() == [], e.failing()
        assert e.wellformed() is True
        assert e.names == [None if False else "", ".text", ".symtab", ".strtab"], e.names
        assert e.ehdr["e_entry"] == 0x8004 and e.ehdr["e_machine"] == 40 and e.etype == ET_EXEC
        s = e.symtabs[2][1]
        assert (s["name"], s["st_value"], s["st_size"], s["bind"], s["type"], s["shndx"]) == ("foo", 4, 2, 1, 2, 1)
        p = e.loads()[0]
        assert [segment_byte(p, 0x8000 + i) for i in range(12)] == [1, 2, 3, 4, 5, 6, 7, 8, 0, 0, 0, 0]
        assert segment_covers(p, 0x800B) and not segment_covers(p, 0x800C) and not segment_covers(p, 0x7FFF)
    bad = bytearray(build("<"))
    bad[16 + 2] ^= 1           # nothing structural: still readable
    read(bytes(bad))
    bad = bytearray(build("<"))
    bad[52 + 32 + 8 + 16 + 12] = (2 << 4) | 2     # symbol 1 (below sh_info=1? no: sh_info is 1, symbol 1 must be non-local)
    assert read(bytes(bad)).failing() == []
    bad[52 + 32 + 8 + 16 + 12] = 2                # local symbol at index >= sh_info
    assert any("from sh_info on" in l for l in read(bytes(bad)).failing())
    assert field([0x78, 0x56, 0x34, 0x12], True) == 0x12345678 == field([0x12, 0x34, 0x56, 0x78], False)
    assert field([0xFE, 0xFF], True, signed=True) == -2
    return True
