"""Membership in the language of an arbitrary context-free grammar (independent of ppci).

Grammar description (plain data):  productions = [(lhs, (sym, ...)), ...], start = name of the start
symbol, nonterminals = set of names that have at least one production; every other symbol is a
terminal.  Epsilon productions (empty right-hand side), unit productions and cycles are allowed.

`derives(...)` is a chart recogniser (CYK generalised to right-hand sides of any length): for a token
sequence of fixed length m it computes, for every non-terminal A and every span [i, j), the truth value
"A =>* tok[i:j]".  Token kinds enter only through the atom function `is_kind(i, t)` ("token i is the
terminal t"), which may return a Python bool or a symx SymBool; truth values are combined with
sym_and / sym_or, so the same code yields a bool for a concrete sequence and a formula over the
atoms for a symbolic one.

Definition implemented (least fixed point of the textbook derivation relation):
    D[A, i, j]  <=>  exists production A -> X1..Xk and cut points i = c0 <= c1 <= .. <= ck = j with
                     for all r:  Xr terminal      -> c(r) = c(r-1) + 1 and tok[c(r-1)] is Xr
                                 Xr non-terminal  -> D[Xr, c(r-1), c(r)]
Spans are processed by increasing length.  Entries of the same span can depend on each other only
through "unit steps" (all other right-hand-side symbols derive the empty string), so the least fixed
point over one span is reached after at most |N| rounds of re-evaluation (longest acyclic unit chain).

Also provided, for concrete use: `valid_tree` (is a tree a derivation tree of a given sequence) and
`brute_language` (enumeration of the language by leftmost rewriting; used to validate the recogniser).
"""
from symx.core import sym_and, sym_or


def nonterminals_of(productions):
    return {lhs for lhs, _ in productions}


def nullable_set(productions):
    nts = nonterminals_of(productions)
    nullable = set()
    changed = True
    while changed:
        changed = False
        for lhs, rhs in productions:
            if lhs not in nullable and all((s in nts and s in nullable) for s in rhs):
                nullable.add(lhs)
                changed = True
    return nullable


def _splits(i, j, k):
    """all (c0..ck) with i = c0 <= c1 <= ... <= ck = j"""
    if k == 0:
        if i == j:
            yield (i,)
        return
    if k == 1:
        yield (i, j)
        return
    for c in range(i, j + 1):
        for rest in _splits(c, j, k - 1):
            yield (i,) + rest


def chart(productions, m, is_kind):
    """D[(A, i, j)] for all non-terminals A and 0 <= i <= j <= m"""
    nts = nonterminals_of(productions)
    nullable = nullable_set(productions)
    order = sorted(nts)
    D = {}
    for i in range(m + 1):
        for a in order:
            D[(a, i, i)] = a in nullable
    for ln in range(1, m + 1):
        for i in range(0, m - ln + 1):
            j = i + ln
            cur = {a: False for a in order}          # round 0: nothing known about this span yet

            def seg(x, p, q):
                if x in nts:
                    if p == i and q == j:
                        return cur[x]
                    return D[(x, p, q)]
                return is_kind(p, x) if q == p + 1 else False

            for _ in range(len(order) + 1):
                nxt = {}
                for a in order:
                    alts = []
                    for lhs, rhs in productions:
                        if lhs != a:
                            continue
                        for cuts in _splits(i, j, len(rhs)):
                            parts = [seg(x, cuts[r], cuts[r + 1]) for r, x in enumerate(rhs)]
                            if any(p is False for p in parts):
                                continue
                            parts = [p for p in parts if p is not True]
                            alts.append(sym_and(*parts) if parts else True)
                    if any(x is True for x in alts):
                        nxt[a] = True
                    else:
                        nxt[a] = sym_or(*alts) if alts else False
                cur = nxt
            for a in order:
                D[(a, i, j)] = cur[a]
    return D


def derives(productions, start, m, is_kind):
    """truth value (bool or SymBool) of  start =>* tok[0:m]"""
    if start not in nonterminals_of(productions):
        return False
    return chart(productions, m, is_kind)[(start, 0, m)]


def member(productions, start, seq):
    """concrete membership of a sequence of terminal names"""
    seq = list(seq)
    return bool(derives(productions, start, len(seq), lambda i, t: seq[i] == t))


# ---------------------------------------------------------------------------------------------
def valid_tree(productions, start, tree, seq):
    """Is `tree` a derivation tree of the terminal sequence `seq` from `start`?

    tree := ("p", production_index, [child, ...])  |  ("t", terminal_name, position)
    A valid tree applies production `production_index` at every inner node, its children match the
    production's right-hand side symbol by symbol, and the leaves read left to right are exactly
    seq[0], seq[1], ... with their positions."""
    nts = nonterminals_of(productions)
    pos = [0]

    def walk(node, sym):
        if not isinstance(node, (tuple, list)) or len(node) != 3:
            return False
        if node[0] == "t":
            if sym in nts or node[1] != sym:
                return False
            if pos[0] >= len(seq) or node[2] != pos[0] or seq[pos[0]] != sym:
                return False
            pos[0] += 1
            return True
        if node[0] != "p" or sym not in nts:
            return False
        idx, kids = node[1], node[2]
        if not isinstance(idx, int) or not (0 <= idx < len(productions)):
            return False
        lhs, rhs = productions[idx]
        if lhs != sym or len(kids) != len(rhs):
            return False
        return all(walk(k, x) for k, x in zip(kids, rhs))

    return bool(walk(tree, start)) and pos[0] == len(seq)


def brute_language(productions, start, maxlen):
    """set of all terminal strings (tuples) of length <= maxlen derivable from start; leftmost
    rewriting of sentential forms with pruning by the number of terminals.  Exponential, tiny inputs only."""
    nts = nonterminals_of(productions)
    nullable = nullable_set(productions)
    out = set()
    seen = set()
    work = [(start,)]
    while work:
        form = work.pop()
        if form in seen:
            continue
        seen.add(form)
        nterm = sum(1 for s in form if s not in nts)
        need = nterm + sum(1 for s in form if s in nts and s not in nullable)
        if need > maxlen or len(form) > 3 * maxlen + 8:
            continue
        k = next((n for n, s in enumerate(form) if s in nts), None)
        if k is None:
            out.add(form)
            continue
        for lhs, rhs in productions:
            if lhs == form[k]:
                work.append(form[:k] + tuple(rhs) + form[k + 1:])
    return out
