"""WebAssembly binary format (core spec 1.0, section 5 "Binary Format") -- reference encoder and section walker.

Written from the specification only (no ppci import).  Everything runs on plain ints AND on symx proxies
(SymInt leaves inside the module description, SymBytes buffers): the only operations applied to a
possibly symbolic value are comparisons with constants, shifts by constants, masks and `|`.

Module description ("snapshot", plain data; every integer leaf may be symbolic):

    {"types":   [(params [valtype...], results [valtype...])],
     "imports": [(module name, name, kind, desc)]      desc: func -> typeidx | table -> (reftype, min, max|None)
                                                              memory -> (min, max|None) | global -> (valtype, mut 0/1)
     "funcs":   [(typeidx, locals [valtype...], body [instr...])]
     "tables":  [(reftype, min, max|None)],  "mems": [(min, max|None)],
     "globals": [(valtype, mut 0/1, init [instr...])],
     "exports": [(name, kind, idx)],  "start": funcidx | None,
     "elems":   [(tableidx, offset [instr...], [funcidx...])],
     "datas":   [(memidx, offset [instr...], bytes)],
     "datacount": n | None}
    instr = (mnemonic, (arg, ...));   block/loop/if arg: "emptyblock" | valtype;  br_table args: ([labelidx...],)
            (last element of the list is the default label);  load/store args: (align, offset)

5.1.3  vec(B)        = n:u32 (B)^n
5.2.2  uN / sN       = LEB128; the encoder below emits the SHORTEST encoding ("canonical"); `pad` widens
                       a chosen immediate to exactly k bytes (spec 5.2.2 allows any length <= ceil(N/7))
5.3    valtype       = 0x7F i32 | 0x7E i64 | 0x7D f32 | 0x7C f64;  functype = 0x60 vec(valtype) vec(valtype)
       limits        = 0x00 n | 0x01 n m;  tabletype = reftype(0x70) limits;  globaltype = valtype mut
5.4    instructions  (table OPC below);  expr = instr* 0x0B;  blocktype 0x40 | valtype
5.5.2  section       = id:byte size:u32 contents;   5.5.15 magic 00 61 73 6D, version 01 00 00 00
       order of non-custom sections: 1 type, 2 import, 3 function, 4 table, 5 memory, 6 global, 7 export,
       8 start, 9 element, 12 datacount, 10 code, 11 data
5.5.13 code          = size:u32 func;  func = vec(locals) expr;  locals = n:u32 valtype (runs of equal types
                       are what every producer emits: adjacent equal types are merged)
"""
import struct as _struct

VALTYPE = {"i32": 0x7F, "i64": 0x7E, "f32": 0x7D, "f64": 0x7C}
REFTYPE = {"funcref": 0x70}
BLOCKTYPE = dict(VALTYPE, emptyblock=0x40)
KIND = {"func": 0, "table": 1, "memory": 2, "global": 3}

# immediate kinds of an instruction: "bt" blocktype, "u" u32 (index / memarg field), "s32", "s64", "f32", "f64",
# "z" reserved zero byte, "tbl" br_table
OPC = {}


def _seq(first, names, imm=()):
    for k, n in enumerate(names.split()):
        OPC[n] = (first + k, imm)


_seq(0x00, "unreachable nop")
_seq(0x02, "block loop if", ("bt",))
_seq(0x05, "else")
_seq(0x0B, "end")
_seq(0x0C, "br br_if", ("u",))
_seq(0x0E, "br_table", ("tbl",))
_seq(0x0F, "return")
_seq(0x10, "call", ("u",))
_seq(0x11, "call_indirect", ("u", "u"))        # typeidx, then 0x00 (MVP) = table index 0 as u32
_seq(0x1A, "drop select")
_seq(0x20, "local.get local.set local.tee global.get global.set", ("u",))
_seq(0x28, "i32.load i64.load f32.load f64.load i32.load8_s i32.load8_u i32.load16_s i32.load16_u "
           "i64.load8_s i64.load8_u i64.load16_s i64.load16_u i64.load32_s i64.load32_u "
           "i32.store i64.store f32.store f64.store i32.store8 i32.store16 i64.store8 i64.store16 i64.store32",
     ("u", "u"))
_seq(0x3F, "memory.size memory.grow", ("z",))
_seq(0x41, "i32.const", ("s32",))
_seq(0x42, "i64.const", ("s64",))
_seq(0x43, "f32.const", ("f32",))
_seq(0x44, "f64.const", ("f64",))
_CMP = "eqz eq ne lt_s lt_u gt_s gt_u le_s le_u ge_s ge_u"
_FCMP = "eq ne lt gt le ge"
_ARI = "clz ctz popcnt add sub mul div_s div_u rem_s rem_u and or xor shl shr_s shr_u rotl rotr"
_FARI = "abs neg ceil floor trunc nearest sqrt add sub mul div min max copysign"
_seq(0x45, " ".join("i32." + x for x in _CMP.split()))
_seq(0x50, " ".join("i64." + x for x in _CMP.split()))
_seq(0x5B, " ".join("f32." + x for x in _FCMP.split()))
_seq(0x61, " ".join("f64." + x for x in _FCMP.split()))
_seq(0x67, " ".join("i32." + x for x in _ARI.split()))
_seq(0x79, " ".join("i64." + x for x in _ARI.split()))
_seq(0x8B, " ".join("f32." + x for x in _FARI.split()))
_seq(0x99, " ".join("f64." + x for x in _FARI.split()))
_seq(0xA7, "i32.wrap_i64 i32.trunc_f32_s i32.trunc_f32_u i32.trunc_f64_s i32.trunc_f64_u i64.extend_i32_s "
           "i64.extend_i32_u i64.trunc_f32_s i64.trunc_f32_u i64.trunc_f64_s i64.trunc_f64_u f32.convert_i32_s "
           "f32.convert_i32_u f32.convert_i64_s f32.convert_i64_u f32.demote_f64 f64.convert_i32_s f64.convert_i32_u "
           "f64.convert_i64_s f64.convert_i64_u f64.promote_f32 i32.reinterpret_f32 i64.reinterpret_f64 "
           "f32.reinterpret_i32 f64.reinterpret_i64 i32.extend8_s i32.extend16_s i64.extend8_s i64.extend16_s "
           "i64.extend32_s")
assert OPC["i64.extend32_s"][0] == 0xC4 and OPC["f64.reinterpret_i64"][0] == 0xBF and OPC["i64.rotr"][0] == 0x8A
assert OPC["i64.store32"][0] == 0x3E and OPC["f64.ge"][0] == 0x66 and OPC["f64.copysign"][0] == 0xA6


class Malformed(Exception):
    pass


# ---------------------------------------------------------------------------------------------------------
# 5.2.2 integers
def uleb(v, pad=None):
    """shortest unsigned LEB128 of v >= 0 (list of byte values); pad=k: exactly k bytes (needs v < 2**(7k))"""
    if pad is None:
        n = 1
        while not (v < (1 << (7 * n))):      # decides the length (forks on a proxy; already fixed by the path as a rule)
            n += 1
    else:
        n = pad
    return [((v >> (7 * i)) & 0x7F) | (0x80 if i < n - 1 else 0) for i in range(n)]


def sleb(v, pad=None):
    """shortest signed LEB128 (two's complement, sign = bit 6 of the last group); pad=k: exactly k bytes
    (needs -2**(7k-1) <= v < 2**(7k-1))"""
    if pad is None:
        n = 1
        while True:
            h = 1 << (7 * n - 1)
            if (v >= -h) and (v < h):        # chained `and` on purpose: each comparison decided on its own
                break
            n += 1
    else:
        n = pad
    return [((v >> (7 * i)) & 0x7F) | (0x80 if i < n - 1 else 0) for i in range(n)]


class Enc:
    """Encoder state: `pad_imm` = number of bytes the LEB128 of every immediate of a kind is widened to
    {"u":k, "s32":k, "s64":k} (missing / None = shortest encoding); `only_signed` = set of running immediate numbers
    (emission order) to which the widening of SIGNED immediates is restricted (None = all); `pad_struct` = width of
    every size / count field (None = shortest)."""

    def __init__(self, pad_imm=None, pad_struct=None, only_signed=None):
        self.pad_imm = pad_imm or {}
        self.pad_struct = pad_struct
        self.only_signed = only_signed
        self.nimm = 0
        self.imm_log = []       # (kind, value, number of bytes emitted)

    def imm(self, kind, v):
        k = self.nimm
        self.nimm += 1
        pad = self.pad_imm.get(kind)
        if kind != "u" and self.only_signed is not None and k not in self.only_signed:
            pad = None
        bs = uleb(v, pad) if kind == "u" else sleb(v, pad)
        self.imm_log.append((kind, v, len(bs)))
        return bs

    def cnt(self, n):
        return uleb(n, self.pad_struct)

    def name(self, s):
        b = list(s.encode("utf-8"))
        return self.cnt(len(b)) + b

    def limits(self, mn, mx):
        if mx is None:
            return [0x00] + self.imm("u", mn)
        return [0x01] + self.imm("u", mn) + self.imm("u", mx)

    def instr(self, ins):
        op, args = ins
        code, imms = OPC[op]
        out = [code]
        if len(args) != len(imms):
            raise Malformed(f"{op}: {len(args)} immediates, expected {len(imms)}")
        for kind, a in zip(imms, args):
            if kind == "bt":
                out.append(BLOCKTYPE[a])
            elif kind in ("u", "s32", "s64"):
                out += self.imm(kind, a)
            elif kind == "z":
                if a != 0:
                    raise Malformed("reserved byte must be zero")
                out.append(0)
            elif kind == "f32":
                out += list(_struct.pack("<f", a))
            elif kind == "f64":
                out += list(_struct.pack("<d", a))
            elif kind == "tbl":
                out += self.cnt(len(a) - 1)
                for l in a:
                    out += self.imm("u", l)
        return out

    def expr(self, instrs):
        out = []
        for i in instrs:
            out += self.instr(i)
        return out + [0x0B]

    def section(self, sid, payload):
        return [sid] + self.cnt(len(payload)) + payload

    def vec_section(self, sid, items):
        if not items:
            return []
        p = self.cnt(len(items))
        for it in items:
            p += it
        return self.section(sid, p)

    def module(self, m):
        out = [0x00, 0x61, 0x73, 0x6D, 0x01, 0x00, 0x00, 0x00]
        # -- 1 type
        its = []
        for params, results in m["types"]:
            b = [0x60] + self.cnt(len(params)) + [VALTYPE[t] for t in params]
            b += self.cnt(len(results)) + [VALTYPE[t] for t in results]
            its.append(b)
        out += self.vec_section(1, its)
        # -- 2 import
        its = []
        for mod, nm, kind, desc in m["imports"]:
            b = self.name(mod) + self.name(nm) + [KIND[kind]]
            if kind == "func":
                b += self.imm("u", desc)
            elif kind == "table":
                b += [REFTYPE[desc[0]]] + self.limits(desc[1], desc[2])
            elif kind == "memory":
                b += self.limits(desc[0], desc[1])
            else:
                b += [VALTYPE[desc[0]], 1 if desc[1] else 0]
            its.append(b)
        out += self.vec_section(2, its)
        # -- 3 function
        out += self.vec_section(3, [self.imm("u", f[0]) for f in m["funcs"]])
        # -- 4 table, 5 memory
        out += self.vec_section(4, [[REFTYPE[t[0]]] + self.limits(t[1], t[2]) for t in m["tables"]])
        out += self.vec_section(5, [self.limits(mn, mx) for mn, mx in m["mems"]])
        # -- 6 global
        out += self.vec_section(6, [[VALTYPE[t], 1 if mut else 0] + self.expr(init) for t, mut, init in m["globals"]])
        # -- 7 export
        out += self.vec_section(7, [self.name(nm) + [KIND[kind]] + self.imm("u", idx) for nm, kind, idx in m["exports"]])
        # -- 8 start
        if m.get("start") is not None:
            out += self.section(8, self.imm("u", m["start"]))
        # -- 9 element  (MVP: table index 0, encoded as the u32 0)
        its = []
        for tbl, off, fs in m["elems"]:
            b = self.imm("u", tbl) + self.expr(off) + self.cnt(len(fs))
            for f in fs:
                b += self.imm("u", f)
            its.append(b)
        out += self.vec_section(9, its)
        # -- 12 datacount (bulk-memory; sits between element and code)
        if m.get("datacount") is not None:
            out += self.section(12, self.imm("u", m["datacount"]))
        # -- 10 code
        its = []
        for _ti, locs, body in m["funcs"]:
            runs = []
            for t in locs:
                if runs and runs[-1][1] == t:
                    runs[-1][0] += 1
                else:
                    runs.append([1, t])
            b = self.cnt(len(runs))
            for n, t in runs:
                b += self.cnt(n) + [VALTYPE[t]]
            b += self.expr(body)
            its.append(self.cnt(len(b)) + b)
        out += self.vec_section(10, its)
        # -- 11 data  (MVP: memory index 0)
        its = []
        for mem, off, data in m["datas"]:
            b = self.imm("u", mem) + self.expr(off) + self.cnt(len(data)) + list(data)
            its.append(b)
        out += self.vec_section(11, its)
        return out


def encode_module(m, **kw):
    """canonical binary encoding of the module description (list of byte values, leaves possibly symbolic)"""
    return Enc(**kw).module(m)


# ---------------------------------------------------------------------------------------------------------
# 5.5 section walker: checks that every size / count written in front of something equals what follows
def _concrete(b):
    """structure bytes (section ids, sizes, counts) are functions of the module SHAPE and of the LEB lengths on the
    path; one that still depends on an immediate's VALUE is not a size of what follows"""
    if not isinstance(b, int):
        raise Malformed("section id / size / count byte depends on the value of an immediate")
    return b


class _Cur:
    def __init__(self, bs, pos=0, end=None):
        self.bs = bs
        self.pos = pos
        self.end = len(bs) if end is None else end

    def byte(self):
        if self.pos >= self.end:
            raise Malformed("unexpected end")
        b = self.bs[self.pos]
        self.pos += 1
        return b

    def u32(self):
        """LEB128 u32; returns (value, number of bytes, canonical?)"""
        v = 0
        n = 0
        while True:
            b = _concrete(self.byte())
            v = v | ((b & 0x7F) << (7 * n))
            n += 1
            if (b & 0x80) == 0:
                break
            if n >= 5:
                raise Malformed("u32 longer than 5 bytes")
        canon = True if n == 1 else (b != 0)
        return v, n, canon


SECTION_ORDER = [1, 2, 3, 4, 5, 6, 7, 8, 9, 12, 10, 11]


def walk(bs, expect_counts=None, strict_order=True):
    """Walk the section structure of a module binary.  Sizes and counts must be CONCRETE here (they depend on the
    module shape and on the LEB lengths fixed by the path); returns a dict of checks (name -> bool) and the list of
    sections [(id, payload offset, payload size, vector count or None)].
    Checks:  magic+version; every section's declared size stays inside the buffer and the sections tile the buffer
    exactly; non-custom ids in spec order, each at most once; size and count fields canonical (shortest LEB);
    function-section count == code-section count; code section: the `size` of every entry tiles the section payload
    exactly (vector count honoured); expect_counts {id: n}: declared vector counts as expected from the module."""
    bs = list(bs)
    chk = {}
    chk["magic-version"] = bs[:8] == [0x00, 0x61, 0x73, 0x6D, 0x01, 0x00, 0x00, 0x00]
    cur = _Cur(bs, 8)
    secs = []
    ok_tile = True
    canon = True
    try:
        while cur.pos < cur.end:
            sid = _concrete(cur.byte())
            size, _n, c = cur.u32()
            canon = canon and bool(c)
            start = cur.pos
            if start + size > cur.end:
                ok_tile = False
                break
            count = None
            if sid in (1, 2, 3, 4, 5, 6, 7, 9, 10, 11):
                sub = _Cur(bs, start, start + size)
                count, _n, c = sub.u32()
                canon = canon and bool(c)
                if sid == 10:
                    for _ in range(count):
                        bsz, _n, c = sub.u32()
                        canon = canon and bool(c)
                        sub.pos += bsz
                        if sub.pos > sub.end:
                            raise Malformed("function body exceeds code section")
                    chk["code-bodies-tile-section"] = sub.pos == sub.end
            secs.append((sid, start, size, count))
            cur.pos = start + size
    except Malformed:
        ok_tile = False
    chk["sections-tile-buffer"] = ok_tile and cur.pos == cur.end
    chk["size-count-fields-canonical"] = canon
    ids = [s[0] for s in secs if s[0] != 0]
    if strict_order:
        pos = [SECTION_ORDER.index(i) if i in SECTION_ORDER else -1 for i in ids]
        chk["section-order"] = all(p >= 0 for p in pos) and all(a < b for a, b in zip(pos, pos[1:]))
    else:
        chk["section-order"] = len(set(ids)) == len(ids) and all(i in SECTION_ORDER for i in ids)
    cnt = {s[0]: s[3] for s in secs}
    chk["function-count==code-count"] = cnt.get(3) == cnt.get(10)
    if expect_counts is not None:
        chk["vector-counts"] = all(cnt.get(k) == v for k, v in expect_counts.items() if v) and \
            all(k not in cnt for k, v in expect_counts.items() if not v)
    return chk, secs


def expected_counts(m):
    return {1: len(m["types"]), 2: len(m["imports"]), 3: len(m["funcs"]), 4: len(m["tables"]), 5: len(m["mems"]),
            6: len(m["globals"]), 7: len(m["exports"]), 9: len(m["elems"]), 10: len(m["funcs"]), 11: len(m["datas"])}
