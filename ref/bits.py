"""Reference definitions of bit-level operations (independent of ppci).

Each function works on plain ints (bit-by-bit textbook definition) and on symx SymInt
(z3 built-in operators on a `bits`-wide extraction).  The two variants check each other:
the solver uses the z3 one, the concrete replay uses the textbook one.
"""
import z3
from symx import core
from symx.core import SymInt, SymBool, to_bv, from_bv, any_sym


def _bit(v, i):
    return (v >> i) & 1


def rotl(v, k, bits):
    """rotate the low `bits` bits of v left by k (any integer k, taken mod bits)"""
    if any_sym(v, k):
        kk = k % bits
        return from_bv(z3.RotateLeft(to_bv(v, bits), to_bv(kk, bits)))
    k %= bits
    r = 0
    for i in range(bits):
        r |= _bit(v, i) << ((i + k) % bits)
    return r


def rotr(v, k, bits):
    if any_sym(v, k):
        kk = k % bits
        return from_bv(z3.RotateRight(to_bv(v, bits), to_bv(kk, bits)))
    k %= bits
    r = 0
    for i in range(bits):
        r |= _bit(v, i) << ((i - k) % bits)
    return r


def reverse(v, bits):
    if any_sym(v):
        b = to_bv(v, bits)
        parts = [z3.Extract(i, i, b) for i in range(bits)]   # bit0 first -> becomes MSB
        e = z3.Concat(*parts) if bits > 1 else parts[0]
        return from_bv(e)
    r = 0
    for i in range(bits):
        r |= _bit(v, i) << (bits - 1 - i)
    return r


def signed(v, bits):
    """value of the low `bits` bits of v read as two's complement"""
    if any_sym(v):
        return from_bv(to_bv(v, bits), signed=True)
    v &= (1 << bits) - 1
    return v - (1 << bits) if v >> (bits - 1) else v


def unsigned(v, bits):
    if any_sym(v):
        return from_bv(to_bv(v, bits))
    return v & ((1 << bits) - 1)


def popcount(v, bits):
    if any_sym(v):
        b = to_bv(v, bits)
        w = bits.bit_length() + 1
        tot = z3.BitVecVal(0, w)
        for i in range(bits):
            tot = tot + z3.ZeroExt(w - 1, z3.Extract(i, i, b))
        return from_bv(tot)
    return sum(_bit(v, i) for i in range(bits))


def clz(v, bits):
    if any_sym(v):
        b = to_bv(v, bits)
        w = bits.bit_length() + 1
        r = z3.BitVecVal(bits, w)
        for i in range(bits):          # highest set bit wins: iterate low -> high
            r = z3.If(z3.Extract(i, i, b) == 1, z3.BitVecVal(bits - 1 - i, w), r)
        return from_bv(r)
    for i in range(bits - 1, -1, -1):
        if _bit(v, i):
            return bits - 1 - i
    return bits


def ctz(v, bits):
    if any_sym(v):
        b = to_bv(v, bits)
        w = bits.bit_length() + 1
        r = z3.BitVecVal(bits, w)
        for i in range(bits - 1, -1, -1):   # lowest set bit wins: iterate high -> low
            r = z3.If(z3.Extract(i, i, b) == 1, z3.BitVecVal(i, w), r)
        return from_bv(r)
    for i in range(bits):
        if _bit(v, i):
            return i
    return bits


def arm_imm_representable(v):
    """exists r in 0..15 with rotl32(v, 2r) < 256  (ARM ARM A5.2.4 modified immediate)"""
    conds = [rotl(v, 2 * r, 32) < 256 for r in range(16)]
    return core.sym_or(*conds)


def arm_imm_decode(x):
    """value denoted by a 12-bit rotation:imm8 field"""
    return rotr(x & 0xFF, 2 * ((x >> 8) & 0xF), 32)
