"""RV32IMC reference model: decoder and single-step semantics (independent of ppci).

Written from "The RISC-V Instruction Set Manual, Volume I: Unprivileged ISA", document version
20191213 (RV32I 2.1: ch. 2; Zifencei: ch. 3; M: ch. 7; Zicsr: ch. 9; C: ch. 16; opcode listings:
ch. 24; assembler pseudo-instructions: ch. 25).  Floating point (F/D, c.fl*/c.fs*) is not modelled;
Zicsr / fence / ecall / ebreak / xRET / wfi are decoded but executed as opaque "system" steps.

decode(word, ilen)  works on plain ints, symx SymInt and raw z3 bit-vectors (32 bit):
    a table of (mask, match, mnemonic, format[, extra condition]) per instruction; "which instruction
    is this" is one boolean per entry, operand extraction is pure bit slicing.
step(state, word, ilen)  works on plain ints (PY) or z3 32-bit terms (Z3; SymInt inputs are converted).
"""
import z3
from symx import core
from symx.core import SymInt, SymBool

M32 = 0xFFFFFFFF


# ---------------------------------------------------------------------------------------------
# value domains
class _Py:
    name = "py"

    def bits(self, w, hi, lo):
        return (w >> lo) & ((1 << (hi - lo + 1)) - 1)

    def sext(self, v, n):
        v &= (1 << n) - 1
        return v - (1 << n) if v >> (n - 1) else v

    def ite(self, c, a, b):
        return a if c else b

    def and_(self, *xs):
        return all(xs)

    def or_(self, *xs):
        return any(xs)

    def not_(self, x):
        return not x

    def false(self, c):
        return not c


class _Sx(_Py):
    """symx SymInt (unbounded-integer semantics, engine must be active)"""
    name = "symx"

    def sext(self, v, n):
        return core.ite(v >= (1 << (n - 1)), v - (1 << n), v)

    def ite(self, c, a, b):
        return core.ite(c, a, b)

    def and_(self, *xs):
        return core.sym_and(*xs)

    def or_(self, *xs):
        return core.sym_or(*xs)

    def not_(self, x):
        return core.sym_not(x)

    def false(self, c):
        if type(c) is SymBool:
            return z3.is_false(z3.simplify(c.e))
        return not c


class _Z3(_Py):
    """raw z3 32-bit vectors; every field value is a 32-bit term (immediates sign-extended)"""
    name = "z3"

    def bits(self, w, hi, lo):
        n = hi - lo + 1
        return z3.ZeroExt(32 - n, z3.Extract(hi, lo, w))

    def sext(self, v, n):
        return z3.SignExt(32 - n, z3.Extract(n - 1, 0, v))

    def ite(self, c, a, b):
        if type(c) is bool:
            return a if c else b
        if type(a) is bool or type(b) is bool or z3.is_bool(a) or z3.is_bool(b):
            return z3.If(c, _zb(a), _zb(b))
        return z3.If(c, _zv(a), _zv(b))

    def and_(self, *xs):
        return z3.And(*[_zb(x) for x in xs])

    def or_(self, *xs):
        return z3.Or(*[_zb(x) for x in xs])

    def not_(self, x):
        return z3.Not(_zb(x))

    def false(self, c):
        if type(c) is bool:
            return not c
        return z3.is_false(z3.simplify(c))


def _zb(x):
    return z3.BoolVal(x) if type(x) is bool else x


def _zv(x):
    return z3.BitVecVal(x & M32, 32) if type(x) in (int, bool) else x


PY, SX, Z3 = _Py(), _Sx(), _Z3()


def domain_of(w):
    if type(w) is int or type(w) is bool:
        return PY
    if type(w) in (SymInt, SymBool):
        return SX
    if z3.is_bv(w):
        return Z3
    raise TypeError(f"rv32: unsupported word type {type(w)}")


# ---------------------------------------------------------------------------------------------
# 32-bit formats (manual fig. 2.2 - 2.4).  Every extractor returns the operand fields by name.
def _f_r(D, w):
    return dict(rd=D.bits(w, 11, 7), rs1=D.bits(w, 19, 15), rs2=D.bits(w, 24, 20))


def _f_i(D, w):
    return dict(rd=D.bits(w, 11, 7), rs1=D.bits(w, 19, 15), imm=D.sext(D.bits(w, 31, 20), 12))


def _f_sh(D, w):   # shift by constant: shamt[4:0] in bits 24:20 (RV32: bit 25 must be 0)
    return dict(rd=D.bits(w, 11, 7), rs1=D.bits(w, 19, 15), imm=D.bits(w, 24, 20))


def _f_s(D, w):
    return dict(rs1=D.bits(w, 19, 15), rs2=D.bits(w, 24, 20),
                imm=D.sext((D.bits(w, 31, 25) << 5) | D.bits(w, 11, 7), 12))


def _f_b(D, w):
    imm = (D.bits(w, 31, 31) << 12) | (D.bits(w, 7, 7) << 11) | (D.bits(w, 30, 25) << 5) | (D.bits(w, 11, 8) << 1)
    return dict(rs1=D.bits(w, 19, 15), rs2=D.bits(w, 24, 20), imm=D.sext(imm, 13))


def _f_u(D, w):    # imm = the 20-bit field value (unsigned); the operand value is imm << 12
    return dict(rd=D.bits(w, 11, 7), imm=D.bits(w, 31, 12))


def _f_j(D, w):
    imm = (D.bits(w, 31, 31) << 20) | (D.bits(w, 19, 12) << 12) | (D.bits(w, 20, 20) << 11) | (D.bits(w, 30, 21) << 1)
    return dict(rd=D.bits(w, 11, 7), imm=D.sext(imm, 21))


def _f_csr(D, w):
    return dict(rd=D.bits(w, 11, 7), rs1=D.bits(w, 19, 15), csr=D.bits(w, 31, 20))


def _f_csri(D, w):
    return dict(rd=D.bits(w, 11, 7), imm=D.bits(w, 19, 15), csr=D.bits(w, 31, 20))


def _f_fence(D, w):
    return dict(pred=D.bits(w, 27, 24), succ=D.bits(w, 23, 20), fm=D.bits(w, 31, 28))


def _f_none(D, w):
    return {}


_R, _I, _SHM = 0xFE00707F, 0x0000707F, 0xFE00707F
TABLE32 = [
    (0x7F, 0x37, "lui", _f_u), (0x7F, 0x17, "auipc", _f_u), (0x7F, 0x6F, "jal", _f_j),
    (_I, 0x0067, "jalr", _f_i),
    (_I, 0x0063, "beq", _f_b), (_I, 0x1063, "bne", _f_b), (_I, 0x4063, "blt", _f_b),
    (_I, 0x5063, "bge", _f_b), (_I, 0x6063, "bltu", _f_b), (_I, 0x7063, "bgeu", _f_b),
    (_I, 0x0003, "lb", _f_i), (_I, 0x1003, "lh", _f_i), (_I, 0x2003, "lw", _f_i),
    (_I, 0x4003, "lbu", _f_i), (_I, 0x5003, "lhu", _f_i),
    (_I, 0x0023, "sb", _f_s), (_I, 0x1023, "sh", _f_s), (_I, 0x2023, "sw", _f_s),
    (_I, 0x0013, "addi", _f_i), (_I, 0x2013, "slti", _f_i), (_I, 0x3013, "sltiu", _f_i),
    (_I, 0x4013, "xori", _f_i), (_I, 0x6013, "ori", _f_i), (_I, 0x7013, "andi", _f_i),
    (_SHM, 0x00001013, "slli", _f_sh), (_SHM, 0x00005013, "srli", _f_sh), (_SHM, 0x40005013, "srai", _f_sh),
    (_R, 0x00000033, "add", _f_r), (_R, 0x40000033, "sub", _f_r), (_R, 0x00001033, "sll", _f_r),
    (_R, 0x00002033, "slt", _f_r), (_R, 0x00003033, "sltu", _f_r), (_R, 0x00004033, "xor", _f_r),
    (_R, 0x00005033, "srl", _f_r), (_R, 0x40005033, "sra", _f_r), (_R, 0x00006033, "or", _f_r),
    (_R, 0x00007033, "and", _f_r),
    (_R, 0x02000033, "mul", _f_r), (_R, 0x02001033, "mulh", _f_r), (_R, 0x02002033, "mulhsu", _f_r),
    (_R, 0x02003033, "mulhu", _f_r), (_R, 0x02004033, "div", _f_r), (_R, 0x02005033, "divu", _f_r),
    (_R, 0x02006033, "rem", _f_r), (_R, 0x02007033, "remu", _f_r),
    (_I, 0x000F, "fence", _f_fence), (_I, 0x100F, "fence.i", _f_none),
    (M32, 0x00000073, "ecall", _f_none), (M32, 0x00100073, "ebreak", _f_none),
    (M32, 0x00200073, "uret", _f_none), (M32, 0x10200073, "sret", _f_none), (M32, 0x30200073, "mret", _f_none),
    (M32, 0x10500073, "wfi", _f_none),
    (_I, 0x1073, "csrrw", _f_csr), (_I, 0x2073, "csrrs", _f_csr), (_I, 0x3073, "csrrc", _f_csr),
    (_I, 0x5073, "csrrwi", _f_csri), (_I, 0x6073, "csrrsi", _f_csri), (_I, 0x7073, "csrrci", _f_csri),
]
TABLE32 = [(m, v, n, f, None) for (m, v, n, f) in TABLE32]
SYSTEM = {"fence", "fence.i", "ecall", "ebreak", "uret", "sret", "mret", "wfi",
          "csrrw", "csrrs", "csrrc", "csrrwi", "csrrsi", "csrrci"}


# ---------------------------------------------------------------------------------------------
# RV32C (manual ch. 16, tables 16.5-16.7).  Every extractor returns the compressed operand
# fields plus "x": the expansion (base mnemonic, rd, rs1, rs2, imm) of section 16.x.
def _p(D, w, hi, lo):       # 3-bit register field -> x8..x15
    return D.bits(w, hi, lo) + 8


def _c_ciw(D, w):   # c.addi4spn: nzuimm[5:4|9:6|2|3] in 12:5
    imm = (D.bits(w, 12, 11) << 4) | (D.bits(w, 10, 7) << 6) | (D.bits(w, 6, 6) << 2) | (D.bits(w, 5, 5) << 3)
    rd = _p(D, w, 4, 2)
    return dict(rd=rd, imm=imm, x=("addi", rd, 2, None, imm))


def _clw_imm(D, w):  # uimm[5:3] in 12:10, uimm[2|6] in 6:5
    return (D.bits(w, 12, 10) << 3) | (D.bits(w, 6, 6) << 2) | (D.bits(w, 5, 5) << 6)


def _c_lw(D, w):
    rd, rs1, imm = _p(D, w, 4, 2), _p(D, w, 9, 7), _clw_imm(D, w)
    return dict(rd=rd, rs1=rs1, imm=imm, x=("lw", rd, rs1, None, imm))


def _c_sw(D, w):
    rs2, rs1, imm = _p(D, w, 4, 2), _p(D, w, 9, 7), _clw_imm(D, w)
    return dict(rs2=rs2, rs1=rs1, imm=imm, x=("sw", None, rs1, rs2, imm))


def _imm6(D, w):     # imm[5] in 12, imm[4:0] in 6:2, sign-extended
    return D.sext((D.bits(w, 12, 12) << 5) | D.bits(w, 6, 2), 6)


def _c_nop(D, w):
    return dict(imm=_imm6(D, w), x=("addi", 0, 0, None, _imm6(D, w)))


def _c_addi(D, w):
    rd, imm = D.bits(w, 11, 7), _imm6(D, w)
    return dict(rd=rd, imm=imm, x=("addi", rd, rd, None, imm))


def _c_li(D, w):
    rd, imm = D.bits(w, 11, 7), _imm6(D, w)
    return dict(rd=rd, imm=imm, x=("addi", rd, 0, None, imm))


def _c_addi16sp(D, w):   # nzimm[9] in 12, nzimm[4|6|8:7|5] in 6:2
    imm = (D.bits(w, 12, 12) << 9) | (D.bits(w, 6, 6) << 4) | (D.bits(w, 5, 5) << 6) | (D.bits(w, 4, 3) << 7) | \
        (D.bits(w, 2, 2) << 5)
    imm = D.sext(imm, 10)
    return dict(imm=imm, x=("addi", 2, 2, None, imm))


def _c_lui(D, w):        # nzimm[17] in 12, nzimm[16:12] in 6:2 ; imm = value of lui's 20-bit field
    rd = D.bits(w, 11, 7)
    s = _imm6(D, w)
    imm20 = s & 0xFFFFF
    return dict(rd=rd, imm=imm20, simm=s, x=("lui", rd, None, None, imm20))


def _c_shift(name):
    def f(D, w):
        rd, sh = _p(D, w, 9, 7), D.bits(w, 6, 2)
        return dict(rd=rd, imm=sh, x=(name, rd, rd, None, sh))
    return f


def _c_andi(D, w):
    rd, imm = _p(D, w, 9, 7), _imm6(D, w)
    return dict(rd=rd, imm=imm, x=("andi", rd, rd, None, imm))


def _c_ca(name):
    def f(D, w):
        rd, rs2 = _p(D, w, 9, 7), _p(D, w, 4, 2)
        return dict(rd=rd, rs2=rs2, x=(name, rd, rd, rs2, None))
    return f


def _cj_imm(D, w):       # offset[11|4|9:8|10|6|7|3:1|5] in 12:2
    imm = (D.bits(w, 12, 12) << 11) | (D.bits(w, 11, 11) << 4) | (D.bits(w, 10, 9) << 8) | (D.bits(w, 8, 8) << 10) | \
        (D.bits(w, 7, 7) << 6) | (D.bits(w, 6, 6) << 7) | (D.bits(w, 5, 3) << 1) | (D.bits(w, 2, 2) << 5)
    return D.sext(imm, 12)


def _c_jal(D, w):
    imm = _cj_imm(D, w)
    return dict(imm=imm, x=("jal", 1, None, None, imm))


def _c_j(D, w):
    imm = _cj_imm(D, w)
    return dict(imm=imm, x=("jal", 0, None, None, imm))


def _c_b(name):          # offset[8|4:3] in 12:10, offset[7:6|2:1|5] in 6:2
    def f(D, w):
        imm = (D.bits(w, 12, 12) << 8) | (D.bits(w, 11, 10) << 3) | (D.bits(w, 6, 5) << 6) | (D.bits(w, 4, 3) << 1) | \
            (D.bits(w, 2, 2) << 5)
        imm = D.sext(imm, 9)
        rs1 = _p(D, w, 9, 7)
        return dict(rs1=rs1, imm=imm, x=(name, None, rs1, 0, imm))
    return f


def _c_slli(D, w):
    rd, sh = D.bits(w, 11, 7), D.bits(w, 6, 2)
    return dict(rd=rd, imm=sh, x=("slli", rd, rd, None, sh))


def _c_lwsp(D, w):       # uimm[5] in 12, uimm[4:2|7:6] in 6:2
    rd = D.bits(w, 11, 7)
    imm = (D.bits(w, 12, 12) << 5) | (D.bits(w, 6, 4) << 2) | (D.bits(w, 3, 2) << 6)
    return dict(rd=rd, imm=imm, x=("lw", rd, 2, None, imm))


def _c_swsp(D, w):       # uimm[5:2|7:6] in 12:7
    rs2 = D.bits(w, 6, 2)
    imm = (D.bits(w, 12, 9) << 2) | (D.bits(w, 8, 7) << 6)
    return dict(rs2=rs2, imm=imm, x=("sw", None, 2, rs2, imm))


def _c_jr(D, w):
    rs1 = D.bits(w, 11, 7)
    return dict(rs1=rs1, x=("jalr", 0, rs1, None, 0))


def _c_jalr(D, w):
    rs1 = D.bits(w, 11, 7)
    return dict(rs1=rs1, x=("jalr", 1, rs1, None, 0))


def _c_mv(D, w):
    rd, rs2 = D.bits(w, 11, 7), D.bits(w, 6, 2)
    return dict(rd=rd, rs2=rs2, x=("add", rd, 0, rs2, None))


def _c_add(D, w):
    rd, rs2 = D.bits(w, 11, 7), D.bits(w, 6, 2)
    return dict(rd=rd, rs2=rs2, x=("add", rd, rd, rs2, None))


def _c_ebreak(D, w):
    return dict(x=("ebreak", None, None, None, None))


def _nz(field):
    return lambda D, f: D.not_(f[field] == 0)


TABLE16 = [
    (0xE003, 0x0000, "c.addi4spn", _c_ciw, _nz("imm")),
    (0xE003, 0x4000, "c.lw", _c_lw, None),
    (0xE003, 0xC000, "c.sw", _c_sw, None),
    (0xEF83, 0x0001, "c.nop", _c_nop, None),                    # rd = 0 (imm != 0: HINT)
    (0xE003, 0x0001, "c.addi", _c_addi, _nz("rd")),
    (0xE003, 0x2001, "c.jal", _c_jal, None),                    # RV32 only
    (0xE003, 0x4001, "c.li", _c_li, None),
    (0xEF83, 0x6101, "c.addi16sp", _c_addi16sp, _nz("imm")),
    (0xE003, 0x6001, "c.lui", _c_lui, lambda D, f: D.and_(D.not_(f["rd"] == 2), D.not_(f["imm"] == 0))),
    (0xFC03, 0x8001, "c.srli", _c_shift("srli"), None),         # RV32: shamt[5] (bit 12) must be 0
    (0xFC03, 0x8401, "c.srai", _c_shift("srai"), None),
    (0xEC03, 0x8801, "c.andi", _c_andi, None),
    (0xFC63, 0x8C01, "c.sub", _c_ca("sub"), None),
    (0xFC63, 0x8C21, "c.xor", _c_ca("xor"), None),
    (0xFC63, 0x8C41, "c.or", _c_ca("or"), None),
    (0xFC63, 0x8C61, "c.and", _c_ca("and"), None),
    (0xE003, 0xA001, "c.j", _c_j, None),
    (0xE003, 0xC001, "c.beqz", _c_b("beq"), None),
    (0xE003, 0xE001, "c.bnez", _c_b("bne"), None),
    (0xF003, 0x0002, "c.slli", _c_slli, None),                  # RV32: shamt[5] must be 0
    (0xE003, 0x4002, "c.lwsp", _c_lwsp, _nz("rd")),
    (0xF07F, 0x8002, "c.jr", _c_jr, _nz("rs1")),
    (0xF003, 0x8002, "c.mv", _c_mv, _nz("rs2")),
    (0xFFFF, 0x9002, "c.ebreak", _c_ebreak, None),
    (0xF07F, 0x9002, "c.jalr", _c_jalr, _nz("rs1")),
    (0xF003, 0x9002, "c.add", _c_add, _nz("rs2")),
    (0xE003, 0xC002, "c.swsp", _c_swsp, None),
]

NAMES32 = [e[2] for e in TABLE32]
NAMES16 = [e[2] for e in TABLE16]

# ch. 25 pseudo-instructions (and the counter reads of ch. 10): name -> (base, fixed operands)
CSR_NUM = {"cycle": 0xC00, "time": 0xC01, "instret": 0xC02, "cycleh": 0xC80, "timeh": 0xC81, "instreth": 0xC82}
PSEUDO = {
    "nop": ("addi", dict(rd=0, rs1=0, imm=0)),
    "li": ("addi", dict(rs1=0)),            # for immediates that fit 12 bits
    "mv": ("addi", dict(imm=0)),
    "not": ("xori", dict(imm=-1)),
    "neg": ("sub", dict(rs1=0)),
    "seqz": ("sltiu", dict(imm=1)),
    "snez": ("sltu", dict(rs1=0)),
    "sltz": ("slt", dict(rs2=0)),
    "sgtz": ("slt", dict(rs1=0)),
    "beqz": ("beq", dict(rs2=0)), "bnez": ("bne", dict(rs2=0)),
    "j": ("jal", dict(rd=0)),
    "jr": ("jalr", dict(rd=0, imm=0)),
    "ret": ("jalr", dict(rd=0, rs1=1, imm=0)),
    "rdcycle": ("csrrs", dict(rs1=0, csr=0xC00)), "rdcycleh": ("csrrs", dict(rs1=0, csr=0xC80)),
    "rdtime": ("csrrs", dict(rs1=0, csr=0xC01)), "rdtimeh": ("csrrs", dict(rs1=0, csr=0xC81)),
    "rdinstret": ("csrrs", dict(rs1=0, csr=0xC02)), "rdinstreth": ("csrrs", dict(rs1=0, csr=0xC82)),
    "csrr": ("csrrs", dict(rs1=0)), "csrw": ("csrrw", dict(rd=0)),
}


class Decoded:
    """result of decode(): per table entry one match condition and the extracted fields"""

    def __init__(self, D, word, ilen, entries):
        self.D = D
        self.word = word
        self.ilen = ilen
        self.entries = entries          # [(cond, name, fields, ilen)]

    def is_(self, name):
        cs = [c for (c, n, f, l) in self.entries if n == name]
        if not cs:
            return False
        return cs[0] if len(cs) == 1 else self.D.or_(*cs)

    def fields(self, name):
        for (c, n, f, l) in self.entries:
            if n == name:
                return f
        raise KeyError(name)

    @property
    def legal(self):
        return self.D.or_(*[c for (c, n, f, l) in self.entries])

    # -- concrete words only
    @property
    def mnemonic(self):
        hits = [n for (c, n, f, l) in self.entries if c]
        if len(hits) > 1:
            raise AssertionError(f"ambiguous decode {hits}")
        return hits[0] if hits else None

    @property
    def operands(self):
        n = self.mnemonic
        return None if n is None else {k: v for k, v in self.fields(n).items() if k != "x"}

    def expansion(self, name=None):
        """(base mnemonic, rd, rs1, rs2, imm) of a compressed instruction; 32-bit ones expand to themselves"""
        name = name or self.mnemonic
        f = self.fields(name)
        if "x" in f:
            return f["x"]
        return (name, f.get("rd"), f.get("rs1"), f.get("rs2"), f.get("imm"))


def decode(word, ilen=None):
    """ilen: 4 / 2 (bytes) selects the table; None = both (bits 1:0 == 11 <=> 32-bit, manual 1.5)"""
    D = domain_of(word)
    entries = []
    for tab, n in ((TABLE32, 4), (TABLE16, 2)):
        if ilen is not None and ilen != n:
            continue
        w = word
        if n == 2 and ilen is None:
            # the instruction is the low halfword
            w = (word & 0xFFFF) if D is not Z3 else z3.ZeroExt(16, z3.Extract(15, 0, word))
        for (mask, match, name, fmt, extra) in tab:
            c = (w & mask) == match
            if n == 2 and ilen == 2:
                c = D.and_(c, (w >> 16) == 0) if D is not Z3 else c
            if D.false(c):
                continue
            f = fmt(D, w)
            if extra is not None:
                c = D.and_(c, extra(D, f))
            entries.append((c, name, f, n))
    return Decoded(D, word, ilen, entries)


# ---------------------------------------------------------------------------------------------
# single-step semantics.  Values: PY = ints in [0, 2**32) ; Z3 = 32-bit vectors.  Bytes: ints / 8-bit vectors.
def _s32(a):
    return a - (1 << 32) if a >> 31 else a


class PyOps(_Py):
    sym = False

    def val(self, v):
        return v & M32

    def conc(self, v):
        return v

    def add(self, a, b):
        return (a + b) & M32

    def sub(self, a, b):
        return (a - b) & M32

    def band(self, a, b):
        return a & b

    def bor(self, a, b):
        return a | b

    def bxor(self, a, b):
        return a ^ b

    def shl(self, a, n):
        return (a << (n & 31)) & M32

    def shr(self, a, n):
        return a >> (n & 31)

    def sar(self, a, n):
        return (_s32(a) >> (n & 31)) & M32

    def eq(self, a, b):
        return a == b

    def lts(self, a, b):
        return _s32(a) < _s32(b)

    def ltu(self, a, b):
        return a < b

    def mul(self, a, b):
        return (a * b) & M32

    def mulh(self, a, b):
        return ((_s32(a) * _s32(b)) >> 32) & M32

    def mulhsu(self, a, b):
        return ((_s32(a) * b) >> 32) & M32

    def mulhu(self, a, b):
        return ((a * b) >> 32) & M32

    def sdiv(self, a, b):      # truncating; only meaningful for b != 0 and no overflow
        sa, sb = _s32(a), _s32(b)
        if sb == 0:
            return 0
        q = abs(sa) // abs(sb)
        return (-q if (sa < 0) != (sb < 0) else q) & M32

    def srem(self, a, b):      # sign of the dividend
        sa, sb = _s32(a), _s32(b)
        if sb == 0:
            return 0
        r = abs(sa) % abs(sb)
        return (-r if sa < 0 else r) & M32

    def udiv(self, a, b):
        return a // b if b else 0

    def urem(self, a, b):
        return a % b if b else 0

    def byte(self, v, i):
        return (v >> (8 * i)) & 0xFF

    def cat(self, bs, signed):
        v = 0
        for i, b in enumerate(bs):
            v |= b << (8 * i)
        n = 8 * len(bs)
        if signed and v >> (n - 1):
            v -= 1 << n
        return v & M32


class Z3Ops(_Z3):
    sym = True

    def val(self, v):
        if type(v) in (int, bool):
            return z3.BitVecVal(v & M32, 32)
        if type(v) in (SymInt, SymBool):
            return core.to_bv(v, 32)
        return v

    def conc(self, v):
        if type(v) in (int, bool):
            return v
        s = z3.simplify(v)
        return s.as_long() if z3.is_bv_value(s) else None

    def add(self, a, b):
        return a + b

    def sub(self, a, b):
        return a - b

    def band(self, a, b):
        return a & b

    def bor(self, a, b):
        return a | b

    def bxor(self, a, b):
        return a ^ b

    def shl(self, a, n):
        return a << (n & 31)

    def shr(self, a, n):
        return z3.LShR(a, n & 31)

    def sar(self, a, n):
        return a >> (n & 31)

    def eq(self, a, b):
        return a == b

    def lts(self, a, b):
        return a < b

    def ltu(self, a, b):
        return z3.ULT(a, b)

    def mul(self, a, b):
        return a * b

    def mulh(self, a, b):
        return z3.Extract(63, 32, z3.SignExt(32, a) * z3.SignExt(32, b))

    def mulhsu(self, a, b):
        return z3.Extract(63, 32, z3.SignExt(32, a) * z3.ZeroExt(32, b))

    def mulhu(self, a, b):
        return z3.Extract(63, 32, z3.ZeroExt(32, a) * z3.ZeroExt(32, b))

    def sdiv(self, a, b):
        return a / b

    def srem(self, a, b):
        return z3.SRem(a, b)

    def udiv(self, a, b):
        return z3.UDiv(a, b)

    def urem(self, a, b):
        return z3.URem(a, b)

    def byte(self, v, i):
        return z3.Extract(8 * i + 7, 8 * i, v)

    def cat(self, bs, signed):
        e = z3.Concat(*reversed(bs)) if len(bs) > 1 else bs[0]
        n = 8 * len(bs)
        if n == 32:
            return e
        return z3.SignExt(32 - n, e) if signed else z3.ZeroExt(32 - n, e)


PYOPS, Z3OPS = PyOps(), Z3Ops()


class LogMemory:
    """background function addr -> byte, plus a log of (guarded) byte stores"""

    def __init__(self, ops, bg, log=()):
        self.ops = ops
        self.bg = bg
        self.log = tuple(log)

    def load_byte(self, addr):
        v = self.bg(addr)
        for (a, b, en) in self.log:
            v = self.ops.ite(self.ops.and_(en, self.ops.eq(a, addr)), b, v)
        return v

    def store_byte(self, addr, b, en=True):
        return LogMemory(self.ops, self.bg, self.log + ((addr, b, en),))


class ArrayMemory:
    """z3 Array(BitVec 32 -> BitVec 8)"""

    def __init__(self, arr):
        self.arr = arr
        self.ops = Z3OPS

    def load_byte(self, addr):
        return z3.Select(self.arr, addr)

    def store_byte(self, addr, b, en=True):
        new = z3.Store(self.arr, addr, b)
        if en is not True:
            new = z3.If(en, new, self.arr)
        return ArrayMemory(new)


def periodic_bg(ops, bytes8):
    """memory whose content at address a is bytes8[a mod 8]: any 4 consecutive bytes are independent"""
    bs = list(bytes8)
    if ops.sym:
        bs = [z3.Extract(7, 0, ops.val(b)) for b in bs]

    def bg(addr):
        k = ops.band(addr, ops.val(7))
        v = bs[0]
        for i in range(1, 8):
            v = ops.ite(ops.eq(k, ops.val(i)), bs[i], v)
        return v
    return bg


class State:
    def __init__(self, ops, x, pc, mem, legal=True, system=False):
        self.ops = ops
        self.x = x if type(x) is RegArray else list(x)
        self.pc = pc
        self.mem = mem
        self.legal = legal      # the stepped word was a modelled instruction
        self.system = system    # ... of the opaque system class (state unchanged except pc)


def make_state(x, pc, mem=None, membytes=None):
    """x: 32 values (x[0] ignored) or a RegArray; ints -> PY state, anything symbolic -> Z3 state"""
    if type(x) is RegArray:
        ops, xs = Z3OPS, x
    else:
        allv = list(x[1:]) + [pc] + (list(membytes) if membytes is not None else [])
        ops = PYOPS if all(type(v) is int for v in allv) and not type(mem) is ArrayMemory else Z3OPS
        xs = [ops.val(0)] + [ops.val(v) for v in x[1:]]
    if mem is None:
        mem = LogMemory(ops, periodic_bg(ops, membytes if membytes is not None else [0] * 8))
    return State(ops, xs, ops.val(pc), mem)


class RegArray:
    """z3 register file given by a read function on 5-bit indices; index 0 reads as zero and is never
    written.  RegArray(arr): backed by a z3 Array(BitVec 5 -> BitVec 32); RegArray(fn=...): any function."""

    def __init__(self, arr=None, fn=None):
        self.arr = arr
        self.fn = fn if fn is not None else (lambda i: z3.Select(arr, i))

    @staticmethod
    def idx5(idx):
        if type(idx) in (int, bool):
            return z3.BitVecVal(idx & 31, 5)
        return z3.simplify(z3.Extract(4, 0, idx) if idx.size() > 5 else idx)

    def read(self, idx):
        i = self.idx5(idx)
        return z3.If(i == 0, z3.BitVecVal(0, 32), self.fn(i))

    def write(self, idx, val, en):
        i = self.idx5(idx)
        old = self.fn
        cond = z3.And(_zb(en), i != 0)
        return RegArray(fn=lambda j: z3.If(z3.And(cond, j == i), val, old(j)))


def _xr(st, idx):
    o = st.ops
    if idx is None:
        idx = 0
    if type(st.x) is RegArray:
        return st.x.read(o.val(idx))
    c = o.conc(idx)
    if c is not None:
        return st.x[c & 31]
    v = st.x[0]
    for i in range(1, 32):
        v = o.ite(o.eq(idx, o.val(i)), st.x[i], v)
    return v


def read_reg(st, idx):
    """value of x[idx] in state st (idx: int or a value of the state's domain)"""
    return _xr(st, idx)


class _Eff:
    __slots__ = ("wr", "val", "npc", "stores", "system")

    def __init__(self, wr=False, val=None, npc=None, stores=(), system=False):
        self.wr, self.val, self.npc, self.stores, self.system = wr, val, npc, stores, system


def _alu(fn):
    def sem(o, st, rd, rs1, rs2, imm, ilen):
        return _Eff(True, fn(o, _xr(st, rs1), _xr(st, rs2)))
    return sem


def _alui(fn):
    def sem(o, st, rd, rs1, rs2, imm, ilen):
        return _Eff(True, fn(o, _xr(st, rs1), o.val(imm)))
    return sem


def _b2v(o, c):
    return o.ite(c, o.val(1), o.val(0))


MIN32 = 0x80000000


def _div(o, a, b):
    return o.ite(o.eq(b, o.val(0)), o.val(M32),
                 o.ite(o.and_(o.eq(a, o.val(MIN32)), o.eq(b, o.val(M32))), o.val(MIN32), o.sdiv(a, b)))


def _rem(o, a, b):
    return o.ite(o.eq(b, o.val(0)), a,
                 o.ite(o.and_(o.eq(a, o.val(MIN32)), o.eq(b, o.val(M32))), o.val(0), o.srem(a, b)))


def _divu(o, a, b):
    return o.ite(o.eq(b, o.val(0)), o.val(M32), o.udiv(a, b))


def _remu(o, a, b):
    return o.ite(o.eq(b, o.val(0)), a, o.urem(a, b))


def _load(n, signed):
    def sem(o, st, rd, rs1, rs2, imm, ilen):
        a = o.add(_xr(st, rs1), o.val(imm))
        bs = [st.mem.load_byte(o.add(a, o.val(i))) for i in range(n)]
        return _Eff(True, o.cat(bs, signed))
    return sem


def _store(n):
    def sem(o, st, rd, rs1, rs2, imm, ilen):
        a = o.add(_xr(st, rs1), o.val(imm))
        v = _xr(st, rs2)
        return _Eff(stores=tuple((o.add(a, o.val(i)), o.byte(v, i)) for i in range(n)))
    return sem


def _branch(cond):
    def sem(o, st, rd, rs1, rs2, imm, ilen):
        c = cond(o, _xr(st, rs1), _xr(st, rs2))
        return _Eff(npc=o.ite(c, o.add(st.pc, o.val(imm)), o.add(st.pc, o.val(ilen))))
    return sem


def _jal(o, st, rd, rs1, rs2, imm, ilen):
    return _Eff(True, o.add(st.pc, o.val(ilen)), npc=o.add(st.pc, o.val(imm)))


def _jalr(o, st, rd, rs1, rs2, imm, ilen):
    t = o.band(o.add(_xr(st, rs1), o.val(imm)), o.val(0xFFFFFFFE))
    return _Eff(True, o.add(st.pc, o.val(ilen)), npc=t)


def _lui(o, st, rd, rs1, rs2, imm, ilen):
    return _Eff(True, o.shl(o.val(imm), 12) if not o.sym else o.val(imm) << 12)


def _auipc(o, st, rd, rs1, rs2, imm, ilen):
    u = o.shl(o.val(imm), 12) if not o.sym else o.val(imm) << 12
    return _Eff(True, o.add(st.pc, u))


def _system(o, st, rd, rs1, rs2, imm, ilen):
    return _Eff(system=True)


SEM = {
    "lui": _lui, "auipc": _auipc, "jal": _jal, "jalr": _jalr,
    "beq": _branch(lambda o, a, b: o.eq(a, b)), "bne": _branch(lambda o, a, b: o.not_(o.eq(a, b))),
    "blt": _branch(lambda o, a, b: o.lts(a, b)), "bge": _branch(lambda o, a, b: o.not_(o.lts(a, b))),
    "bltu": _branch(lambda o, a, b: o.ltu(a, b)), "bgeu": _branch(lambda o, a, b: o.not_(o.ltu(a, b))),
    "lb": _load(1, True), "lh": _load(2, True), "lw": _load(4, True), "lbu": _load(1, False), "lhu": _load(2, False),
    "sb": _store(1), "sh": _store(2), "sw": _store(4),
    "addi": _alui(lambda o, a, b: o.add(a, b)),
    "slti": _alui(lambda o, a, b: _b2v(o, o.lts(a, b))), "sltiu": _alui(lambda o, a, b: _b2v(o, o.ltu(a, b))),
    "xori": _alui(lambda o, a, b: o.bxor(a, b)), "ori": _alui(lambda o, a, b: o.bor(a, b)),
    "andi": _alui(lambda o, a, b: o.band(a, b)),
    "slli": _alui(lambda o, a, b: o.shl(a, b)), "srli": _alui(lambda o, a, b: o.shr(a, b)),
    "srai": _alui(lambda o, a, b: o.sar(a, b)),
    "add": _alu(lambda o, a, b: o.add(a, b)), "sub": _alu(lambda o, a, b: o.sub(a, b)),
    "sll": _alu(lambda o, a, b: o.shl(a, b)), "slt": _alu(lambda o, a, b: _b2v(o, o.lts(a, b))),
    "sltu": _alu(lambda o, a, b: _b2v(o, o.ltu(a, b))), "xor": _alu(lambda o, a, b: o.bxor(a, b)),
    "srl": _alu(lambda o, a, b: o.shr(a, b)), "sra": _alu(lambda o, a, b: o.sar(a, b)),
    "or": _alu(lambda o, a, b: o.bor(a, b)), "and": _alu(lambda o, a, b: o.band(a, b)),
    "mul": _alu(lambda o, a, b: o.mul(a, b)), "mulh": _alu(lambda o, a, b: o.mulh(a, b)),
    "mulhsu": _alu(lambda o, a, b: o.mulhsu(a, b)), "mulhu": _alu(lambda o, a, b: o.mulhu(a, b)),
    "div": _alu(_div), "divu": _alu(_divu), "rem": _alu(_rem), "remu": _alu(_remu),
}
for _n in SYSTEM:
    SEM[_n] = _system


def step(st, word, ilen=None):
    """execute the instruction `word` (low halfword if compressed) on state st -> new State.
    An unmodelled / illegal word leaves registers, memory and pc unchanged and sets legal=False."""
    o = st.ops
    w = o.val(word)
    if not o.sym:
        if ilen is None:
            ilen = 4 if (w & 3) == 3 else 2
        if ilen == 2:
            w &= 0xFFFF
    d = decode(w, ilen)
    wr = False
    val = o.val(0)
    rdm = o.val(0)
    npc = st.pc
    legal = False
    system = False
    sts = [[False, o.val(0), o.byte(o.val(0), 0)] for _ in range(4)]
    for (c, name, f, n) in d.entries:
        base, rd, rs1, rs2, imm = d.expansion(name)
        e = SEM[base](o, st, rd, rs1, rs2, imm, n)
        legal = o.or_(legal, c) if o.sym else (legal or c)
        if e.system:
            system = o.or_(system, c) if o.sym else (system or c)
        if e.wr:
            wr = o.or_(wr, c) if o.sym else (wr or c)
            val = o.ite(c, e.val, val)
            rdm = o.ite(c, o.val(rd), rdm)
        seq = e.npc if e.npc is not None else o.add(st.pc, o.val(n))
        npc = o.ite(c, seq, npc)
        for i, (a, b) in enumerate(e.stores):
            sts[i][0] = o.or_(sts[i][0], c) if o.sym else (sts[i][0] or c)
            sts[i][1] = o.ite(c, a, sts[i][1])
            sts[i][2] = o.ite(c, b, sts[i][2])
    if type(st.x) is RegArray:
        x = st.x.write(rdm, val, wr)
    else:
        x = list(st.x)
    rc = o.conc(rdm)
    for i in (range(1, 32) if type(x) is list else ()):
        if rc is not None:
            if rc == i:
                x[i] = o.ite(wr, val, st.x[i])
        else:
            x[i] = o.ite(o.and_(wr, o.eq(rdm, o.val(i))), val, st.x[i])
    mem = st.mem
    for en, a, b in sts:
        if en is False:
            continue
        mem = mem.store_byte(a, b, en)
    return State(o, x, npc, mem, legal, system)


# ---------------------------------------------------------------------------------------------
# self-test ("validate the translator")
# ppci assembler spellings that differ from the manual's (only used to read the repo's test vectors)
_ASM_ALIAS = {"c.bneqz": "c.bnez"}
# repo test vectors whose register operands are not encodable in the 3-bit (x8..x15) fields of the
# CA/CB/CL/CS formats: the manual-derived truth of the listed bytes is given here (see C08 findings)
VECTOR_DEVIATIONS = {
    "c.sub x4, x7": ("c.sub", dict(rd=12, rs2=15)), "c.xor x4, x7": ("c.xor", dict(rd=12, rs2=15)),
    "c.or x4, x7": ("c.or", dict(rd=12, rs2=15)), "c.and x4, x7": ("c.and", dict(rd=12, rs2=15)),
    "c.srli x4, x4, 5": ("c.srli", dict(rd=12, imm=5)), "c.srai x4, x4, 5": ("c.srai", dict(rd=12, imm=5)),
    "c.lw x6, 4(x7)": ("c.lw", dict(rd=14, rs1=15, imm=4)), "c.sw x6, 4(x7)": ("c.sw", dict(rs2=14, rs1=15, imm=4)),
}
# assembler operand order per mnemonic (manual ch. 25 / GNU syntax; jalr also in the 3-operand form)
_SYNTAX = {}
for _n in ("add sub sll slt sltu xor srl sra or and mul mulh mulhsu mulhu div divu rem remu").split():
    _SYNTAX[_n] = ("rd", "rs1", "rs2")
for _n in "addi slti sltiu xori ori andi slli srli srai jalr".split():
    _SYNTAX[_n] = ("rd", "rs1", "imm")
for _n in "lb lh lw lbu lhu".split():
    _SYNTAX[_n] = ("rd", "imm(rs1)")
for _n in "sb sh sw".split():
    _SYNTAX[_n] = ("rs2", "imm(rs1)")
for _n in "beq bne blt bge bltu bgeu".split():
    _SYNTAX[_n] = ("rs1", "rs2", "label")
_SYNTAX.update({"lui": ("rd", "imm"), "auipc": ("rd", "imm"), "jal": ("rd", "label"),
                "ebreak": (), "ecall": (), "nop": (), "mv": ("rd", "rs1"), "li": ("rd", "imm"),
                "c.sub": ("rd", "rs2"), "c.xor": ("rd", "rs2"), "c.or": ("rd", "rs2"), "c.and": ("rd", "rs2"),
                "c.mv": ("rd", "rs2"), "c.add": ("rd", "rs2"),
                "c.srli": ("rd", "=rd", "imm"), "c.srai": ("rd", "=rd", "imm"), "c.addi": ("rd", "=rd", "imm"),
                "c.slli": ("rd", "=rd", "imm"), "c.andi": ("rd", "=rd", "imm"),
                "c.nop": (), "c.ebreak": (), "c.jal": ("label",), "c.j": ("label",), "c.jr": ("rs1",),
                "c.jalr": ("rs1",), "c.beqz": ("rs1", "label"), "c.bnez": ("rs1", "label"),
                "c.lw": ("rd", "imm(rs1)"), "c.sw": ("rs2", "imm(rs1)"),
                "c.lwsp": ("rd", "imm(=2)"), "c.swsp": ("rs2", "imm(=2)"), "c.li": ("rd", "imm")})
for _n in ("rdcycle", "rdcycleh", "rdtime", "rdtimeh", "rdinstret", "rdinstreth"):
    _SYNTAX[_n] = ("rd",)

_REGNAMES = {f"x{i}": i for i in range(32)}
_REGNAMES.update(zero=0, ra=1, sp=2, gp=3, tp=4, fp=8)


def _parse_vectors(path):
    """[(test name, [feed strings], bytes)] from a ppci assembler test file"""
    import re
    out = []
    cur = None
    for line in open(path):
        m = re.match(r"\s*def (test_\w+)", line)
        if m:
            cur = [m.group(1), [], None]
            out.append(cur)
            continue
        m = re.search(r"self\.feed\(\"(.*)\"\)", line)
        if m and cur:
            cur[1].append(m.group(1))
        m = re.search(r"self\.check\(\"(.*)\"\)", line)
        if m and cur:
            cur[2] = bytes.fromhex(m.group(1).replace(" ", ""))
    return [tuple(c) for c in out if c[2] is not None]


def _expect_from_asm(text, addr, labels):
    """(mnemonic per the manual, expected operand dict) for one assembler line"""
    mn, _, rest = text.strip().partition(" ")
    mn = _ASM_ALIAS.get(mn, mn)
    ops = [o.strip() for o in rest.split(",")] if rest.strip() else []
    syn = _SYNTAX[mn]
    if len(syn) != len(ops):
        raise AssertionError(f"operand count of {text!r}")
    exp = {}
    for kind, o in zip(syn, ops):
        if kind in ("rd", "rs1", "rs2"):
            exp[kind] = _REGNAMES[o]
        elif kind == "=rd":
            assert _REGNAMES[o] == exp["rd"], text
        elif kind == "imm":
            exp["imm"] = int(o, 0)
        elif kind == "label":
            exp["imm"] = labels[o] - addr
        elif kind.startswith("imm("):
            i, _, r = o.partition("(")
            exp["imm"] = int(i, 0)
            r = _REGNAMES[r.rstrip(")")]
            if kind == "imm(=2)":
                assert r == 2, text
            else:
                exp["rs1"] = r
    if mn in PSEUDO:
        base, fixed = PSEUDO[mn]
        exp.update(fixed)
        mn = base
    return mn, exp


def selftest(repo=None, verbose=False):
    """returns a dict of counters; raises AssertionError on any disagreement"""
    import os
    import random
    stats = dict(table_pairs=0, table_pairs_solver=0, vectors=0, vector_deviations=0, known_words=0,
                 step_cross=0, symdecode=0)
    # (A) the table is a function: no word matches two entries (solver for entries with side conditions)
    for tab, bitsn in ((TABLE32, 32), (TABLE16, 16)):
        w = z3.BitVec("w", 32)
        for i in range(len(tab)):
            for j in range(i + 1, len(tab)):
                m1, v1, n1, f1, c1 = tab[i]
                m2, v2, n2, f2, c2 = tab[j]
                stats["table_pairs"] += 1
                if (v1 ^ v2) & m1 & m2:
                    continue
                assert c1 is not None or c2 is not None, f"overlapping entries {n1} {n2}"
                s = z3.Solver()
                ww = z3.ZeroExt(16, z3.Extract(15, 0, w)) if bitsn == 16 else w
                for (m, v, n, f, c) in (tab[i], tab[j]):
                    s.add((ww & m) == v)
                    if c is not None:
                        s.add(c(Z3, f(Z3, ww)))
                stats["table_pairs_solver"] += 1
                assert s.check() == z3.unsat, f"overlapping entries {n1} {n2}: {s.model()}"
        for (m, v, n, f, c) in tab:
            assert v & ~m == 0 and (v & 3 == 3) == (bitsn == 32), n
    # (B) encodings well known from the manual's examples / GNU toolchain output
    known = {
        0x00000013: ("addi", dict(rd=0, rs1=0, imm=0)), 0x00008067: ("jalr", dict(rd=0, rs1=1, imm=0)),
        0xFE010113: ("addi", dict(rd=2, rs1=2, imm=-32)), 0x00112E23: ("sw", dict(rs1=2, rs2=1, imm=28)),
        0x02010413: ("addi", dict(rd=8, rs1=2, imm=32)), 0x02C58533: ("mul", dict(rd=10, rs1=11, rs2=12)),
        0x02C5C533: ("div", dict(rd=10, rs1=11, rs2=12)), 0x00000073: ("ecall", {}), 0x00100073: ("ebreak", {}),
        0x30200073: ("mret", {}), 0x0FF0000F: ("fence", dict(pred=15, succ=15, fm=0)),
        0xC0002573: ("csrrs", dict(rd=10, rs1=0, csr=0xC00)), 0x000012B7: ("lui", dict(rd=5, imm=1)),
        0xFFDFF06F: ("jal", dict(rd=0, imm=-4)), 0xFE000EE3: ("beq", dict(rs1=0, rs2=0, imm=-4)),
        0x8082: ("c.jr", dict(rs1=1)), 0x1141: ("c.addi", dict(rd=2, imm=-16)), 0xC606: ("c.swsp", dict(rs2=1, imm=12)),
        0x40B2: ("c.lwsp", dict(rd=1, imm=12)), 0x0141: ("c.addi", dict(rd=2, imm=16)),
        0x4501: ("c.li", dict(rd=10, imm=0)), 0x852E: ("c.mv", dict(rd=10, rs2=11)),
        0x95B2: ("c.add", dict(rd=11, rs2=12)), 0x0800: ("c.addi4spn", dict(rd=8, imm=16)),
        0x6105: ("c.addi16sp", dict(imm=32)), 0x7179: ("c.addi16sp", dict(imm=-48)), 0x0001: ("c.nop", dict(imm=0)),
        0x9002: ("c.ebreak", {}), 0x0000: (None, None),
    }
    for wv, (mn, opsd) in known.items():
        d = decode(wv)
        assert d.mnemonic == mn, (hex(wv), d.mnemonic, mn)
        if mn:
            got = {k: v for k, v in d.operands.items() if k != "simm"}
            assert got == opsd, (hex(wv), got, opsd)
        stats["known_words"] += 1
    # (C) the repo's assembler test vectors
    repo = repo or os.environ.get("PPCI_REPO", "/repo")
    for fn in ("test_riscvasm.py", "test_riscvrvcasm.py"):
        for tname, feeds, data in _parse_vectors(os.path.join(repo, "test", "arch", fn)):
            # pass 1: instruction lengths from the byte stream, label addresses
            labels, stmts, pos = {}, [], 0
            for t in feeds:
                if t.endswith(":"):
                    labels[t[:-1]] = pos
                    continue
                n = 4 if data[pos] & 3 == 3 else 2
                stmts.append((t, pos, n))
                pos += n
            assert pos == len(data), (tname, pos, len(data))
            for t, pos, n in stmts:
                wv = int.from_bytes(data[pos:pos + n], "little")
                d = decode(wv, n)
                assert d.mnemonic is not None, (tname, t, hex(wv))
                if t in VECTOR_DEVIATIONS:
                    mn, exp = VECTOR_DEVIATIONS[t]
                    stats["vector_deviations"] += 1
                else:
                    mn, exp = _expect_from_asm(t, pos, labels)
                got = d.operands
                assert d.mnemonic == mn, (tname, t, d.mnemonic, mn)
                for k, v in exp.items():
                    assert got[k] == v, (tname, t, k, got, exp)
                stats["vectors"] += 1
    # (D) PY and Z3 back ends of step() agree; decode on z3 / SymInt words agrees with ints
    rnd = random.Random(20191213)
    words = []
    for (m, v, n, f, c) in TABLE32 + TABLE16:
        full = M32 if (v & 3) == 3 else 0xFFFF
        for _ in range(3):
            words.append(((rnd.getrandbits(32) & ~m) | v) & full)
    corner = [0, 1, M32, MIN32, 0x7FFFFFFF, 2, 0xFFFFFFFE]
    for wv in words:
        x = [0] + [rnd.choice(corner) if rnd.random() < 0.4 else rnd.getrandbits(32) for _ in range(31)]
        pc = rnd.getrandbits(30) << 2
        mb = [rnd.getrandbits(8) for _ in range(8)]
        s1 = step(make_state(x, pc, membytes=mb), wv)
        zs = make_state([z3.BitVecVal(v, 32) for v in x], z3.BitVecVal(pc, 32),
                        membytes=[z3.BitVecVal(b, 8) for b in mb])
        s2 = step(zs, z3.BitVecVal(wv, 32))
        probe = rnd.getrandbits(32)
        got = [z3.simplify(v).as_long() for v in s2.x] + [z3.simplify(s2.pc).as_long(),
                                                         z3.simplify(s2.mem.load_byte(z3.BitVecVal(probe, 32))).as_long()]
        want = s1.x + [s1.pc, s1.mem.load_byte(probe)]
        assert got == want, (hex(wv), decode(wv).mnemonic)
        assert bool(s1.legal) == z3.is_true(z3.simplify(_zb(s2.legal))), hex(wv)
        arr = z3.K(z3.BitVecSort(5), z3.BitVecVal(0, 32))
        for k in range(1, 32):
            arr = z3.Store(arr, z3.BitVecVal(k, 5), z3.BitVecVal(x[k], 32))
        s3 = step(make_state(RegArray(arr), z3.BitVecVal(pc, 32), membytes=[z3.BitVecVal(b, 8) for b in mb]),
                  z3.BitVecVal(wv, 32))
        got3 = [z3.simplify(read_reg(s3, k)).as_long() for k in range(32)] + [z3.simplify(s3.pc).as_long()]
        assert got3 == s1.x + [s1.pc], (hex(wv), "register-array back end")
        stats["step_cross"] += 1
    return stats


if __name__ == "__main__":
    print(selftest())
