"""Reference semantics of the C3 language (integer / bool / pointer subset), executable on z3 terms and
on concrete values alike.  No ppci imports.  It interprets the ABSTRACT program (corpus/c3progs.py
documents the JSON form and renders it to C3 text with every operator application parenthesised).

Source of the rules: the property text of C37 ("fixed-width integer arithmetic of the declared types,
short-circuit conditions, loops, switch and calls, as computed by an equivalent C program under a
conforming C compiler"), docs/reference/lang/c3.rst (statements, `var`, `for` "works like in C") and the
language's own description of its binary-operator typing ("byte + int -> int, byte + byte -> byte": the
greatest common type).  Rules as implemented here:

 R1  types: int (signed, native width of the target = `int_bits`), byte = uint8_t, intN_t / uintN_t
     (N = 8,16,32,64), bool, pointers, structs, arrays.  An integer literal has type int, true/false bool.
 R2  arithmetic  + - * / % << >> & | ^ : both operands are converted to the common type = the operand
     type if both agree, otherwise the integer type of the larger width, signed if either operand is
     signed; the operation is carried out in that type with two's-complement wrap-around (this is the C
     program with the result cast back to the common type); `/` `%` truncate toward zero;
     `>>` is arithmetic on signed and logical on unsigned types.  Unary - and + keep the operand type.
 R3  comparisons convert to the common type and compare according to its signedness; result bool.
 R4  conversions (initialisation, assignment, argument, return, cast<T>(e)) between integer types keep
     the value if representable and reduce it modulo 2**N otherwise (gcc's documented behaviour).
 R5  `and` `or` evaluate left to right and skip the right operand when the left one decides; `not`.
 R6  undefined (a premise, never a failure): division / remainder by zero, MIN / -1, shift count negative
     or >= width of the operation type, array index outside [0, n), reading an uninitialised local,
     a pointer to a dead local.
 R7  `x op= e` is `x = x op cast<typeof x>(e)` (x evaluated once); compound statements, if/else, while,
     for(init; cond; step) as in C; switch compares the int selector with the case constants in textual
     order and runs exactly the first matching option (no fall-through), else `default`.
 R8  calls: arguments evaluated left to right, converted to the parameter types; by-value; locals live
     until the function returns.  Expression evaluation order is left to right (the generated programs
     do not depend on it except for R5).
 R9  `const T name = e` / global initialisers: e is evaluated by the same rules (constant operands).
Branching on a symbolic condition forks through the active symx engine; undefined behaviour is *assumed
away* at the point where it would occur (engine.assume; in a concrete run the path is abandoned).
"""
import z3
from symx import core


class Unsupported(Exception):
    """construct outside the modelled subset"""


class StepLimit(Exception):
    """unwinding bound reached"""


class Undefined(Exception):
    """the execution reached an operation that is undefined for every input of the current path (R6)"""


class _Return(Exception):
    def __init__(self, val):
        self.val = val


FIXED = {"int8_t": (8, True), "int16_t": (16, True), "int32_t": (32, True), "int64_t": (64, True),
         "uint8_t": (8, False), "uint16_t": (16, False), "uint32_t": (32, False), "uint64_t": (64, False),
         "byte": (8, False)}
ARITH = ("+", "-", "*", "/", "%", "<<", ">>", "&", "|", "^")
COMPARE = ("==", "!=", "<", ">", "<=", ">=")


def _simpl(t):
    return z3.simplify(t)


class Types:
    """type names of a program -> structure"""

    def __init__(self, int_bits, typedefs=()):
        self.int_bits = int_bits
        self.defs = {name: spec for name, spec in typedefs}

    def resolve(self, T):
        """-> ('int', bits, signed) | ('bool',) | ('void',) | ('ptr', T) | ('arr', T, n) | ('struct', [(field, T)])"""
        if isinstance(T, (list, tuple)):
            if T[0] == "ptr":
                return ("ptr", T[1])
            if T[0] == "arr":
                return ("arr", T[1], int(T[2]))
            if T[0] == "struct":
                return ("struct", [(f, t) for t, f in T[1]])
            if T[0] == "int":
                return ("int", T[1], T[2])
            raise Unsupported(f"type {T}")
        if T == "int":
            return ("int", self.int_bits, True)
        if T in FIXED:
            return ("int",) + FIXED[T]
        if T == "bool":
            return ("bool",)
        if T == "void":
            return ("void",)
        if T in self.defs:
            return self.resolve(self.defs[T])
        raise Unsupported(f"type {T}")

    def is_int(self, T):
        return self.resolve(T)[0] == "int"

    def bits(self, T):
        r = self.resolve(T)
        if r[0] == "int":
            return r[1]
        if r[0] == "bool":
            return self.int_bits
        raise Unsupported(f"no scalar width: {T}")

    def same(self, A, B):
        a, b = self.resolve(A), self.resolve(B)
        if a[0] != b[0]:
            return False
        if a[0] == "ptr":
            return True
        return a == b

    def common(self, A, B):
        """R2: the type a binary operator works in"""
        a, b = self.resolve(A), self.resolve(B)
        if a[0] == "int" and b[0] == "int":
            if a == b:
                return A
            return ("int", max(a[1], b[1]), a[2] or b[2])
        if a == b:
            return A
        raise Unsupported(f"no common type for {A} and {B}")


class Cell:
    __slots__ = ("ty", "val", "live")

    def __init__(self, ty, val=None):
        self.ty = ty
        self.val = val
        self.live = True


class C3Sem:
    def __init__(self, prog, int_bits, init_globals=None, max_steps=3000, max_depth=4):
        """prog: abstract program (dict, see corpus/c3progs.py).  init_globals: {name: z3 term of the type's
        width | z3 Bool | list of those (arrays)} for globals without initialiser."""
        self.p = prog
        self.ty = Types(int_bits, prog.get("types", ()))
        self.max_steps = max_steps
        self.max_depth = max_depth
        self.steps = 0
        self.assumed = 0
        self.funcs = {f["name"]: f for f in prog["functions"]}
        self.consts = {}
        for T, name, e in prog.get("consts", ()):
            t, v = self.eval(e, None)
            self.consts[name] = (T, self.convert(v, t, T))
        self.globals = {}
        for T, name, init in prog.get("globals", ()):
            if init is not None:
                self.globals[name] = self.make_storage(T, self.init_value(T, init, None))
            else:
                self.globals[name] = self.make_storage(T, (init_globals or {}).get(name))

    # -- plumbing -----------------------------------------------------------------------------------
    def decide(self, cond):
        c = _simpl(cond)
        if z3.is_true(c):
            return True
        if z3.is_false(c):
            return False
        if core.ENG is None:
            raise Unsupported(f"symbolic branch without engine: {c}")
        return core.ENG.decide(c)

    def require(self, cond):
        """the program is defined only if cond holds: premise of the property (R6)"""
        c = _simpl(cond)
        if z3.is_true(c):
            return
        self.assumed += 1
        if z3.is_false(c):
            raise Undefined()
        eng = core.ENG
        if eng is None:
            raise Unsupported(f"symbolic premise without engine: {c}")
        # no input of the current path may satisfy the premise: the path is undefined as a whole (reported as
        # such, never claimed); otherwise the premise joins the path condition without a fork
        m = eng.current_model()
        if m is None or not z3.is_true(m.eval(c, model_completion=True)):
            eng.solver.push()
            try:
                eng.solver.add(c)
                unsat = eng.solver.check() == z3.unsat
            finally:
                eng.solver.pop()
            if unsat:
                raise Undefined()
        eng.assume(core.SymBool(c))

    def tick(self):
        self.steps += 1
        if self.steps > self.max_steps:
            raise StepLimit("max steps")

    # -- storage ------------------------------------------------------------------------------------
    def make_storage(self, T, init=None):
        r = self.ty.resolve(T)
        if r[0] == "arr":
            init = init if init is not None else [None] * r[2]
            return ("arr", r[1], [self.make_storage(r[1], init[k]) for k in range(r[2])])
        if r[0] == "struct":
            init = init or {}
            return ("struct", {f: self.make_storage(t, init.get(f)) for f, t in r[1]})
        return Cell(T, init)

    def init_value(self, T, init, fr):
        """initialiser (expression | ["list", ..] | ["named", ..]) -> initial contents for make_storage"""
        r = self.ty.resolve(T)
        if init[0] == "list":
            if r[0] != "arr" or len(init[1]) != r[2]:
                raise Unsupported("array initialiser shape")
            return [self.init_value(r[1], x, fr) for x in init[1]]
        if init[0] == "named":
            if r[0] != "struct" or [f for f, _ in init[1]] != [f for f, _ in r[1]]:
                raise Unsupported("struct initialiser shape")
            return {f: self.init_value(t, x, fr) for (f, t), (_, x) in zip(r[1], init[1])}
        t, v = self.eval(init, fr)
        return self.convert(v, t, T)

    def read(self, loc):
        kind = loc[0]
        if kind == "cell":
            c = loc[1]
            self.require(z3.BoolVal(c.live and c.val is not None))
            return c.ty, c.val
        if kind == "elem":
            _, ety, cells, idx = loc
            n = len(cells)
            self.require(z3.And(idx >= 0, idx < n))
            for c in cells:
                self.require(z3.BoolVal(c.live and c.val is not None))
            v = cells[n - 1].val
            for k in range(n - 2, -1, -1):
                v = z3.If(idx == k, cells[k].val, v)
            return ety, v
        raise Unsupported(f"read of {kind}")

    def write(self, loc, val):
        kind = loc[0]
        if kind == "cell":
            self.require(z3.BoolVal(loc[1].live))
            loc[1].val = val
            return
        if kind == "elem":
            _, ety, cells, idx = loc
            n = len(cells)
            self.require(z3.And(idx >= 0, idx < n))
            for k, c in enumerate(cells):
                if c.val is None:
                    # partially initialised array written at a symbolic index: keep it simple
                    raise Unsupported("symbolic-index store into an uninitialised array")
                c.val = z3.If(idx == k, val, c.val)
            return
        raise Unsupported(f"write of {kind}")

    def loc_type(self, loc):
        if loc[0] == "cell":
            return loc[1].ty
        if loc[0] == "elem":
            return loc[1]
        if loc[0] == "struct":
            return loc[2]
        if loc[0] == "arr":
            return ("arr", loc[1], len(loc[2]))
        raise Unsupported(loc[0])

    def lvalue(self, e, fr):
        """-> ('cell', Cell) | ('elem', elemtype, [Cell], index term) | ('struct', {..}, T) | ('arr', T, [..])"""
        k = e[0]
        if k == "var":
            name = e[1]
            st = fr["vars"].get(name) if fr is not None and name in fr["vars"] else self.globals.get(name)
            if st is None:
                raise Unsupported(f"unknown variable {name}")
            return self._as_loc(st)
        if k == "deref":
            t, v = self.eval(e[1], fr)
            if self.ty.resolve(t)[0] != "ptr" or not isinstance(v, tuple):
                raise Unsupported("deref of non-pointer")
            return v[1]
        if k == "field":
            base = self.lvalue(e[1], fr)
            if base[0] != "struct":
                raise Unsupported("field of non-struct")
            return self._as_loc(base[1][e[2]])
        if k == "index":
            base = self.lvalue(e[1], fr)
            if base[0] != "arr":
                raise Unsupported("index of non-array")
            t, i = self.eval(e[2], fr)
            i = self.convert(i, t, "int")
            cells = base[2]
            if not all(isinstance(c, Cell) for c in cells):
                raise Unsupported("array of aggregates")
            i = _simpl(i)
            if z3.is_bv_value(i):
                j = i.as_signed_long()
                self.require(z3.BoolVal(0 <= j < len(cells)))
                return ("cell", cells[j])
            return ("elem", base[1], cells, i)
        raise Unsupported(f"not an lvalue: {k}")

    @staticmethod
    def _as_loc(st):
        if isinstance(st, Cell):
            return ("cell", st)
        if st[0] == "struct":
            return ("struct", st[1], None)
        return ("arr", st[1], st[2])

    # -- values -------------------------------------------------------------------------------------
    def convert(self, v, S, T):
        """R4"""
        s, t = self.ty.resolve(S), self.ty.resolve(T)
        if s[0] == "int" and t[0] == "int":
            n1, n2 = s[1], t[1]
            if n2 == n1:
                return v
            if n2 < n1:
                return z3.Extract(n2 - 1, 0, v)
            return z3.SignExt(n2 - n1, v) if s[2] else z3.ZeroExt(n2 - n1, v)
        if s[0] == t[0] and s[0] in ("bool", "ptr"):
            return v
        raise Unsupported(f"conversion {S} -> {T}")

    def lit(self, n, T="int"):
        b = self.ty.bits(T)
        return z3.BitVecVal(n & ((1 << b) - 1), b)

    def arith(self, op, a, b, T):
        _, n, signed = self.ty.resolve(T)
        if op == "+":
            return a + b
        if op == "-":
            return a - b
        if op == "*":
            return a * b
        if op == "&":
            return a & b
        if op == "|":
            return a | b
        if op == "^":
            return a ^ b
        if op in ("/", "%"):
            self.require(b != 0)
            if signed:
                self.require(z3.Not(z3.And(a == z3.BitVecVal(1 << (n - 1), n), b == z3.BitVecVal(-1, n))))
                return (a / b) if op == "/" else z3.SRem(a, b)
            return z3.UDiv(a, b) if op == "/" else z3.URem(a, b)
        if op in ("<<", ">>"):
            self.require(z3.ULT(b, z3.BitVecVal(n, n)))     # also excludes negative counts (unsigned reading)
            if op == "<<":
                return a << b
            return (a >> b) if signed else z3.LShR(a, b)
        raise Unsupported(f"operator {op}")

    def compare(self, op, a, b, T):
        signed = self.ty.resolve(T)[2]
        if op == "==":
            return a == b
        if op == "!=":
            return a != b
        if op == "<":
            return (a < b) if signed else z3.ULT(a, b)
        if op == ">":
            return (a > b) if signed else z3.UGT(a, b)
        if op == "<=":
            return (a <= b) if signed else z3.ULE(a, b)
        if op == ">=":
            return (a >= b) if signed else z3.UGE(a, b)
        raise Unsupported(op)

    def eval(self, e, fr):
        """-> (type, value): integer types: z3 bit-vector; bool: z3 Bool; pointer: ('ref', location)"""
        self.tick()
        k = e[0]
        if k == "lit":
            return "int", self.lit(e[1])
        if k == "bool":
            return "bool", z3.BoolVal(bool(e[1]))
        if k == "sizeof":
            r = self.ty.resolve(e[1])
            if r[0] not in ("int", "bool"):
                raise Unsupported("sizeof of a non-scalar type")
            return "int", self.lit(self.ty.bits(e[1]) // 8)
        if k == "var" and e[1] in self.consts and (fr is None or e[1] not in fr["vars"]):
            return self.consts[e[1]]
        if k in ("var", "deref", "field", "index"):
            if fr is None and k != "var":
                raise Unsupported("non-constant expression in a constant context")
            if fr is None:
                raise Unsupported(f"{e[1]} is not a constant")
            loc = self.lvalue(e, fr)
            if loc[0] in ("struct", "arr"):
                raise Unsupported("aggregate used as a value")
            return self.read(loc)
        if k == "bin":
            _, op, x, y = e
            ta, a = self.eval(x, fr)
            tb, b = self.eval(y, fr)
            T = self.ty.common(ta, tb)
            if not self.ty.is_int(T):
                raise Unsupported(f"arithmetic on {T}")
            return T, self.arith(op, self.convert(a, ta, T), self.convert(b, tb, T), T)
        if k == "cmp":
            _, op, x, y = e
            ta, a = self.eval(x, fr)
            tb, b = self.eval(y, fr)
            T = self.ty.common(ta, tb)
            r = self.ty.resolve(T)
            if r[0] == "bool":
                if op not in ("==", "!="):
                    raise Unsupported("ordering of bools")
                return "bool", (a == b) if op == "==" else (a != b)
            if r[0] != "int":
                raise Unsupported(f"comparison of {T}")
            return "bool", self.compare(op, self.convert(a, ta, T), self.convert(b, tb, T), T)
        if k in ("and", "or"):
            ta, a = self.eval(e[1], fr)
            self._want_bool(ta)
            if self.decide(a):
                if k == "or":
                    return "bool", z3.BoolVal(True)
            elif k == "and":
                return "bool", z3.BoolVal(False)
            tb, b = self.eval(e[2], fr)
            self._want_bool(tb)
            return "bool", b
        if k == "not":
            ta, a = self.eval(e[1], fr)
            self._want_bool(ta)
            return "bool", z3.Not(a)
        if k == "neg":
            ta, a = self.eval(e[1], fr)
            if not self.ty.is_int(ta):
                raise Unsupported("unary minus on a non-integer")
            return ta, -a
        if k == "pos":
            return self.eval(e[1], fr)
        if k == "cast":
            ta, a = self.eval(e[2], fr)
            return e[1], self.convert(a, ta, e[1])
        if k == "addr":
            loc = self.lvalue(e[1], fr)
            return ("ptr", self.loc_type(loc)), ("ref", loc)
        if k == "call":
            T, v = self.call(e[1], [self.eval(a, fr) for a in e[2]], fr)
            if v is None:
                raise Unsupported("void call used as a value")
            return T, v
        raise Unsupported(f"expression {k}")

    def _want_bool(self, T):
        if self.ty.resolve(T)[0] != "bool":
            raise Unsupported(f"condition of type {T}")

    # -- statements ---------------------------------------------------------------------------------
    def call(self, name, args, fr=None):
        f = self.funcs[name]
        depth = 0 if fr is None else fr["depth"] + 1
        if depth > self.max_depth:
            raise StepLimit("call depth")
        if len(args) != len(f["params"]):
            raise Unsupported("argument count")
        new = dict(vars={}, depth=depth, ret=f["ret"])
        for (T, pname), (ta, a) in zip(f["params"], args):
            new["vars"][pname] = Cell(T, self.convert(a, ta, T))
        try:
            self.block(f["body"], new)
            if self.ty.resolve(f["ret"])[0] != "void":
                raise Unsupported("control reaches the end of a non-void function")
            r = None
        except _Return as x:
            r = x.val
        self._kill(new["vars"].values())
        return f["ret"], r

    def _kill(self, sts):
        for st in sts:
            if isinstance(st, Cell):
                st.live = False
            elif st[0] == "struct":
                self._kill(st[1].values())
            else:
                self._kill(st[2])

    def block(self, stmts, fr):
        for s in stmts:
            self.stmt(s, fr)

    def cond(self, e, fr):
        t, v = self.eval(e, fr)
        self._want_bool(t)
        return self.decide(v)

    def stmt(self, s, fr):
        self.tick()
        k = s[0]
        if k == "decl":
            _, T, name, init = s
            if name in fr["vars"]:
                # one storage per name and function (C3 locals are function-scoped); a declaration that is
                # executed again (loop body) re-initialises it
                st = fr["vars"][name]
            else:
                st = fr["vars"][name] = self.make_storage(T)
            if init is not None:
                val = self.init_value(T, init, fr)
                if isinstance(st, Cell):
                    st.val = val
                else:
                    fr["vars"][name] = self.make_storage(T, val)
        elif k == "assign":
            _, op, lv, e = s
            loc = self.lvalue(lv, fr)
            T = self.loc_type(loc)
            t, v = self.eval(e, fr)
            v = self.convert(v, t, T)
            if op != "=":
                _, old = self.read(loc)
                v = self.arith(op[:-1], old, v, T)
            self.write(loc, v)
        elif k == "if":
            if self.cond(s[1], fr):
                self.block(s[2], fr)
            elif s[3] is not None:
                self.block(s[3], fr)
        elif k == "while":
            while self.cond(s[1], fr):
                self.tick()
                self.block(s[2], fr)
        elif k == "for":
            _, init, c, step, body = s
            if init is not None:
                self.stmt(init, fr)
            while self.cond(c, fr):
                self.tick()
                self.block(body, fr)
                if step is not None:
                    self.stmt(step, fr)
        elif k == "switch":
            t, v = self.eval(s[1], fr)
            v = self.convert(v, t, "int")
            default = None
            for val, body in s[2]:
                if val is None:
                    default = body
            for val, body in s[2]:
                if val is None:
                    continue
                tc, c = self.eval(val, None)
                if self.decide(v == self.convert(c, tc, "int")):
                    self.block(body, fr)
                    return
            if default is None:
                raise Unsupported("switch without default")
            self.block(default, fr)
        elif k == "return":
            if s[1] is None:
                raise _Return(None)
            t, v = self.eval(s[1], fr)
            raise _Return(self.convert(v, t, fr["ret"]))
        elif k == "callstmt":
            self.call(s[1], [self.eval(a, fr) for a in s[2]], fr)
        elif k == "block":
            self.block(s[1], fr)
        elif k == "empty":
            pass
        else:
            raise Unsupported(f"statement {k}")

    # -- entry --------------------------------------------------------------------------------------
    def run(self, fname, args):
        """args: list of z3 terms (bit-vector of the parameter's width / Bool).  Returns z3 term | Bool | None"""
        f = self.funcs[fname]
        _, r = self.call(fname, [(T, a) for (T, _), a in zip(f["params"], args)])
        return r

    def global_value(self, name):
        st = self.globals[name]
        if isinstance(st, Cell):
            return st.val
        if st[0] == "arr" and all(isinstance(c, Cell) for c in st[2]):
            return [c.val for c in st[2]]
        return None         # struct: the layout is the implementation's choice; observed through reads only
