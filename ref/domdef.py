"""Path-based definitions of reachability, dominance, post-dominance, immediate (post-)dominators
and dominance frontiers on a finite directed graph (independent of ppci).

The graph is an n x n adjacency matrix `adj[i][j]` ("edge i -> j present") whose entries are plain
bools or symx SymBools; every function returns matrices of the same kind (formulas over the edge
variables when they are symbolic, plain bools otherwise), so the same text serves as the solver
oracle and as the concrete replay oracle.

Definitions (textbook, e.g. Appel ch. 18/19, Cytron et al. 1991):
  reach*(s, t)       there is a path s -> ... -> t of length >= 0
  reach+(s, t)       there is a path of length >= 1
  d dom v            every path entry -> ... -> v contains d
                     <=>  d == v  or  v is NOT reachable from entry in the graph with d removed
  d sdom v           d dom v and d != v
  d idom v           d sdom v and every c with c sdom v satisfies c dom d   (closest strict dominator)
  y in DF(x)         x dominates some predecessor of y and x does not strictly dominate y
  p pdom v           every path v -> ... -> exit contains p
                     <=>  p == v  or  exit is NOT reachable from v in the graph with p removed
  p ipdom v          p spdom v and every c with c spdom v satisfies c pdom p
Nothing here is an algorithm for dominators: dominance is decided by n reachability closures, one per
removed node.
"""
from symx.core import sym_and, sym_or, sym_not


def _or(xs):
    xs = list(xs)
    if not xs:
        return False
    return sym_or(*xs) if len(xs) > 1 else xs[0]


def _and(xs):
    xs = list(xs)
    if not xs:
        return True
    return sym_and(*xs) if len(xs) > 1 else xs[0]


def closure(adj, n, removed=None):
    """reflexive-transitive closure restricted to the nodes != removed.
    R[i][j] (i, j != removed): j reachable from i by a path of length >= 0 avoiding `removed`;
    rows/columns of the removed node are False."""
    alive = [k for k in range(n) if k != removed]
    R = [[False] * n for _ in range(n)]
    for i in alive:
        for j in alive:
            R[i][j] = True if i == j else adj[i][j]
    # Warshall: after round k, R[i][j] = path using intermediate nodes from alive[:k+1]
    for k in alive:
        new = [row[:] for row in R]
        for i in alive:
            if i == k:
                continue
            for j in alive:
                if j == k or i == j:
                    continue
                new[i][j] = sym_or(R[i][j], sym_and(R[i][k], R[k][j]))
        R = new
    return R


def reach_plus(adj, n):
    """P[i][j]: path of length >= 1 from i to j"""
    R = closure(adj, n)
    return [[_or(sym_and(adj[i][m], R[m][j]) for m in range(n)) for j in range(n)] for i in range(n)]


def all_reachable_from(adj, n, entry):
    R = closure(adj, n)
    return _and(R[entry][v] for v in range(n))


def all_reach(adj, n, exit_):
    R = closure(adj, n)
    return _and(R[v][exit_] for v in range(n))


def dominators(adj, n, entry):
    """D[d][v]: d dominates v"""
    D = [[False] * n for _ in range(n)]
    for d in range(n):
        R = closure(adj, n, removed=d)
        for v in range(n):
            if d == v:
                D[d][v] = True
            elif d == entry:
                D[d][v] = True      # removing the entry leaves no path at all
            else:
                D[d][v] = sym_not(R[entry][v])
    return D


def post_dominators(adj, n, exit_):
    """P[p][v]: p post-dominates v"""
    P = [[False] * n for _ in range(n)]
    for p in range(n):
        R = closure(adj, n, removed=p)
        for v in range(n):
            if p == v:
                P[p][v] = True
            elif p == exit_:
                P[p][v] = True
            else:
                P[p][v] = sym_not(R[v][exit_])
    return P


def strict(D, n):
    return [[False if d == v else D[d][v] for v in range(n)] for d in range(n)]


def immediate(D, n):
    """I[d][v]: d is the immediate (post-)dominator of v, from the (post-)dominance matrix D"""
    S = strict(D, n)
    I = [[False] * n for _ in range(n)]
    for d in range(n):
        for v in range(n):
            if d == v:
                continue
            I[d][v] = sym_and(S[d][v], *[sym_or(sym_not(S[c][v]), D[c][d]) for c in range(n) if c != d])
    return I


def dominance_frontier(adj, n, entry, D=None):
    """F[x][y]: y is in the dominance frontier of x"""
    D = D or dominators(adj, n, entry)
    S = strict(D, n)
    F = [[False] * n for _ in range(n)]
    for x in range(n):
        for y in range(n):
            F[x][y] = sym_and(_or(sym_and(adj[p][y], D[x][p]) for p in range(n)), sym_not(S[x][y]))
    return F


def has_cycle_reachable(adj, n, roots):
    """some node reachable (length >= 0) from a node with roots[r] true lies on a cycle.
    roots: list of bools/SymBools."""
    R = closure(adj, n)
    P = reach_plus(adj, n)
    return _or(sym_and(roots[r], R[r][v], P[v][v]) for r in range(n) for v in range(n))


def reachable_set(adj, n, roots):
    """S[v]: v reachable (length >= 0) from some root"""
    R = closure(adj, n)
    return [_or(sym_and(roots[r], R[r][v]) for r in range(n)) for v in range(n)]
