"""GDB Remote Serial Protocol, packet layer -- reference written from the GDB manual, appendix E.1
"Overview" (no ppci imports).  Works on lists of code points that are plain ints or symx proxies.

    packet        $ packet-data # checksum
    checksum      two hex digits: sum of all characters between '$' and '#', modulo 256
    escaping      '#', '$', '}' never appear in packet-data; they are sent as '}' followed by the
                  character XOR 0x20 ('*' must be escaped in stub responses, may be escaped always);
                  the receiver restores  '}' c  to  c XOR 0x20
    acknowledgement  the receiver answers '+' to a packet whose checksum is correct (and hands the
                  data on) and '-' otherwise; on '-' the sender transmits the packet again

Left open by the manual and therefore never demanded by the oracles below: a '$' inside packet-data
(GDB itself restarts the packet), a '}' that is the last character of packet-data, run-length
encoding ('*' in responses).
"""
from symx.core import sym_and, sym_or, sym_not, ite, SymInt

DOLLAR, HASH, RBRACE, STAR, PLUS, MINUS = 0x24, 0x23, 0x7D, 0x2A, 0x2B, 0x2D
MUST_ESCAPE = (HASH, DOLLAR, RBRACE)


def checksum(cps):
    s = 0
    for c in cps:
        s = s + c
    return s % 256


def is_hexdigit(c):
    return sym_or(sym_and(c >= 48, c <= 57), sym_and(c >= 97, c <= 102), sym_and(c >= 65, c <= 70))


def hexdigit_value(c):
    """value of a hex digit (either case); only meaningful where is_hexdigit(c)"""
    return ite(c <= 57, c - 48, ite(c >= 97, c - 87, c - 55))


def checksum_field_ok(h1, h2, data):
    """the two characters after '#' are hex digits denoting sum(data) mod 256"""
    return sym_and(is_hexdigit(h1), is_hexdigit(h2),
                   hexdigit_value(h1) * 16 + hexdigit_value(h2) == checksum(data))


def unescape(cps):
    """packet-data -> payload.  Returns (payload, dangling) where dangling says that the data ended
    in the middle of an escape sequence (payload then excludes it).  Forks per character on c == '}'."""
    out = []
    esc = False
    for c in cps:
        if esc:
            out.append(c ^ 0x20)
            esc = False
        elif c == RBRACE:
            esc = True
        else:
            out.append(c)
    return out, esc


def escape(cps):
    """canonical sender-side escaping (only used to BUILD well-formed incoming packets in harnesses)"""
    out = []
    for c in cps:
        if sym_or(c == HASH, c == DOLLAR, c == RBRACE, c == STAR):
            out.extend([RBRACE, c ^ 0x20])
        else:
            out.append(c)
    return out


def hexdigits_of(v):
    """two lowercase hex digit code points of 0 <= v < 256 (no fork)"""
    hi, lo = (v >> 4) & 0xF, v & 0xF
    f = lambda n: ite(n < 10, n + 48, n + 87)
    return [f(hi), f(lo)]


def frame(payload):
    """a well-formed packet for payload, as a list of code points"""
    body = escape(payload)
    return [DOLLAR] + body + [HASH] + hexdigits_of(checksum(body))


def seqs_equal(a, b):
    if len(a) != len(b):
        return False
    return sym_and(True, *[x == y for x, y in zip(a, b)])


def frame_conforms(wire, payload):
    """Is `wire` (code points) a packet that the manual allows a sender to emit for `payload`?
    -> {label: bool/SymBool}"""
    n = len(wire)
    if n < 4:
        return {"frame-shape": False}
    body = wire[1:n - 3]
    raw_special = [sym_or(c == HASH, c == DOLLAR) for c in body]
    restored, dangling = unescape(body)
    return {
        "frame-shape": sym_and(wire[0] == DOLLAR, wire[n - 3] == HASH),
        "frame-no-raw-special": sym_not(sym_or(False, *raw_special)),
        "frame-checksum": checksum_field_ok(wire[n - 2], wire[n - 1], body),
        "frame-unescapes-to-payload": False if dangling else seqs_equal(restored, payload),
    }


def receive(stream):
    """Reference receiver for a byte stream (list of code points), as far as the manual determines it.
    Returns (events, determined): events is a list of ("ack", cp) for a '+'/'-' seen between packets,
    ("msg", payload) + reply '+' for a packet with correct checksum, ("bad",) + reply '-' for a packet
    with incorrect checksum; determined is False if the stream runs into one of the cases the manual
    leaves open ('$' inside packet-data, dangling '}'); an incomplete packet at the end of the stream
    produces no event.  Forks on the role of every byte."""
    events = []
    i, n = 0, len(stream)
    while i < n:
        c = stream[i]
        if c == DOLLAR:
            j = i + 1
            while j < n:
                if stream[j] == HASH:
                    break
                if stream[j] == DOLLAR:
                    return events, False
                j += 1
            if j + 2 >= n:
                return events, True          # incomplete packet: nothing may be delivered
            data = stream[i + 1:j]
            if checksum_field_ok(stream[j + 1], stream[j + 2], data):
                payload, dangling = unescape(data)
                if dangling:
                    return events, False
                events.append(("msg", payload))
            else:
                events.append(("bad",))
            i = j + 3
        elif c == PLUS or c == MINUS:
            events.append(("ack", c))
            i += 1
        else:
            i += 1                            # junk between packets is ignored
    return events, True
