"""Field inventory of a ppci object file, written from the property text of C14
("equal in sections, addresses, alignment, data, symbols, relocations, memory images,
entry point and debug information") -- independent of ObjectFile.__eq__ and of the
serializer.  No ppci import: only attribute reads on the objects handed in.

snap_object(obj)  -> plain nested data (dict / list / str / int / None; integer leaves may be
                     symbolic proxies) holding EVERY field named by the property, incl. the ones
                     ObjectFile.__eq__ does not look at (entry point, debug info, arch, lookup maps).
diff(a, b)        -> {label: condition}; label = field path with list indices removed
                     ("sections.address", "debug.functions.variables.address.size", ...), condition =
                     conjunction of the leaf equalities under that label (bool or symbolic bool).
Works on proxies and on plain values alike.
"""
from symx.core import sym_and, SymInt, SymBool


def _addr(a):
    cn = type(a).__name__
    if cn == "DebugAddress":
        return {"kind": "fixed", "symbol_id": a.symbol_id}
    if cn == "FpOffsetAddress":
        off = a.offset
        if hasattr(off, "offset"):      # a StackLocation (what the code generator stores)
            return {"kind": "fprel", "offset": off.offset, "size": off.size}
        return {"kind": "fprel-raw", "offset": off}
    if cn == "UnknownAddress":
        return {"kind": "unknown"}
    if a is None:
        return {"kind": "none"}
    return {"kind": "?" + cn}


def _loc(loc):
    return {"filename": loc.filename, "row": loc.row, "col": loc.col, "length": loc.length}


def snap_debug(di):
    """canonical dump of a DebugInfo: types are numbered in order of first discovery from the
    roots (types list, locations, variables, functions), so two isomorphic type graphs dump alike"""
    if di is None:
        return None
    table = []
    ids = {}

    def tref(t):
        if t is None:
            return None
        k = id(t)
        if k in ids:
            return ids[k]
        n = ids[k] = len(table)
        table.append(None)
        cn = type(t).__name__
        if cn == "DebugBaseType":
            e = {"kind": "base", "name": t.name, "size": t.size, "encoding": t.encoding}
        elif cn == "DebugStructType":
            e = {"kind": "struct",
                 "fields": [{"name": f.name, "typ": tref(f.typ), "offset": f.offset} for f in t.fields]}
        elif cn == "DebugPointerType":
            e = {"kind": "pointer", "pointed": tref(t.pointed_type)}
        elif cn == "DebugArrayType":
            e = {"kind": "array", "element": tref(t.element_type), "size": t.size}
        else:
            e = {"kind": "?" + cn}
        table[n] = e
        return n

    def var(v):
        return {"name": v.name, "typ": tref(v.typ), "loc": _loc(v.loc), "address": _addr(v.address)}

    out = {"types": [tref(t) for t in di.types],
           "locations": [{"loc": _loc(x.loc), "address": _addr(x.address)} for x in di.locations],
           "variables": [var(v) for v in di.variables],
           "functions": [{"name": f.name, "loc": _loc(f.loc), "return_type": tref(f.return_type),
                          "arguments": [{"name": a.name, "typ": tref(a.typ)} for a in f.arguments],
                          "begin": _addr(f.begin), "end": _addr(f.end),
                          "variables": [var(v) for v in f.variables]} for f in di.functions]}
    out["typetable"] = table
    return out


def snap_object(obj):
    secidx = {id(s): i for i, s in enumerate(obj.sections)}
    symidx = {id(s): i for i, s in enumerate(obj.symbols)}
    imgidx = {id(s): i for i, s in enumerate(obj.images)}
    return {
        "arch": obj.arch.make_id_str(),
        "sections": [{"name": s.name, "address": s.address, "alignment": s.alignment,
                      "data": list(s.data), "size": len(s.data)} for s in obj.sections],
        "symbols": [{"id": s.id, "name": s.name, "binding": s.binding, "value": s.value,
                     "section": s.section, "typ": s.typ, "size": s.size} for s in obj.symbols],
        "relocations": [{"reloc_type": r.reloc_type, "symbol_id": r.symbol_id, "section": r.section,
                         "offset": r.offset, "addend": r.addend} for r in obj.relocations],
        "images": [{"name": im.name, "address": im.address,
                    # which section OBJECTS the image holds (index into obj.sections; -1 = foreign)
                    "sections": [secidx.get(id(s), -1) for s in im.sections],
                    "section_names": [s.name for s in im.sections]} for im in obj.images],
        "entry_symbol_id": obj.entry_symbol_id,
        "debug": snap_debug(obj.debug_info),
        # derived lookup tables the linker relies on
        "maps": {"section_map": sorted((k, secidx.get(id(v), -1)) for k, v in obj.section_map.items()),
                 "symbol_map": sorted((k, symidx.get(id(v), -1)) for k, v in obj.symbol_map.items()),
                 # keys were hashed, i.e. are fixed on this path: int() of a proxy key is its value
                 "symbols_by_id": sorted((int(k), symidx.get(id(v), -1)) for k, v in obj.symbols_by_id.items()),
                 "image_map": sorted((k, imgidx.get(id(v), -1)) for k, v in obj.image_map.items())},
    }


def _leaf_eq(a, b):
    if a is None or b is None:
        return a is None and b is None
    if isinstance(a, (SymInt, SymBool)) or isinstance(b, (SymInt, SymBool)):
        if isinstance(a, (str, bytes)) or isinstance(b, (str, bytes)):
            return False
        return a == b
    if isinstance(a, bool) != isinstance(b, bool):
        return False
    if isinstance(a, int) != isinstance(b, int):
        return False
    r = (a == b)
    if isinstance(r, (SymBool, bool)):
        return r
    return bool(r)


def _walk(a, b, label, acc):
    if isinstance(a, dict) and isinstance(b, dict):
        if set(a) != set(b):
            acc.setdefault(label + ".<keys>", []).append(False)
            return
        for k in a:
            _walk(a[k], b[k], (label + "." + str(k)) if label else str(k), acc)
        return
    if isinstance(a, (list, tuple)) and isinstance(b, (list, tuple)):
        if len(a) != len(b):
            acc.setdefault(label + ".<count>", []).append(False)
            return
        acc.setdefault(label + ".<count>", []).append(True)
        for x, y in zip(a, b):
            _walk(x, y, label, acc)
        return
    if isinstance(a, (dict, list, tuple)) or isinstance(b, (dict, list, tuple)):
        acc.setdefault(label + ".<shape>", []).append(False)
        return
    acc.setdefault(label, []).append(_leaf_eq(a, b))


def diff(a, b, prefix=""):
    """{label: condition} -- every label must hold for the two snapshots to be equal"""
    acc = {}
    _walk(a, b, prefix, acc)
    out = {}
    for k, conds in acc.items():
        if any(c is False for c in conds):
            out[k] = False
            continue
        sym = [c for c in conds if c is not True]
        out[k] = sym_and(*sym) if sym else True
    return out
