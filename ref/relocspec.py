"""Relocation semantics written from the ISA manuals (independent of ppci).

For a relocation type, `SPEC[(arch, name)]` gives
  size        bytes covered by the relocation
  kind        'branch'  : the instruction is a pc-relative control transfer / literal access whose
                          effective address must equal S + A
              'abs'     : the field holds S + A
              'pcrel'   : the field holds S + A - P            (P = address of the field)
              'hi','lo' : RISC-V %hi/%lo style halves of a 32-bit value X (see expect)
  decode(w,P) value designated by the relocated bytes, w = little-endian integer of the bytes
  mask        bits of w the relocation may modify
  pre         alignment facts about S and P the ISA requires (assumed; ppci asserts them)
All functions run on plain ints and on symx proxies alike.
Sources: RISC-V Unprivileged ISA 20191213 (ch. 2, 16.8), ARM ARM DDI0406C (A8.8.18 B, A8.8.25 BL,
A8.8.64 LDR literal, A8.8.12 ADR, A5.2.4), Thumb: A8.8.18 T1/T2, A8.8.25 T1, A8.8.64 T1;
Intel SDM vol. 2 (JMP/CALL/Jcc rel8/rel32, MOV r64, imm64).
"""
from symx.core import ite, sym_and
from ref import bits as RB


def le(bs):
    v = 0
    for i, b in enumerate(bs):
        v = v | (b << (8 * i))
    return v


def bits(w, hi, lo):
    return (w >> lo) & ((1 << (hi - lo + 1)) - 1)


def sext(v, n):
    """sign-extend the n-bit unsigned value v"""
    return ite(v >= (1 << (n - 1)), v - (1 << n), v)


M32 = (1 << 32) - 1


# ---- RISC-V ---------------------------------------------------------------------------------
def rv_b_imm(w):
    imm = (bits(w, 31, 31) << 12) | (bits(w, 7, 7) << 11) | (bits(w, 30, 25) << 5) | (bits(w, 11, 8) << 1)
    return sext(imm, 13)


def rv_j_imm(w):
    imm = (bits(w, 31, 31) << 20) | (bits(w, 19, 12) << 12) | (bits(w, 20, 20) << 11) | (bits(w, 30, 21) << 1)
    return sext(imm, 21)


def rv_cj_imm(w):
    # CJ format: offset[11|4|9:8|10|6|7|3:1|5] in bits 12..2
    imm = (bits(w, 12, 12) << 11) | (bits(w, 11, 11) << 4) | (bits(w, 10, 9) << 8) | (bits(w, 8, 8) << 10) | \
        (bits(w, 7, 7) << 6) | (bits(w, 6, 6) << 7) | (bits(w, 5, 3) << 1) | (bits(w, 2, 2) << 5)
    return sext(imm, 12)


def rv_cb_imm(w):
    # CB format: offset[8|4:3] in bits 12|11:10 ; offset[7:6|2:1|5] in bits 6:5|4:3|2
    imm = (bits(w, 12, 12) << 8) | (bits(w, 11, 10) << 3) | (bits(w, 6, 5) << 6) | (bits(w, 4, 3) << 1) | \
        (bits(w, 2, 2) << 5)
    return sext(imm, 9)


RV_EVEN = lambda S, P: sym_and(S % 2 == 0, P % 2 == 0)

SPEC = {}


def _add(archs, name, **kw):
    for a in archs:
        SPEC[(a, name)] = dict(name=name, **kw)


RV = ("riscv", "riscv:rvc")
_add(RV, "b_imm12", size=4, kind="branch", decode=lambda w, P: P + rv_b_imm(w),
     mask=(1 << 31) | (0x3F << 25) | (0xF << 8) | (1 << 7), pre=RV_EVEN)
for _n in ("b_imm20", "cb_imm11", "cbl_imm11"):
    _add(RV, _n, size=4, kind="branch", decode=lambda w, P: P + rv_j_imm(w), mask=0xFFFFF000, pre=RV_EVEN)
_add(RV, "abs32_imm20", size=4, kind="hi", decode=lambda w, P: bits(w, 31, 12), mask=0xFFFFF000,
     pre=lambda S, P: S % 2 == 0, expect=lambda S, A, P: ((S + A + 0x800) >> 12) & 0xFFFFF)
_add(RV, "rel_imm20", size=4, kind="hi", decode=lambda w, P: bits(w, 31, 12), mask=0xFFFFF000,
     pre=RV_EVEN, expect=lambda S, A, P: ((S + A - P + 0x800) >> 12) & 0xFFFFF)
_add(RV, "abs32_imm12", size=4, kind="lo", decode=lambda w, P: bits(w, 31, 20), mask=0xFFF00000,
     pre=lambda S, P: S % 2 == 0, expect=lambda S, A, P: (S + A) & 0xFFF)
# the %pcrel_lo instruction is the one following its auipc: X is relative to the auipc at P-4
_add(RV, "rel_imm12", size=4, kind="lo", decode=lambda w, P: bits(w, 31, 20), mask=0xFFF00000,
     pre=RV_EVEN, expect=lambda S, A, P: (S + A - (P - 4)) & 0xFFF)
_add(RV, "absaddr32", size=4, kind="abs", decode=lambda w, P: w, mask=M32, pre=lambda S, P: True)
_add(("riscv:rvc",), "bc_imm11", size=2, kind="branch", decode=lambda w, P: P + rv_cj_imm(w),
     mask=0x1FFC, pre=RV_EVEN)
_add(("riscv:rvc",), "bc_imm8", size=2, kind="branch", decode=lambda w, P: P + rv_cb_imm(w),
     mask=0x1C7C, pre=RV_EVEN)


# ---- ARM A32 --------------------------------------------------------------------------------
def arm_modimm(w):
    return RB.rotr(bits(w, 7, 0), 2 * bits(w, 11, 8), 32)


_add(("arm",), "imm24", size=4, kind="branch", decode=lambda w, P: P + 8 + (sext(bits(w, 23, 0), 24) << 2),
     mask=0x00FFFFFF, pre=lambda S, P: sym_and(S % 4 == 0, P % 4 == 0))
# LDR (literal): address = Align(PC,4) +/- imm12, PC = P + 8, U = bit 23
_add(("arm",), "ldr_imm12", size=4, kind="branch",
     decode=lambda w, P: ite(bits(w, 23, 23) == 1, P + 8 + bits(w, 11, 0), P + 8 - bits(w, 11, 0)),
     mask=0x00800FFF, pre=lambda S, P: sym_and(S % 4 == 0, P % 4 == 0))
# ADR: ADD (bit 23) / SUB (bit 22) Rd, PC, #modimm
_add(("arm",), "adr_imm12", size=4, kind="branch",
     decode=lambda w, P: ite(bits(w, 23, 23) == 1, P + 8 + arm_modimm(w), P + 8 - arm_modimm(w)),
     mask=0x00C00FFF, pre=lambda S, P: sym_and(S % 4 == 0, P % 4 == 0))

# ---- Thumb ----------------------------------------------------------------------------------
TH = ("arm:thumb",)
_add(TH, "lit8", size=2, kind="branch",
     decode=lambda w, P: (((P + 4) >> 2) << 2) + (bits(w, 7, 0) << 2), mask=0x00FF,
     pre=lambda S, P: sym_and(S % 4 == 0, P % 2 == 0))
_add(TH, "wrap_new11", size=2, kind="branch", decode=lambda w, P: P + 4 + (sext(bits(w, 10, 0), 11) << 1),
     mask=0x07FF, pre=lambda S, P: sym_and(S % 2 == 0, P % 2 == 0))
_add(TH, "rel8", size=2, kind="branch", decode=lambda w, P: P + 4 + (sext(bits(w, 7, 0), 8) << 1),
     mask=0x00FF, pre=lambda S, P: sym_and(S % 2 == 0, P % 2 == 0))


def th_bl(w, P):
    # w = first halfword | second halfword << 16   (BL T1)
    s = bits(w, 10, 10)
    imm10 = bits(w, 9, 0)
    j1 = bits(w, 16 + 13, 16 + 13)
    j2 = bits(w, 16 + 11, 16 + 11)
    imm11 = bits(w, 16 + 10, 16)
    i1 = 1 - (j1 ^ s)
    i2 = 1 - (j2 ^ s)
    imm = (s << 24) | (i1 << 23) | (i2 << 22) | (imm10 << 12) | (imm11 << 1)
    return P + 4 + sext(imm, 25)


def th_bcond_w(w, P):
    # B<c>.W T3: S:J2:J1:imm6:imm11:0
    s = bits(w, 10, 10)
    imm6 = bits(w, 5, 0)
    j1 = bits(w, 16 + 13, 16 + 13)
    j2 = bits(w, 16 + 11, 16 + 11)
    imm11 = bits(w, 16 + 10, 16)
    imm = (s << 20) | (j2 << 19) | (j1 << 18) | (imm6 << 12) | (imm11 << 1)
    return P + 4 + sext(imm, 21)


_add(TH, "bl_imm11", size=4, kind="branch", decode=th_bl, mask=0x07FF07FF | (1 << 29) | (1 << 27),
     pre=lambda S, P: sym_and(S % 2 == 0, P % 2 == 0))
_add(TH, "b_imm11_imm6", size=4, kind="branch", decode=th_bcond_w,
     mask=0x07FF043F | (1 << 29) | (1 << 27), pre=lambda S, P: sym_and(S % 2 == 0, P % 2 == 0))

# ---- x86-64 ---------------------------------------------------------------------------------
X = ("x86_64",)
_add(X, "rel32", size=4, kind="pcrel", decode=lambda w, P: sext(w, 32), mask=M32, pre=lambda S, P: True)
_add(X, "abs32", size=4, kind="abs", decode=lambda w, P: w, mask=M32, pre=lambda S, P: True)
_add(X, "jmp8", size=1, kind="branch", decode=lambda w, P: P + 1 + sext(w, 8), mask=0xFF, pre=lambda S, P: True)
_add(X, "abs64", size=8, kind="abs", decode=lambda w, P: w, mask=(1 << 64) - 1, pre=lambda S, P: True)


def expected(spec, S, A, P):
    k = spec["kind"]
    if k in ("branch", "abs"):
        return S + A
    if k == "pcrel":
        return S + A - P
    return spec["expect"](S, A, P)


# relocation types that honour the addend (all others: ppci's encoders never emit one; A = 0 assumed)
USES_ADDEND = {("x86_64", "rel32")}
