"""Relocation semantics written from the ISA manuals (independent of ppci).

For a relocation type, `SPEC[(arch, name)]` gives
  size        bytes covered by the relocation
  kind        'branch'  : the instruction is a pc-relative control transfer / literal access whose
                          effective address must equal S + A
              'abs'     : the field holds S + A
              'pcrel'   : the field holds S + A - P            (P = address of the field)
              'hi','lo' : RISC-V %hi/%lo style halves of a 32-bit value X (see expect)
  decode(w,P) value designated by the relocated bytes, w = little-endian integer of the bytes
  mask        bits of w the relocation may modify
  pre         alignment facts about S and P the ISA requires (assumed; ppci asserts them)
  wrap        (optional) n: the ISA computes the target modulo 2**n (a displacement as wide as the address
              space); S and P are then assumed to be addresses of that space, i.e. < 2**n
  endian      (optional, default 'little') byte order of the instruction word: `word(bytes, endian)`
              turns the relocated bytes into the integer w that decode/mask talk about
All functions run on plain ints and on symx proxies alike.
Sources: RISC-V Unprivileged ISA 20191213 (ch. 2, 16.8), ARM ARM DDI0406C (A8.8.18 B, A8.8.25 BL,
A8.8.64 LDR literal, A8.8.12 ADR, A5.2.4), Thumb: A8.8.18 T1/T2, A8.8.25 T1, A8.8.64 T1;
Intel SDM vol. 2 (JMP/CALL/Jcc rel8/rel32, MOV r64, imm64);
AVR Instruction Set Manual (Atmel 0856: RJMP, RCALL, BRBS/BRBC, LDI); MSP430x1xx Family User's Guide
SLAU049 (3.3 addressing modes, 3.4.6 jump format); MCS6500 Microcomputer Family Programming Manual
(4.1 relative addressing, 5.3 absolute addressing); OpenRISC 1000 Architecture Manual 1.3 (l.j, l.jal,
l.bf, l.bnf, l.movhi, l.ori; 3.2.2: big-endian); MIPS32 Architecture Vol. II (J, JAL); MicroBlaze Processor
Reference Guide UG984 (IMM, BRI/BRLID/BEQI.., ADDIK; big-endian words); Xtensa ISA Reference Manual
(formats RRI8, BRI8, BRI12, CALL, RI16 in the little-endian configuration; BEQ.., BEQZ/BNEZ, J, CALL0,
L32R without the extended-L32R option); M68000 Family Programmer's Reference Manual (Bcc/BRA/BSR with
32-bit displacement, 2.2.11 program counter indirect with displacement).
"""
from symx.core import ite, sym_and
from ref import bits as RB


def le(bs):
    v = 0
    for i, b in enumerate(bs):
        v = v | (b << (8 * i))
    return v


def be(bs):
    v = 0
    for b in bs:
        v = (v << 8) | b
    return v


def word(bs, endian="little"):
    """integer value of the instruction word stored in the byte list bs"""
    return be(bs) if endian == "big" else le(bs)


def bits(w, hi, lo):
    return (w >> lo) & ((1 << (hi - lo + 1)) - 1)


def sext(v, n):
    """sign-extend the n-bit unsigned value v"""
    return ite(v >= (1 << (n - 1)), v - (1 << n), v)


M32 = (1 << 32) - 1


# ---- RISC-V ---------------------------------------------------------------------------------
def rv_b_imm(w):
    imm = (bits(w, 31, 31) << 12) | (bits(w, 7, 7) << 11) | (bits(w, 30, 25) << 5) | (bits(w, 11, 8) << 1)
    return sext(imm, 13)


def rv_j_imm(w):
    imm = (bits(w, 31, 31) << 20) | (bits(w, 19, 12) << 12) | (bits(w, 20, 20) << 11) | (bits(w, 30, 21) << 1)
    return sext(imm, 21)


def rv_cj_imm(w):
    # CJ format: offset[11|4|9:8|10|6|7|3:1|5] in bits 12..2
    imm = (bits(w, 12, 12) << 11) | (bits(w, 11, 11) << 4) | (bits(w, 10, 9) << 8) | (bits(w, 8, 8) << 10) | \
        (bits(w, 7, 7) << 6) | (bits(w, 6, 6) << 7) | (bits(w, 5, 3) << 1) | (bits(w, 2, 2) << 5)
    return sext(imm, 12)


def rv_cb_imm(w):
    # CB format: offset[8|4:3] in bits 12|11:10 ; offset[7:6|2:1|5] in bits 6:5|4:3|2
    imm = (bits(w, 12, 12) << 8) | (bits(w, 11, 10) << 3) | (bits(w, 6, 5) << 6) | (bits(w, 4, 3) << 1) | \
        (bits(w, 2, 2) << 5)
    return sext(imm, 9)


RV_EVEN = lambda S, P: sym_and(S % 2 == 0, P % 2 == 0)

SPEC = {}


def _add(archs, name, **kw):
    for a in archs:
        SPEC[(a, name)] = dict(name=name, **kw)


RV = ("riscv", "riscv:rvc")
_add(RV, "b_imm12", size=4, kind="branch", decode=lambda w, P: P + rv_b_imm(w),
     mask=(1 << 31) | (0x3F << 25) | (0xF << 8) | (1 << 7), pre=RV_EVEN)
for _n in ("b_imm20", "cb_imm11", "cbl_imm11"):
    _add(RV, _n, size=4, kind="branch", decode=lambda w, P: P + rv_j_imm(w), mask=0xFFFFF000, pre=RV_EVEN)
_add(RV, "abs32_imm20", size=4, kind="hi", decode=lambda w, P: bits(w, 31, 12), mask=0xFFFFF000,
     pre=lambda S, P: S % 2 == 0, expect=lambda S, A, P: ((S + A + 0x800) >> 12) & 0xFFFFF)
_add(RV, "rel_imm20", size=4, kind="hi", decode=lambda w, P: bits(w, 31, 12), mask=0xFFFFF000,
     pre=RV_EVEN, expect=lambda S, A, P: ((S + A - P + 0x800) >> 12) & 0xFFFFF)
_add(RV, "abs32_imm12", size=4, kind="lo", decode=lambda w, P: bits(w, 31, 20), mask=0xFFF00000,
     pre=lambda S, P: S % 2 == 0, expect=lambda S, A, P: (S + A) & 0xFFF)
# the %pcrel_lo instruction is the one following its auipc: X is relative to the auipc at P-4
_add(RV, "rel_imm12", size=4, kind="lo", decode=lambda w, P: bits(w, 31, 20), mask=0xFFF00000,
     pre=RV_EVEN, expect=lambda S, A, P: (S + A - (P - 4)) & 0xFFF)
_add(RV, "absaddr32", size=4, kind="abs", decode=lambda w, P: w, mask=M32, pre=lambda S, P: True)
_add(("riscv:rvc",), "bc_imm11", size=2, kind="branch", decode=lambda w, P: P + rv_cj_imm(w),
     mask=0x1FFC, pre=RV_EVEN)
_add(("riscv:rvc",), "bc_imm8", size=2, kind="branch", decode=lambda w, P: P + rv_cb_imm(w),
     mask=0x1C7C, pre=RV_EVEN)


# ---- ARM A32 --------------------------------------------------------------------------------
def arm_modimm(w):
    return RB.rotr(bits(w, 7, 0), 2 * bits(w, 11, 8), 32)


_add(("arm",), "imm24", size=4, kind="branch", decode=lambda w, P: P + 8 + (sext(bits(w, 23, 0), 24) << 2),
     mask=0x00FFFFFF, pre=lambda S, P: sym_and(S % 4 == 0, P % 4 == 0))
# LDR (literal): address = Align(PC,4) +/- imm12, PC = P + 8, U = bit 23
_add(("arm",), "ldr_imm12", size=4, kind="branch",
     decode=lambda w, P: ite(bits(w, 23, 23) == 1, P + 8 + bits(w, 11, 0), P + 8 - bits(w, 11, 0)),
     mask=0x00800FFF, pre=lambda S, P: sym_and(S % 4 == 0, P % 4 == 0))
# ADR: ADD (bit 23) / SUB (bit 22) Rd, PC, #modimm
_add(("arm",), "adr_imm12", size=4, kind="branch",
     decode=lambda w, P: ite(bits(w, 23, 23) == 1, P + 8 + arm_modimm(w), P + 8 - arm_modimm(w)),
     mask=0x00C00FFF, pre=lambda S, P: sym_and(S % 4 == 0, P % 4 == 0))

# ---- Thumb ----------------------------------------------------------------------------------
TH = ("arm:thumb",)
_add(TH, "lit8", size=2, kind="branch",
     decode=lambda w, P: (((P + 4) >> 2) << 2) + (bits(w, 7, 0) << 2), mask=0x00FF,
     pre=lambda S, P: sym_and(S % 4 == 0, P % 2 == 0))
_add(TH, "wrap_new11", size=2, kind="branch", decode=lambda w, P: P + 4 + (sext(bits(w, 10, 0), 11) << 1),
     mask=0x07FF, pre=lambda S, P: sym_and(S % 2 == 0, P % 2 == 0))
_add(TH, "rel8", size=2, kind="branch", decode=lambda w, P: P + 4 + (sext(bits(w, 7, 0), 8) << 1),
     mask=0x00FF, pre=lambda S, P: sym_and(S % 2 == 0, P % 2 == 0))


def th_bl(w, P):
    # w = first halfword | second halfword << 16   (BL T1)
    s = bits(w, 10, 10)
    imm10 = bits(w, 9, 0)
    j1 = bits(w, 16 + 13, 16 + 13)
    j2 = bits(w, 16 + 11, 16 + 11)
    imm11 = bits(w, 16 + 10, 16)
    i1 = 1 - (j1 ^ s)
    i2 = 1 - (j2 ^ s)
    imm = (s << 24) | (i1 << 23) | (i2 << 22) | (imm10 << 12) | (imm11 << 1)
    return P + 4 + sext(imm, 25)


def th_bcond_w(w, P):
    # B<c>.W T3: S:J2:J1:imm6:imm11:0
    s = bits(w, 10, 10)
    imm6 = bits(w, 5, 0)
    j1 = bits(w, 16 + 13, 16 + 13)
    j2 = bits(w, 16 + 11, 16 + 11)
    imm11 = bits(w, 16 + 10, 16)
    imm = (s << 20) | (j2 << 19) | (j1 << 18) | (imm6 << 12) | (imm11 << 1)
    return P + 4 + sext(imm, 21)


_add(TH, "bl_imm11", size=4, kind="branch", decode=th_bl, mask=0x07FF07FF | (1 << 29) | (1 << 27),
     pre=lambda S, P: sym_and(S % 2 == 0, P % 2 == 0))
_add(TH, "b_imm11_imm6", size=4, kind="branch", decode=th_bcond_w,
     mask=0x07FF043F | (1 << 29) | (1 << 27), pre=lambda S, P: sym_and(S % 2 == 0, P % 2 == 0))

# ---- x86-64 ---------------------------------------------------------------------------------
X = ("x86_64",)
_add(X, "rel32", size=4, kind="pcrel", decode=lambda w, P: sext(w, 32), mask=M32, pre=lambda S, P: True)
_add(X, "abs32", size=4, kind="abs", decode=lambda w, P: w, mask=M32, pre=lambda S, P: True)
_add(X, "jmp8", size=1, kind="branch", decode=lambda w, P: P + 1 + sext(w, 8), mask=0xFF, pre=lambda S, P: True)
_add(X, "abs64", size=8, kind="abs", decode=lambda w, P: w, mask=(1 << 64) - 1, pre=lambda S, P: True)

# ---- AVR (16-bit opcode words, little-endian in program memory; byte addresses here) ---------
# RJMP 1100 kkkk kkkk kkkk / RCALL 1101 kkkk kkkk kkkk : PC <- PC + k + 1 (words), k signed 12 bit
AVR = ("avr",)
EVEN2 = lambda S, P: sym_and(S % 2 == 0, P % 2 == 0)
_add(AVR, "12bit", size=2, kind="branch", decode=lambda w, P: P + 2 + (sext(bits(w, 11, 0), 12) << 1),
     mask=0x0FFF, pre=EVEN2)
# BRBS/BRBC 1111 0xkk kkkk ksss : PC <- PC + k + 1 (words), k signed 7 bit in bits 9..3
_add(AVR, "7bit", size=2, kind="branch", decode=lambda w, P: P + 2 + (sext(bits(w, 9, 3), 7) << 1),
     mask=0x03F8, pre=EVEN2)
# LDI 1110 KKKK dddd KKKK : K = bits 11..8 : bits 3..0 ; lo8(x) = x & 0xFF, hi8(x) = (x >> 8) & 0xFF
_avr_k = lambda w, P: (bits(w, 11, 8) << 4) | bits(w, 3, 0)
_add(AVR, "ldilo", size=2, kind="lo", decode=_avr_k, mask=0x0F0F, pre=lambda S, P: P % 2 == 0,
     expect=lambda S, A, P: (S + A) & 0xFF)
_add(AVR, "ldihi", size=2, kind="hi", decode=_avr_k, mask=0x0F0F, pre=lambda S, P: P % 2 == 0,
     expect=lambda S, A, P: ((S + A) >> 8) & 0xFF)

# ---- MSP430 (16-bit words, little-endian) ---------------------------------------------------
# jump format 001 CCC oooooooooo : PC <- PC + 2 + 2 * sext(offset10)
_add(("msp430",), "rel10", size=2, kind="branch",
     decode=lambda w, P: P + 2 + (sext(bits(w, 9, 0), 10) << 1), mask=0x03FF, pre=EVEN2)
# extension word of the absolute (&ADDR) and immediate (#N) addressing modes: the 16-bit value itself
_add(("msp430",), "abs16", size=2, kind="abs", decode=lambda w, P: w, mask=0xFFFF,
     pre=lambda S, P: P % 2 == 0)

# ---- MCS6500 ---------------------------------------------------------------------------------
# relative addressing: the operand byte is a signed offset added to the PC after the operand fetch
_add(("mcs6500",), "rel8", size=1, kind="branch", decode=lambda w, P: P + 1 + sext(w, 8), mask=0xFF,
     pre=lambda S, P: True)
# absolute addressing: 16-bit address, low byte first
_add(("mcs6500",), "abs16", size=2, kind="abs", decode=lambda w, P: w, mask=0xFFFF, pre=lambda S, P: True)

# ---- OpenRISC 1000 (big-endian 32-bit words) ------------------------------------------------
ALIGN4 = lambda S, P: sym_and(S % 4 == 0, P % 4 == 0)
# l.j/l.jal/l.bf/l.bnf: opcode(31..26) N(25..0); target = address of the jump + (sext(N) << 2)
_add(("or1k",), "jump", size=4, endian="big", kind="branch",
     decode=lambda w, P: P + (sext(bits(w, 25, 0), 26) << 2), mask=0x03FFFFFF, pre=ALIGN4)
# 16-bit immediate K in bits 15..0 (l.ori, l.andi, l.addi ...): low / high half of the address
_add(("or1k",), "OR32_CONST", size=4, endian="big", kind="lo", decode=lambda w, P: bits(w, 15, 0),
     mask=0xFFFF, pre=lambda S, P: P % 4 == 0, expect=lambda S, A, P: (S + A) & 0xFFFF)
_add(("or1k",), "OR32_CONSTH", size=4, endian="big", kind="hi", decode=lambda w, P: bits(w, 15, 0),
     mask=0xFFFF, pre=lambda S, P: P % 4 == 0, expect=lambda S, A, P: ((S + A) >> 16) & 0xFFFF)

# ---- MIPS32 (bi-endian architecture; ppci's mips target is the little-endian one) -----------
# J/JAL: opcode(31..26) instr_index(25..0); target = (PC + 4)[31:28] : instr_index : 00, PC = address
# of the jump (PC + 4 = its delay slot)
_add(("mips",), "abs26", size=4, kind="branch",
     decode=lambda w, P: ((((P + 4) & M32) >> 28) << 28) | (bits(w, 25, 0) << 2), mask=0x03FFFFFF,
     pre=ALIGN4, wrap=32)

# ---- MicroBlaze (big-endian words) ----------------------------------------------------------
# IMM prefix (imm16 = upper half) followed by a type B instruction (imm16 = lower half); both imm16
# fields are bits 15..0 of their word.  w = the two words as one 64-bit big-endian integer.
_mb_imm32 = lambda w: (bits(w, 47, 32) << 16) | bits(w, 15, 0)
# pc-relative branches: PC <- PC + imm32 where PC is the address of the branch itself (= P + 4)
_add(("microblaze",), "R_MICROBLAZE_64_PCREL", size=8, endian="big", kind="branch",
     decode=lambda w, P: (P + 4 + sext(_mb_imm32(w), 32)) & M32, mask=0x0000FFFF0000FFFF, pre=ALIGN4, wrap=32)
_add(("microblaze",), "R_MICROBLAZE_64_ABS", size=8, endian="big", kind="abs",
     decode=lambda w, P: _mb_imm32(w), mask=0x0000FFFF0000FFFF, pre=lambda S, P: P % 4 == 0)

# ---- Xtensa (little-endian configuration, 24-bit instructions, byte-aligned) ----------------
XT = ("xtensa",)
# RRI8/BRI8: imm8 in bits 23..16; BEQ/BNE/...: target = PC + 4 + sext(imm8)
_add(XT, "imm8", size=3, kind="branch", decode=lambda w, P: P + 4 + sext(bits(w, 23, 16), 8),
     mask=0xFF0000, pre=lambda S, P: True)
# BRI12: imm12 in bits 23..12; BEQZ/BNEZ/..: target = PC + 4 + sext(imm12)
_add(XT, "bri12", size=3, kind="branch", decode=lambda w, P: P + 4 + sext(bits(w, 23, 12), 12),
     mask=0xFFF000, pre=lambda S, P: True)
# CALL format: offset in bits 23..6; J: target = PC + 4 + sext(offset18)
_add(XT, "call18", size=3, kind="branch", decode=lambda w, P: P + 4 + sext(bits(w, 23, 6), 18),
     mask=0xFFFFC0, pre=lambda S, P: True)
# CALL0: target = (PC[31:2] + sext(offset18) + 1) : 00   (mod 2**32)
_add(XT, "call0", size=3, kind="branch",
     decode=lambda w, P: (((P >> 2) + sext(bits(w, 23, 6), 18) + 1) << 2) & M32,
     mask=0xFFFFC0, pre=lambda S, P: S % 4 == 0, wrap=32)
# L32R (RI16, imm16 in bits 23..8): address = ((PC + 3) & ~3) + ((imm16 - 2**16) << 2) (mod 2**32): the
# 16-bit word offset is ONE-extended, the literal always lies before the instruction
_add(XT, "ri16", size=3, kind="branch",
     decode=lambda w, P: ((((P + 3) >> 2) << 2) + ((bits(w, 23, 8) - (1 << 16)) << 2)) & M32,
     mask=0xFFFF00, pre=lambda S, P: S % 4 == 0, wrap=32)

# ---- M68000 family (big-endian) -------------------------------------------------------------
# Bcc/BRA/BSR with 8-bit displacement field 0xFF: a 32-bit displacement follows the opcode word;
# target = (address of the opcode word + 2) + disp32 = address of the displacement field + disp32 (mod 2**32)
_add(("m68k",), "branch_rel32", size=4, endian="big", kind="branch",
     decode=lambda w, P: (P + sext(w, 32)) & M32, mask=M32, pre=EVEN2, wrap=32)
# (d16,PC): effective address = address of the extension word + sext(d16)
_add(("m68k",), "rel16", size=2, endian="big", kind="branch", decode=lambda w, P: P + sext(w, 16),
     mask=0xFFFF, pre=lambda S, P: P % 2 == 0)

# ISAs whose memory is big-endian.  ppci's generic data relocations absaddr16/32/64 store little-endian
# words (its code generator refuses to emit them for big-endian targets), so they are not claimed there.
BIG_ENDIAN = ("or1k", "microblaze", "m68k")


def expected(spec, S, A, P):
    k = spec["kind"]
    if k in ("branch", "abs"):
        return S + A
    if k == "pcrel":
        return S + A - P
    return spec["expect"](S, A, P)


# relocation types that honour the addend (all others: ppci's encoders never emit one; A = 0 assumed)
USES_ADDEND = {("x86_64", "rel32")}
