"""Thumb reference decoder (independent of ppci): the 16-bit Thumb instruction set and the few 32-bit Thumb-2
encodings ppci emits, written from the ARM Architecture Reference Manuals

    ARMv7-M  (ARM DDI 0403E)  A5.2 "16-bit Thumb instruction encoding" (tables A5.2.1 .. A5.2.6: shift/add/
             subtract/move/compare, data processing, special data + branch and exchange, load/store single data
             item, miscellaneous 16-bit, conditional branch + SVC), A5.3 "32-bit Thumb instruction encoding"
             (A5.3.4 branches and miscellaneous control, A5.3.17 long multiply / divide), and the instruction pages
             of A7.7 (field layout, scaling of the immediates, the label arithmetic of B / BL / ADR / LDR (literal));
    ARMv7-A/R (ARM DDI 0406C) A6.2 / A8.8 for the same encodings (identical for this subset).

Instruction word: `w = hw1 | hw2 << 16` (the bytes of the instruction stream read as one little-endian integer),
`nbytes` = 2 or 4.  A 16-bit instruction is a halfword whose bits 15:11 are not 0b11101 / 0b11110 / 0b11111
(A5.1); those three prefixes start a 32-bit instruction.  decode() works on plain ints and on z3 32-bit vectors.

Table entries are written as the manual's encoding diagrams: one character per bit, MSB first; 0 / 1 are fixed
bits, a letter names the field the bit belongs to (the bits of one letter are concatenated MSB first).  A "post"
function computes the operand values of the instruction page from the raw fields (imm32 = ZeroExtend(imm5:'00')
...).  Field names follow the manual (rd, rn, rm, rt, rdn, rdm, imm, list, cond); signed offsets are Python ints
< 0 in the integer domain and 32-bit two's complement vectors in the z3 domain.

Names: the manual's mnemonic + the operand form.  The 16-bit data-processing encodings set the flags outside an
IT block (UAL: ANDS, LSLS, MOVS ...; pre-UAL Thumb syntax: AND, LSL, MOV): the table names carry no S.
"""
import z3

M32 = 0xFFFFFFFF


# ---------------------------------------------------------------------------------------------- two value domains
def _isint(w):
    return type(w) is int


def _field(w, positions):
    """concatenation of the bits of w at `positions` (MSB first), zero-extended"""
    if _isint(w):
        v = 0
        for p in positions:
            v = (v << 1) | ((w >> p) & 1)
        return v
    runs, run = [], [positions[0]]
    for p in positions[1:]:
        if p == run[-1] - 1:
            run.append(p)
        else:
            runs.append(run)
            run = [p]
    runs.append(run)
    ex = [z3.Extract(r[0], r[-1], w) for r in runs]
    v = ex[0] if len(ex) == 1 else z3.Concat(*ex)
    n = len(positions)
    return z3.ZeroExt(32 - n, v) if n < 32 else v


def _sext(v, n):
    """SignExtend of the low n bits of v"""
    if _isint(v):
        v &= (1 << n) - 1
        return v - (1 << n) if v >> (n - 1) else v
    return z3.SignExt(32 - n, z3.Extract(n - 1, 0, v))


def _ite(c, a, b):
    if type(c) is bool:
        return a if c else b
    a = z3.BitVecVal(a & M32, 32) if _isint(a) else a
    b = z3.BitVecVal(b & M32, 32) if _isint(b) else b
    return z3.If(c, a, b)


def _and(*cs):
    cs = [c for c in cs if c is not True]
    if any(c is False for c in cs):
        return False
    if not cs:
        return True
    return cs[0] if len(cs) == 1 else z3.And(*cs)



def _b(c):
    """python bool of a concrete comparison / z3 Bool unchanged"""
    return bool(c) if type(c) in (bool, int) else c


# ---------------------------------------------------------------------------------------------- post functions
def _scale(k):
    def f(d):
        d["imm"] = d.pop("i") * k if _isint(d["i"]) else d.pop("i") << (k.bit_length() - 1)
    return f


def _p_shift_imm(kind):
    # DecodeImmShift (A7.4.2): LSL: amount = imm5; LSR / ASR: amount = imm5, 0 means 32
    def f(d):
        i = d.pop("i")
        d["imm"] = i if kind == "lsl" else _ite(_b(i == 0), 32, i)
    return f


def _p_hi(reg):
    # D:Rd / N:Rn  (the high register forms of ADD / CMP / MOV)
    def f(d):
        hi, lo = d.pop("H"), d.pop(reg[1])
        d[reg] = (hi << 3) | lo
    return f


def _p_cbz(d):
    d["imm"] = (d.pop("j") << 6) | (d.pop("i") << 1)     # ZeroExtend(i:imm5:'0')


def _p_push(d):
    d["list"] = (d.pop("M") << 14) | d.pop("r")          # registers = '0':M:'000000':register_list


def _p_pop(d):
    d["list"] = (d.pop("P") << 15) | d.pop("r")          # registers = P:'0000000':register_list


def _p_list(d):
    d["list"] = d.pop("r")


def _p_bcond(d):
    d["imm"] = _sext(d.pop("i") << 1, 9)                 # SignExtend(imm8:'0')


def _p_b(d):
    d["imm"] = _sext(d.pop("i") << 1, 12)                # SignExtend(imm11:'0')


def _p_bl(d):
    # I1 = NOT(J1 EOR S); I2 = NOT(J2 EOR S); imm32 = SignExtend(S:I1:I2:imm10:imm11:'0')
    s, j1, j2 = d.pop("S"), d.pop("J"), d.pop("K")
    i1, i2 = (j1 ^ s) ^ 1, (j2 ^ s) ^ 1
    d["imm"] = _sext((s << 24) | (i1 << 23) | (i2 << 22) | (d.pop("i") << 12) | (d.pop("j") << 1), 25)


def _p_bcond_w(d):
    # imm32 = SignExtend(S:J2:J1:imm6:imm11:'0')
    s, j1, j2 = d.pop("S"), d.pop("J"), d.pop("K")
    d["imm"] = _sext((s << 20) | (j2 << 19) | (j1 << 18) | (d.pop("i") << 12) | (d.pop("j") << 1), 21)




# extra conditions ("if ... then SEE ...")
def _x_imm_nz(d):          # LSL (immediate): "if imm5 == '00000' then SEE MOV (register)"
    return _b(d["imm"] != 0)


def _x_cond_lt14(d):       # B T1: "if cond == '1110' then UNDEFINED; if cond == '1111' then SEE SVC"
    c = d["cond"]
    return _b(c < 14) if _isint(c) else z3.ULT(c, 14)


def _x_cond_w(d):          # B T3: "if cond<3:1> == '111' then SEE Branches and miscellaneous control"
    c = d["cond"]
    return _b(c < 14) if _isint(c) else z3.ULT(c, 14)


def _x_mask_nz(d):         # IT: mask == '0000' is the hint space (NOP, YIELD ...)
    return _b(d["mask"] != 0)


_R = dict(d="rd", n="rn", m="rm", t="rt")



# ---------------------------------------------------------------------------------------------- the table
# (name, nbytes, diagram, {letter: field name}, post, extra)
T = []


def _e(name, diagram, names=None, post=None, extra=None):
    bits = diagram.replace(" ", "")
    assert len(bits) in (16, 32), (name, diagram)
    T.append((name, len(bits) // 8, bits, names if names is not None else dict(_R), post, extra))


# A5.2.1 shift (immediate), add, subtract, move, and compare
_e("lsl_imm", "00000 iiiii mmm ddd", None, _p_shift_imm("lsl"), _x_imm_nz)
_e("mov_reg_t2", "00000 00000 mmm ddd")                       # MOVS Rd, Rm (both low; = LSLS Rd, Rm, #0)
_e("lsr_imm", "00001 iiiii mmm ddd", None, _p_shift_imm("lsr"))
_e("asr_imm", "00010 iiiii mmm ddd", None, _p_shift_imm("asr"))
_e("add_reg", "0001100 mmm nnn ddd")
_e("sub_reg", "0001101 mmm nnn ddd")
_e("add_imm3", "0001110 iii nnn ddd", None, _scale(1))
_e("sub_imm3", "0001111 iii nnn ddd", None, _scale(1))
_e("mov_imm", "00100 ddd iiiiiiii", None, _scale(1))
_e("cmp_imm", "00101 nnn iiiiiiii", None, _scale(1))
_e("add_imm8", "00110 ddd iiiiiiii", dict(d="rdn"), _scale(1))
_e("sub_imm8", "00111 ddd iiiiiiii", dict(d="rdn"), _scale(1))
# A5.2.2 data processing: 010000 opcode Rm Rdn
_DP = ["and_reg", "eor_reg", "lsl_reg", "lsr_reg", "asr_reg", "adc_reg", "sbc_reg", "ror_reg", "tst_reg", "rsb_imm0",
       "cmp_reg", "cmn_reg", "orr_reg", "mul", "bic_reg", "mvn_reg"]
for _op, _n in enumerate(_DP):
    _names = dict(d="rdn", m="rm")
    if _n in ("tst_reg", "cmp_reg", "cmn_reg"):
        _names = dict(d="rn", m="rm")
    elif _n == "rsb_imm0":          # RSBS Rd, Rn, #0
        _names = dict(d="rd", m="rn")
    elif _n == "mul":               # MULS Rdm, Rn, Rdm
        _names = dict(d="rdm", m="rn")
    elif _n == "mvn_reg":
        _names = dict(d="rd", m="rm")
    _e(_n, "010000 " + format(_op, "04b") + " mmm ddd", _names)
# A5.2.3 special data instructions and branch and exchange
_e("add_reg_hi", "01000100 H mmmm ddd", dict(m="rm", d="d", H="H"), _p_hi("rdn"))
_e("cmp_reg_hi", "01000101 H mmmm nnn", dict(m="rm", n="n", H="H"), _p_hi("rn"))
_e("mov_reg", "01000110 H mmmm ddd", dict(m="rm", d="d", H="H"), _p_hi("rd"))
_e("bx", "010001110 mmmm 000")
_e("blx_reg", "010001111 mmmm 000")
_e("ldr_lit", "01001 ttt iiiiiiii", None, _scale(4))          # address = Align(PC, 4) + imm
# A5.2.4 load/store single data item
for _op, _n in enumerate(["str_reg", "strh_reg", "strb_reg", "ldrsb_reg", "ldr_reg", "ldrh_reg", "ldrb_reg", "ldrsh_reg"]):
    _e(_n, "0101 " + format(_op, "03b") + " mmm nnn ttt")
_e("str_imm", "01100 iiiii nnn ttt", None, _scale(4))
_e("ldr_imm", "01101 iiiii nnn ttt", None, _scale(4))
_e("strb_imm", "01110 iiiii nnn ttt", None, _scale(1))
_e("ldrb_imm", "01111 iiiii nnn ttt", None, _scale(1))
_e("strh_imm", "10000 iiiii nnn ttt", None, _scale(2))
_e("ldrh_imm", "10001 iiiii nnn ttt", None, _scale(2))
_e("str_sp", "10010 ttt iiiiiiii", None, _scale(4))
_e("ldr_sp", "10011 ttt iiiiiiii", None, _scale(4))
_e("adr", "10100 ddd iiiiiiii", None, _scale(4))              # Rd = Align(PC, 4) + imm
_e("add_rd_sp_imm", "10101 ddd iiiiiiii", None, _scale(4))
# A5.2.5 miscellaneous 16-bit instructions
_e("add_sp_imm7", "1011 0000 0 iiiiiii", None, _scale(4))
_e("sub_sp_imm7", "1011 0000 1 iiiiiii", None, _scale(4))
_e("cbz", "1011 00 j 1 iiiii nnn", dict(n="rn", i="i", j="j"), _p_cbz)
_e("cbnz", "1011 10 j 1 iiiii nnn", dict(n="rn", i="i", j="j"), _p_cbz)
_e("sxth", "1011 0010 00 mmm ddd")
_e("sxtb", "1011 0010 01 mmm ddd")
_e("uxth", "1011 0010 10 mmm ddd")
_e("uxtb", "1011 0010 11 mmm ddd")
_e("push", "1011 010 M rrrrrrrr", dict(M="M", r="r"), _p_push)
_e("cps", "1011 0110 011 e 00 p f", dict(e="im", p="I", f="F"))
_e("rev", "1011 1010 00 mmm ddd")
_e("rev16", "1011 1010 01 mmm ddd")
_e("revsh", "1011 1010 11 mmm ddd")
_e("pop", "1011 110 P rrrrrrrr", dict(P="P", r="r"), _p_pop)
_e("bkpt", "1011 1110 iiiiiiii", None, _scale(1))
_e("it", "1011 1111 cccc kkkk", dict(c="firstcond", k="mask"), None, _x_mask_nz)
for _op, _n in enumerate(["nop", "yield", "wfe", "wfi", "sev"]):
    _e(_n, "1011 1111 " + format(_op, "04b") + " 0000")
_e("stmia", "11000 nnn rrrrrrrr", dict(n="rn", r="r"), _p_list)
_e("ldmia", "11001 nnn rrrrrrrr", dict(n="rn", r="r"), _p_list)
# A5.2.6 conditional branch, and supervisor call
_e("b_cond", "1101 cccc iiiiiiii", dict(c="cond", i="i"), _p_bcond, _x_cond_lt14)
_e("udf", "1101 1110 iiiiiiii", None, _scale(1))
_e("svc", "1101 1111 iiiiiiii", None, _scale(1))
_e("b", "11100 iiiiiiiiiii", None, _p_b)
# 32-bit: A5.3.4 branches (B T3, B T4, BL T1), A5.3.17 SDIV / UDIV, A5.3.16 MUL T2
_BLN = dict(S="S", i="i", J="J", K="K", j="j")
_e("bl", "11110 S iiiiiiiiii  11 J 1 K jjjjjjjjjjj", _BLN, _p_bl)
_e("b_w", "11110 S iiiiiiiiii  10 J 1 K jjjjjjjjjjj", _BLN, _p_bl)
_e("b_cond_w", "11110 S cccc iiiiii  10 J 0 K jjjjjjjjjjj", dict(_BLN, c="cond"), _p_bcond_w, _x_cond_w)
_e("sdiv", "111110111001 nnnn  1111 dddd 1111 mmmm")
_e("udiv", "111110111011 nnnn  1111 dddd 1111 mmmm")
_e("mul_w", "111110110000 nnnn  1111 dddd 0000 mmmm")
NAMES = [e[0] for e in T]
assert len(set(NAMES)) == len(NAMES)
COND_NAMES = ["eq", "ne", "cs", "cc", "mi", "pl", "vs", "vc", "hi", "ls", "ge", "lt", "gt", "le", "al"]
COND_ALIASES = {"hs": 2, "lo": 3}


def cond_number(c):
    """A7.3 condition code of a mnemonic suffix (None: no condition name; 'al' is not a suffix of B<c>)"""
    if c in COND_ALIASES:
        return COND_ALIASES[c]
    return COND_NAMES.index(c) if c in COND_NAMES[:14] else None


def _bitpos(bits, k):
    """bit number in w = hw1 | hw2 << 16 of the k-th character (MSB first) of a 16- or 32-character diagram"""
    return 15 - k if k < 16 else 16 + (31 - k)


def _compile(bits):
    mask = match = 0
    fields = {}
    for k, c in enumerate(bits):
        p = _bitpos(bits, k)
        if c in "01":
            mask |= 1 << p
            match |= int(c) << p
        else:
            fields.setdefault(c, []).append(p)
    return mask, match, fields


_C = {name: _compile(bits) for (name, nb, bits, names, post, extra) in T}
_E = {e[0]: e for e in T}


def is32(hw1):
    """A5.1: bits 15:11 of the first halfword 0b11101 / 0b11110 / 0b11111 start a 32-bit instruction"""
    top = (hw1 >> 11) & 0x1F if _isint(hw1) else None
    if top is not None:
        return top in (0b11101, 0b11110, 0b11111)
    t = z3.Extract(15, 11, hw1)
    return z3.Or(t == 0b11101, t == 0b11110, t == 0b11111)


def match(name, w, nbytes):
    """-> (condition that the instruction word is the table entry `name`, operand fields)"""
    (_, nb, bits, names, post, extra) = _E[name]
    if nb != nbytes:
        return False, {}
    mask, mt, fields = _C[name]
    if _isint(w):
        if nbytes == 2 and (w >> 16):
            return False, {}
        c = (w & mask) == mt
        if not c:
            return False, {}
    else:
        c = (w & z3.BitVecVal(mask, 32)) == z3.BitVecVal(mt, 32)
        if nbytes == 2:
            c = z3.And(c, z3.Extract(31, 16, w) == 0)
    # a 16-bit diagram never starts with one of the 32-bit prefixes and vice versa (checked in selftest)
    d = {}
    for letter, pos in fields.items():
        d[names.get(letter, letter)] = _field(w, pos)
    if post is not None:
        post(d)
    if extra is not None:
        c = _and(c, extra(d))
        if c is False:
            return False, {}
    return c, d


class Decoded:
    def __init__(self, w, nbytes):
        self.w, self.nbytes = w, nbytes
        self._cache = {}

    def _m(self, name):
        if name not in self._cache:
            self._cache[name] = match(name, self.w, self.nbytes)
        return self._cache[name]

    def is_(self, name):
        return self._m(name)[0]

    def fields(self, name):
        return self._m(name)[1]

    @property
    def entries(self):
        out = []
        for n in NAMES:
            c, f = self._m(n)
            if c is not False:
                out.append((c, n, f))
        return out

    # concrete words only
    @property
    def mnemonic(self):
        hits = [n for (c, n, f) in self.entries if c]
        if len(hits) > 1:
            raise AssertionError(f"ambiguous decode {hits}")
        return hits[0] if hits else None

    @property
    def operands(self):
        n = self.mnemonic
        return None if n is None else dict(self.fields(n))


def decode(w, nbytes):
    return Decoded(w, nbytes)


def length_at(hw1):
    return 4 if is32(hw1) else 2


# ---------------------------------------------------------------------------------------------- self test
# encodings as GNU as / objdump (arm-none-eabi, -mthumb) produce them: (halfwords, name, operands)
KNOWN = [
    ((0x4770,), "bx", dict(rm=14)), ((0x4718,), "bx", dict(rm=3)), ((0x4798,), "blx_reg", dict(rm=3)),
    ((0xBF00,), "nop", {}), ((0xBF10,), "yield", {}), ((0xBF20,), "wfe", {}), ((0xBF30,), "wfi", {}), ((0xBF40,), "sev", {}),
    ((0xB500,), "push", dict(list=1 << 14)), ((0xBD00,), "pop", dict(list=1 << 15)),
    ((0xB580,), "push", dict(list=(1 << 14) | (1 << 7))), ((0xBD80,), "pop", dict(list=(1 << 15) | (1 << 7))),
    ((0xB5F0,), "push", dict(list=(1 << 14) | 0xF0)), ((0xBDF0,), "pop", dict(list=(1 << 15) | 0xF0)),
    ((0x2000,), "mov_imm", dict(rd=0, imm=0)), ((0x20FF,), "mov_imm", dict(rd=0, imm=255)),
    ((0x4608,), "mov_reg", dict(rd=0, rm=1)), ((0x46C0,), "mov_reg", dict(rd=8, rm=8)),
    ((0x4685,), "mov_reg", dict(rd=13, rm=0)), ((0x466F,), "mov_reg", dict(rd=7, rm=13)), ((0x46F7,), "mov_reg", dict(rd=15, rm=14)),
    ((0x0008,), "mov_reg_t2", dict(rd=0, rm=1)),
    ((0xE7FE,), "b", dict(imm=-4)), ((0xE000,), "b", dict(imm=0)), ((0xE3FF,), "b", dict(imm=2046)), ((0xE400,), "b", dict(imm=-2048)),
    ((0xD0FE,), "b_cond", dict(cond=0, imm=-4)), ((0xD1FE,), "b_cond", dict(cond=1, imm=-4)), ((0xDB00,), "b_cond", dict(cond=11, imm=0)),
    ((0xD27F,), "b_cond", dict(cond=2, imm=254)), ((0xD380,), "b_cond", dict(cond=3, imm=-256)),
    ((0xBE00,), "bkpt", dict(imm=0)), ((0xBEAB,), "bkpt", dict(imm=0xAB)), ((0xDF00,), "svc", dict(imm=0)), ((0xDE00,), "udf", dict(imm=0)),
    ((0xB082,), "sub_sp_imm7", dict(imm=8)), ((0xB002,), "add_sp_imm7", dict(imm=8)), ((0xB07F,), "add_sp_imm7", dict(imm=508)),
    ((0xAF00,), "add_rd_sp_imm", dict(rd=7, imm=0)), ((0xA801,), "add_rd_sp_imm", dict(rd=0, imm=4)),
    ((0x6800,), "ldr_imm", dict(rt=0, rn=0, imm=0)), ((0x6008,), "str_imm", dict(rt=0, rn=1, imm=0)),
    ((0x6848,), "ldr_imm", dict(rt=0, rn=1, imm=4)), ((0x67C8,), "str_imm", dict(rt=0, rn=1, imm=124)),
    ((0x7800,), "ldrb_imm", dict(rt=0, rn=0, imm=0)), ((0x7048,), "strb_imm", dict(rt=0, rn=1, imm=1)),
    ((0x8800,), "ldrh_imm", dict(rt=0, rn=0, imm=0)), ((0x8048,), "strh_imm", dict(rt=0, rn=1, imm=2)),
    ((0x8848,), "ldrh_imm", dict(rt=0, rn=1, imm=2)), ((0x8FC8,), "ldrh_imm", dict(rt=0, rn=1, imm=62)),
    ((0x9801,), "ldr_sp", dict(rt=0, imm=4)), ((0x9001,), "str_sp", dict(rt=0, imm=4)), ((0x9FFF,), "ldr_sp", dict(rt=7, imm=1020)),
    ((0x4800,), "ldr_lit", dict(rt=0, imm=0)), ((0x4B01,), "ldr_lit", dict(rt=3, imm=4)), ((0xA000,), "adr", dict(rd=0, imm=0)),
    ((0x5840,), "ldr_reg", dict(rt=0, rn=0, rm=1)), ((0x5040,), "str_reg", dict(rt=0, rn=0, rm=1)),
    ((0x5C40,), "ldrb_reg", dict(rt=0, rn=0, rm=1)), ((0x5A40,), "ldrh_reg", dict(rt=0, rn=0, rm=1)),
    ((0x1840,), "add_reg", dict(rd=0, rn=0, rm=1)), ((0x1A40,), "sub_reg", dict(rd=0, rn=0, rm=1)),
    ((0x1C40,), "add_imm3", dict(rd=0, rn=0, imm=1)), ((0x1E40,), "sub_imm3", dict(rd=0, rn=0, imm=1)),
    ((0x3001,), "add_imm8", dict(rdn=0, imm=1)), ((0x3801,), "sub_imm8", dict(rdn=0, imm=1)), ((0x2800,), "cmp_imm", dict(rn=0, imm=0)),
    ((0x0040,), "lsl_imm", dict(rd=0, rm=0, imm=1)), ((0x0840,), "lsr_imm", dict(rd=0, rm=0, imm=1)),
    ((0x1040,), "asr_imm", dict(rd=0, rm=0, imm=1)), ((0x0800,), "lsr_imm", dict(rd=0, rm=0, imm=32)),
    ((0x4008,), "and_reg", dict(rdn=0, rm=1)), ((0x4048,), "eor_reg", dict(rdn=0, rm=1)), ((0x4088,), "lsl_reg", dict(rdn=0, rm=1)),
    ((0x40C8,), "lsr_reg", dict(rdn=0, rm=1)), ((0x4108,), "asr_reg", dict(rdn=0, rm=1)), ((0x4148,), "adc_reg", dict(rdn=0, rm=1)),
    ((0x4188,), "sbc_reg", dict(rdn=0, rm=1)), ((0x41C8,), "ror_reg", dict(rdn=0, rm=1)), ((0x4208,), "tst_reg", dict(rn=0, rm=1)),
    ((0x4248,), "rsb_imm0", dict(rd=0, rn=1)), ((0x4240,), "rsb_imm0", dict(rd=0, rn=0)), ((0x4288,), "cmp_reg", dict(rn=0, rm=1)),
    ((0x42C8,), "cmn_reg", dict(rn=0, rm=1)), ((0x4308,), "orr_reg", dict(rdn=0, rm=1)), ((0x4348,), "mul", dict(rdm=0, rn=1)),
    ((0x4388,), "bic_reg", dict(rdn=0, rm=1)), ((0x43C8,), "mvn_reg", dict(rd=0, rm=1)),
    ((0x4408,), "add_reg_hi", dict(rdn=0, rm=1)), ((0x4485,), "add_reg_hi", dict(rdn=13, rm=0)), ((0x4588,), "cmp_reg_hi", dict(rn=8, rm=1)),
    ((0xB2C0,), "uxtb", dict(rd=0, rm=0)), ((0xB280,), "uxth", dict(rd=0, rm=0)), ((0xB240,), "sxtb", dict(rd=0, rm=0)),
    ((0xB200,), "sxth", dict(rd=0, rm=0)), ((0xBA00,), "rev", dict(rd=0, rm=0)), ((0xBA40,), "rev16", dict(rd=0, rm=0)),
    ((0xBAC0,), "revsh", dict(rd=0, rm=0)),
    ((0xB672,), "cps", dict(im=1, I=1, F=0)), ((0xB662,), "cps", dict(im=0, I=1, F=0)),
    ((0xB100,), "cbz", dict(rn=0, imm=0)), ((0xB908,), "cbnz", dict(rn=0, imm=2)), ((0xB3F8,), "cbz", dict(rn=0, imm=126)),
    ((0xBF08,), "it", dict(firstcond=0, mask=8)), ((0xBF18,), "it", dict(firstcond=1, mask=8)),
    ((0xC803,), "ldmia", dict(rn=0, list=3)), ((0xC103,), "stmia", dict(rn=1, list=3)),
    ((0xF7FF, 0xFFFE), "bl", dict(imm=-4)), ((0xF000, 0xF800), "bl", dict(imm=0)), ((0xF000, 0xF801), "bl", dict(imm=2)),
    ((0xF3FF, 0xD7FF), "bl", dict(imm=(1 << 24) - 2)), ((0xF400, 0xD000), "bl", dict(imm=-(1 << 24))),
    ((0xF000, 0xB800), "b_w", dict(imm=0)), ((0xF7FF, 0xBFFE), "b_w", dict(imm=-4)),
    ((0xF3FF, 0x97FF), "b_w", dict(imm=(1 << 24) - 2)), ((0xF400, 0x9000), "b_w", dict(imm=-(1 << 24))),
    ((0xF000, 0x8000), "b_cond_w", dict(cond=0, imm=0)), ((0xF47F, 0xAFFE), "b_cond_w", dict(cond=1, imm=-4)),
    ((0xF43F, 0xAFFE), "b_cond_w", dict(cond=0, imm=-4)), ((0xF040, 0x8002), "b_cond_w", dict(cond=1, imm=4)),
    ((0xF03F, 0xAFFF), "b_cond_w", dict(cond=0, imm=(1 << 20) - 2)), ((0xF400, 0x8000), "b_cond_w", dict(cond=0, imm=-(1 << 20))),
    ((0xFB90, 0xF0F1), "sdiv", dict(rd=0, rn=0, rm=1)), ((0xFBB0, 0xF0F1), "udiv", dict(rd=0, rn=0, rm=1)),
    ((0xFB92, 0xF1F3), "sdiv", dict(rd=1, rn=2, rm=3)), ((0xFB01, 0xF002), "mul_w", dict(rd=0, rn=1, rm=2)),
]


def word_of(hws):
    return hws[0] | (hws[1] << 16 if len(hws) > 1 else 0)


def _eval(x):
    """value of a closed z3 term / condition"""
    if type(x) in (bool, int):
        return x
    s = z3.simplify(x)
    if z3.is_bool(s):
        assert z3.is_true(s) or z3.is_false(s), s
        return z3.is_true(s)
    return s.as_long()


def _same(a, b):
    if type(a) is bool or type(b) is bool:
        return bool(a) == bool(b)
    return (a & M32) == (b & M32)


# --- the repo's own assembler test vectors: a reader for the assembly text used there (manual syntax, no '#')
_REGN = dict(sp=13, lr=14, pc=15)


def _reg(t):
    t = t.strip().lower()
    if t in _REGN:
        return _REGN[t]
    assert t[0] == "r" and t[1:].isdigit(), t
    return int(t[1:])


def _reglist(t):
    t = t.strip()
    assert t[0] == "{" and t[-1] == "}", t
    m = 0
    for part in t[1:-1].split(","):
        if "-" in part:
            a, b = part.split("-")
            for k in range(_reg(a), _reg(b) + 1):
                m |= 1 << k
        else:
            m |= 1 << _reg(part)
    return m


def _isreg(t):
    t = t.strip().lower()
    return t in _REGN or (t[:1] == "r" and t[1:].isdigit())


def _split_ops(rest):
    out, depth, cur = [], 0, ""
    for ch in rest:
        if ch in "[{":
            depth += 1
        elif ch in "]}":
            depth -= 1
        if ch == "," and depth == 0:
            out.append(cur.strip())
            cur = ""
        else:
            cur += ch
    if cur.strip():
        out.append(cur.strip())
    return out


def asm_expect(text, addr, labels):
    """what the manual says `text` (at address addr) is: (table name, operand fields).  Pre-UAL Thumb syntax as used
    in the repo's tests; label operands give imm = label - (addr + 4) (LDR literal / ADR: - Align(addr + 4, 4))"""
    parts = text.strip().split(None, 1)
    mn = parts[0].lower()
    ops = _split_ops(parts[1]) if len(parts) > 1 else []
    DP2 = {"and": "and_reg", "orr": "orr_reg", "eor": "eor_reg", "lsl": "lsl_reg", "lsr": "lsr_reg", "asr": "asr_reg"}
    rel = lambda l: labels[l] - (addr + 4)                # noqa
    if mn in ("nop", "yield") and not ops:
        return mn, {}
    if mn == "mov" and _isreg(ops[1]):
        return "mov_reg", dict(rd=_reg(ops[0]), rm=_reg(ops[1]))
    if mn == "mov":
        return "mov_imm", dict(rd=_reg(ops[0]), imm=int(ops[1], 0))
    if mn in ("push", "pop"):
        return mn, dict(list=_reglist(ops[0]))
    if mn in ("str", "ldr", "strb", "ldrb", "strh", "ldrh") and ops[1].startswith("["):
        b, o = [x.strip() for x in ops[1][1:-1].split(",")]
        if b.lower() == "sp":
            return mn + "_sp", dict(rt=_reg(ops[0]), imm=int(o, 0))
        return mn + "_imm", dict(rt=_reg(ops[0]), rn=_reg(b), imm=int(o, 0))
    if mn == "ldr":
        return "ldr_lit", dict(rt=_reg(ops[0]), imm=labels[ops[1]] - ((addr + 4) & ~3))
    if mn == "adr":
        return "adr", dict(rd=_reg(ops[0]), imm=labels[ops[1]] - ((addr + 4) & ~3))
    if mn == "b":
        return "b", dict(imm=rel(ops[0]))
    if mn == "bw":
        return "b_w", dict(imm=rel(ops[0]))
    if mn == "bl":
        return "bl", dict(imm=rel(ops[0]))
    if mn == "blx":
        return "blx_reg", dict(rm=_reg(ops[0]))
    if mn[0] == "b" and cond_number(mn[1:]) is not None:
        return "b_cond", dict(cond=cond_number(mn[1:]), imm=rel(ops[0]))
    if mn[0] == "b" and mn[-1] == "w" and cond_number(mn[1:-1]) is not None:
        return "b_cond_w", dict(cond=cond_number(mn[1:-1]), imm=rel(ops[0]))
    if mn == "cmp" and _isreg(ops[1]):
        return "cmp_reg", dict(rn=_reg(ops[0]), rm=_reg(ops[1]))
    if mn == "cmp":
        return "cmp_imm", dict(rn=_reg(ops[0]), imm=int(ops[1], 0))
    if mn in ("add", "sub") and ops[0].lower() == "sp":
        assert ops[1].lower() == "sp"
        return mn + "_sp_imm7", dict(imm=int(ops[2], 0))
    if mn in ("add", "sub") and len(ops) == 3 and _isreg(ops[2]):
        return mn + "_reg", dict(rd=_reg(ops[0]), rn=_reg(ops[1]), rm=_reg(ops[2]))
    if mn in ("add", "sub") and len(ops) == 3:
        return mn + "_imm3", dict(rd=_reg(ops[0]), rn=_reg(ops[1]), imm=int(ops[2], 0))
    if mn in DP2:
        return DP2[mn], dict(rdn=_reg(ops[0]), rm=_reg(ops[1]))
    if mn == "rsb" and len(ops) == 2:        # NEG Rd, Rm = RSBS Rd, Rm, #0
        return "rsb_imm0", dict(rd=_reg(ops[0]), rn=_reg(ops[1]))
    if mn == "bkpt":
        return "bkpt", dict(imm=int(ops[0], 0))
    raise AssertionError(f"thumbdec.asm_expect: no reading for {text!r}")


def repo_vectors(path):
    """[(test name, [feed strings], hex string)] of the repo's test_thumbasm.py (tests with a non-trivial check)"""
    import ast
    tree = ast.parse(open(path).read())
    out = []
    for cls in [n for n in tree.body if isinstance(n, ast.ClassDef)]:
        for fn in [n for n in cls.body if isinstance(n, ast.FunctionDef) and n.name.startswith("test")]:
            if any(isinstance(d, ast.Call) and getattr(d.func, "attr", "") == "skip" for d in fn.decorator_list):
                continue
            feeds, chk = [], None
            for st in ast.walk(fn):
                if isinstance(st, ast.Call) and isinstance(st.func, ast.Attribute) and st.args and isinstance(st.args[0], ast.Constant):
                    if st.func.attr == "feed":
                        feeds.append((st.lineno, st.args[0].value))
                    elif st.func.attr == "check" and isinstance(st.args[0].value, str):
                        chk = st.args[0].value
            if chk is not None and feeds:
                out.append((fn.name, [f for _, f in sorted(feeds)], chk))
    return out


def check_repo_vector(name, feeds, hexstr):
    """decode the expected bytes of one repo test sequentially and compare with the assembly text -> instructions checked"""
    data = bytes.fromhex(hexstr.replace(" ", ""))
    items, pos = [], 0
    for line in feeds:                       # pass 1: layout (instruction lengths come from the bytes)
        line = line.strip()
        lab = None
        if ":" in line:
            lab, line = [x.strip() for x in line.split(":", 1)]
        if lab:
            items.append(("label", lab, pos))
        if not line:
            continue
        if line.split()[0] == "align":
            pos = (pos + int(line.split()[1]) - 1) // int(line.split()[1]) * int(line.split()[1])
        elif line.split()[0] in ("dd", "dcd"):
            pos += 4
        elif line.split()[0] == "nop" and data[pos:pos + 2] != bytes([0x00, 0xBF]):
            items.append(("skip", line, pos))     # a `nop` for which the vector has no bytes (ppci's nop emitted nothing)
        else:
            assert pos + 2 <= len(data), (name, line)
            n = length_at(data[pos] | data[pos + 1] << 8)
            items.append(("ins", line, pos, n))
            pos += n
    assert pos == len(data), f"{name}: layout {pos} != {len(data)} bytes"
    labels = {it[1]: it[2] for it in items if it[0] == "label"}
    done = 0
    for it in items:
        if it[0] != "ins":
            continue
        _, line, p, n = it
        w = int.from_bytes(data[p:p + n], "little")
        want, ops = asm_expect(line, p, labels)
        d = decode(w, n)
        assert d.mnemonic == want, f"{name}: {line!r} = {data[p:p + n].hex()} decodes to {d.mnemonic}, text says {want}"
        got = d.operands
        for k, v in ops.items():
            assert _same(got[k], v), f"{name}: {line!r} operand {k}: decoded {got[k]}, text says {v}"
        done += 1
    return done


def selftest(repo_test=None, seed=0, nrandom=400):
    """-> dict of counts; AssertionError on any inconsistency"""
    import random
    st = {}
    # 1. the table is a function of the instruction word: every halfword matches at most one 16-bit entry, no 16-bit
    #    diagram starts with a 32-bit prefix, every 32-bit diagram does; the 32-bit entries are pairwise exclusive
    t16 = [e for e in T if e[1] == 2]
    t32 = [e for e in T if e[1] == 4]
    hits_total = 0
    cm = [(n, _C[n][0], _C[n][1]) for (n, *_r) in t16]
    for hw in range(1 << 16):
        cand = [n for (n, mask, mt) in cm if (hw & mask) == mt]
        cand = [n for n in cand if match(n, hw, 2)[0]]
        assert len(cand) <= 1, f"halfword {hw:#06x} matches {cand}"
        if cand:
            assert not is32(hw), f"{hw:#06x}: 16-bit entry {cand} in the 32-bit prefix space"
            hits_total += 1
    st["halfwords_decoded"] = hits_total
    w = z3.BitVec("w", 32)
    for (name, *_r) in t32:
        mask, mt, _ = _C[name]
        assert is32(mt & 0xFFFF), name
    for a in range(len(t32)):
        for b in range(a + 1, len(t32)):
            s = z3.Solver()
            s.add(match(t32[a][0], w, 4)[0], match(t32[b][0], w, 4)[0])
            assert s.check() == z3.unsat, f"32-bit entries {t32[a][0]} / {t32[b][0]} overlap"
    st["entries"] = len(T)
    # 2. known toolchain encodings, integer and z3 back ends
    for hws, name, ops in KNOWN:
        wv = word_of(hws)
        n = 2 * len(hws)
        d = decode(wv, n)
        assert d.mnemonic == name, f"{[hex(h) for h in hws]}: decoded {d.mnemonic}, toolchain says {name}"
        got = d.operands
        for k, v in ops.items():
            assert _same(got[k], v), f"{[hex(h) for h in hws]} {name}.{k}: decoded {got[k]}, toolchain says {v}"
        c, f = match(name, z3.BitVecVal(wv, 32), n)
        assert _eval(c) is True, (hws, name)
        for k, v in ops.items():
            assert _same(_eval(f[k]), v), (hws, name, k)
    st["known_encodings"] = len(KNOWN)
    # 3. integer vs z3 back end on random words, every entry: same match condition, same fields
    rnd = random.Random(seed)
    cmp_ = 0
    for _ in range(nrandom):
        for nb in (2, 4):
            if nb == 2:
                wv = rnd.getrandbits(16)
            else:
                wv = rnd.choice([0xF000, 0xF400, 0xFB90, 0xFBB0, 0xFB00, 0xE800, 0xF800]) | rnd.getrandbits(rnd.choice([4, 11]))
                wv |= (rnd.getrandbits(16) | rnd.choice([0, 0x8000, 0xF000, 0xF0F0])) << 16
            for name in NAMES:
                ci, fi = match(name, wv, nb)
                cz, fz = match(name, z3.BitVecVal(wv, 32), nb)
                assert bool(ci) == bool(_eval(cz)), (hex(wv), name)
                if ci:
                    assert set(fi) == set(fz), (name, fi, fz)
                    for k in fi:
                        assert _same(fi[k], _eval(fz[k])), (hex(wv), name, k)
                    cmp_ += 1
    st["int_vs_z3_matches_compared"] = cmp_
    # 4. the repo's own assembler test vectors
    if repo_test:
        vecs = repo_vectors(repo_test)
        st["repo_vectors"] = len(vecs)
        st["repo_instructions"] = sum(check_repo_vector(*v) for v in vecs)
    return st


if __name__ == "__main__":
    import sys
    print(selftest(sys.argv[1] if len(sys.argv) > 1 else None))
