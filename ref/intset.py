"""Reference semantics of finite unions of closed integer intervals (independent of ppci).

A "range list" is a sequence of pairs (lo, hi) denoting the set  U { x in Z | lo <= x <= hi }.
A pair with lo > hi denotes the empty set.  Everything here is a closed, quantifier-free
formula over the endpoints, works on plain ints and on symx proxies, and never looks at how an
implementation merges or orders intervals.
"""
from itertools import combinations
from symx.core import sym_and, sym_or, sym_not, ite, SymBool


def _b(x):
    """bool / SymBool / anything truthy -> bool or SymBool"""
    if isinstance(x, SymBool):
        return x
    return bool(x)


def iff(a, b):
    a = _b(a)
    b = _b(b)
    if isinstance(a, SymBool):
        return a == b
    if isinstance(b, SymBool):
        return b == a
    return a == b


def xor(a, b):
    return sym_not(iff(a, b))


def member(ranges, x):
    """x is an element of the set denoted by the range list"""
    return sym_or(False, *[sym_and(lo <= x, x <= hi) for lo, hi in ranges])


# the four binary set operations as boolean connectives on memberships
SET_OPS = {
    "union": lambda p, q: sym_or(p, q),
    "intersection": lambda p, q: sym_and(p, q),
    "difference": lambda p, q: sym_and(p, sym_not(q)),
    "symmetric_difference": lambda p, q: xor(p, q),
}


def canonical(ranges):
    """sorted, every range non-empty, consecutive ranges neither overlapping nor adjacent"""
    cs = [True]
    prev = None
    for lo, hi in ranges:
        cs.append(lo <= hi)
        if prev is not None:
            cs.append(prev + 1 < lo)
        prev = hi
    return sym_and(*cs)


def canonical_parts(ranges):
    """the same, split into the three named requirements of the property text"""
    nonempty = [True]
    ordered = [True]      # sorted and non-overlapping:  hi[i-1] < lo[i]
    nonadj = [True]       # non-adjacent:                hi[i-1] + 1 != lo[i]
    prev = None
    for lo, hi in ranges:
        nonempty.append(lo <= hi)
        if prev is not None:
            ordered.append(prev < lo)
            nonadj.append(prev + 1 != lo)
        prev = hi
    return {"ranges-non-empty": sym_and(*nonempty),
            "sorted-non-overlapping": sym_and(*ordered),
            "non-adjacent": sym_and(*nonadj)}


def size(lo, hi):
    """number of integers in [lo, hi]"""
    return ite(lo <= hi, hi - lo + 1, 0)


def _max(a, b):
    return ite(a >= b, a, b)


def _min(a, b):
    return ite(a <= b, a, b)


def card(ranges):
    """|U ranges| for ARBITRARY (overlapping, reversed, duplicated) ranges by inclusion-exclusion:
    the intersection of intervals is the interval [max lo, min hi]."""
    ranges = list(ranges)
    total = 0
    for n in range(1, len(ranges) + 1):
        sign = 1 if n % 2 else -1
        for sub in combinations(ranges, n):
            lo, hi = sub[0]
            for l2, h2 in sub[1:]:
                lo = _max(lo, l2)
                hi = _min(hi, h2)
            total = total + sign * size(lo, hi)
    return total


def critical_points(*range_lists):
    """points at which two unions of intervals must differ if they differ anywhere:
    the least element of a maximal run of the difference is a lower end point of one set or
    the successor of an upper end point of the other"""
    pts = []
    for rl in range_lists:
        for lo, hi in rl:
            pts.append(lo)
            pts.append(hi + 1)
    return pts


def same_set(r1, r2):
    """the two range lists denote the same set of integers (quantifier-free)"""
    return sym_and(True, *[iff(member(r1, p), member(r2, p)) for p in critical_points(r1, r2)])


def pairwise_disjoint(ranges):
    """no integer lies in two of the ranges"""
    ranges = list(ranges)
    cs = [True]
    for (l1, h1), (l2, h2) in combinations(ranges, 2):
        cs.append(sym_not(sym_and(_max(l1, l2) <= _min(h1, h2))))
    return sym_and(*cs)


def card_disjoint(ranges):
    """|U ranges| for pairwise disjoint ranges: the sum of the sizes"""
    total = 0
    for lo, hi in ranges:
        total = total + size(lo, hi)
    return total


def denotes_nothing(ranges):
    return sym_and(True, *[lo > hi for lo, hi in ranges])
