"""Reference reader for Motorola S-record files, written from the format description
(Motorola M68000 Family Programmer's Reference Manual, appendix C "S-Record Output Format";
Unix manual page srec(5)).  No ppci imports.

Record:  'S' T CC AAAA[AA[AA]] DD* KK       (two hex digits per byte, either case)
  T    record type, one decimal digit
         0  header           2 address bytes (zero), data = vendor specific text
         1  data             2 address bytes        2  data  3 address bytes      3  data  4 address bytes
         5  record count     2 address bytes = number of S1/S2/S3 records so far, no data
         6  record count     3 address bytes
         7  termination      4 address bytes (start address), ends a block of S3 records, no data
         8  termination      3 address bytes, ends a block of S2 records
         9  termination      2 address bytes, ends a block of S1 records
  CC   count: number of bytes that follow = address bytes + data bytes + 1 (checksum)
  KK   checksum: ones' complement of the low byte of the sum of the count, address and data bytes,
       i.e. the low byte of the sum of ALL record bytes (count .. checksum) is 0xFF
File: an optional header record first, data records, an optional count record, one termination
record last whose type matches the data records (S1/S9, S2/S8, S3/S7).

Works on plain str lines and on symx proxies; record-level checks are returned as conditions
(no branching on symbolic values).  `canon` is the optional proof-engineering hook described in
ref/ihex.py (replace a decoded byte / digit check by an equal simpler term, proved by the caller's canon).
"""
from symx.core import sym_and, sym_or, sym_not, ite

ADDRESS_BYTES = {0: 2, 1: 2, 2: 3, 3: 4, 5: 2, 6: 3, 7: 4, 8: 3, 9: 2}
DATA_TYPES = (1, 2, 3)
TERMINATION_OF = {1: 9, 2: 8, 3: 7}


def cps_of(line):
    c = getattr(line, "cps", None)
    if c is not None:
        return list(c)
    return [ord(ch) for ch in line]


def hexval(c):
    """(value, is_hex_digit) of one character code, branch-free"""
    dig = sym_and(c >= 48, c <= 57)
    low = sym_and(c >= 97, c <= 102)
    upp = sym_and(c >= 65, c <= 70)
    v = ite(dig, c - 48, ite(low, c - 87, ite(upp, c - 55, 0)))
    return v, sym_or(dig, low, upp)


def be(bs):
    v = 0
    for b in bs:
        v = v * 256 + b
    return v


def parse_record(line, canon=None):
    """One line (no terminator) -> dict(ok, typ, address, data, count_ok, checksum_ok), or None
    if the text cannot be a record at all (too short, odd number of digits, type not a concrete
    decimal digit with a defined meaning, too short for its address field)."""
    cps = cps_of(line)
    if len(cps) < 10 or len(cps) % 2:
        return None
    t = cps[1]
    if type(t) is not int or not (48 <= t <= 57) or (t - 48) not in ADDRESS_BYTES:
        return None
    typ = t - 48
    bs, valid = [], []
    for i in range(2, len(cps), 2):
        h, okh = hexval(cps[i])
        l, okl = hexval(cps[i + 1])
        valid.append(sym_and(okh, okl))
        bs.append(h * 16 + l)
    if canon is not None:
        bs, valid = canon(cps[2:], bs, valid)
    conds = [cps[0] == 83] + valid
    na = ADDRESS_BYTES[typ]
    if len(bs) < 1 + na + 1:
        return None
    count_ok = bs[0] == len(bs) - 1
    total = 0
    for b in bs:
        total = total + b
    checksum_ok = (total % 256) == 255
    return dict(ok=sym_and(count_ok, checksum_ok, *conds), typ=typ, address=be(bs[1:1 + na]),
                data=bs[1 + na:-1], count_ok=count_ok, checksum_ok=checksum_ok)


def decode(lines, canon=None):
    """Whole file (list of lines, no terminators) ->
       dict(records_ok, structure_ok, header=[bytes]|None, data=[(address, [bytes])...] in file
            order, data_types=set, termination=(typ, address)|None)"""
    rconds, conds = [], []
    header = None
    data = []
    types = set()
    term = None
    n = 0
    for line in lines:
        n += 1
        if term is not None:
            conds.append(False)           # record after the termination record
            break
        r = parse_record(line, canon)
        if r is None:
            rconds.append(False)
            continue
        rconds.append(r["ok"])
        typ = r["typ"]
        if typ == 0:
            conds.append(n == 1)          # the header record comes first
            conds.append(r["address"] == 0)
            header = r["data"]
        elif typ in DATA_TYPES:
            types.add(typ)
            data.append((r["address"], r["data"]))
        elif typ in (5, 6):
            conds.append(len(r["data"]) == 0)
            conds.append(r["address"] == len(data))
        else:
            conds.append(len(r["data"]) == 0)
            term = (typ, r["address"])
    conds.append(term is not None)        # the file ends with a termination record
    if term is not None:
        for t in types:
            conds.append(TERMINATION_OF[t] == term[0])
    return dict(records_ok=sym_and(*rconds) if rconds else True, structure_ok=sym_and(*conds),
                header=header, data=data,
                data_types=types, termination=term)


def load(data_records):
    """Memory after loading the data records in file order (a later record overwrites an earlier one):
    (memory dict address -> byte, set of addresses written more than once).  Addresses must be plain
    integers (they are, whenever the record layout does not depend on symbolic values)."""
    mem = {}
    twice = set()
    for a, d in data_records:
        for k, b in enumerate(d):
            if a + k in mem:
                twice.add(a + k)
            mem[a + k] = b
    return mem, twice


def selftest():
    """known-good records from common references (plain values)"""
    r = parse_record("S1137AF00A0A0D0000000000000000000000000061")
    assert r["ok"] and r["typ"] == 1 and r["address"] == 0x7AF0 and len(r["data"]) == 16
    assert not parse_record("S1137AF00A0A0D0000000000000000000000000062")["ok"]
    assert not parse_record("S1127AF00A0A0D0000000000000000000000000061")["count_ok"]
    d = decode(["S00F000068656C6C6F202020202000003C", "S11F00007C0802A6900100049421FFF07C6C1B787C8C23783C6000003863000026",
                "S5030001FB", "S9030000FC"])
    assert d["records_ok"] and d["structure_ok"] and d["header"][:5] == [0x68, 0x65, 0x6C, 0x6C, 0x6F]
    assert d["data"][0][0] == 0 and len(d["data"][0][1]) == 28 and d["termination"] == (9, 0)
    assert not decode(["S1137AF00A0A0D0000000000000000000000000061", "S804000000FB"])["structure_ok"]   # S1 with S8
    assert not decode(["S1137AF00A0A0D0000000000000000000000000061"])["structure_ok"]                    # no termination
    d = decode(["S20801000001020304EC", "S804000000FB"])
    assert d["records_ok"] and d["structure_ok"] and d["data"] == [(0x10000, [1, 2, 3, 4])]
    mem, twice = load([(0, [1, 2]), (1, [9])])
    assert mem == {0: 1, 1: 9} and twice == {1}
    return True
