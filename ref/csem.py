"""Reference semantics of C integer constant expressions (independent of ppci; no ppci imports).

Source: ISO/IEC 9899:2011 (C11)
  6.3.1.1  integer conversion rank, integer promotions
  6.3.1.3  conversion to an integer type: value kept if representable; to unsigned: reduced modulo
           2**N; to signed and not representable: implementation-defined -- taken as gcc documents it
           ("reduced modulo 2**N to be within range of the type", gcc manual 4.5 Integers), which is what
           every two's complement compiler does
  6.3.1.8  usual arithmetic conversions
  6.4.4.1  type of an integer constant (here: fixed by the suffix, values restricted to that type's range)
  6.5.3.3  unary + - ~ !      6.5.4 casts      6.5.5 * / % (quotient truncates toward zero,
           (a/b)*b + a%b == a)  6.5.6 + -      6.5.7 shifts (each operand promoted separately, result has
           the type of the promoted LEFT operand; count < 0 or >= width undefined; E1 << E2 of a signed E1
           undefined if E1 < 0 or E1 * 2**E2 not representable; E1 >> E2 of a negative E1
           implementation-defined -- gcc: arithmetic shift = floor(E1 / 2**E2))
  6.5.8/9  relational / equality operators: usual arithmetic conversions, result int 0/1
  6.5.10-12 & ^ |             6.5.13/14 && || (int 0/1, right operand unevaluated when decided)
  6.5.15   ?: (result type from the usual arithmetic conversions of operands 2 and 3; only one evaluated)
  6.5p5    signed overflow is undefined behaviour;  6.6p4 a constant expression shall evaluate to a
           value representable in its type
  6.10.1p4 #if: all signed integer types act as intmax_t, all unsigned ones as uintmax_t
           (modelled as a data model whose integer types are all 64 bits wide)

Undefined behaviour / constraint violations are reported through `Eval.defined` (a *premise* of the
properties, never a failure).  Besides the value the evaluator reports *where the mathematical result
had to be changed* (`flags`), which the property modules use to describe known-defect regions:

  wrap      some conversion (cast, implicit conversion, unsigned arithmetic, conversion to the
            destination) reduced a value modulo 2**N, i.e. changed it
  overflow  a signed operation's mathematical result was not representable (undefined behaviour)
  floordiv  some evaluated / or % had a non-zero remainder and operands of opposite sign
            (where floor and truncation differ)
  divzero   some evaluated / or % had a zero divisor          (undefined)
  negshift  some evaluated shift had a negative count          (undefined)
  bigshift  some evaluated shift had a count >= width          (undefined)
  neglshift some evaluated << had a negative signed left operand (undefined)

Every function works on plain ints and on symx SymInt (exact integer arithmetic in the engine's
W-bit domain followed by explicit reduction: the engine guarantees that its arithmetic does not wrap).
"""
import z3
from symx import core
from symx.core import SymInt, SymBool, sym_and, sym_or, sym_not, ite, any_sym

TYPES = ("char", "uchar", "short", "ushort", "int", "uint", "long", "ulong", "llong", "ullong")
SPELL = {"char": "char", "uchar": "unsigned char", "short": "short", "ushort": "unsigned short",
         "int": "int", "uint": "unsigned int", "long": "long", "ulong": "unsigned long",
         "llong": "long long", "ullong": "unsigned long long"}
_RANK = {"char": 1, "uchar": 1, "short": 2, "ushort": 2, "int": 3, "uint": 3, "long": 4, "ulong": 4,
         "llong": 5, "ullong": 5}
_BASE = {"char": "char", "uchar": "char", "short": "short", "ushort": "short", "int": "int", "uint": "int",
         "long": "long", "ulong": "long", "llong": "llong", "ullong": "llong"}
_UNSIGNED_OF = {"char": "uchar", "short": "ushort", "int": "uint", "long": "ulong", "llong": "ullong"}
SUFFIX_TYPE = {"": "int", "u": "uint", "l": "long", "ul": "ulong", "ll": "llong", "ull": "ullong"}
# suffix "auto": unsuffixed decimal constant whose type follows from its value (6.4.4.1)

UNOPS = {"neg": "-", "inv": "~", "lnot": "!", "pos": "+"}
BINOPS = {"add": "+", "sub": "-", "mul": "*", "div": "/", "mod": "%", "shl": "<<", "shr": ">>",
          "band": "&", "bor": "|", "bxor": "^", "lt": "<", "le": "<=", "gt": ">", "ge": ">=",
          "eq": "==", "ne": "!=", "land": "&&", "lor": "||"}


class DataModel:
    """sizes (bytes) of char/short/int/long/long long of a target; plain char signedness"""

    def __init__(self, name, sizes, char_signed=True, little_endian=True):
        self.name = name
        self.sizes = dict(sizes)
        self.char_signed = char_signed
        self.little_endian = little_endian

    def size(self, t):
        return self.sizes[_BASE[t]]

    def bits(self, t):
        return 8 * self.size(t)

    def signed(self, t):
        if t == "char":
            return self.char_signed
        return not t.startswith("u")

    def lo(self, t):
        return -(1 << (self.bits(t) - 1)) if self.signed(t) else 0

    def hi(self, t):
        return (1 << (self.bits(t) - 1)) - 1 if self.signed(t) else (1 << self.bits(t)) - 1

    def promote(self, t):
        """6.3.1.1p2"""
        if _RANK[t] >= _RANK["int"]:
            return t
        if self.lo("int") <= self.lo(t) and self.hi(t) <= self.hi("int"):
            return "int"
        return "uint"

    def uac(self, a, b):
        """6.3.1.8 on two integer types"""
        a, b = self.promote(a), self.promote(b)
        if a == b:
            return a
        if self.signed(a) == self.signed(b):
            return a if _RANK[a] >= _RANK[b] else b
        u, s = (a, b) if not self.signed(a) else (b, a)
        if _RANK[u] >= _RANK[s]:
            return u
        if self.hi(u) <= self.hi(s):
            return s
        return _UNSIGNED_OF[_BASE[s]]


LP64 = DataModel("lp64", dict(char=1, short=2, int=4, long=8, llong=8))
ILP32 = DataModel("ilp32", dict(char=1, short=2, int=4, long=4, llong=8))
IP16 = DataModel("ip16", dict(char=1, short=2, int=2, long=4, llong=8))
# preprocessor arithmetic (6.10.1p4): every signed type is intmax_t, every unsigned type uintmax_t
PP = DataModel("pp", dict(char=8, short=8, int=8, long=8, llong=8))


# --------------------------------------------------------------------------------------------------
def _symint(x):
    if type(x) is SymInt:
        return x
    if type(x) is SymBool:
        return x.as_int()
    return SymInt(z3.BitVecVal(int(x), core.ENG.W), int(x), int(x))


def tdivrem(a, b, nonzero=False):
    """(a / b truncated toward zero, a % b with the sign of the dividend, 'floor and truncation differ').
    Defined from floor division (Python's // and %, which is also what the engine provides):
        trunc(a/b) = floor(a/b) + 1  and  rem = mod - b   iff  the floor remainder is non-zero and a, b have opposite signs
        trunc(a/b) = floor(a/b)      and  rem = mod        otherwise
    For b == 0 the result is arbitrary (computed with divisor 1); the caller flags it as undefined."""
    z = b == 0
    if nonzero:
        # the caller has already established b != 0 (premise added to the path): use b itself
        if type(b) is SymInt and b.lo == 0:
            b = _bounded(b, 1, b.hi)
        elif type(b) is SymInt and b.hi == 0:
            b = _bounded(b, b.lo, -1)
    elif type(b) is SymInt:
        b1 = ite(z, 1, b)
        if b.lo >= 0:
            b1 = _bounded(b1, 1, max(b.hi, 1))
        elif b.hi <= 0:
            b1 = _bounded(b1, b.lo, -1) if b.lo < 0 else 1
        b = b1
    elif z:
        b = 1
    qf = a // b
    rf = a % b
    differs = sym_and(rf != 0, (a < 0) != (b < 0))
    return ite(differs, qf + 1, qf), ite(differs, rf - b, rf), differs


def _bounded(x, lo, hi):
    """x with the interval information [lo, hi] that holds by construction (x is an ite that maps every
    value outside [lo, hi] to one inside)"""
    if type(x) is SymInt:
        return core._mk(x.e, max(x.lo, lo), min(x.hi, hi))
    return x


def _int(b):
    """int 0/1 of a bool / SymBool"""
    if type(b) is SymBool:
        return b.as_int()
    return int(bool(b))


def _truth(v):
    """v != 0 as bool / SymBool (no fork)"""
    if type(v) is SymInt:
        return v != 0
    if type(v) is SymBool:
        return v
    return v != 0


class Eval:
    """one evaluation of an expression tree over literal values `lits` in data model `dm`"""

    def __init__(self, dm, lits, assume=None):
        """assume: optional callback adding a premise to the current path as soon as it is known (used for
        'divisor != 0' so that the division terms need no guard); None: premises are only collected in .defined"""
        self.dm = dm
        self.lits = lits
        self.assume = assume
        self.defined = True
        self.flags = dict(wrap=False, overflow=False, floordiv=False, divzero=False, negshift=False,
                          bigshift=False, neglshift=False)
        self._chstack = []      # accumulators of "some value was changed by a reduction" for enclosing / and % nodes

    # -- bookkeeping ---------------------------------------------------------------------------
    def _flag(self, name, g, cond):
        self.flags[name] = sym_or(self.flags[name], sym_and(g, cond))

    def _undef(self, g, cond):
        """evaluated (under guard g) and cond holds => undefined"""
        self.defined = sym_and(self.defined, sym_not(sym_and(g, cond)))

    def _reduce(self, v, t):
        """(value reduced modulo 2**N into the range of t, 'was changed')"""
        lo, hi = self.dm.lo(t), self.dm.hi(t)
        n = self.dm.bits(t)
        if type(v) is SymBool:
            v = v.as_int()
        if type(v) is SymInt:
            if v.lo >= lo and v.hi <= hi:
                return v, False
            changed = sym_or(v < lo, v > hi)
            # value kept where representable, reduced modulo 2**N elsewhere (written as an if-then-else so that
            # "nothing was reduced" makes the result literally the operand)
            r = _bounded(ite(changed, (v - lo) % (1 << n) + lo, v), lo, hi)
            return r, changed
        r = (v - lo) % (1 << n) + lo
        return r, r != v

    def _note_change(self, ch):
        if ch is not False:
            self._chstack[:] = [sym_or(c, ch) for c in self._chstack]

    def conv(self, v, t, g=True):
        """6.3.1.3 conversion of value v to type t"""
        r, ch = self._reduce(v, t)
        self._note_change(ch)
        self._flag("wrap", g, ch)
        return r

    def _arith(self, v, t, g):
        """mathematical result v of an arithmetic operator performed in type t"""
        r, ch = self._reduce(v, t)
        self._note_change(ch)
        if self.dm.signed(t):
            self._flag("overflow", g, ch)
            self._undef(g, ch)
        else:
            self._flag("wrap", g, ch)
        return r

    # -- evaluation -----------------------------------------------------------------------------
    def ev(self, e, g=True):
        """-> (value, type name); g = condition under which this subexpression is evaluated"""
        dm = self.dm
        k = e[0]
        if k == "lit":
            v = self.lits[e[1]]
            if e[2] == "auto":
                # unsuffixed decimal constant: the first of int, long, long long that can represent the value
                # (6.4.4.1p5); none => the constant has no type (constraint violation = premise).  The type depends
                # on the value: the evaluation forks here when the value is symbolic.
                for t in ("int", "long", "llong"):
                    if v <= dm.hi(t):
                        return v, t
                self._undef(g, True)
                return self.conv(v, "ullong", g), "ullong"
            return v, SUFFIX_TYPE[e[2]]
        if k == "cast":
            v, _ = self.ev(e[2], g)
            return self.conv(v, e[1], g), e[1]
        if k == "pos":
            v, t = self.ev(e[1], g)
            p = dm.promote(t)
            return self.conv(v, p, g), p
        if k == "neg":
            v, t = self.ev(e[1], g)
            p = dm.promote(t)
            return self._arith(-self.conv(v, p, g), p, g), p
        if k == "inv":
            v, t = self.ev(e[1], g)
            p = dm.promote(t)
            v = self.conv(v, p, g)
            if dm.signed(p):
                return ~v, p                         # -v - 1: always representable (two's complement)
            return self._arith(~v, p, g), p          # all bits flipped = (-v - 1) reduced modulo 2**N
        if k == "lnot":
            v, _ = self.ev(e[1], g)
            return _int(sym_not(_truth(v))), "int"
        if k in ("land", "lor"):
            a, _ = self.ev(e[1], g)
            ta = _truth(a)
            gb = sym_and(g, ta if k == "land" else sym_not(ta))
            b, _ = self.ev(e[2], gb)
            tb = _truth(b)
            return _int(sym_and(ta, tb) if k == "land" else sym_or(ta, tb)), "int"
        if k == "cond":
            c, _ = self.ev(e[1], g)
            tc = _truth(c)
            a, ta = self.ev(e[2], sym_and(g, tc))
            b, tb = self.ev(e[3], sym_and(g, sym_not(tc)))
            t = dm.uac(ta, tb)
            a = self.conv(a, t, sym_and(g, tc))
            b = self.conv(b, t, sym_and(g, sym_not(tc)))
            return ite(tc, a, b), t
        if k in ("shl", "shr"):
            a, ta = self.ev(e[1], g)
            n, tn = self.ev(e[2], g)
            t = dm.promote(ta)
            a = self.conv(a, t, g)
            n = self.conv(n, dm.promote(tn), g)
            w = dm.bits(t)
            neg, big = n < 0, n >= w
            self._flag("negshift", g, neg)
            self._flag("bigshift", g, big)
            self._undef(g, sym_or(neg, big))
            n = _bounded(ite(sym_or(neg, big), 0, n), 0, w - 1)   # count where defined, 0 elsewhere
            if k == "shr":
                return a >> n, t                     # floor(a / 2**n): arithmetic shift of negatives (gcc)
            if dm.signed(t):
                self._flag("neglshift", g, a < 0)
                self._undef(g, a < 0)
                a = _bounded(ite(a < 0, 0, a), 0, dm.hi(t))
            return self._arith(a << n, t, g), t
        if k in ("div", "mod", "mul"):
            self._chstack.append(False)
        a, ta = self.ev(e[1], g)
        b, tb = self.ev(e[2], g)
        t = dm.uac(ta, tb)
        a = self.conv(a, t, g)
        b = self.conv(b, t, g)
        if k == "add":
            return self._arith(a + b, t, g), t
        if k == "sub":
            return self._arith(a - b, t, g), t
        if k == "mul":
            ch = self._chstack.pop()
            if ch is not False and ch is not True and not (e[1][0] == "lit" and e[2][0] == "lit"):
                # same identity as for / and % below: with no reduction inside the operands the factors are
                # the exact integer values of the operand expressions (one product term over selected factors)
                a, b = ite(ch, a, self.exact(e[1])), ite(ch, b, self.exact(e[2]))
            return self._arith(a * b, t, g), t
        if k in ("div", "mod"):
            z = b == 0
            self._flag("divzero", g, z)
            self._undef(g, z)
            if dm.signed(t):
                # MIN / -1 and MIN % -1: quotient not representable
                ov = sym_and(a == dm.lo(t), b == -1)
                self._flag("overflow", g, ov)
                self._undef(g, ov)
            nz = False
            if self.assume is not None and g is True:
                self.assume(sym_not(z))
                nz = True
            q, r, differs = tdivrem(a, b, nz)
            ch = self._chstack.pop()
            if ch is not False and ch is not True and not (e[1][0] == "lit" and e[2][0] == "lit"):
                # Where no conversion or reduction changed any value inside the operands (not ch), the operands
                # ARE the exact integer values of the operand expressions, so the quotient/remainder may equally be
                # taken from those (identity; it keeps the division term independent of the interval
                # information attached to converted values, which the solver cannot bridge on its own).
                eb = self.exact(e[2])
                if nz:
                    self.assume(sym_or(ch, eb != 0))     # implied by b != 0 where nothing was reduced
                q0, r0, d0 = tdivrem(self.exact(e[1]), eb, False)
                q, r, differs = ite(ch, q, q0), ite(ch, r, r0), ite(ch, differs, d0)
            self._flag("floordiv", g, sym_and(sym_not(z), differs))
            if k == "mod":
                return r, t
            if dm.signed(t):
                q, _ = self._reduce(q, t)
            return q, t
        if k == "band":
            return a & b, t
        if k == "bor":
            return a | b, t
        if k == "bxor":
            return a ^ b, t
        cmp = {"lt": lambda: a < b, "le": lambda: a <= b, "gt": lambda: a > b, "ge": lambda: a >= b,
               "eq": lambda: a == b, "ne": lambda: a != b}
        if k in cmp:
            return _int(cmp[k]()), "int"
        raise ValueError(f"unknown expression kind {k!r}")


def _exact_methods():
    def exact(self, e):
        """value of e in exact (unbounded) integer arithmetic with C's operators (truncating / and %, 0/1 for
        relational and logical operators, casts and conversions as identities).  Equals the C value of e whenever no
        conversion/reduction inside e changes a value."""
        k = e[0]
        if k == "lit":
            return self.lits[e[1]]
        if k in ("cast", "pos"):
            return self.exact(e[-1])
        if k == "neg":
            return -self.exact(e[1])
        if k == "inv":
            return ~self.exact(e[1])
        if k == "lnot":
            return _int(sym_not(_truth(self.exact(e[1]))))
        if k == "land":
            return _int(sym_and(_truth(self.exact(e[1])), _truth(self.exact(e[2]))))
        if k == "lor":
            return _int(sym_or(_truth(self.exact(e[1])), _truth(self.exact(e[2]))))
        if k == "cond":
            return ite(_truth(self.exact(e[1])), self.exact(e[2]), self.exact(e[3]))
        a, b = self.exact(e[1]), self.exact(e[2])
        if k == "add":
            return a + b
        if k == "sub":
            return a - b
        if k == "mul":
            return a * b
        if k in ("div", "mod"):
            q, r, _ = tdivrem(a, b)
            return q if k == "div" else r
        if k in ("shl", "shr"):
            bad = sym_or(b < 0, b > 2 * 64)              # plain False when the count's interval decides it
            n = b if bad is False else _bounded(ite(bad, 0, b), 0, 2 * 64)
            return (a << n) if k == "shl" else (a >> n)
        if k == "band":
            return a & b
        if k == "bor":
            return a | b
        if k == "bxor":
            return a ^ b
        cmp = {"lt": lambda: a < b, "le": lambda: a <= b, "gt": lambda: a > b, "ge": lambda: a >= b,
               "eq": lambda: a == b, "ne": lambda: a != b}
        return _int(cmp[k]())
    return exact


Eval.exact = _exact_methods()


def evaluate(dm, expr, lits, dest=None):
    """-> (value [converted to dest if given], type, Eval)"""
    E = Eval(dm, lits)
    v, t = E.ev(expr)
    if dest is not None:
        v = E.conv(v, dest)
        t = dest
    return v, t, E


def to_bytes(dm, v, t):
    """object representation of value v (in range of t) of integer type t: list of byte values"""
    n = dm.size(t)
    bs = [(v >> (8 * i)) & 0xFF for i in range(n)]
    if not dm.little_endian:
        bs.reverse()
    return bs


def repr_eq(dm, bs, v, t):
    """do the bytes bs form the object representation of value v (in range of t) of integer type t?
    Symbolically this is ONE equation between 8*size-bit vectors (concatenation of the bytes against the low
    bits of v), which keeps the solver's normal forms of both sides aligned; concretely a list comparison."""
    n = dm.size(t)
    bs = list(bs)
    if len(bs) != n or any(isinstance(b, tuple) for b in bs):
        return False
    if not any_sym(v, *bs):
        return bs == to_bytes(dm, v, t)
    lsb_first = bs if dm.little_endian else bs[::-1]
    in_range = sym_and(*[sym_and(b >= 0, b <= 255) for b in lsb_first])
    parts = [core.to_bv(b, 8) for b in reversed(lsb_first)]
    got = z3.Concat(*parts) if n > 1 else parts[0]
    whole = sym_and(in_range, SymBool(got == core.to_bv(v, 8 * n)))
    # the same statement byte by byte; offering both (equivalent) forms lets the solver refute whichever
    # negation its normal forms make easy
    bytewise = sym_and(*[a == b for a, b in zip(bs, to_bytes(dm, v, t))])
    return sym_or(bytewise, whole)


# -- expression descriptors ---------------------------------------------------------------------------
def literals(e, acc=None):
    """[(index, suffix)] of the literals of e in source order"""
    if acc is None:
        acc = []
    if e[0] == "lit":
        acc.append((e[1], e[2]))
    else:
        for x in e[1:]:
            if isinstance(x, (list, tuple)):
                literals(x, acc)
    return acc


def operators(e, acc=None):
    """set of operator kind names used in e"""
    if acc is None:
        acc = set()
    if e[0] != "lit":
        acc.add(e[0])
        for x in e[1:]:
            if isinstance(x, (list, tuple)):
                operators(x, acc)
    return acc


def shift_count_literals(e, inside=False, acc=None):
    """indices of literals occurring inside the right operand of a shift"""
    if acc is None:
        acc = set()
    if e[0] == "lit":
        if inside:
            acc.add(e[1])
    elif e[0] in ("shl", "shr"):
        shift_count_literals(e[1], inside, acc)
        shift_count_literals(e[2], True, acc)
    else:
        for x in e[1:]:
            if isinstance(x, (list, tuple)):
                shift_count_literals(x, inside, acc)
    return acc


def _is_leaf(e):
    """literal, negated literal or cast literal"""
    return e[0] == "lit" or (e[0] in ("neg", "cast") and e[-1][0] == "lit")


def mul_right_literals(e, inside=False, acc=None, compound_only=False, wide=()):
    """indices of literals occurring inside the right operand of a multiplication
    (compound_only: only of multiplications that have an operand which is not a literal, -literal or (T)literal,
    or whose right operand contains a literal with a suffix listed in `wide`)"""
    if acc is None:
        acc = set()
    if e[0] == "lit":
        if inside:
            acc.add(e[1])
    elif e[0] == "mul":
        mul_right_literals(e[1], inside, acc, compound_only, wide)
        both_plain = _is_leaf(e[1]) and _is_leaf(e[2]) and not any(sfx in wide for _, sfx in literals(e[2]))
        mul_right_literals(e[2], inside or not (compound_only and both_plain), acc, compound_only, wide)
    else:
        for x in e[1:]:
            if isinstance(x, (list, tuple)):
                mul_right_literals(x, inside, acc, compound_only, wide)
    return acc


def renumber(e, counter=None):
    """copy of e with its literals numbered 0, 1, 2 ... in source order"""
    if counter is None:
        counter = [0]
    if e[0] == "lit":
        counter[0] += 1
        return ["lit", counter[0] - 1, e[2]]
    return [e[0]] + [renumber(x, counter) if isinstance(x, (list, tuple)) else x for x in e[1:]]


_PREC = {"mul": 13, "div": 13, "mod": 13, "add": 12, "sub": 12, "shl": 11, "shr": 11, "lt": 10, "le": 10, "gt": 10,
         "ge": 10, "eq": 9, "ne": 9, "band": 8, "bxor": 7, "bor": 6, "land": 5, "lor": 4, "cond": 3}


def render_min(e, littext):
    """C text with only the parentheses the C grammar needs (6.5: precedence, left associativity of the binary
    operators, right associativity of ?:, unary operators and casts bind tighter than any binary operator)"""
    def prec(x):
        if x[0] == "lit":
            return 16
        if x[0] == "cast" or x[0] in UNOPS:
            return 14
        return _PREC[x[0]]

    def r(x, need):
        k = x[0]
        if k == "lit":
            t = littext(x[1], x[2])
        elif k == "cast":
            t = f"({SPELL[x[1]]}){r(x[2], 14)}"
        elif k in UNOPS:
            t = f"{UNOPS[k]} {r(x[1], 14)}"
        elif k == "cond":
            t = f"{r(x[1], 4)} ? {r(x[2], 0)} : {r(x[3], 3)}"
        else:
            p = _PREC[k]
            t = f"{r(x[1], p)} {BINOPS[k]} {r(x[2], p + 1)}"
        return f"({t})" if prec(x) < need else t
    return r(e, 0)


def render(e, littext):
    """fully parenthesised C text; littext(index, suffix) -> literal token text"""
    k = e[0]
    if k == "lit":
        return littext(e[1], e[2])
    if k == "cast":
        return f"(({SPELL[e[1]]}){render(e[2], littext)})"
    if k in UNOPS:
        return f"({UNOPS[k]} {render(e[1], littext)})"
    if k == "cond":
        return f"({render(e[1], littext)} ? {render(e[2], littext)} : {render(e[3], littext)})"
    return f"({render(e[1], littext)} {BINOPS[k]} {render(e[2], littext)})"
