"""MSP430 (CPU, not CPUX) reference DECODER, independent of ppci.

Written from the MSP430x1xx / MSP430x2xx Family User's Guide (SLAU049 / SLAU144), chapter 3 "RISC 16-Bit CPU":
  3.2   CPU registers: R0 = PC, R1 = SP, R2 = SR / CG1, R3 = CG2
  3.2.4 table 3-2 "Values of constant generators CG1, CG2":
            R2 As=00 register mode | R2 As=01 absolute address mode &ADDR (0 is used as the index base)
            R2 As=10 -> #4         | R2 As=11 -> #8
            R3 As=00 -> #0 | R3 As=01 -> #1 | R3 As=10 -> #2 | R3 As=11 -> #-1 (0FFFFh word / 0FFh byte)
        constants of the generator need NO extension word
  3.3   table 3-3 "Source/destination operand addressing modes" (As/Ad):
            00/0 register Rn | 01/1 indexed X(Rn), X in the next word | 01/1 symbolic ADDR = X(PC) |
            01/1 absolute &ADDR = X(SR), SR reads as 0 | 10/- indirect register @Rn |
            11/- indirect autoincrement @Rn+ | 11/- immediate #N = @PC+, N in the next word
        extension words follow the instruction word, the source's first, then the destination's; words are
        little endian in memory
  3.4.1 format I  (double operand)  [15:12] opcode  [11:8] S-reg  [7] Ad  [6] B/W  [5:4] As  [3:0] D-reg
            4 MOV 5 ADD 6 ADDC 7 SUBC 8 SUB 9 CMP A DADD B BIT C BIC D BIS E XOR F AND   (each .W and .B)
  3.4.2 format II (single operand)  [15:10] 000100  [9:7] opcode  [6] B/W  [5:4] Ad (= the As table)  [3:0] D/S-reg
            000 RRC(.B) 001 SWPB 010 RRA(.B) 011 SXT 100 PUSH(.B) 101 CALL 110 RETI (the word 1300h); SWPB, SXT,
            CALL, RETI exist as word instructions only (B/W = 0)
  3.4.3 jumps  [15:13] 001  [12:10] condition  [9:0] signed word offset:  PC_new = PC_old + 2 + 2 * offset
            000 JNE/JNZ 001 JEQ/JZ 010 JNC/JLO 011 JC/JHS 100 JN 101 JGE 110 JL 111 JMP
  3.4.4 table 3-13ff emulated instructions (EMULATED below)
Every other word (0000h-0FFFh, 1380h-1FFFh: CPUX extensions / unused) decodes to ok = False.

decode(bs) takes a list of byte values: plain ints, or symx SymInts while a symx engine is active.  The parts
that select the instruction format, the addressing mode and with it the LENGTH (opcode bits, As, Ad, B/W, and
whether a register number is 0, 2 or 3) are made concrete by forking through the engine; register numbers
otherwise, extension words and jump offsets stay symbolic.

Result: Dec(ok, mn, bw, ops, length, why)
  mn   tuple of the manual's synonymous mnemonics (("jne", "jnz"), ("mov",), ...), without the .b/.w suffix
  bw   0 = word instruction (.w, the default without a suffix), 1 = byte instruction (.b)
  ops  operands in the manual's order (source, destination), each one of
         ("reg", n)             register mode Rn
         ("idx", n, X)          indexed mode X(Rn); n = 0 is the manual's symbolic mode; X unsigned 16-bit word
         ("abs", X)             absolute mode &X
         ("ind", n)             @Rn
         ("inc", n)             @Rn+
         ("imm", N)             immediate mode #N with N (unsigned 16-bit) in the extension word
         ("const", c, As, reg)  #c out of the constant generator (c in -1, 0, 1, 2, 4, 8), no extension word
         ("rel", d)             jump target relative to the address of the jump instruction itself (2 + 2 * offset)
"""
import ast
import operator
import os
import random
import re
from symx import core

FORMAT1 = {4: "mov", 5: "add", 6: "addc", 7: "subc", 8: "sub", 9: "cmp", 10: "dadd", 11: "bit",
           12: "bic", 13: "bis", 14: "xor", 15: "and"}
# format II: opcode -> (mnemonic, byte form exists)
FORMAT2 = {0: ("rrc", True), 1: ("swpb", False), 2: ("rra", True), 3: ("sxt", False), 4: ("push", True),
           5: ("call", False)}
JUMPS = [("jne", "jnz"), ("jeq", "jz"), ("jnc", "jlo"), ("jc", "jhs"), ("jn",), ("jge",), ("jl",), ("jmp",)]
# constant generator, table 3-2: (register, As) -> constant
CG = {(2, 2): 4, (2, 3): 8, (3, 0): 0, (3, 1): 1, (3, 2): 2, (3, 3): -1}

# the classification of the first instruction word as a table (mask, match, kind): selftest proves that it is a
# function (at most one row matches a word) and that decode() follows it
TABLE = [(0xF000, op << 12, ("I", op)) for op in FORMAT1] + \
        [(0xFFC0, 0x1000 | (op << 7), ("II", op)) for op in FORMAT2] + \
        [(0xFFC0, 0x1040 | (op << 7), ("II.b", op)) for op, (mn, b) in FORMAT2.items() if b] + \
        [(0xFFFF, 0x1300, ("reti", 6))] + \
        [(0xFC00, 0x2000 | (c << 10), ("J", c)) for c in range(8)]

# emulated instructions (3.4.4): mnemonic -> (core mnemonic, source operand | None = the instruction's operand,
#                                             destination operand | None = the instruction's operand)
# an operand is written like a decoded one; ("#", c) = the immediate constant c in either encoding
EMULATED = {
    "adc": ("addc", ("#", 0), None), "br": ("mov", None, ("reg", 0)), "clr": ("mov", ("#", 0), None),
    "clrc": ("bic", ("#", 1), ("reg", 2)), "clrn": ("bic", ("#", 4), ("reg", 2)), "clrz": ("bic", ("#", 2), ("reg", 2)),
    "dadc": ("dadd", ("#", 0), None), "dec": ("sub", ("#", 1), None), "decd": ("sub", ("#", 2), None),
    "dint": ("bic", ("#", 8), ("reg", 2)), "eint": ("bis", ("#", 8), ("reg", 2)), "inc": ("add", ("#", 1), None),
    "incd": ("add", ("#", 2), None), "inv": ("xor", ("#", -1), None), "nop": ("mov", ("#", 0), ("reg", 3)),
    "pop": ("mov", ("inc", 1), None), "ret": ("mov", ("inc", 1), ("reg", 0)), "sbc": ("subc", ("#", 0), None),
    "setc": ("bis", ("#", 1), ("reg", 2)), "setn": ("bis", ("#", 4), ("reg", 2)), "setz": ("bis", ("#", 2), ("reg", 2)),
    "tst": ("cmp", ("#", 0), None),
}       # rla dst = add dst, dst and rlc dst = addc dst, dst repeat their operand and are not in this table


class Dec:
    __slots__ = ("ok", "mn", "bw", "ops", "length", "why")

    def __init__(self, ok, mn=None, bw=0, ops=(), length=0, why=""):
        self.ok, self.mn, self.bw, self.ops, self.length, self.why = ok, mn, bw, list(ops), length, why

    def __repr__(self):
        if not self.ok:
            return f"<undecoded: {self.why}>"
        return f"<{'/'.join(self.mn)}.{'bw'[1 - self.bw]} {self.ops} len={self.length}>"


class _Stop(Exception):
    pass


def _c(x):
    """concrete value of an instruction-word field (forks over the feasible values when symbolic)"""
    if type(x) is int:
        return x
    return operator.index(x)


def _is(x, v):
    """concrete truth of field == v (forks when symbolic)"""
    if type(x) is int:
        return x == v
    return bool(x == v)


def _sx(v, bits):
    return core.ite(v >= (1 << (bits - 1)), v - (1 << bits), v)


class _Cursor:
    def __init__(self, bs):
        self.bs, self.pos = list(bs), 0

    def word(self):
        if self.pos + 2 > len(self.bs):
            raise _Stop("truncated")
        w = self.bs[self.pos] | (self.bs[self.pos + 1] << 8)
        self.pos += 2
        return w


def _source(cur, a_s, reg):
    """operand selected by the 2-bit As field and a register field (tables 3-2 and 3-3)"""
    if _is(reg, 3):
        return ("const", CG[(3, a_s)], a_s, 3)
    if a_s == 0:
        return ("reg", reg)
    is2 = _is(reg, 2)
    if is2 and a_s >= 2:
        return ("const", CG[(2, a_s)], a_s, 2)
    if a_s == 1:
        if is2:
            return ("abs", cur.word())
        if _is(reg, 0):
            return ("idx", 0, cur.word())
        return ("idx", reg, cur.word())
    if a_s == 2:
        return ("ind", reg)
    if _is(reg, 0):
        return ("imm", cur.word())
    return ("inc", reg)


def _dest(cur, ad, reg):
    """operand selected by the 1-bit Ad field and the D-reg field (table 3-3; the constant generator is a
    source-only feature: table 3-2 lists As values only)"""
    if ad == 0:
        return ("reg", reg)
    if _is(reg, 2):
        return ("abs", cur.word())
    if _is(reg, 0):
        return ("idx", 0, cur.word())
    return ("idx", reg, cur.word())


def classify(w):
    """rows of TABLE matching the concrete word w"""
    return [k for (m, v, k) in TABLE if w & m == v]


def decode(bs):
    cur = _Cursor(bs)
    try:
        w = cur.word()
        top = _c((w >> 12) % 16)
        if top >= 4:
            mn = FORMAT1[top]
            sreg = (w >> 8) % 16
            ad = _c((w >> 7) % 2)
            bw = _c((w >> 6) % 2)
            a_s = _c((w >> 4) % 4)
            dreg = w % 16
            src = _source(cur, a_s, sreg)
            dst = _dest(cur, ad, dreg)
            return Dec(True, (mn,), bw, [src, dst], cur.pos)
        if top in (2, 3):
            cond = _c((w >> 10) % 8)
            off = _sx(w % 1024, 10)
            return Dec(True, JUMPS[cond], 0, [("rel", 2 + 2 * off)], cur.pos)
        if top == 1:
            if _c((w >> 10) % 4) != 0:
                raise _Stop("not an MSP430 CPU instruction (1400h-1FFFh)")
            op = _c((w >> 7) % 8)
            bw = _c((w >> 6) % 2)
            a_s = _c((w >> 4) % 4)
            reg = w % 16
            if op == 6:
                if bw == 0 and a_s == 0 and _is(reg, 0):
                    return Dec(True, ("reti",), 0, [], cur.pos)
                raise _Stop("reti is the word 1300h")
            if op == 7:
                raise _Stop("format II opcode 111 is not defined")
            mn, has_b = FORMAT2[op]
            if bw and not has_b:
                raise _Stop(f"{mn} has no byte form")
            return Dec(True, (mn,), bw, [_source(cur, a_s, reg)], cur.pos)
        raise _Stop("not an MSP430 CPU instruction (0000h-0FFFh)")
    except _Stop as e:
        return Dec(False, why=str(e))


# ---- what a printed operand means: comparison of a printed with a decoded operand -------------------------------
# printed operands: ("reg", n) ("idx", n, X) ("abs", A) ("ind", n) ("inc", n) ("imm", N) ("target", d)
#   X, A, N are the integers as written (signed or unsigned spelling of a 16-bit quantity); d = target - address of
#   the jump instruction
def _m16(v):
    return v % 65536


def operand_matches(p, o, side):
    """condition (bool / SymBool) under which the decoded operand `o` is the printed operand `p`;
    side = "src" | "dst".  Spellings the manual itself gives for one encoding are the same operand:
       X(R2) is the absolute mode &X ("indexed mode X(SR) is used", SR reads as 0 there), table 3-3
       R3 as a register-mode source is the constant #0 of table 3-2
       #N with N out of the constant generator is the same operand as #N with an extension word"""
    A = core.sym_and
    k = p[0]
    if k == "reg":
        if o[0] == "reg":
            return o[1] == p[1]
        if o[0] == "const" and side == "src" and o[2] == 0:
            return A(p[1] == 3, o[3] == 3)
        return False
    if k == "idx":
        if o[0] == "idx":
            return A(o[1] == p[1], o[2] == _m16(p[2]))
        if o[0] == "abs":
            return A(p[1] == 2, o[1] == _m16(p[2]))
        return False
    if k == "abs":
        return o[0] == "abs" and o[1] == _m16(p[1])
    if k in ("ind", "inc"):
        return o[0] == k and o[1] == p[1]
    if k == "imm":
        if o[0] == "imm":
            return o[1] == _m16(p[1])
        if o[0] == "const":
            return _m16(p[1]) == _m16(o[1])
        return False
    if k == "target":
        return o[0] == "rel" and o[1] == p[1]
    raise AssertionError(p)


# ---- reference assembler of the decoded form (selftest: decode is injective) -----------------------------------
def _enc_src(o):
    """-> (As, reg, extension words)"""
    k = o[0]
    if k == "reg":
        return 0, o[1], []
    if k == "idx":
        return 1, o[1], [o[2]]
    if k == "abs":
        return 1, 2, [o[1]]
    if k == "ind":
        return 2, o[1], []
    if k == "inc":
        return 3, o[1], []
    if k == "imm":
        return 3, 0, [o[1]]
    if k == "const":
        return o[2], o[3], []
    raise AssertionError(o)


def assemble(d):
    """words of a decoded instruction (inverse of decode on its image)"""
    mn = d.mn[0]
    if mn == "reti":
        return [0x1300]
    if d.ops and d.ops[0][0] == "rel":
        c = [j[0] for j in JUMPS].index(mn)
        return [0x2000 | (c << 10) | (((d.ops[0][1] - 2) // 2) % 1024)]
    if len(d.ops) == 2:
        op = [k for k, v in FORMAT1.items() if v == mn][0]
        a_s, sreg, ext = _enc_src(d.ops[0])
        a_d, dreg, ext2 = _enc_src(d.ops[1])
        assert a_d in (0, 1)
        return [(op << 12) | (sreg << 8) | (a_d << 7) | (d.bw << 6) | (a_s << 4) | dreg] + ext + ext2
    op = [k for k, v in FORMAT2.items() if v[0] == mn][0]
    a_s, reg, ext = _enc_src(d.ops[0])
    return [0x1000 | (op << 7) | (d.bw << 6) | (a_s << 4) | reg] + ext


# ---- text ----------------------------------------------------------------------------------------------------
def fmt(d, addr=None):
    """assembly text of a decoded instruction (TI syntax, lower case; jump targets as $+d or absolute if addr)"""
    if not d.ok:
        return "<undecoded>"

    def op(o):
        k = o[0]
        if k == "reg":
            return f"r{o[1]}"
        if k == "idx":
            return f"{o[2]}(r{o[1]})"
        if k == "abs":
            return f"&{o[1]}"
        if k == "ind":
            return f"@r{o[1]}"
        if k == "inc":
            return f"@r{o[1]}+"
        if k in ("imm", "const"):
            return f"#{o[1]}"
        if k == "rel":
            return f"$+{o[1]}" if addr is None else f"{(addr + o[1]) % 65536}"
        raise AssertionError(o)
    suffix = ".b" if d.bw else (".w" if len(d.ops) == 2 else "")
    return (d.mn[0] + suffix + " " + ", ".join(op(o) for o in d.ops)).strip()


REGNAMES = dict({f"r{k}": k for k in range(16)}, pc=0, sp=1, sr=2, cg=3)


def _num(t, labels):
    t = t.strip()
    if t in labels:
        return labels[t]
    return int(t, 0)


def parse_operand(t, labels):
    """assembly text of one operand -> printed operand"""
    t = t.strip().lower()
    if t in REGNAMES:
        return ("reg", REGNAMES[t])
    if t.startswith("#"):
        return ("imm", _num(t[1:], labels))
    if t.startswith("&"):
        return ("abs", _num(t[1:], labels))
    if t.startswith("@"):
        if t.endswith("+"):
            return ("inc", REGNAMES[t[1:-1].strip()])
        return ("ind", REGNAMES[t[1:].strip()])
    m = re.fullmatch(r"(.+)\(\s*(\w+)\s*\)", t)
    if m:
        return ("idx", REGNAMES[m.group(2)], _num(m.group(1), labels))
    raise ValueError(t)


def parse_line(text, labels, addr):
    """one line of assembly -> (mnemonic, bw, [printed source / destination operands]) in core-instruction form
    (emulated mnemonics are expanded by EMULATED)"""
    text = text.strip().lower()
    head, _, rest = text.partition(" ")
    mn, _, suffix = head.partition(".")
    bw = 1 if suffix == "b" else 0
    ops = [x for x in rest.split(",") if x.strip()]
    if mn in [n for j in JUMPS for n in j]:
        return mn, 0, [("target", _num(ops[0], labels) - addr)]
    if mn in EMULATED:
        core_mn, s, d = EMULATED[mn]
        own = parse_operand(ops[0], labels) if ops else None

        def pick(x):
            if x is None:
                return own
            return ("imm", x[1]) if x[0] == "#" else x
        return core_mn, bw, [pick(s), pick(d)]
    return mn, bw, [parse_operand(x, labels) for x in ops]


def text_matches(d, parsed):
    mn, bw, pops = parsed
    if not d.ok or mn not in d.mn or d.bw != bw or len(pops) != len(d.ops):
        return False
    sides = ["src", "dst"] if len(pops) == 2 else ["src"]
    return all(bool(operand_matches(p, o, s)) for p, o, s in zip(pops, d.ops, sides))


# ---- self test -----------------------------------------------------------------------------------------------
# encodings of the TI / GNU toolchains that every MSP430 programmer has seen in listings
KNOWN = [
    ("3140 8002", "mov.w #0x0280, r1"),             # mov #0x280, SP: first instruction of most start-up codes
    ("b240 805a 2001", "mov.w #0x5a80, &0x0120"),   # WDTCTL = WDTPW | WDTHOLD
    ("d2d3 2200", "bis.b #1, &0x0022"),             # P1DIR |= BIT0
    ("d2e3 2100", "xor.b #1, &0x0021"),             # P1OUT ^= BIT0
    ("3041", "ret"), ("0013", "reti"), ("0343", "nop"), ("ff3f", "jmp 0x1000"),        # jmp $ (at 0x1000)
    ("32c2", "dint"), ("32d2", "eint"), ("12c3", "clrc"), ("12d3", "setc"), ("22d3", "setz"), ("22d2", "setn"),
    ("0f43", "clr r15"), ("1f53", "inc r15"), ("1f83", "dec r15"), ("0f93", "tst r15"), ("2f53", "incd r15"),
    ("3fe3", "inv r15"), ("0f5f", "add.w r15, r15"), ("3040 00f8", "br #0xf800"), ("0b12", "push r11"),
    ("3b41", "pop r11"), ("b012 00f8", "call #0xf800"), ("7e4f", "mov.b @r15+, r14"), ("1f41 0200", "mov.w 2(r1), r15"),
    ("8f11", "sxt r15"), ("8f10", "swpb r15"), ("0f11", "rra r15"), ("0f10", "rrc r15"), ("4f11", "rra.b r15"),
    ("32d0 f000", "bis.w #0x00f0, r2"),             # LPM4
    ("fe23", "jne 0x0ffe"), ("0124", "jeq 0x1004"), ("0028", "jnc 0x1002"), ("ff2f", "jc 0x1000"),
    ("0030", "jn 0x1002"), ("0034", "jge 0x1002"), ("0038", "jl 0x1002"), ("003c", "jmp 0x1002"),
    ("003e", "jmp 0x0c02"), ("ff3d", "jmp 0x1400"),                                    # reach: -512 / +511 words
    ("8249 0002", "mov.w r9, &0x0200"), ("9242 0002 0202", "mov.w &0x0200, &0x0202"),
    ("a44f 0400", "mov.w @r15, 4(r4)"), ("5e93", "cmp.b #1, r14"), ("3e90 0a00", "cmp.w #10, r14"),
    ("2c42", "mov.w #4, r12"), ("3c42", "mov.w #8, r12"), ("3c43", "mov.w #-1, r12"), ("2c43", "mov.w #2, r12"),
    ("1042 0002", "mov.w &0x0200, r0"), ("1040 0400", "mov.w 4(r0), r0"),
]
# words that are no MSP430 CPU instruction
UNDEFINED = [0x0000, 0x0FFF, 0x1380, 0x13FF, 0x1400, 0x1FFF, 0x1301, 0x1310, 0x1340, 0x10C0, 0x11C0, 0x12C0]


def _hexbytes(s):
    s = s.replace(" ", "")
    return [int(s[k:k + 2], 16) for k in range(0, len(s), 2)]


def _repo_vectors(path):
    """[(test name, [source lines], [hex strings], base address)] of the assembler test case"""
    tree = ast.parse(open(path).read())
    out = []
    for cls in tree.body:
        if not (isinstance(cls, ast.ClassDef) and cls.name == "Msp430AssemblerTestCase"):
            continue
        for fn in cls.body:
            if not isinstance(fn, ast.FunctionDef):
                continue
            lines, hexes, base = [], [], 0
            for node in ast.walk(fn):
                if isinstance(node, ast.Call) and isinstance(node.func, ast.Attribute) and node.args \
                        and isinstance(node.args[0], ast.Constant) and isinstance(node.args[0].value, str):
                    if node.func.attr == "feed":
                        lines.append((node.lineno, node.args[0].value))
                    elif node.func.attr == "check":
                        hexes.append(node.args[0].value)
                if isinstance(node, ast.Constant) and isinstance(node.value, str):
                    m = re.search(r"LOCATION=(0x[0-9a-fA-F]+)", node.value)
                    if m:
                        base = int(m.group(1), 16)
            if lines and hexes:
                out.append((fn.name, [t for _, t in sorted(lines)], hexes, base))
    return out


def _check_listing(lines, data, base):
    """the byte string `data` is the listing `lines` assembled at `base`: cut it with the decoder, resolve the
    labels from the cut, compare every decoded instruction with its source line.  -> instructions compared"""
    # pass 1: sizes (decoder) and label addresses
    items, pos, labels = [], 0, {}
    for t in lines:
        t = t.strip()
        m = re.match(r"^(\w+):\s*(.*)$", t)
        if m:
            labels[m.group(1).lower()] = base + pos
            t = m.group(2).strip()
            if not t:
                continue
        if t.startswith("dw "):
            pos += 2
            continue
        d = decode(data[pos:pos + 6])
        assert d.ok, (t, d)
        items.append((t, base + pos, d))
        pos += d.length
    assert pos == len(data), ("listing and bytes differ in length", lines)
    for t, addr, d in items:
        assert text_matches(d, parse_line(t, labels, addr)), (t, fmt(d, addr))
    return len(items)


def selftest(repo=None, seed=0):
    """raises AssertionError on any inconsistency; -> dict of counts (evidence)"""
    st = {}
    # (1) the first-word table is a function and decode() follows it, for all 65536 words; decode is injective
    #     (re-assembling the decoded form gives the consumed words back)
    rnd = random.Random(seed)
    n_ok = 0
    for w in range(65536):
        rows = classify(w)
        assert len(rows) <= 1, (hex(w), rows)
        e1, e2 = rnd.randrange(65536), rnd.randrange(65536)
        bs = []
        for x in (w, e1, e2):
            bs += [x & 255, x >> 8]
        d = decode(bs)
        assert d.ok == bool(rows), (hex(w), rows, d)
        if not d.ok:
            continue
        n_ok += 1
        kind, op = rows[0]
        if kind == "I":
            assert d.mn == (FORMAT1[op],) and len(d.ops) == 2
        elif kind in ("II", "II.b"):
            assert d.mn == (FORMAT2[op][0],) and len(d.ops) == 1 and d.bw == (kind == "II.b")
        elif kind == "J":
            assert d.mn == JUMPS[op] and d.ops[0][0] == "rel"
        else:
            assert d.mn == ("reti",)
        words = assemble(d)
        assert words == [w, e1, e2][:len(words)] and 2 * len(words) == d.length, (hex(w), d, words)
    st["first_words_checked"] = 65536
    st["first_words_defined"] = n_ok
    assert n_ok == 12 * 4096 + 3 * 128 + 3 * 64 + 1 + 8 * 1024
    for w in UNDEFINED:
        assert not decode([w & 255, w >> 8, 0, 0, 0, 0]).ok, hex(w)
    # truncated extension words
    assert not decode([0x31, 0x40]).ok and not decode([0xb2, 0x40, 0x80, 0x5a]).ok
    # (2) known toolchain encodings
    for hx, text in KNOWN:
        bs = _hexbytes(hx)
        d = decode(bs)
        assert d.ok and d.length == len(bs), (hx, d)
        assert text_matches(d, parse_line(text, {}, 0x1000)), (hx, text, fmt(d, 0x1000))
    st["known_encodings"] = len(KNOWN)
    # a wrong reading must be noticed (the comparison is not vacuous)
    assert not text_matches(decode(_hexbytes("3140 8002")), parse_line("mov.w #0x0280, r2", {}, 0))
    assert not text_matches(decode(_hexbytes("2c42")), parse_line("mov.w @r2, r12", {}, 0))
    assert not text_matches(decode(_hexbytes("7e4f")), parse_line("mov.w @r15+, r14", {}, 0))
    # (3) the repo's assembler test vectors
    repo = repo or os.environ.get("PPCI_REPO", "/repo")
    path = os.path.join(repo, "test", "arch", "test_msp430asm.py")
    n_tests = n_ins = 0
    if os.path.exists(path):
        for name, lines, hexes, base in _repo_vectors(path):
            data = _hexbytes("".join(hexes))
            n_ins += _check_listing(lines, data, base)
            n_tests += 1
        assert n_tests >= 20, "repo test vectors not found"
    st["repo_tests"] = n_tests
    st["repo_instructions"] = n_ins
    return st


if __name__ == "__main__":
    print(selftest())
