"""Reference semantics of ppci-IR integer arithmetic (independent of ppci; no ppci imports).

Sources
-------
ppci's IR documentation (docs/reference/ir/ir.rst, ppci/ir.py docstrings) defines the integer
types i8..i64 / u8..u64 as fixed-width machine integers and `Binop` as a "generic binary
operation" with the operator set + - * / % | & ^ << >> rol ror, without spelling out the value of
each operator.  The value semantics used here are the ones every consumer of the IR in ppci agrees
on, taken from (read, not imported):

* the IR reference interpreter ppci/lang/python/ir2py.py (run-time helpers `correct`, `idiv`,
  `irem`, `ishl`, `ishr`): results wrap to the type; `/` and `%` are "more C like": quotient
  truncates toward zero, remainder has the sign of the dividend;
* the C front end, which lowers C's `%`, `/`, `<<`, `>>` one-to-one to these IR operators
  (C11 6.5.5p6: (a/b)*b + a%b == a with truncating a/b);
* the machine back ends (x86_64 idiv, RISC-V rem/remu, wasm i32.rem_s/rem_u), which all truncate.

Definitions (n = bit width of the type, values are mathematical integers in the type's range):

    a + b, a - b, a * b   the mathematical result reduced modulo 2**n into the type's range
    a & b, a | b, a ^ b   bitwise on the two's complement representation
    a / b                 quotient truncated toward zero; undefined for b == 0 and for
                          signed MIN / -1 (not representable)
    a % b                 a - (a / b) * b with truncating quotient (sign of the dividend);
                          undefined for b == 0; MIN % -1 == 0
    a << b                (a * 2**b) wrapped;            undefined unless 0 <= b < n
    a >> b                floor(a / 2**b) (arithmetic shift for signed, logical for unsigned types,
                          which coincide on in-range values); undefined unless 0 <= b < n
    a rol b, a ror b      rotation of the n-bit pattern;  undefined unless 0 <= b < n
    cast to (n', s')      the value reduced modulo 2**n' into the range of the target type
                          (truncation / zero extension / sign extension)
    comparisons           on the mathematical values

"undefined" is reported through the first component of the result pair and is a *premise* of the
property, never a failure.

Every function works on plain ints (textbook definition, used by the concrete replay) and on
symx SymInt: + - * & | ^ are computed in unbounded integers (the engine guarantees that its W-bit
arithmetic does not overflow) and then reduced into the type; / and % divide the magnitudes
|a|, |b| (non-negative integers, where quotient and remainder are unambiguous) and attach the
sign; << >> rol ror use the z3 bit-vector operator of width n on the two's complement patterns.
"""
import z3
from symx import core
from symx.core import SymInt, SymBool, to_bv, from_bv, any_sym, ite, sym_and, sym_or, sym_not

BINOPS = ("+", "-", "*", "/", "%", "|", "&", "^", "<<", ">>", "rol", "ror")
CONDS = ("==", "!=", "<", "<=", ">", ">=")


def type_range(bits, signed):
    if signed:
        return -(1 << (bits - 1)), (1 << (bits - 1)) - 1
    return 0, (1 << bits) - 1


def in_range(v, bits, signed):
    lo, hi = type_range(bits, signed)
    return sym_and(v >= lo, v <= hi)


def wrap(v, bits, signed):
    """the unique value congruent to v modulo 2**bits inside the type's range"""
    m = v & ((1 << bits) - 1)
    if signed:
        return ite(m >= (1 << (bits - 1)), m - (1 << bits), m)
    return m


def _trunc_divmod(a, b):
    """plain ints, b != 0: quotient truncated toward zero and the matching remainder"""
    q = abs(a) // abs(b)
    if (a < 0) != (b < 0):
        q = -q
    return q, a - q * b


def binop(op, a, b, bits, signed):
    """-> (defined, value) of `a op b` in the integer type (bits, signed); a, b in range."""
    lo, hi = type_range(bits, signed)
    sym = any_sym(a, b)
    if op == "+":
        return True, wrap(a + b, bits, signed)
    if op == "-":
        return True, wrap(a - b, bits, signed)
    if op == "*":
        return True, wrap(a * b, bits, signed)
    if op in ("&", "|", "^"):
        # two's complement patterns of the in-range values; python's bitwise operators on
        # (infinitely sign-extended) integers agree with that after reduction
        r = (a & b) if op == "&" else (a | b) if op == "|" else (a ^ b)
        return True, wrap(r, bits, signed)
    if op in ("/", "%"):
        if sym:
            # sign-magnitude definition (the one SMT-LIB gives for bvsdiv/bvsrem, and C11 6.5.5):
            # divide the magnitudes as n-bit unsigned numbers (|MIN| = 2**(n-1) fits n bits),
            # quotient negative iff the signs differ, remainder takes the sign of the dividend
            # (on the magnitudes, which are non-negative mathematical integers, // and % are the
            # ordinary Euclidean quotient and remainder.  Where b == 0 the operation is undefined and
            # the value returned is a don't-care; the interval tracker is told |b| >= 1 so that the
            # division below does not split cases on a zero divisor a second time.)
            defined = b != 0
            ma = abs(a)
            mb = abs(b)
            if type(mb) is SymInt and mb.lo < 1:
                mb = SymInt(mb.e, 1, max(mb.hi, 1))
            elif type(mb) is not SymInt and mb == 0:
                return False, 0
            if op == "/":
                if signed:
                    defined = sym_and(defined, sym_not(sym_and(a == lo, b == -1)))
                q = ma // mb
                return defined, ite((a < 0) != (b < 0), -q, q)
            r = ma % mb
            return defined, ite(a < 0, -r, r)
        if b == 0:
            return False, 0
        q, r = _trunc_divmod(a, b)
        if op == "/":
            if not (lo <= q <= hi):
                return False, 0
            return True, q
        return True, r
    if op in ("<<", ">>", "rol", "ror"):
        defined = sym_and(b >= 0, b < bits)
        if sym:
            x, y = to_bv(a, bits), to_bv(b, bits)
            if op == "<<":
                r = x << y
            elif op == ">>":
                r = (x >> y) if signed else z3.LShR(x, y)
            elif op == "rol":
                r = z3.RotateLeft(x, y)
            else:
                r = z3.RotateRight(x, y)
            return defined, from_bv(r, signed)
        if not defined:
            return False, 0
        if op == "<<":
            return True, wrap(a << b, bits, signed)
        if op == ">>":
            return True, a >> b            # floor division by 2**b of the in-range value
        u = a & ((1 << bits) - 1)
        if op == "ror":
            b = (bits - b) % bits
        r = ((u << b) | (u >> (bits - b))) & ((1 << bits) - 1)
        return True, wrap(r, bits, signed)
    raise ValueError(op)


def cast(v, dst_bits, dst_signed):
    """integer -> integer conversion of an in-range source value"""
    return wrap(v, dst_bits, dst_signed)


def compare(cond, a, b):
    if cond == "==":
        return a == b
    if cond == "!=":
        return a != b
    if cond == "<":
        return a < b
    if cond == "<=":
        return a <= b
    if cond == ">":
        return a > b
    if cond == ">=":
        return a >= b
    raise ValueError(cond)
