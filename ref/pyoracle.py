"""CPython as the oracle for annotated integer functions (property C36).

The function under test is compiled by CPython's own `compile()` and executed by CPython's own
evaluation loop; only the *integer values* are symx proxies (`SymInt`: exact Python integer arithmetic
by interval tracking) when an engine is active, and plain ints otherwise (concrete replay).

An `ast` pass adds two value-preserving things around the unchanged statements:

* every binary arithmetic operation `l op r` (also of `v op= r`) is evaluated by `binop(op, l, r)`:
  CPython's own operator protocol (`operator.add/sub/mul/floordiv` on the operands, so e.g.
  ZeroDivisionError is raised exactly where CPython raises it), followed by the property's premise
  "integer values stay within 64 bits": a result outside [-2**63, 2**63) ends the premise - the path is
  dropped (`core.Abort`); a symbolic result is *assumed* in range (no fork, the assumption joins the path
  condition) and its interval clipped.
  The in-range result of + - * // is re-expressed over the 64-bit operand patterns (arithmetic
  identities, valid because operands and result are in range):
      l + r, l - r, l * r in range  <=>  no signed 64-bit overflow;  then the result == sext(l64 op r64)
      l // r in range  <=>  not (l == -2**63 and r == -1);           then l // r == sext(q - 1 if
                            rem != 0 and (rem < 0) != (r64 < 0) else q),  q, rem = truncating quotient/remainder
  so that the premise needs no 128-bit multiplier and all solver terms are 64 bits wide.  (These are representations of the same integers; the driver re-executes every
  path concretely with real ints and compares.)
* every comparison `l cmp r` is evaluated by `cmpop(cmp, l, r)`: CPython's rich-comparison protocol
  (`operator.lt` ...); a symbolic truth value is re-expressed as the signed comparison of the 64-bit
  operand patterns (the same truth value, operands being in range), so that branch conditions of the
  oracle and of the compiled code are syntactically comparable.
* the name `range` is bound to `sym_range`, the language-reference meaning of `range(a)` /
  `range(a, b)` as a lazy iterator (i = a; while i < b: yield i; i += 1), so that a symbolic bound
  forks once per iteration instead of having to be made concrete.

No ppci import.  Works on proxies and on plain ints.
"""
import ast
import operator
import z3
from symx import core
from symx.core import SymInt, SymBool, sym_and

MIN64 = -(1 << 63)
MAX64 = (1 << 63) - 1

_OPS = {"Add": operator.add, "Sub": operator.sub, "Mult": operator.mul, "FloorDiv": operator.floordiv,
        "Mod": operator.mod, "LShift": operator.lshift, "RShift": operator.rshift, "BitAnd": operator.and_,
        "BitOr": operator.or_, "BitXor": operator.xor, "Pow": operator.pow, "Div": operator.truediv}


def in64(v):
    t = type(v)
    if t is SymInt:
        return v.lo >= MIN64 and v.hi <= MAX64
    return t is not int or MIN64 <= v <= MAX64


def chk(v):
    """premise: the integer value stays within 64 bits (signed)"""
    t = type(v)
    if t is SymInt:
        if v.lo >= MIN64 and v.hi <= MAX64:
            return v
        core.ENG.assume(sym_and(v >= MIN64, v <= MAX64))
        return SymInt(v.e, max(v.lo, MIN64), min(v.hi, MAX64))
    if t is int and not (MIN64 <= v <= MAX64):
        raise core.Abort()
    return v


def _sext(e64):
    return z3.SignExt(core.ENG.W - 64, e64)


def binop(op, l, r):
    v = _OPS[op](l, r)          # CPython's binary operator protocol
    if type(v) is not SymInt or op not in _NORMAL or not (in64(l) and in64(r)) or core.ENG.W <= 64:
        return chk(v)
    l64, r64 = core.to_bv(l, 64), core.to_bv(r, 64)
    term, fits = _NORMAL[op](l64, r64)
    if not in64(v):
        core.ENG.assume(SymBool(fits))
    return SymInt(_sext(term), max(v.lo, MIN64), min(v.hi, MAX64))


def _n_add(l64, r64):
    return l64 + r64, z3.And(z3.BVAddNoOverflow(l64, r64, True), z3.BVAddNoUnderflow(l64, r64))


def _n_sub(l64, r64):
    return l64 - r64, z3.And(z3.BVSubNoOverflow(l64, r64), z3.BVSubNoUnderflow(l64, r64, True))


def _n_mul(l64, r64):
    for c, x in ((l64, r64), (r64, l64)):
        if z3.is_bv_value(c) and not z3.is_bv_value(x):
            # constant factor: c * x fits  <=>  x lies between the two quotients (plain comparisons)
            c = c.as_signed_long()
            if c == 0:
                return l64 * r64, z3.BoolVal(True)
            lo, hi = (-(MIN64 // -c), MAX64 // c) if c > 0 else (-(MAX64 // -c), MIN64 // c)
            return l64 * r64, z3.And(x >= z3.BitVecVal(max(lo, MIN64), 64), x <= z3.BitVecVal(min(hi, MAX64), 64))
    return l64 * r64, z3.And(z3.BVMulNoOverflow(l64, r64, True), z3.BVMulNoUnderflow(l64, r64))


def _n_floordiv(l64, r64):
    q = l64 / r64               # bvsdiv: truncating (a zero divisor has been forked away by the operator itself)
    rem = z3.SRem(l64, r64)
    adj = z3.And(rem != 0, (rem < 0) != (r64 < 0))
    return z3.If(adj, q - 1, q), z3.Not(z3.And(l64 == z3.BitVecVal(1 << 63, 64), r64 == z3.BitVecVal(-1, 64)))


# in-range results re-expressed over the 64-bit operand patterns: op -> (term, "the exact result fits 64 bits")
_NORMAL = {"Add": _n_add, "Sub": _n_sub, "Mult": _n_mul, "FloorDiv": _n_floordiv}


_CMPS = {"Lt": operator.lt, "LtE": operator.le, "Gt": operator.gt, "GtE": operator.ge, "Eq": operator.eq,
         "NotEq": operator.ne}
_CMP64 = {"Lt": lambda a, b: a < b, "LtE": lambda a, b: a <= b, "Gt": lambda a, b: a > b, "GtE": lambda a, b: a >= b,
          "Eq": lambda a, b: a == b, "NotEq": lambda a, b: a != b}


def cmpop(op, l, r):
    v = _CMPS[op](l, r)         # CPython's rich comparison protocol
    if type(v) is not SymBool or type(l) not in (int, SymInt) or type(r) not in (int, SymInt) \
            or not (in64(l) and in64(r)) or core.ENG.W <= 64:
        return v
    # both operands lie in [-2**63, 2**63): the comparison of the integers is the signed comparison of
    # their 64-bit patterns
    return SymBool(_CMP64[op](core.to_bv(l, 64), core.to_bv(r, 64)))


def sym_range(*args):
    if len(args) == 1:
        lo, hi = 0, args[0]
    elif len(args) == 2:
        lo, hi = args
    else:
        raise TypeError("range with a step is outside the subset")
    i = lo
    while cmpop("Lt", i, hi):
        yield i
        i = binop("Add", i, 1)


class _Instrument(ast.NodeTransformer):
    @staticmethod
    def _call(op, left, right):
        return ast.Call(func=ast.Name(id="__binop", ctx=ast.Load()),
                        args=[ast.Constant(value=type(op).__name__), left, right], keywords=[])

    def visit_BinOp(self, node):
        self.generic_visit(node)
        return ast.copy_location(self._call(node.op, node.left, node.right), node)

    def visit_Compare(self, node):
        self.generic_visit(node)
        if len(node.ops) != 1 or type(node.ops[0]).__name__ not in _CMPS:
            return node
        return ast.copy_location(ast.Call(func=ast.Name(id="__cmpop", ctx=ast.Load()),
                                          args=[ast.Constant(value=type(node.ops[0]).__name__), node.left,
                                                node.comparators[0]], keywords=[]), node)

    def visit_AugAssign(self, node):
        self.generic_visit(node)
        if not isinstance(node.target, ast.Name):
            return node
        load = ast.Name(id=node.target.id, ctx=ast.Load())
        return ast.copy_location(ast.Assign(targets=[ast.Name(id=node.target.id, ctx=ast.Store())],
                                            value=self._call(node.op, load, node.value)), node)


_CACHE = {}


def namespace(src):
    """exec the (instrumented) module source with CPython; returns its namespace"""
    code = _CACHE.get(src)
    if code is None:
        tree = _Instrument().visit(ast.parse(src))
        ast.fix_missing_locations(tree)
        code = compile(tree, "<C36 program>", "exec")
        _CACHE[src] = code
    ns = {"range": sym_range, "__binop": binop, "__cmpop": cmpop}
    exec(code, ns)
    return ns


def run(src, entry, args):
    """("ok", value) | ("exc", exception class name): what CPython does for entry(*args)"""
    ns = namespace(src)
    for a in args:
        chk(a)
    try:
        r = ns[entry](*args)
    except Exception as e:      # engine control flow (Abort / PathCut / EngineError) is BaseException
        return ("exc", type(e).__name__)
    if type(r) is SymBool:
        r = r.as_int()
    return ("ok", r)
