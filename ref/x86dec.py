"""x86-64 (64-bit mode) reference DECODER for the integer operand-encoding layer (independent of ppci).

Written from the Intel 64 and IA-32 Architectures Software Developer's Manual, volume 2:
  ch. 2.1  instruction format: legacy prefixes, opcode (1 byte / 0F escape), ModR/M, SIB, displacement, immediate
  ch. 2.1.5 tables 2-2 / 2-3 (32-bit addressing forms with ModR/M and SIB)
  ch. 2.2.1 REX prefixes (REX.W operand size, REX.R extends ModRM.reg, REX.X extends SIB.index, REX.B extends
            ModRM.rm / SIB.base / opcode-embedded register; byte registers SPL/BPL/SIL/DIL instead of AH..BH
            whenever ANY REX prefix is present; 2.2.1.2 .. 2.2.1.7: RIP-relative, disp32 sign-extended, imm64 only
            for B8+r, default 64-bit operand size of near branches / stack operations)
  app. A   opcode maps (one-byte map, two-byte 0F map, groups 1, 1A, 2, 3, 4, 5, 11)
Subset: mov, lea, add/or/adc/sbb/and/sub/xor/cmp/test, inc/dec/neg/not, rol/ror/rcl/rcr/shl/shr/sar,
imul/mul/div/idiv, push/pop, movzx/movsx/movsxd, cmovcc/setcc/jcc, call/jmp/ret, xchg, nop, int, syscall,
cbw/cwde/cdqe/cwd/cdq/cqo, movs/stos (with rep).  Everything else decodes to `ok = False`.

decode(bs) takes a list of byte values: plain ints, or symx SymInts while a symx engine is active.  The
LENGTH-determining parts (prefix bytes, opcode byte, REX.W, mod, rm == 100b / 101b, SIB base == 101b, group
/digit, SIB.ss) are made concrete by forking through the engine (`if` on a SymBool / operator.index on a
SymInt); register numbers, displacements and immediates stay symbolic.  So one call explores one decode path and
the instruction length is concrete on it.

Result: Dec(ok, mn, opsize, ops, length, why)
  mn      tuple of the manual's synonymous mnemonics (("je", "jz"), ("shl", "sal"), ("mov",) ...)
  opsize  effective operand size 8/16/32/64
  ops     operands in the manual's (Intel) order, each one of
          ("reg", size, id)        id 0..15 = manual register number (REX extended); 8-bit WITHOUT a REX prefix and
                                   number 4..7: id 20..23 = AH CH DH BH
          ("mem", size, base, index, scale, disp)   base: NONE (-1) | 0..15 | RIP (16); index: NONE | 0..15;
                                   scale 1/2/4/8 (0 when there is no index); disp signed (disp8/disp32 sign-extended)
                                   size 0 = no access size (lea)
          ("imm", size, value)     value = the field extended as the manual says (sign-extended imm8/imm32 where
                                   the instruction sign-extends), reduced modulo 2**size (unsigned)
          ("rel", disp)            signed displacement relative to the address of the NEXT instruction
          ("one",)                 the implicit count 1 of D0/D1 shifts
"""
import operator
from symx import core
from symx.core import SymInt, SymBool

NONE = -1
RIP = 16

REG64 = ["rax", "rcx", "rdx", "rbx", "rsp", "rbp", "rsi", "rdi"] + [f"r{k}" for k in range(8, 16)]
REG32 = ["eax", "ecx", "edx", "ebx", "esp", "ebp", "esi", "edi"] + [f"r{k}d" for k in range(8, 16)]
REG16 = ["ax", "cx", "dx", "bx", "sp", "bp", "si", "di"] + [f"r{k}w" for k in range(8, 16)]
REG8 = (["al", "cl", "dl", "bl", "spl", "bpl", "sil", "dil"] + [f"r{k}b" for k in range(8, 16)]
        + [None] * 4 + ["ah", "ch", "dh", "bh"])
REGNAMES = {64: REG64, 32: REG32, 16: REG16, 8: REG8}

# condition codes tttn (app. B, table B-10) with every mnemonic suffix the manual lists
CC = [("o",), ("no",), ("b", "c", "nae"), ("ae", "nb", "nc"), ("e", "z"), ("ne", "nz"), ("be", "na"), ("a", "nbe"),
      ("s",), ("ns",), ("p", "pe"), ("np", "po"), ("l", "nge"), ("ge", "nl"), ("le", "ng"), ("g", "nle")]
ALU = ["add", "or", "adc", "sbb", "and", "sub", "xor", "cmp"]                 # one-byte map rows 0..3, group 1
# group 2 /6: blank in the SDM's table A-6, but every x86 processor executes it as SAL/SHL (AMD64 APM vol. 3 lists
# "SAL/SHL /6" in its group 2 table) and GNU objdump -- the reference decoder the property names -- prints shl:
# accepted as an encoding of shl
GRP2 = [("rol",), ("ror",), ("rcl",), ("rcr",), ("shl", "sal"), ("shr",), ("shl", "sal"), ("sar",)]
GRP3 = [("test",), None, ("not",), ("neg",), ("mul",), ("imul",), ("div",), ("idiv",)]


def reg_name(size, ident):
    return REGNAMES[size][ident]


def reg_id(size, name):
    """manual register id of a register name (inverse of reg_name); KeyError if the name is no such register"""
    names = REGNAMES[size]
    if name not in names or name is None:
        raise KeyError(name)
    return names.index(name)


class Dec:
    __slots__ = ("ok", "mn", "opsize", "ops", "length", "why", "rex", "rep")

    def __init__(self, ok, mn=None, opsize=0, ops=(), length=0, why="", rex=False, rep=None):
        self.ok, self.mn, self.opsize, self.ops, self.length, self.why = ok, mn, opsize, list(ops), length, why
        self.rex, self.rep = rex, rep

    def __repr__(self):
        if not self.ok:
            return f"<undecoded: {self.why}>"
        return f"<{'/'.join(self.mn)} {self.opsize} {self.ops} len={self.length}>"


class _Stop(Exception):
    pass


def _c(x):
    """concrete value of a byte-derived quantity (forks over the feasible values when symbolic)"""
    if type(x) is int:
        return x
    return operator.index(x)


def _sx(v, bits):
    """signed value of an unsigned `bits`-bit field"""
    return core.ite(v >= (1 << (bits - 1)), v - (1 << bits), v)


def _mod(v, bits):
    """unsigned residue modulo 2**bits of a (signed) value in (-2**bits, 2**bits)"""
    return core.ite(v < 0, v + (1 << bits), v)


class _Cursor:
    def __init__(self, bs):
        self.bs, self.pos = list(bs), 0

    def byte(self):
        if self.pos >= len(self.bs):
            raise _Stop("truncated")
        b = self.bs[self.pos]
        self.pos += 1
        return b

    def le(self, n):
        v = 0
        for k in range(n):
            v = v | (self.byte() << (8 * k))
        return v

    def peek(self):
        if self.pos >= len(self.bs):
            raise _Stop("truncated")
        return self.bs[self.pos]


def _modrm(cur, rex_r, rex_x, rex_b, group=False):
    """-> (mod, reg field (REX.R extended; concrete when group), rm description)
    rm description: ("r", number)  register direct (mod = 11b), number REX.B extended
                    ("m", base, index, scale, disp)"""
    m = cur.byte()
    mod = _c((m >> 6) & 3)
    reg3 = (m >> 3) & 7
    if group:
        reg = _c(reg3)                      # /digit selects the operation; REX.R is not used
    else:
        reg = reg3 + 8 * rex_r
    rm3 = m & 7
    if mod == 3:
        return mod, reg, ("r", rm3 + 8 * rex_b)
    base, index, scale = NONE, NONE, 0
    dispsize = {0: 0, 1: 1, 2: 4}[mod]
    if rm3 == 4:                            # table 2-2: [--][--] a SIB byte follows
        s = cur.byte()
        ss = _c((s >> 6) & 3)
        idx3 = (s >> 3) & 7
        base3 = s & 7
        # table 2-3: index 100b = none -- only when REX.X = 0 (REX.X = 1 selects r12)
        if core.sym_and(idx3 == 4, rex_x == 0):
            index, scale = NONE, 0
        else:
            index, scale = idx3 + 8 * rex_x, 1 << ss
        if mod == 0 and base3 == 5:         # table 2-3 note 1: no base, disp32 follows
            base, dispsize = NONE, 4
        else:
            base = base3 + 8 * rex_b
    elif mod == 0 and rm3 == 5:             # 2.2.1.6: RIP + disp32 in 64-bit mode
        base, dispsize = RIP, 4
    else:
        base = rm3 + 8 * rex_b
    if dispsize == 0:
        disp = 0
    elif dispsize == 1:
        disp = _sx(cur.byte(), 8)
    else:
        disp = _sx(cur.le(4), 32)
    return mod, reg, ("m", base, index, scale, disp)


def decode(bs):
    cur = _Cursor(bs)
    try:
        return _decode(cur)
    except _Stop as e:
        return Dec(False, why=str(e.args[0]), length=cur.pos)


def _decode(cur):
    opsz16 = False
    rep = None
    # ---- legacy prefixes (2.1.1); only operand-size and REP/REPNE are in the subset
    while True:
        b = cur.peek()
        hi = _c((b >> 4) & 15)
        if hi == 4:
            break
        if hi in (5, 0xB):                  # 50+r, 58+r, B0+r, B8+r: opcode with an embedded register number
            break
        bv = _c(b)
        if bv == 0x66:
            opsz16 = True
        elif bv == 0xF3:
            rep = "rep"
        elif bv == 0xF2:
            rep = "repne"
        elif bv in (0x67, 0xF0, 0x26, 0x2E, 0x36, 0x3E, 0x64, 0x65):
            raise _Stop("prefix %02x outside the subset" % bv)
        else:
            break
        cur.byte()
    # ---- REX (2.2.1): must immediately precede the opcode
    rex = False
    w = r = x = bb = 0
    b = cur.peek()
    if _c((b >> 4) & 15) == 4:
        cur.byte()
        rex = True
        w = _c((b >> 3) & 1)
        r, x, bb = (b >> 2) & 1, (b >> 1) & 1, b & 1
    osz = 64 if w else (16 if opsz16 else 32)          # 2.2.1.2: REX.W takes precedence over 66

    def R(size, n):
        """register operand; byte registers 4..7 without REX are AH CH DH BH"""
        if size == 8 and not rex:
            return ("reg", 8, core.ite(n >= 4, n + 16, n))
        return ("reg", size, n)

    def E(size, rm):
        if rm[0] == "r":
            return R(size, rm[1])
        return ("mem", size) + tuple(rm[1:])

    def imm(fieldbytes, size, signed=True):
        v = cur.le(fieldbytes)
        fb = 8 * fieldbytes
        if fb < size and signed:
            return ("imm", size, _mod(_sx(v, fb), size))
        return ("imm", size, v)

    def iz(size):
        """Iz: imm16 for 16-bit operand size, imm32 otherwise (sign-extended to 64)"""
        return imm(2, 16) if size == 16 else imm(4, size)

    def done(mn, size, ops, **kw):
        if rep and not kw.pop("string", False):
            raise _Stop("F2/F3 prefix on a non-string instruction")
        if type(mn) is str:
            mn = (mn,)
        return Dec(True, mn, size, ops, cur.pos, rex=rex, rep=rep)

    op = cur.byte()
    hi = _c((op >> 4) & 15)
    if hi in (5, 0xB):
        sel = _c((op >> 3) & 31)
        n = (op & 7) + 8 * bb
        if sel == 0x50 >> 3 or sel == 0x58 >> 3:       # push/pop r64 (default 64; 66 -> 16 bit)
            size = 16 if opsz16 else 64
            return done("push" if sel == 0x50 >> 3 else "pop", size, [R(size, n)])
        if sel == 0xB0 >> 3:
            return done("mov", 8, [R(8, n), imm(1, 8)])
        return done("mov", osz, [R(osz, n), imm(osz // 8, osz)])      # B8+r: imm16 / imm32 / imm64
    op = _c(op)
    if op < 0x40 and (op & 7) < 6:                      # one-byte map rows 0..3
        mn = ALU[op >> 3]
        form = op & 7
        if form == 4:
            return done(mn, 8, [R(8, 0), imm(1, 8)])
        if form == 5:
            return done(mn, osz, [R(osz, 0), iz(osz)])
        size = 8 if form in (0, 2) else osz
        mod, reg, rm = _modrm(cur, r, x, bb)
        ops = [E(size, rm), R(size, reg)]
        if form in (2, 3):
            ops.reverse()
        return done(mn, size, ops)
    if op == 0x0F:
        return _decode_0f(cur, osz, rex, r, x, bb, R, E, imm, done)
    if op == 0x63:                                      # movsxd Gv, Ed
        mod, reg, rm = _modrm(cur, r, x, bb)
        return done("movsxd", osz, [R(osz, reg), E(32, rm)])
    if op == 0x68:
        size = 16 if opsz16 else 64
        return done("push", size, [iz(size)])
    if op == 0x6A:
        size = 16 if opsz16 else 64
        return done("push", size, [imm(1, size)])
    if op in (0x69, 0x6B):
        mod, reg, rm = _modrm(cur, r, x, bb)
        return done("imul", osz, [R(osz, reg), E(osz, rm), iz(osz) if op == 0x69 else imm(1, osz)])
    if 0x70 <= op <= 0x7F:
        return done(tuple("j" + s for s in CC[op & 15]), 64, [("rel", _sx(cur.byte(), 8))])
    if op in (0x80, 0x81, 0x83):                        # group 1
        size = 8 if op == 0x80 else osz
        mod, reg, rm = _modrm(cur, r, x, bb, group=True)
        i = imm(1, size) if op in (0x80, 0x83) else iz(size)
        return done(ALU[reg], size, [E(size, rm), i])
    if op in (0x84, 0x85, 0x86, 0x87):
        size = 8 if op in (0x84, 0x86) else osz
        mod, reg, rm = _modrm(cur, r, x, bb)
        return done("test" if op < 0x86 else "xchg", size, [E(size, rm), R(size, reg)])
    if op in (0x88, 0x89, 0x8A, 0x8B):
        size = 8 if op in (0x88, 0x8A) else osz
        mod, reg, rm = _modrm(cur, r, x, bb)
        ops = [E(size, rm), R(size, reg)]
        if op >= 0x8A:
            ops.reverse()
        return done("mov", size, ops)
    if op == 0x8D:
        mod, reg, rm = _modrm(cur, r, x, bb)
        if mod == 3:
            raise _Stop("lea with a register source is undefined")
        return done("lea", osz, [R(osz, reg), ("mem", 0) + tuple(rm[1:])])
    if op == 0x8F:                                      # group 1A
        mod, reg, rm = _modrm(cur, r, x, bb, group=True)
        if reg != 0:
            raise _Stop("8F /%d" % reg)
        size = 16 if opsz16 else 64
        return done("pop", size, [E(size, rm)])
    if op == 0x90:
        if rex and _c(bb) == 1:                         # REX.B + 90 is xchg r8, rax, not a nop
            return done("xchg", osz, [R(osz, 8), R(osz, 0)])
        if rep:
            raise _Stop("pause")
        return done("nop", osz, [])
    if op == 0x98:
        return done({16: "cbw", 32: "cwde", 64: "cdqe"}[osz], osz, [])
    if op == 0x99:
        return done({16: "cwd", 32: "cdq", 64: "cqo"}[osz], osz, [])
    if op in (0xA4, 0xA5, 0xAA, 0xAB):
        size = 8 if op in (0xA4, 0xAA) else osz
        base = "movs" if op < 0xAA else "stos"
        return done((base + {8: "b", 16: "w", 32: "d", 64: "q"}[size], base), size, [], string=True)
    if op in (0xA8, 0xA9):
        size = 8 if op == 0xA8 else osz
        return done("test", size, [R(size, 0), imm(1, 8) if op == 0xA8 else iz(size)])
    if op in (0xC0, 0xC1, 0xD0, 0xD1, 0xD2, 0xD3):      # group 2
        size = 8 if op in (0xC0, 0xD0, 0xD2) else osz
        mod, reg, rm = _modrm(cur, r, x, bb, group=True)
        cnt = ("imm", 8, cur.le(1)) if op < 0xD0 else (("one",) if op < 0xD2 else ("reg", 8, 1))
        return done(GRP2[reg], size, [E(size, rm), cnt])
    if op == 0xC2:
        return done("ret", 64, [imm(2, 16)])
    if op == 0xC3:
        return done("ret", 64, [])
    if op in (0xC6, 0xC7):                              # group 11
        size = 8 if op == 0xC6 else osz
        mod, reg, rm = _modrm(cur, r, x, bb, group=True)
        if reg != 0:
            raise _Stop("C6/C7 /%d" % reg)
        return done("mov", size, [E(size, rm), imm(1, 8) if op == 0xC6 else iz(size)])
    if op == 0xC9:
        return done("leave", 64, [])
    if op == 0xCC:
        return done("int3", 0, [])
    if op == 0xCD:
        return done("int", 0, [imm(1, 8)])
    if op == 0xE8 or op == 0xE9:
        if opsz16:
            raise _Stop("66 prefix on a near branch")
        return done("call" if op == 0xE8 else "jmp", 64, [("rel", _sx(cur.le(4), 32))])
    if op == 0xEB:
        return done("jmp", 64, [("rel", _sx(cur.byte(), 8))])
    if op in (0xF6, 0xF7):                              # group 3
        size = 8 if op == 0xF6 else osz
        mod, reg, rm = _modrm(cur, r, x, bb, group=True)
        if GRP3[reg] is None:
            raise _Stop("group 3 /1 is not defined")
        ops = [E(size, rm)]
        if reg == 0:
            ops.append(imm(1, 8) if op == 0xF6 else iz(size))
        return done(GRP3[reg], size, ops)
    if op == 0xFE:                                      # group 4
        mod, reg, rm = _modrm(cur, r, x, bb, group=True)
        if reg > 1:
            raise _Stop("FE /%d" % reg)
        return done("inc" if reg == 0 else "dec", 8, [E(8, rm)])
    if op == 0xFF:                                      # group 5
        mod, reg, rm = _modrm(cur, r, x, bb, group=True)
        if reg in (0, 1):
            return done("inc" if reg == 0 else "dec", osz, [E(osz, rm)])
        if reg in (2, 4):                               # near indirect: operand size forced to 64 (2.2.1.7)
            if opsz16:
                raise _Stop("66 prefix on a near branch")
            return done("call" if reg == 2 else "jmp", 64, [E(64, rm)])
        if reg == 6:
            size = 16 if opsz16 else 64
            return done("push", size, [E(size, rm)])
        raise _Stop("FF /%d outside the subset" % reg)
    raise _Stop("opcode %02x outside the subset" % op)


def _decode_0f(cur, osz, rex, r, x, bb, R, E, imm, done):
    op = _c(cur.byte())
    if op == 0x05:
        return done("syscall", 0, [])
    if op == 0x0B:
        return done("ud2", 0, [])
    if op == 0x1F:
        mod, reg, rm = _modrm(cur, r, x, bb, group=True)
        if reg != 0:
            raise _Stop("0F 1F /%d" % reg)
        return done("nop", osz, [E(osz, rm)])
    if 0x40 <= op <= 0x4F:
        mod, reg, rm = _modrm(cur, r, x, bb)
        return done(tuple("cmov" + s for s in CC[op & 15]), osz, [R(osz, reg), E(osz, rm)])
    if 0x80 <= op <= 0x8F:
        return done(tuple("j" + s for s in CC[op & 15]), 64, [("rel", _sx(cur.le(4), 32))])
    if 0x90 <= op <= 0x9F:
        mod, reg, rm = _modrm(cur, r, x, bb)           # the reg field is not used
        return done(tuple("set" + s for s in CC[op & 15]), 8, [E(8, rm)])
    if op == 0xA2:
        return done("cpuid", 0, [])
    if op == 0xAF:
        mod, reg, rm = _modrm(cur, r, x, bb)
        return done("imul", osz, [R(osz, reg), E(osz, rm)])
    if op in (0xB6, 0xB7, 0xBE, 0xBF):
        src = 8 if op in (0xB6, 0xBE) else 16
        mod, reg, rm = _modrm(cur, r, x, bb)
        return done("movzx" if op < 0xB8 else "movsx", osz, [R(osz, reg), E(src, rm)])
    raise _Stop("opcode 0f %02x outside the subset" % op)


# =====================================================================================================
# rendering (Intel syntax, close to GNU objdump -M intel) and self-test
PTR = {8: "BYTE", 16: "WORD", 32: "DWORD", 64: "QWORD"}


def fmt_operand(o):
    if o[0] == "reg":
        return reg_name(o[1], o[2])
    if o[0] == "mem":
        _, size, base, index, scale, disp = o
        parts = []
        if base == RIP:
            parts.append("rip")
        elif base != NONE:
            parts.append(REG64[base])
        if index != NONE:
            parts.append("%s*%d" % (REG64[index], scale))
        s = "+".join(parts)
        if not parts:
            s = "0x%x" % (disp % (1 << 64))
        elif disp < 0:
            s += "-0x%x" % -disp
        elif disp > 0:
            s += "+0x%x" % disp
        return ("%s PTR " % PTR[size] if size else "") + "[" + s + "]"
    if o[0] == "imm":
        return "0x%x" % o[2]
    if o[0] == "rel":
        return "." + ("%+d" % o[1])
    if o[0] == "one":
        return "1"
    raise ValueError(o)


def fmt(d):
    if not d.ok:
        return "(undecoded: %s)" % d.why
    return ((d.rep + " ") if d.rep else "") + d.mn[0] + (" " if d.ops else "") + ",".join(fmt_operand(o) for o in d.ops)


# ---- objdump text -> the same structure
_ALLREG = {}
for _size, _names in REGNAMES.items():
    for _i, _n in enumerate(_names):
        if _n:
            _ALLREG[_n] = ("reg", _size, _i)
_ALLREG["r8l"] = ("reg", 8, 8)
_PTRSIZE = {"BYTE": 8, "WORD": 16, "DWORD": 32, "QWORD": 64}
_OBJ_MN = {"movabs": "mov", "sal": "shl"}
_OBJ_DROP = ("rex", "data16", "ds", "es", "cs", "ss", "fs", "gs")


def parse_objdump_operand(t, addr_bits=64):
    t = t.strip()
    if t in _ALLREG:
        return _ALLREG[t]
    size = 0
    for k, v in _PTRSIZE.items():
        if t.startswith(k + " PTR "):
            size, t = v, t[len(k) + 5:]
            break
    for seg in ("ds:", "es:", "ss:", "cs:"):
        if t.startswith(seg):
            t = t[len(seg):]
    if t.startswith("["):
        inner = t[1:-1]
        base, index, scale, disp = NONE, NONE, 0, 0
        for sign, term in _terms(inner):
            if "*" in term:
                rn, sc = term.split("*")
                if rn not in ("riz", "eiz"):
                    index, scale = _ALLREG[rn][2], int(sc)
            elif term == "rip":
                base = RIP
            elif term in ("riz", "eiz"):
                pass
            elif term in _ALLREG:
                if base == NONE:
                    base = _ALLREG[term][2]
                else:
                    index, scale = _ALLREG[term][2], 1
            else:
                disp = sign * int(term, 0)
                if disp >= 1 << 63:             # objdump prints a negative rip displacement as a 64-bit hex number
                    disp -= 1 << 64
        return ("mem", size, base, index, scale, disp)
    v = int(t, 0)
    if size:                                # "QWORD PTR ds:0x1234": absolute disp32 (sign-extended)
        if v >= 1 << 63:
            v -= 1 << 64
        return ("mem", size, NONE, NONE, 0, v)
    return ("num", v)


def _terms(s):
    out, cur, sign = [], "", 1
    for ch in s:
        if ch in "+-":
            if cur:
                out.append((sign, cur))
            cur, sign = "", (1 if ch == "+" else -1)
        else:
            cur += ch
    if cur:
        out.append((sign, cur))
    return out


def parse_objdump_line(text):
    """'rex.W mov    rax,QWORD PTR [rbx+0x8]' -> (rep, mnemonic, [operands])"""
    text = text.split("#")[0].strip()
    words = text.split()
    rep = None
    while words and (words[0].startswith("rex") or words[0] in _OBJ_DROP or words[0] in ("rep", "repz", "repnz")):
        if words[0] in ("rep", "repz"):
            rep = "rep"
        elif words[0] == "repnz":
            rep = "repne"
        words.pop(0)
    if not words:
        return rep, None, []
    mn = _OBJ_MN.get(words[0], words[0])
    rest = text.split(words[0], 1)[1].strip() if len(words) > 1 else ""
    ops = [parse_objdump_operand(t) for t in rest.split(",")] if rest else []
    return rep, mn, ops


def same_as_objdump(d, addr, text):
    """does the objdump rendering `text` of the instruction at address `addr` denote the decoded d?"""
    rep, mn, ops = parse_objdump_line(text)
    if mn is None or not d.ok:
        return False
    if mn.startswith("movs") and d.mn[0].startswith("movs") and mn != "movsx" and mn != "movsxd":
        return rep == d.rep and mn in (d.mn[1], d.mn[0])
    if mn.startswith("stos") and d.mn[0].startswith("stos"):
        return rep == d.rep
    if d.mn == ("nop",) and not d.ops and mn == "xchg" and len(ops) == 2 and ops[0] == ops[1] and ops[0][2] == 0:
        return True                         # 90 = xchg rAX, rAX is the manual's one-byte nop
    if mn not in d.mn or rep != d.rep or len(ops) != len(d.ops):
        return False
    for a, b in zip(d.ops, ops):
        if a[0] == "imm":
            if b[0] != "num" or (b[1] - a[2]) % (1 << a[1]) != 0:
                return False
        elif a[0] == "rel":
            if b[0] != "num" or (addr + d.length + a[1] - b[1]) % (1 << 64) != 0:
                return False
        elif a[0] == "one":
            if b != ("num", 1):
                return False
        elif a[0] == "mem":
            if b[0] != "mem":
                return False
            if a[1] and b[1] and a[1] != b[1]:
                return False
            if tuple(a[2:]) != tuple(b[2:]):
                return False
        else:
            if tuple(a) != tuple(b):
                return False
    return True


def _objdump(blob):
    """{address: text} of a linear sweep by GNU objdump (None if objdump is not available)"""
    import subprocess
    import tempfile
    import os
    import shutil
    exe = shutil.which("objdump")
    if not exe:
        return None
    d = tempfile.mkdtemp()
    try:
        p = os.path.join(d, "x.bin")
        with open(p, "wb") as f:
            f.write(blob)
        out = subprocess.run([exe, "-D", "-b", "binary", "-mi386:x86-64", "-M", "intel", "-w", p],
                             capture_output=True, text=True, timeout=120)
        if out.returncode != 0:
            return None
        res = {}
        for line in out.stdout.splitlines():
            parts = line.split("\t")
            if len(parts) >= 3 and parts[0].strip().endswith(":"):
                try:
                    a = int(parts[0].strip()[:-1], 16)
                except ValueError:
                    continue
                res[a] = (len(parts[1].split()), parts[2].strip())
        return res
    finally:
        shutil.rmtree(d, ignore_errors=True)


# opcodes of the subset, for the random cross-check: (opcode bytes, has modrm, immediate bytes as function of opsize)
def _gen_cases(rnd, n):
    one = ([o for o in range(0x40) if (o & 7) < 6] + [0x63, 0x68, 0x69, 0x6A, 0x6B] + list(range(0x70, 0x80))
           + [0x80, 0x81, 0x83, 0x84, 0x85, 0x86, 0x87, 0x88, 0x89, 0x8A, 0x8B, 0x8D, 0x8F, 0x90, 0x98, 0x99,
              0xA4, 0xA5, 0xA8, 0xA9, 0xC0, 0xC1, 0xC2, 0xC3, 0xC6, 0xC7, 0xCD, 0xD0, 0xD1, 0xD2, 0xD3,
              0xE8, 0xE9, 0xEB, 0xF6, 0xF7, 0xFE, 0xFF] + list(range(0x50, 0x60)) + list(range(0xB0, 0xC0)))
    two = ([0x05, 0x1F, 0xAF, 0xB6, 0xB7, 0xBE, 0xBF] + list(range(0x40, 0x50)) + list(range(0x80, 0xA0)))
    stack_or_branch = set([0x68, 0x6A, 0x8F, 0xC2, 0xC3, 0xE8, 0xE9, 0xEB, 0xFF] + list(range(0x50, 0x60)) + list(range(0x70, 0x80)))
    cases = []
    for k in range(n):
        bs = []
        is2 = rnd.random() < 0.25
        opc = rnd.choice(two if is2 else one)
        pre = rnd.random()
        if pre < 0.2 and not (opc in stack_or_branch and not is2) and not (is2 and 0x80 <= opc < 0x90):
            bs.append(0x66)
        if rnd.random() < 0.7:
            bs.append(0x40 | rnd.randrange(16))
        if is2:
            bs.append(0x0F)
        bs.append(opc)
        # tail: random modrm/sib/disp/imm material; boundary-heavy
        tail = [rnd.choice([0x00, 0x7F, 0x80, 0xFF, rnd.randrange(256)]) for _ in range(13)]
        tail[0] = rnd.randrange(256)
        tail[1] = rnd.randrange(256)
        bs += tail
        cases.append(bs)
    return cases


def selftest(repo=None, n_random=600, seed=0):
    """-> dict of counters; AssertionError on any disagreement.
    (A) hand-checked encodings (SDM examples / GNU assembler output);
    (B) the repo's assembler test vectors test/arch/test_x86asm.py: every check() hex string is cut into
        instructions by this decoder and compared with the feed() texts (deviations listed, each explained);
    (C) random encodings of the subset cross-checked against GNU objdump (when installed): validation of THIS
        decoder only, never a deciding step of the check."""
    import random
    st = dict(known=0, vectors=0, vector_deviations=[], objdump_cases=0, objdump_compared=0, objdump_undecoded=0,
              objdump_available=False)
    H = bytes.fromhex
    known = [
        ("4889d8", "mov rax,rbx"), ("4831d9", "xor rcx,rbx"), ("48ffc1", "inc rcx"), ("4154", "push r12"),
        ("5d", "pop rbp"), ("4a8b447811", "mov rax,QWORD PTR [rax+r15*2+0x11]"),
        ("4c8b1d0f000000", "mov r11,QWORD PTR [rip+0xf]"), ("488b042500b00000", "mov rax,QWORD PTR [0xb000]"),
        ("49890424", "mov QWORD PTR [r12],rax"), ("48894d00", "mov QWORD PTR [rbp],rcx"),
        ("498b4500", "mov rax,QWORD PTR [r13]"), ("488b0424", "mov rax,QWORD PTR [rsp]"),
        ("488b442408", "mov rax,QWORD PTR [rsp+0x8]"), ("488b8080000000", "mov rax,QWORD PTR [rax+0x80]"),
        ("488b4080", "mov rax,QWORD PTR [rax-0x80]"), ("488b407f", "mov rax,QWORD PTR [rax+0x7f]"),
        ("488b04cd00000000", "mov rax,QWORD PTR [rcx*8]"), ("4a8b0420", "mov rax,QWORD PTR [rax+r12*1]"),
        ("4881c3ffffffff", "add rbx,0xffffffffffffffff"), ("4883c3f0", "add rbx,0xfffffffffffffff0"),
        ("48b8efcdab8967452301", "mov rax,0x123456789abcdef"), ("b821000000", "mov eax,0x21"),
        ("66b81122", "mov ax,0x2211"), ("b15b", "mov cl,0x5b"), ("40b45b", "mov spl,0x5b"), ("b45b", "mov ah,0x5b"),
        ("88e0", "mov al,ah"), ("4088e0", "mov al,spl"), ("4488c0", "mov al,r8b"),
        ("480fbed3", "movsx rdx,bl"), ("660fbed3", "movsx dx,bl"), ("480fbfd3", "movsx rdx,bx"),
        ("0fb6c0", "movzx eax,al"), ("4863c8", "movsxd rcx,eax"), ("480fafc3", "imul rax,rbx"),
        ("486bc310", "imul rax,rbx,0x10"), ("49f7fb", "idiv r11"), ("48f7d8", "neg rax"), ("48f7d0", "not rax"),
        ("48d1e0", "shl rax,1"), ("48d1e8", "shr rax,1"), ("48d3f8", "sar rax,cl"), ("48d3f0", "shl rax,cl"), ("48c1e005", "shl rax,0x5"),
        ("d2e4", "shl ah,cl"), ("40d2e4", "shl spl,cl"), ("41ffd2", "call r10"), ("ffe0", "jmp rax"),
        ("ff2425080000 00".replace(" ", ""), "jmp QWORD PTR [0x8]"), ("c3", "ret"), ("cd02", "int 0x2"),
        ("0f05", "syscall"), ("4898", "cdqe"), ("4899", "cqo"), ("6699", "cwd"), ("99", "cdq"),
        ("f3a4", "rep movsb"), ("0f8406000000", "je .+6"), ("ebf4", "jmp .-12"), ("e8fbffffff", "call .-5"),
        ("0f94c0", "sete al"), ("480f44c3", "cmove rax,rbx"), ("488d4df8", "lea rcx,[rbp-0x8]"),
        ("488d0c2508000000", "lea rcx,[0x8]"), ("4885c0", "test rax,rax"), ("6a80", "push 0xffffffffffffff80"),
        ("50", "push rax"), ("4150", "push r8"), ("8f00", "pop QWORD PTR [rax]"),
    ]
    for hx, want in known:
        d = decode(list(H(hx)))
        got = fmt(d)
        assert d.ok and d.length == len(H(hx)) and got == want, (hx, got, want)
        st["known"] += 1
    for hx in ("488dc0", "f6c8", "8fc8"):       # encodings the manual does not define
        assert not decode(list(H(hx))).ok, hx
    # (B)
    import os
    import re
    repo = repo or os.environ.get("PPCI_REPO", "/repo")
    path = os.path.join(repo, "test", "arch", "test_x86asm.py")
    if os.path.exists(path):
        for feeds, data in _parse_vectors(path):
            pos = 0
            for text in feeds:
                if pos >= len(data):
                    break
                dm = re.match(r"(db|dw|dd|dq)\s", text)
                if dm:
                    pos += {"db": 1, "dw": 2, "dd": 4, "dq": 8}[dm.group(1)]
                    continue
                d = decode(list(data[pos:pos + 15]))
                if not d.ok:
                    break                                 # x87 / sse / data directive: rest of this vector skipped
                hx = data[pos:pos + d.length].hex()
                pos += d.length
                st["vectors"] += 1
                dev = vector_deviation(text, d)
                if dev:
                    st["vector_deviations"].append("%s -> %s decodes to '%s': %s" % (text, hx, fmt(d), dev))
    # the only deviations tolerated: documented ones (the check reports the same encodings as findings)
    for dv in st["vector_deviations"]:
        assert any(k in dv for k in TOLERATED_VECTOR_DEVIATIONS), dv
    # (C)
    rnd = random.Random(seed)
    cases = _gen_cases(rnd, n_random)
    blob = bytearray()
    for bs in cases:
        blob += bytes(bs) + b"\x90" * (32 - len(bs))
    dump = _objdump(bytes(blob))
    if dump is not None:
        st["objdump_available"] = True
        for k, bs in enumerate(cases):
            st["objdump_cases"] += 1
            d = decode(list(bs))
            ent = dump.get(32 * k)
            assert ent is not None, "objdump lost sync"
            n, text = ent
            if not d.ok:
                st["objdump_undecoded"] += 1
                continue
            assert d.length == n, (bytes(bs).hex(), fmt(d), d.length, text, n)
            assert same_as_objdump(d, 32 * k, text), (bytes(bs[:d.length]).hex(), fmt(d), text)
            st["objdump_compared"] += 1
    return st


# deviations between the repo's test vectors and this decoder, each confirmed with objdump by hand:
#   "shl ah, cl" is expected as 40 d2 e4 by the repo's test, which is `shl spl, cl` (a REX prefix turns AH into SPL)
TOLERATED_VECTOR_DEVIATIONS = ("shl ah, cl",)


def _parse_vectors(path):
    """[(feed texts, bytes)] per test method of the repo's assembler test file"""
    import re
    out = []
    with open(path) as f:
        src = f.read()
    for body in re.split(r"\n    def test", src)[1:]:
        feeds = re.findall(r'self\.feed\(\s*"([^"]*)"\s*\)', body)
        chk = re.findall(r"self\.check\(((?:\s*\"[^\"]*\"\s*)+)\)", body)
        if not feeds or len(chk) != 1:
            continue
        hx = "".join(re.findall(r'"([^"]*)"', chk[0])).replace(" ", "")
        try:
            data = bytes.fromhex(hx)
        except ValueError:
            continue
        feeds = [t.split(":", 1)[1].strip() if ":" in t else t for t in feeds]
        out.append(([t for t in feeds if t], data))
    return out


def vector_deviation(text, d):
    """compare one ppci assembler line ('mov rax, [r8, r15, 0x11]') with a decoded instruction; '' if they agree.
    Only what the text states is compared (registers, base/index/displacement, integer operands); labels are skipped."""
    text = text.strip()
    mn, _, rest = text.partition(" ")
    mn = {"jmpshort": "jmp"}.get(mn, mn)
    if mn not in d.mn and not (mn == "movsb" and "movsb" in d.mn):
        return "mnemonic"
    ops, depth, cur_ = [], 0, ""
    for ch in rest:
        if ch == "[":
            depth += 1
        if ch == "]":
            depth -= 1
        if ch == "," and depth == 0:
            ops.append(cur_.strip())
            cur_ = ""
        else:
            cur_ += ch
    if cur_.strip():
        ops.append(cur_.strip())
    dops = [o for o in d.ops if o[0] != "one"]
    if len(ops) != len(dops):
        return "operand count"
    for t, o in zip(ops, dops):
        t = t.lstrip("*").lower()
        if t in _ALLREG:
            if tuple(o) != _ALLREG[t]:
                return "register " + t
        elif t.startswith("["):
            parts = [p.strip() for p in t[1:-1].split(",")]
            if o[0] != "mem":
                return "memory operand"
            regs = [p for p in parts if p in _ALLREG or p == "rip"]
            nums = [p for p in parts if p not in regs]
            if any(not _isnum(p) for p in nums):
                continue                                  # label
            base = RIP if regs[:1] == ["rip"] else (_ALLREG[regs[0]][2] if regs else NONE)
            index = _ALLREG[regs[1]][2] if len(regs) > 1 else NONE
            disp = int(nums[0], 0) if nums else 0
            if (o[2], o[3], o[5]) != (base, index, disp) or (index != NONE and o[4] != 1):
                return "memory operand " + t
        elif _isnum(t):
            if o[0] != "imm" or (int(t, 0) - o[2]) % (1 << o[1]) != 0:
                return "immediate " + t
        else:
            continue                                      # label operand
    return ""


def _isnum(t):
    try:
        int(t, 0)
        return True
    except ValueError:
        return False


if __name__ == "__main__":
    import sys
    import json
    if len(sys.argv) > 1:
        print(fmt(decode(list(bytes.fromhex("".join(sys.argv[1:]))))))
    else:
        print(json.dumps(selftest(), indent=1))
