"""AVR (8-bit, classic + enhanced core: AVR, AVRe, AVRe+, the xmega additions) reference DECODER, independent of ppci.

Written from the Atmel "AVR Instruction Set Manual" (doc0856), section "Instruction Set Summary" and the per
instruction pages ("16-bit Opcode" / "32-bit Opcode" boxes, "Syntax / Operands / Program Counter" lines):

  program memory is organised in 16-bit words; an instruction is one word, LDS / STS / JMP / CALL are two words (the
  second word is the low 16 bits of the address k).  A word is stored little endian (avr-objdump lists `0c 94 34 00`
  for `jmp 0x68` = words 0x940C 0x0034).

  0000 0000 0000 0000  NOP                    0000 0001 dddd rrrr  MOVW Rd+1:Rd, Rr+1:Rr  (d, r = 2 * field)
  0000 0010 dddd rrrr  MULS  (16..31)         0000 0011 0ddd 0rrr  MULSU (16..23)   0ddd 1rrr FMUL   1ddd 0rrr FMULS
                                                                                   1ddd 1rrr FMULSU
  0000 01rd dddd rrrr  CPC     0000 10rd dddd rrrr  SBC     0000 11rd dddd rrrr  ADD  (LSL Rd = ADD Rd, Rd)
  0001 00rd dddd rrrr  CPSE    0001 01rd dddd rrrr  CP      0001 10rd dddd rrrr  SUB
  0001 11rd dddd rrrr  ADC (ROL Rd = ADC Rd, Rd)
  0010 00rd dddd rrrr  AND (TST Rd = AND Rd, Rd)            0010 01rd dddd rrrr  EOR (CLR Rd = EOR Rd, Rd)
  0010 10rd dddd rrrr  OR      0010 11rd dddd rrrr  MOV
        (r = bit 9 : bits 3..0,  d = bits 8..4, all 32 registers)
  0011 KKKK dddd KKKK  CPI     0100 SBCI    0101 SUBI    0110 ORI (SBR)    0111 ANDI (CBR Rd, K = ANDI Rd, 0xFF - K)
  1110 KKKK dddd KKKK  LDI (SER Rd = LDI Rd, 0xFF)          (d = 16 + field: r16..r31, K = bits 11..8 : bits 3..0)
  10q0 qq0d dddd 0qqq  LDD Rd, Z+q     10q0 qq0d dddd 1qqq  LDD Rd, Y+q     (q = bit 13 : bits 11..10 : bits 2..0;
  10q0 qq1r rrrr 0qqq  STD Z+q, Rr     10q0 qq1r rrrr 1qqq  STD Y+q, Rr      q = 0 is LD Rd, Z / LD Rd, Y / ST Z, Rr ..)
  1001 000d dddd ....  0000 LDS Rd, k (+ word k)   0001 LD Rd, Z+   0010 LD Rd, -Z   0100 LPM Rd, Z   0101 LPM Rd, Z+
                       0110 ELPM Rd, Z   0111 ELPM Rd, Z+   1001 LD Rd, Y+   1010 LD Rd, -Y   1100 LD Rd, X
                       1101 LD Rd, X+    1110 LD Rd, -X     1111 POP Rd
  1001 001r rrrr ....  0000 STS k, Rr (+ word k)   0001 ST Z+, Rr   0010 ST -Z, Rr   0100 XCH Z, Rd   0101 LAS Z, Rd
                       0110 LAC Z, Rd    0111 LAT Z, Rd     1001 ST Y+, Rr   1010 ST -Y, Rr   1100 ST X, Rr
                       1101 ST X+, Rr    1110 ST -X, Rr     1111 PUSH Rr
  1001 010d dddd ....  0000 COM  0001 NEG  0010 SWAP  0011 INC  0101 ASR  0110 LSR  0111 ROR  1010 DEC
  1001 0100 0sss 1000  BSET s (SEC SEZ SEN SEV SES SEH SET SEI)      1001 0100 1sss 1000  BCLR s (CLC CLZ ...)
  1001 0100 0000 1001  IJMP    1001 0100 0001 1001  EIJMP   1001 0101 0000 1001  ICALL   1001 0101 0001 1001  EICALL
  1001 0101 0000 1000  RET     1001 0101 0001 1000  RETI    1001 0101 1000 1000  SLEEP   1001 0101 1001 1000  BREAK
  1001 0101 1010 1000  WDR     1001 0101 1100 1000  LPM     1001 0101 1101 1000  ELPM    1001 0101 1110 1000  SPM
  1001 0101 1111 1000  SPM Z+  1001 0100 KKKK 1011  DES K
  1001 010k kkkk 110k  JMP k (+ word)        1001 010k kkkk 111k  CALL k (+ word)      (22-bit WORD address k)
  1001 0110 KKdd KKKK  ADIW Rd+1:Rd, K       1001 0111 KKdd KKKK  SBIW   (d = 24 + 2 * field, K = bits 7..6 : bits 3..0)
  1001 1000 AAAA Abbb  CBI A, b   1001 1001 SBIC   1001 1010 SBI   1001 1011 SBIS
  1001 11rd dddd rrrr  MUL
  1011 0AAd dddd AAAA  IN Rd, A              1011 1AAr rrrr AAAA  OUT A, Rr             (A = bits 10..9 : bits 3..0)
  1100 kkkk kkkk kkkk  RJMP k                1101 kkkk kkkk kkkk  RCALL k   (signed, PC <- PC + k + 1, in words)
  1111 00kk kkkk ksss  BRBS s, k             1111 01kk kkkk ksss  BRBC s, k (signed 7-bit k, PC <- PC + k + 1)
        BRBS: 0 BRCS/BRLO 1 BREQ 2 BRMI 3 BRVS 4 BRLT 5 BRHS 6 BRTS 7 BRIE
        BRBC: 0 BRCC/BRSH 1 BRNE 2 BRPL 3 BRVC 4 BRGE 5 BRHC 6 BRTC 7 BRID
  1111 100d dddd 0bbb  BLD Rd, b   1111 101d dddd 0bbb  BST   1111 110r rrrr 0bbb  SBRC   1111 111r rrrr 0bbb  SBRS
Every other first word is "reserved here" (no entry).

Pointer registers: X = R27:R26, Y = R29:R28, Z = R31:R30 (manual, "Register File"); a register pair is named by its
LOW register number (MOVW R19:R18 -> 18; ADIW's Rd+1:Rd with d in {24, 26, 28, 30}).

decode(w, x=None) works on plain ints and on any proxy that implements & | ^ >> << + - * == (symx SymInt): every
extractor is ONE arithmetic expression, no branching on values.

Operand vocabulary (decoded and, for the comparison, printed):
    ("r", n)               register Rn
    ("w", n)               register pair R(n+1):Rn
    ("i", v)               integer operand (K, q, A, b, s, data-space address k of LDS / STS)
    ("ptr", base, mode)    X / Y / Z addressing without displacement: base 26 / 28 / 30, mode "" | "+" (post-increment)
                           | "-" (pre-decrement)
    ("disp", base, q)      Y+q / Z+q
    ("rel", k)             relative target, signed word offset k: target byte address = instruction address + 2 + 2*k
    ("abs", k)             absolute target, word address k: target byte address = 2*k
    printed only:  ("target", S)   a label operand, S = byte address of the label
"""
import ast
import os
import re

# ---------------------------------------------------------------------------------------------------------
# field extractors f(w, x): w = first word, x = second word (None for one-word instructions)


def _d5(w, x):
    return (w >> 4) & 0x1F


def _r5(w, x):
    return ((w >> 5) & 0x10) | (w & 0x0F)


def _d4h(w, x):
    return 16 + ((w >> 4) & 0x0F)


def _r4h(w, x):
    return 16 + (w & 0x0F)


def _d3h(w, x):
    return 16 + ((w >> 4) & 0x07)


def _r3h(w, x):
    return 16 + (w & 0x07)


def _dw(w, x):
    return 2 * ((w >> 4) & 0x0F)


def _rw(w, x):
    return 2 * (w & 0x0F)


def _dp(w, x):
    return 24 + 2 * ((w >> 4) & 0x03)


def _K8(w, x):
    return ((w >> 4) & 0xF0) | (w & 0x0F)


def _K8c(w, x):
    """CBR Rd, K  =  ANDI Rd, (0xFF - K)"""
    return 0xFF - (((w >> 4) & 0xF0) | (w & 0x0F))


def _K6(w, x):
    return ((w >> 2) & 0x30) | (w & 0x0F)


def _K4(w, x):
    return (w >> 4) & 0x0F


def _q(w, x):
    return ((w >> 8) & 0x20) | ((w >> 7) & 0x18) | (w & 0x07)


def _A6(w, x):
    return ((w >> 5) & 0x30) | (w & 0x0F)


def _A5(w, x):
    return (w >> 3) & 0x1F


def _b3(w, x):
    return w & 0x07


def _s3(w, x):
    return (w >> 4) & 0x07


def _k12(w, x):
    return ((w & 0xFFF) ^ 0x800) - 0x800


def _k7(w, x):
    return (((w >> 3) & 0x7F) ^ 0x40) - 0x40


def _k16(w, x):
    return x


def _k22(w, x):
    return ((((w >> 3) & 0x3E) | (w & 1)) << 16) | x


# documented range of an integer operand, by the way the field is read (manual: "Operands" line of the page)
RANGE = {_K8: (0, 255), _K8c: (0, 255), _K6: (0, 63), _K4: (0, 15), _q: (0, 63), _A6: (0, 63), _A5: (0, 31),
         _b3: (0, 7), _s3: (0, 7), _k16: (0, 65535), _k12: (-2048, 2047), _k7: (-64, 63), _k22: (0, (1 << 22) - 1)}

X, Y, Z = 26, 28, 30
POINTER = {"x": X, "y": Y, "z": Z}

ENTRIES = []        # (id, mask, match, number of words)
FORMS = []          # (mnemonic, entry id, [operand descriptor], [(extractor, required value)], same-register pair?)
_BY_ID = {}


def _e(eid, mask, match, words=1):
    assert match & ~mask == 0 and eid not in _BY_ID, eid
    ENTRIES.append((eid, mask, match, words))
    _BY_ID[eid] = (eid, mask, match, words)


def _f(mn, eid, ops=(), fixed=(), same=None):
    """a way to write entry eid in assembler: mnemonic, operands in the manual's order; fixed: [(extractor, value)]
    that must hold for this spelling; same = (extractor, extractor): both fields must be equal (LSL Rd = ADD Rd, Rd)"""
    assert eid in _BY_ID, eid
    FORMS.append((mn, eid, list(ops), list(fixed), same))


def _pat(s):
    """'1001 010d dddd 0011' -> (mask, match): letters are operand bits"""
    s = s.replace(" ", "")
    assert len(s) == 16, s
    mask = int("".join("1" if c in "01" else "0" for c in s), 2)
    match = int("".join(c if c in "01" else "0" for c in s), 2)
    return mask, match


def _ins(mn, pattern, ops=(), words=1, eid=None):
    eid = eid or mn
    _e(eid, *_pat(pattern), words=words)
    _f(mn, eid, ops)
    return eid


R, W_, I = "r", "w", "i"

_ins("nop", "0000 0000 0000 0000")
_ins("movw", "0000 0001 dddd rrrr", [(W_, _dw), (W_, _rw)])
_ins("muls", "0000 0010 dddd rrrr", [(R, _d4h), (R, _r4h)])
_ins("mulsu", "0000 0011 0ddd 0rrr", [(R, _d3h), (R, _r3h)])
_ins("fmul", "0000 0011 0ddd 1rrr", [(R, _d3h), (R, _r3h)])
_ins("fmuls", "0000 0011 1ddd 0rrr", [(R, _d3h), (R, _r3h)])
_ins("fmulsu", "0000 0011 1ddd 1rrr", [(R, _d3h), (R, _r3h)])
for _mn, _op in (("cpc", "0000 01"), ("sbc", "0000 10"), ("add", "0000 11"), ("cpse", "0001 00"), ("cp", "0001 01"),
                 ("sub", "0001 10"), ("adc", "0001 11"), ("and", "0010 00"), ("eor", "0010 01"), ("or", "0010 10"),
                 ("mov", "0010 11"), ("mul", "1001 11")):
    _ins(_mn, _op + "rd dddd rrrr", [(R, _d5), (R, _r5)])
_f("lsl", "add", [(R, _d5)], same=(_d5, _r5))
_f("rol", "adc", [(R, _d5)], same=(_d5, _r5))
_f("tst", "and", [(R, _d5)], same=(_d5, _r5))
_f("clr", "eor", [(R, _d5)], same=(_d5, _r5))
for _mn, _op in (("cpi", "0011"), ("sbci", "0100"), ("subi", "0101"), ("ori", "0110"), ("andi", "0111"), ("ldi", "1110")):
    _ins(_mn, _op + " KKKK dddd KKKK", [(R, _d4h), (I, _K8)])
_f("sbr", "ori", [(R, _d4h), (I, _K8)])
_f("cbr", "andi", [(R, _d4h), (I, _K8c)])
_f("ser", "ldi", [(R, _d4h)], fixed=[(_K8, 0xFF)])

# loads / stores with displacement; q = 0 is the manual's LD Rd, Z / LD Rd, Y / ST Z, Rr / ST Y, Rr
for _b, _bit, _n in ((Z, "0", "z"), (Y, "1", "y")):
    _e("ldd_" + _n, *_pat("10q0 qq0d dddd %sqqq" % _bit))
    _e("std_" + _n, *_pat("10q0 qq1r rrrr %sqqq" % _bit))
    _f("ld", "ldd_" + _n, [(R, _d5), ("ptr", _b, "")], fixed=[(_q, 0)])
    _f("ldd", "ldd_" + _n, [(R, _d5), ("disp", _b, _q)])
    _f("st", "std_" + _n, [("ptr", _b, ""), (R, _d5)], fixed=[(_q, 0)])
    _f("std", "std_" + _n, [("disp", _b, _q), (R, _d5)])

_ins("lds", "1001 000d dddd 0000", [(R, _d5), (I, _k16)], words=2)
_ins("sts", "1001 001d dddd 0000", [(I, _k16), (R, _d5)], words=2)
for _code, _b, _m in (("0001", Z, "+"), ("0010", Z, "-"), ("1001", Y, "+"), ("1010", Y, "-"), ("1100", X, ""),
                      ("1101", X, "+"), ("1110", X, "-")):
    _ins("ld", "1001 000d dddd " + _code, [(R, _d5), ("ptr", _b, _m)], eid="ld_%d%s" % (_b, _m))
    _ins("st", "1001 001d dddd " + _code, [("ptr", _b, _m), (R, _d5)], eid="st_%d%s" % (_b, _m))
_ins("lpm", "1001 000d dddd 0100", [(R, _d5), ("ptr", Z, "")], eid="lpm_z")
_ins("lpm", "1001 000d dddd 0101", [(R, _d5), ("ptr", Z, "+")], eid="lpm_z+")
_ins("elpm", "1001 000d dddd 0110", [(R, _d5), ("ptr", Z, "")], eid="elpm_z")
_ins("elpm", "1001 000d dddd 0111", [(R, _d5), ("ptr", Z, "+")], eid="elpm_z+")
_ins("pop", "1001 000d dddd 1111", [(R, _d5)])
_ins("push", "1001 001d dddd 1111", [(R, _d5)])
for _mn, _code in (("xch", "0100"), ("las", "0101"), ("lac", "0110"), ("lat", "0111")):
    _ins(_mn, "1001 001d dddd " + _code, [("ptr", Z, ""), (R, _d5)])
for _mn, _code in (("com", "0000"), ("neg", "0001"), ("swap", "0010"), ("inc", "0011"), ("asr", "0101"),
                   ("lsr", "0110"), ("ror", "0111"), ("dec", "1010")):
    _ins(_mn, "1001 010d dddd " + _code, [(R, _d5)])

# SREG bit set / clear with their named spellings (flag order of SREG: C Z N V S H T I = bits 0..7)
_e("bset", *_pat("1001 0100 0sss 1000"))
_e("bclr", *_pat("1001 0100 1sss 1000"))
for _s, _flag in enumerate("cznvshti"):
    _f("se" + _flag, "bset", [], fixed=[(_s3, _s)])
    _f("cl" + _flag, "bclr", [], fixed=[(_s3, _s)])
_f("bset", "bset", [(I, _s3)])
_f("bclr", "bclr", [(I, _s3)])

for _mn, _pt in (("ijmp", "1001 0100 0000 1001"), ("eijmp", "1001 0100 0001 1001"), ("icall", "1001 0101 0000 1001"),
                 ("eicall", "1001 0101 0001 1001"), ("ret", "1001 0101 0000 1000"), ("reti", "1001 0101 0001 1000"),
                 ("sleep", "1001 0101 1000 1000"), ("break", "1001 0101 1001 1000"), ("wdr", "1001 0101 1010 1000"),
                 ("spm", "1001 0101 1110 1000")):
    _ins(_mn, _pt)
_ins("lpm", "1001 0101 1100 1000", eid="lpm_r0")
_ins("elpm", "1001 0101 1101 1000", eid="elpm_r0")
_ins("spm", "1001 0101 1111 1000", [("ptr", Z, "+")], eid="spm_z+")
_ins("des", "1001 0100 KKKK 1011", [(I, _K4)])
_ins("jmp", "1001 010k kkkk 110k", [("abs", _k22)], words=2)
_ins("call", "1001 010k kkkk 111k", [("abs", _k22)], words=2)
_ins("adiw", "1001 0110 KKdd KKKK", [(W_, _dp), (I, _K6)])
_ins("sbiw", "1001 0111 KKdd KKKK", [(W_, _dp), (I, _K6)])
for _mn, _code in (("cbi", "00"), ("sbic", "01"), ("sbi", "10"), ("sbis", "11")):
    _ins(_mn, "1001 10%s AAAA Abbb" % _code, [(I, _A5), (I, _b3)])
_ins("in", "1011 0AAd dddd AAAA", [(R, _d5), (I, _A6)])
_ins("out", "1011 1AAd dddd AAAA", [(I, _A6), (R, _d5)])
_ins("rjmp", "1100 kkkk kkkk kkkk", [("rel", _k12)])
_ins("rcall", "1101 kkkk kkkk kkkk", [("rel", _k12)])

_e("brbs", *_pat("1111 00kk kkkk ksss"))
_e("brbc", *_pat("1111 01kk kkkk ksss"))
BRBS = [("brcs", "brlo"), ("breq",), ("brmi",), ("brvs",), ("brlt",), ("brhs",), ("brts",), ("brie",)]
BRBC = [("brcc", "brsh"), ("brne",), ("brpl",), ("brvc",), ("brge",), ("brhc",), ("brtc",), ("brid",)]
for _eid, _names in (("brbs", BRBS), ("brbc", BRBC)):
    for _s, _ns in enumerate(_names):
        for _mn in _ns:
            _f(_mn, _eid, [("rel", _k7)], fixed=[(_b3, _s)])
    _f(_eid, _eid, [(I, _b3), ("rel", _k7)])
for _mn, _code in (("bld", "00"), ("bst", "01"), ("sbrc", "10"), ("sbrs", "11")):
    _ins(_mn, "1111 1%sd dddd 0bbb" % _code, [(R, _d5), (I, _b3)])

MNEMONICS = sorted({f[0] for f in FORMS})
_FORMS_OF = {}
for _form in FORMS:
    _FORMS_OF.setdefault(_form[0], []).append(_form)


def readings(mn, nops=None):
    """the ways the manual lets `mn` be written: [(mnemonic, entry id, operands, fixed, same)]"""
    return [f for f in _FORMS_OF.get(mn, []) if nops is None or len(f[2]) == nops]


def operand_range(desc):
    """documented (lo, hi) of the integer carried by an operand descriptor (None: register / pointer)"""
    if desc[0] in (I, "rel", "abs"):
        return RANGE[desc[1]]
    if desc[0] == "disp":
        return RANGE[desc[2]]
    return None


def words_of(eid):
    return _BY_ID[eid][3]


class Decoded:
    """view of one instruction (first word w, second word x or None)"""

    def __init__(self, w, x=None):
        self.w, self.x = w, x

    def is_(self, eid):
        _, mask, match, words = _BY_ID[eid]
        return (self.w & mask) == match

    def operand(self, desc):
        """value tuple of an operand descriptor"""
        k = desc[0]
        if k == "ptr":
            return desc
        if k == "disp":
            return ("disp", desc[1], desc[2](self.w, self.x))
        return (k, desc[1](self.w, self.x))

    def head(self, form):
        """conditions that hold iff this instruction can be written with the spelling `form` (mnemonic level): the
        emitted length is the entry's, the first word matches the entry, the spelling's side conditions hold"""
        mn, eid, ops, fixed, same = form
        if (self.x is not None) != (words_of(eid) == 2):
            return [False]
        cs = [self.is_(eid)]
        for fx, v in fixed:
            cs.append(fx(self.w, self.x) == v)
        if same:
            cs.append(same[0](self.w, self.x) == same[1](self.w, self.x))
        return cs

    def conditions(self, form, printed, address=0):
        """list of conditions (bool, or proxies of it) that all hold iff this instruction is `form` with exactly the
        printed operands.  printed: operands in the vocabulary of the module docstring; a label is ("target", S);
        address = byte address of the instruction"""
        mn, eid, ops, fixed, same = form
        cs = self.head(form)
        if cs[0] is False:
            return cs               # wrong length: the second word the operands would need does not exist
        if len(printed) != len(ops):
            return cs + [False]
        for p, dsc in zip(printed, ops):
            cs += operand_conditions(tuple(p), self.operand(dsc), address)
        return cs


def operand_conditions(p, d, address):
    """printed operand p against decoded operand d -> list of conditions"""
    if p[0] == "target":
        if d[0] == "rel":
            return [address + 2 + 2 * d[1] == p[1]]
        if d[0] == "abs":
            return [2 * d[1] == p[1]]
        return [False]
    if p[0] != d[0]:
        return [False]
    if p[0] == "ptr":
        return [p[1] == d[1], p[2] == d[2]]
    if p[0] == "disp":
        return [p[1] == d[1], p[2] == d[2]]
    return [p[1] == d[1]]


def decode(w, x=None):
    return Decoded(w, x)


def words_of_bytes(bs):
    """little-endian 16-bit words"""
    assert len(bs) % 2 == 0
    return [bs[k] | (bs[k + 1] << 8) for k in range(0, len(bs), 2)]


# ---------------------------------------------------------------------------------------------------------
# concrete disassembly (self test, evidence texts)
def entry_of(w):
    hits = [e for e in ENTRIES if (w & e[1]) == e[2]]
    assert len(hits) <= 1, hits
    return hits[0] if hits else None


def disasm(w, x=None, address=0):
    """-> (length in words, mnemonic, [operands]) of the preferred spelling (first registered form whose side conditions
    hold, alias spellings with side conditions first), (1, None, []) for a reserved word"""
    e = entry_of(w)
    if e is None:
        return 1, None, []
    eid, _, _, words = e
    d = Decoded(w, x if words == 2 else None)
    if words == 2 and x is None:
        return 2, None, []
    cands = [f for f in FORMS if f[1] == eid]
    cands.sort(key=lambda f: 0 if (f[3] and not f[4]) else 1)      # named flag / branch / ld Z spellings first
    for mn, _, ops, fixed, same in cands:
        if same:
            continue                                                # lsl / rol / tst / clr: keep add / adc / and / eor
        if all(fx(w, x) == v for fx, v in fixed):
            if mn == "ser":
                continue
            return words, mn, [d.operand(o) for o in ops]
    raise AssertionError("no form for " + eid)


def text(w, x=None, address=0):
    n, mn, ops = disasm(w, x, address)
    if mn is None:
        return ".word 0x%04x" % w
    out = []
    for o in ops:
        if o[0] == "r":
            out.append("r%d" % o[1])
        elif o[0] == "w":
            out.append("r%d:r%d" % (o[1] + 1, o[1]))
        elif o[0] == "i":
            out.append(str(o[1]))
        elif o[0] == "ptr":
            nm = {X: "X", Y: "Y", Z: "Z"}[o[1]]
            out.append("-" + nm if o[2] == "-" else nm + o[2])
        elif o[0] == "disp":
            out.append("%s+%d" % ({Y: "Y", Z: "Z"}[o[1]], o[2]))
        elif o[0] == "rel":
            out.append(".%+d" % (2 * o[1]))           # avr-objdump's notation: relative to the next instruction
        elif o[0] == "abs":
            out.append("0x%x" % (2 * o[1]))
    return (mn + " " + ", ".join(out)).strip()


def matches(mn, printed, w, x=None, address=0):
    """concrete: some reading of mnemonic `mn` with the printed operands is the instruction (w, x)"""
    d = Decoded(w, x)
    return any(all(bool(c) for c in d.conditions(f, printed, address)) for f in readings(mn, len(printed)))


# ---------------------------------------------------------------------------------------------------------
# assembler text of the repo's test vectors -> printed operands
_WORDREG = {"w": 24, "x": X, "y": Y, "z": Z}


def parse_asm(line, labels=None):
    """'ldd r19, Y+60' -> ('ldd', [('r', 19), ('disp', 28, 60)])"""
    labels = labels or {}
    parts = line.strip().split(None, 1)
    mn = parts[0].lower()
    ops = []
    pointer_syntax = mn in ("ld", "st", "lpm", "elpm", "ldd", "std", "spm", "xch", "las", "lac", "lat")
    for tok in ([t.strip() for t in parts[1].split(",")] if len(parts) > 1 else []):
        t = tok.lower()
        m = re.fullmatch(r"r(\d+)", t)
        if m:
            ops.append(("r", int(m.group(1))))
            continue
        m = re.fullmatch(r"r(\d+):r(\d+)", t)
        if m:
            assert int(m.group(1)) == int(m.group(2)) + 1, tok
            ops.append(("w", int(m.group(2))))
            continue
        if t in _WORDREG and not pointer_syntax:
            ops.append(("w", _WORDREG[t]))
            continue
        m = re.fullmatch(r"(-?)([xyz])(\+?)", t)
        if m and pointer_syntax:
            assert not (m.group(1) and m.group(3)), tok
            ops.append(("ptr", POINTER[m.group(2)], m.group(1) or m.group(3)))
            continue
        m = re.fullmatch(r"([yz])\s*\+\s*(\w+)", t)
        if m and pointer_syntax:
            ops.append(("disp", POINTER[m.group(1)], int(m.group(2), 0)))
            continue
        m = re.fullmatch(r"(low|high)\((\w+)\)", t)
        if m:
            v = labels[m.group(2)]
            ops.append(("i", (v & 0xFF) if m.group(1) == "low" else ((v >> 8) & 0xFF)))
            continue
        if tok in labels:
            ops.append(("target", labels[tok]))
            continue
        ops.append(("i", int(t, 0)))
    return mn, ops


def _parse_vectors(path):
    """[(test name, [assembler lines], bytes, load address)] from the repo's assembler test file"""
    out = []
    src = open(path).read()
    tree = ast.parse(src)
    for cls in [n for n in tree.body if isinstance(n, ast.ClassDef)]:
        for fn in [n for n in cls.body if isinstance(n, ast.FunctionDef) and n.name.startswith("test_")]:
            feeds, data, base = [], None, 0
            for node in ast.walk(fn):
                if isinstance(node, ast.Constant) and isinstance(node.value, str):
                    m = re.search(r"LOCATION=(0x[0-9a-fA-F]+)", node.value)
                    if m:
                        base = int(m.group(1), 16)
                if not (isinstance(node, ast.Call) and isinstance(node.func, ast.Attribute) and node.args
                        and isinstance(node.args[0], ast.Constant) and isinstance(node.args[0].value, str)):
                    continue
                if node.func.attr == "feed":
                    feeds.append((node.lineno, node.args[0].value))
                elif node.func.attr == "check":
                    data = bytes.fromhex(node.args[0].value.replace(" ", ""))
            if data is not None:
                lines = [ln.strip() for _, t in sorted(feeds) for ln in t.split("\n") if ln.strip()]
                out.append((fn.name, lines, data, base))
    return out


# the repo's test file spells one instruction differently from the manual (recorded, not hidden: the C08 harness reports
# the class as a finding): `call a` is expected to assemble to 0xD... which is the manual's RCALL (CALL is the two-word
# 1001 010k kkkk 111k instruction)
REPO_SPELLING = {"call": "rcall"}


def selftest(repo=None):
    """returns a dict of counters; raises AssertionError on any disagreement"""
    stats = dict(entries=len(ENTRIES), forms=len(FORMS), mnemonics=len(MNEMONICS), table_pairs=0, defined_first_words=0,
                 known_words=0, reserved_words=0, vectors=0, vector_spelling_deviations=[])
    # (A) the table is a function of the first word: no two entries can match the same word
    for a in range(len(ENTRIES)):
        n1, m1, v1, _ = ENTRIES[a]
        for b in range(a + 1, len(ENTRIES)):
            n2, m2, v2, _ = ENTRIES[b]
            stats["table_pairs"] += 1
            assert (v1 ^ v2) & m1 & m2, "overlapping entries %s %s" % (n1, n2)
    stats["defined_first_words"] = sum(1 << (16 - bin(m).count("1")) for _, m, _, _ in ENTRIES)
    # every entry has a spelling without side condition (so every defined word can be written)
    for eid, _, _, _ in ENTRIES:
        fs = [f for f in FORMS if f[1] == eid]
        assert fs, eid
        assert any(not f[4] and not f[3] for f in fs) or all(f[3] for f in fs), eid
    # (B) encodings well known from avr-gcc / avr-objdump listings (crt startup, prologues, common idioms)
    known = {
        (0x0000,): "nop", (0x9508,): "ret", (0x9518,): "reti", (0x9509,): "icall", (0x9409,): "ijmp",
        (0x9519,): "eicall", (0x9419,): "eijmp",
        (0x94F8,): "cli", (0x9478,): "sei", (0x9408,): "sec", (0x9488,): "clc", (0x9468,): "set", (0x94E8,): "clt",
        (0x2411,): "eor r1, r1",                    # clr r1: 11 24
        (0xBE1F,): "out 63, r1",                    # 1f be
        (0xE5CF,): "ldi r28, 95",                   # cf e5
        (0xE0D8,): "ldi r29, 8",                    # d8 e0
        (0xBFDE,): "out 62, r29",                   # de bf
        (0xBFCD,): "out 61, r28",                   # cd bf
        (0xB7CD,): "in r28, 61", (0xB7DE,): "in r29, 62", (0xB60F,): "in r0, 63", (0xBE0F,): "out 63, r0",
        (0x940E, 0x0040): "call 0x80",              # 0e 94 40 00
        (0x940C, 0x0034): "jmp 0x68",               # 0c 94 34 00
        (0x940D, 0x0000): "jmp 0x20000",
        (0xCFFF,): "rjmp .-2",                     # ff cf  rjmp .-2
        (0xC000,): "rjmp .+0", (0xD001,): "rcall .+2", (0xDFFE,): "rcall .-4",
        (0x93CF,): "push r28", (0x93DF,): "push r29", (0x91DF,): "pop r29", (0x91CF,): "pop r28",
        (0x920F,): "push r0", (0x900F,): "pop r0",
        (0x9701,): "sbiw r25:r24, 1", (0x9601,): "adiw r25:r24, 1", (0x9721,): "sbiw r29:r28, 1", (0x9631,): "adiw r31:r30, 1",
        (0x9611,): "adiw r27:r26, 1", (0x96CF,): "adiw r25:r24, 63",
        (0xF7F1,): "brne .-4",                    # f1 f7  brne .-4
        (0xF409,): "brne .+2", (0xF3E1,): "breq .-8", (0xF008,): "brcs .+2", (0xF7E9,): "brne .-6",
        (0xF40C,): "brge .+2", (0xF00C,): "brlt .+2", (0xF410,): "brcc .+4", (0xF02A,): "brmi .+10",
        (0x8181,): "ldd r24, Z+1", (0x8189,): "ldd r24, Y+1", (0x839A,): "std Y+2, r25", (0x8380,): "st Z, r24",
        (0x8180,): "ld r24, Z", (0x8188,): "ld r24, Y", (0x8388,): "st Y, r24", (0xAD3C,): "ldd r19, Y+60",
        (0x9180, 0x0100): "lds r24, 256", (0x9380, 0x0100): "sts 256, r24",
        (0x2F89,): "mov r24, r25", (0x01CE,): "movw r25:r24, r29:r28", (0x01FC,): "movw r31:r30, r25:r24",
        (0x0F88,): "add r24, r24", (0x1F99,): "adc r25, r25", (0x1B82,): "sub r24, r18", (0x0B93,): "sbc r25, r19",
        (0x9595,): "asr r25", (0x9587,): "ror r24", (0x9596,): "lsr r25", (0x9583,): "inc r24", (0x958A,): "dec r24",
        (0x9582,): "swap r24", (0x9580,): "com r24", (0x9581,): "neg r24", (0x9590,): "com r25",
        (0x3081,): "cpi r24, 1", (0x0789,): "cpc r24, r25", (0x1789,): "cp r24, r25", (0x0591,): "cpc r25, r1",
        (0x5F8F,): "subi r24, 255",                 # 8f 5f
        (0x4F9F,): "sbci r25, 255",                 # 9f 4f
        (0x7081,): "andi r24, 1", (0x6081,): "ori r24, 1", (0xEF8F,): "ldi r24, 255", (0xE080,): "ldi r24, 0",
        (0x2B89,): "or r24, r25", (0x2389,): "and r24, r25", (0x2788,): "eor r24, r24",
        (0x9A2D,): "sbi 5, 5", (0x982D,): "cbi 5, 5", (0x9A25,): "sbi 4, 5",
        (0xFD80,): "sbrc r24, 0", (0xFF80,): "sbrs r24, 0", (0xFD87,): "sbrc r24, 7", (0xF800,): "bld r0, 0", (0xFA00,): "bst r0, 0",
        (0x9588,): "sleep", (0x95A8,): "wdr", (0x95C8,): "lpm", (0x95E8,): "spm", (0x9598,): "break", (0x95D8,): "elpm",
        (0x9005,): "lpm r0, Z+",                    # 05 90  __do_copy_data
        (0x9004,): "lpm r0, Z",
        (0x920D,): "st X+, r0", (0x921D,): "st X+, r1",         # 0d 92 / 1d 92  __do_clear_bss
        (0x918D,): "ld r24, X+", (0x919C,): "ld r25, X", (0x918C,): "ld r24, X", (0x938C,): "st X, r24",
        (0x9181,): "ld r24, Z+", (0x9382,): "st -Z, r24", (0x9189,): "ld r24, Y+", (0x938A,): "st -Y, r24",
        (0x918E,): "ld r24, -X", (0x939E,): "st -X, r25", (0x9391,): "st Z+, r25",
        (0x9F89,): "mul r24, r25", (0x1001,): "cpse r0, r1",
    }
    for ws, exp in known.items():
        got = text(ws[0], ws[1] if len(ws) > 1 else None, 0)
        assert got == exp, ([hex(v) for v in ws], got, exp)
        assert disasm(ws[0], ws[1] if len(ws) > 1 else None)[0] == len(ws), ws
        stats["known_words"] += 1
    # alias spellings of the manual
    for mn, ops, w in (("lsl", [("r", 24)], 0x0F88), ("rol", [("r", 25)], 0x1F99), ("clr", [("r", 1)], 0x2411),
                       ("tst", [("r", 24)], 0x2388), ("ser", [("r", 24)], 0xEF8F), ("sbr", [("r", 24), ("i", 1)], 0x6081),
                       ("cbr", [("r", 24), ("i", 0xFE)], 0x7081), ("brlo", [("target", 4)], 0xF008),
                       ("brsh", [("target", 6)], 0xF410), ("brbc", [("i", 1), ("target", 4)], 0xF409),
                       ("bset", [("i", 7)], 0x9478), ("ld", [("r", 24), ("ptr", Z, "")], 0x8180),
                       ("ldd", [("r", 24), ("disp", Z, 0)], 0x8180)):
        assert matches(mn, ops, w), (mn, ops, hex(w))
    for mn, ops, w in (("lsl", [("r", 24)], 0x0F89), ("sbci", [("r", 24), ("i", 255)], 0x5F8F),
                       ("subi", [("r", 25), ("i", 255)], 0x4F9F), ("call", [("target", 4)], 0xD001),
                       ("breq", [("target", 4)], 0xF409), ("ld", [("r", 24), ("ptr", Z, "")], 0x8181),
                       ("ldd", [("r", 24), ("disp", Y, 1)], 0x8181), ("in", [("r", 28), ("i", 62)], 0xB7CD)):
        assert not matches(mn, ops, w), (mn, ops, hex(w))
    # reserved first words
    for w in (0x0001, 0x00FF, 0x9504, 0x950B, 0x9003, 0x9008, 0x900B, 0x9203, 0x9208, 0x920B, 0x95B8, 0x9528, 0x9578,
              0x9429, 0x9539, 0xFF88, 0xF808):
        assert entry_of(w) is None, hex(w)
        stats["reserved_words"] += 1
    # (C) the repo's own assembler test vectors through this decoder
    repo = repo or os.environ.get("PPCI_REPO", "/repo")
    for tname, lines, data, base in _parse_vectors(os.path.join(repo, "test", "arch", "test_avr.py")):
        ws = words_of_bytes(list(data))
        # pass 1: label addresses need the instruction lengths, taken from the decoder itself
        labels, stmts, pos = {}, [], 0
        for t in lines:
            m = re.match(r"^(\w+):\s*(.*)$", t)
            if m and not re.match(r"^r\d+:r\d+", t):
                labels[m.group(1)] = base + 2 * pos
                t = m.group(2)
                if not t:
                    continue
            assert pos < len(ws), (tname, t)
            e = entry_of(ws[pos])
            assert e is not None, (tname, t, hex(ws[pos]))
            stmts.append((t, pos, e[3]))
            pos += e[3]
        assert pos == len(ws), (tname, pos, len(ws))
        for t, pos, n in stmts:
            mn, ops = parse_asm(t, labels)
            if mn in REPO_SPELLING:
                stats["vector_spelling_deviations"].append("%s: `%s` assembles to %s" % (
                    tname, t, text(ws[pos], None, base + 2 * pos)))
                assert not matches(mn, ops, ws[pos], ws[pos + 1] if n == 2 else None, base + 2 * pos), (tname, t)
                mn = REPO_SPELLING[mn]
            assert matches(mn, ops, ws[pos], ws[pos + 1] if n == 2 else None, base + 2 * pos), \
                (tname, t, (mn, ops), text(ws[pos], ws[pos + 1] if n == 2 else None, base + 2 * pos))
            stats["vectors"] += 1
    assert stats["vectors"] >= 70, stats["vectors"]
    stats["vector_spelling_deviations"] = sorted(set(stats["vector_spelling_deviations"]))
    return stats


if __name__ == "__main__":
    print(selftest())
