"""Reference semantics of ppci IR, executable on z3 terms (symbolic) and on concrete values alike.

Written from the IR documentation (ppci/ir.py docstrings, docs/reference/ir) and the property texts:
fixed-width two's-complement integers with wrap-around `+ - * & | ^`, unary `- ~`; `/` and `%`
truncate toward zero; `<<`, `>>` (arithmetic for signed, logical for unsigned types), `rol`/`ror`;
casts between integer types truncate / zero-extend (unsigned source) / sign-extend (signed source);
`ptr` is an unsigned integer of `ptr_bits` bits; byte-addressed little-endian memory.
It reads the ppci IR *data structure* (Module/SubRoutine/Block/instructions) only.

Undefined behaviour of the SOURCE program is a premise, collected in `self.ub` (list of z3 Bools):
division/remainder by zero, signed division overflow, shift count >= width, reading `Undefined`,
access outside every live memory region.  The caller assumes Not(Or(ub)).

Values are z3 bit-vector terms of the width of their IR type.  Branching on a symbolic condition
forks through the active symx engine; with no engine every condition must simplify to a constant.
Memory is one z3 Array (address -> byte) with explicit regions (globals, caller-provided buffers,
allocas); everything the caller wants to vary is a declared symbolic byte, so that counterexamples
replay concretely.  External calls are recorded in `self.trace`; their results are taken from the
caller-supplied list `ext_results` (declared symbolic inputs); externals are assumed not to modify
the memory regions of the model.
"""
import z3
from symx import core


class Unsupported(Exception):
    """construct outside the modelled subset (floats, inline asm, unresolved indirect calls ...)"""


class StepLimit(Exception):
    """unwinding bound reached"""


GLOBAL_BASE = 0x1000
BUF_BASE = 0x4000
STACK_BASE = 0x8000
CODE_BASE = 0x100       # function "addresses": CODE_BASE + 4*index


_PROV = "__provenance__"     # env key: {IR value: Region}


def _decide(cond):
    c = z3.simplify(cond)
    if z3.is_true(c):
        return True
    if z3.is_false(c):
        return False
    if core.ENG is None:
        raise Unsupported(f"symbolic branch without engine: {c}")
    return core.ENG.decide(c)


def bits_of(ty, ptr_bits):
    n = type(ty).__name__
    if n == "PointerTyp":
        return ptr_bits
    if n in ("SignedIntegerTyp", "UnsignedIntegerTyp"):
        return ty.bits
    raise Unsupported(f"type {ty}")


def is_signed(ty):
    return type(ty).__name__ == "SignedIntegerTyp"


def bvv(x, n):
    """z3 term of width n for an int / z3 term / SymInt"""
    if z3.is_expr(x):
        if x.size() == n:
            return x
        raise AssertionError(f"width mismatch {x.size()} != {n}")
    if isinstance(x, (core.SymInt, core.SymBool)):
        return core.to_bv(x, n)
    return z3.BitVecVal(int(x) & ((1 << n) - 1), n)


class LocalPointer:
    """trace argument: pointer into a local object of `size` bytes at byte offset `off`, whose
    contents at the time of the call are `contents` (z3 byte terms)"""

    def __init__(self, size, off, contents):
        self.size, self.off, self.contents = size, off, contents


class Region:
    def __init__(self, name, base, size, kind):
        self.name, self.base, self.size, self.kind = name, base, size, kind


class IrSem:
    def __init__(self, module, ptr_bits=32, ext_results=(), max_steps=400, max_depth=3, init_globals=None,
                 buffers=None, layout=None, ext_handlers=None, big_buffers=None, stack_base=None, stack_align=None):
        """init_globals: {variable name: list of byte values (ints / SymInt)} overriding/defining initial
        contents (default: Variable.value if present, else zeros).  buffers: {name: list of bytes}: extra
        caller-owned regions (returned addresses via self.buf_addr[name]).  layout: optional
        {global or buffer name: address}: place these regions at the given addresses (the address map is
        the implementation's choice; a check may evaluate the reference under the map of the code under
        test); must not overlap each other or the stack area.
        ext_handlers: {external function name: callable(list of argument terms) -> result term / None}: calls to
        these externals are executed by the callable (e.g. a runtime library run by the harness) instead of
        being recorded in the trace; exceptions of the callable propagate.
        big_buffers: {name: (address, size, {offset: byte})}: a caller-owned region of `size` bytes at `address`
        (kind "bigbuffer": zero except the listed bytes; not part of visible_memory(), read it through
        self.mem).
        layout key "<function>_<name>": place that LiteralData there instead of on the stack.
        stack_base / stack_align: where allocas start and one fixed alignment for them (default: STACK_BASE and
        the alignment each Alloc asks for)."""
        layout = layout or {}
        self.layout = layout
        self.stack_base = STACK_BASE if stack_base is None else stack_base
        self.stack_align = stack_align
        self.ext_handlers = dict(ext_handlers or {})
        self.m = module
        self.pb = ptr_bits
        self.ext_results = list(ext_results)
        self.ext_used = 0
        self.max_steps = max_steps
        self.max_depth = max_depth
        self.steps = 0
        self.ub = []
        self.trace = []
        self.regions = []
        # pointer provenance is tracked per IR value (env[_PROV]: IR value -> Region it was derived from);
        # never per z3 term: constants are hash-consed, equal addresses would share provenance
        self.escaped = set()  # stack regions whose address was stored to memory / handed to an external
        self.mem = z3.K(z3.BitVecSort(ptr_bits), z3.BitVecVal(0, 8))
        self.gaddr = {}
        self.buf_addr = {}
        self.faddr = {}
        self.fbyaddr = {}
        self.stack_top = self.stack_base
        a = GLOBAL_BASE
        for v in module.variables:
            al = max(v.alignment, 1)
            a = (a + al - 1) // al * al
            nxt = None
            if v.name in layout:
                nxt, a = a, layout[v.name]
            self.gaddr[v.name] = a
            self.regions.append(Region(v.name, a, v.amount, "global"))
            init = None
            if init_globals and v.name in init_globals:
                init = list(init_globals[v.name])
            elif v.value is not None:
                init = []
                for part in v.value:
                    if isinstance(part, (bytes, bytearray)):
                        init += list(part)
                    else:
                        raise Unsupported("global initialiser with relocation entry")
            if init is not None:
                for k, b in enumerate(init[:v.amount]):
                    self.mem = z3.Store(self.mem, z3.BitVecVal(a + k, ptr_bits), bvv(b, 8))
            a = nxt if nxt is not None else a + v.amount
        assert a < BUF_BASE, "too many globals for the model's address map"
        a = BUF_BASE
        for name, data in (buffers or {}).items():
            a = (a + 15) // 16 * 16
            nxt = None
            if name in layout:
                nxt, a = a, layout[name]
            self.buf_addr[name] = a
            self.regions.append(Region(name, a, len(data), "buffer"))
            for k, b in enumerate(data):
                self.mem = z3.Store(self.mem, z3.BitVecVal(a + k, ptr_bits), bvv(b, 8))
            a = nxt if nxt is not None else a + len(data)
        assert a < STACK_BASE
        for name, (base, size, data) in (big_buffers or {}).items():
            assert base >= STACK_BASE + 0x8000 and base + size <= (1 << ptr_bits)
            self.buf_addr[name] = base
            self.regions.append(Region(name, base, size, "bigbuffer"))
            for k, b in sorted(data.items()):
                self.mem = z3.Store(self.mem, z3.BitVecVal(base + k, ptr_bits), bvv(b, 8))
        if layout or big_buffers:
            spans = sorted((r.base, r.base + r.size) for r in self.regions)
            assert all(x[1] <= y[0] for x, y in zip(spans, spans[1:])), "layout: overlapping regions"
            assert all(hi <= self.stack_base or lo >= self.stack_base + 0x8000 for lo, hi in spans), \
                "layout: region in stack area"
        for k, f in enumerate(list(module.functions) + list(getattr(module, "externals", []))):
            self.faddr[f.name] = CODE_BASE + 4 * k
            self.fbyaddr[CODE_BASE + 4 * k] = f

    # -- memory ----------------------------------------------------------------------------------
    def _valid(self, addr, size, home=None):
        conds = []
        if home is None:
            home = getattr(self, "_cur_home", None)
        if home is not None:
            # a pointer derived from an object may only access that object (C 6.5.6p8; also what makes
            # register promotion of non-escaping allocas sound): elsewhere is outside the premise
            if home not in self.regions or home.size < size:
                return z3.BoolVal(False)
            return z3.And(z3.UGE(addr, z3.BitVecVal(home.base, self.pb)),
                          z3.ULE(addr, z3.BitVecVal(home.base + home.size - size, self.pb)))
        for r in self.regions:
            if r.kind == "stack" and id(r) not in self.escaped:
                continue    # a pointer of unknown origin cannot designate a local whose address never escaped
            if r.size >= size:
                conds.append(z3.And(z3.UGE(addr, z3.BitVecVal(r.base, self.pb)),
                                    z3.ULE(addr, z3.BitVecVal(r.base + r.size - size, self.pb))))
        return z3.Or(*conds) if conds else z3.BoolVal(False)

    def load(self, addr, nbytes, home=None):
        self.ub.append(z3.Not(self._valid(addr, nbytes, home)))
        bs = [z3.Select(self.mem, addr + k) for k in range(nbytes)]
        return z3.Concat(*reversed(bs)) if nbytes > 1 else bs[0]

    def store(self, addr, val, nbytes, home=None):
        self.ub.append(z3.Not(self._valid(addr, nbytes, home)))
        for k in range(nbytes):
            self.mem = z3.Store(self.mem, addr + k, z3.Extract(8 * k + 7, 8 * k, val))

    def region_bytes(self, name):
        """current contents of a global / buffer region as a list of simplified z3 byte terms"""
        for r in self.regions:
            if r.name == name and r.kind in ("global", "buffer"):
                return [z3.simplify(z3.Select(self.mem, z3.BitVecVal(r.base + k, self.pb))) for k in range(r.size)]
        raise KeyError(name)

    def visible_memory(self):
        return {r.name: self.region_bytes(r.name) for r in self.regions if r.kind in ("global", "buffer")}

    # -- execution -------------------------------------------------------------------------------
    def call(self, func, args, depth=0, arg_homes=None):
        """execute function (ir.SubRoutine) with argument terms; returns result term or None"""
        if isinstance(func, str):
            func = [f for f in self.m.functions if f.name == func][0]
        if depth > self.max_depth:
            raise StepLimit("call depth")
        env = {_PROV: {}}
        if arg_homes is None:
            arg_homes = getattr(self, "_next_arg_homes", None)
        self._next_arg_homes = None
        if len(args) != len(func.arguments):
            raise Unsupported("argument count mismatch")
        for p, a in zip(func.arguments, args):
            env[p] = bvv(a, bits_of(p.ty, self.pb))
        for p, h in zip(func.arguments, arg_homes or ()):
            if h is not None:
                env[_PROV][p] = h
        saved_top = self.stack_top
        nregions = len(self.regions)
        block = func.entry
        prev = None
        result = None
        while True:
            # phis first, simultaneously
            phis = [i for i in block if type(i).__name__ == "Phi"]
            if phis:
                vals = []
                for ph in phis:
                    if prev not in ph.inputs:
                        raise Unsupported(f"phi {ph.name} has no input for predecessor {prev.name if prev else None}")
                    vals.append(self.value(ph.inputs[prev], env, allow_undef=True))
                homes = [self.home_of(ph.inputs[prev], env) for ph in phis]
                for ph, v, h in zip(phis, vals, homes):
                    env[ph] = v
                    if h is not None:
                        env[_PROV][ph] = h
                    else:
                        env[_PROV].pop(ph, None)
            nxt = None
            for ins in block:
                self.steps += 1
                if self.steps > self.max_steps:
                    raise StepLimit("max steps")
                k = type(ins).__name__
                if k == "Phi":
                    continue
                if k == "Return":
                    result = self.value(ins.result, env)
                    nxt = "ret"
                    break
                if k == "Exit":
                    nxt = "ret"
                    break
                if k == "Jump":
                    nxt = ins.target
                    break
                if k == "CJump":
                    a = self.value(ins.a, env)
                    b = self.value(ins.b, env)
                    if ins.lab_yes is ins.lab_no:
                        nxt = ins.lab_yes       # both edges lead to the same block: nothing to decide
                    else:
                        c = self.compare(ins.cond, a, b, ins.a.ty)
                        nxt = ins.lab_yes if _decide(c) else ins.lab_no
                    break
                self.step(ins, k, env, depth)
            if nxt is None:
                raise Unsupported(f"block {block.name} has no terminator")
            if nxt == "ret":
                break
            prev, block = block, nxt
        # allocas die with the frame
        self.stack_top = saved_top
        del self.regions[nregions:]
        return result

    def compare(self, cond, a, b, ty):
        s = is_signed(ty)
        if cond == "==":
            return a == b
        if cond == "!=":
            return a != b
        if cond == "<":
            return (a < b) if s else z3.ULT(a, b)
        if cond == ">":
            return (a > b) if s else z3.UGT(a, b)
        if cond == "<=":
            return (a <= b) if s else z3.ULE(a, b)
        if cond == ">=":
            return (a >= b) if s else z3.UGE(a, b)
        raise Unsupported(cond)

    def home_of(self, v, env):
        """Region the pointer value v was derived from (None = unknown origin)"""
        if type(v).__name__ == "Variable":
            for r in self.regions:
                if r.kind == "global" and r.name == v.name:
                    return r
            return None
        return env.get(_PROV, {}).get(v)

    def value(self, v, env, allow_undef=False):
        if v in env:
            r = env[v]
            if isinstance(r, tuple) and r[0] == "undef":
                if allow_undef:
                    return r
                # reading an undefined value: outside the premise of every property
                self.ub.append(z3.BoolVal(True))
                return z3.BitVecVal(0, r[1])
            return r
        k = type(v).__name__
        if k == "Variable":
            return z3.BitVecVal(self.gaddr[v.name], self.pb)
        if k in ("Function", "Procedure", "ExternalFunction", "ExternalProcedure"):
            return z3.BitVecVal(self.faddr[v.name], self.pb)
        if k == "ExternalVariable":
            raise Unsupported("external variable")
        raise Unsupported(f"use of {k} {getattr(v, 'name', '?')} before definition")

    def step(self, ins, k, env, depth):
        pb = self.pb
        if k == "Const":
            if isinstance(ins.value, float):
                raise Unsupported("float constant")
            n = bits_of(ins.ty, pb)
            env[ins] = bvv(ins.value, n)
        elif k == "Binop":
            va, vb = self.value(ins.a, env), self.value(ins.b, env)
            env[ins] = self.binop(ins.operation, va, vb, ins.ty)
            if ins.operation in ("+", "-"):
                home = self.home_of(ins.a, env)
                if home is None and ins.operation == "+":
                    home = self.home_of(ins.b, env)
                if home is not None:
                    env[_PROV][ins] = home
        elif k == "Unop":
            a = self.value(ins.a, env)
            bits_of(ins.ty, pb)
            env[ins] = (-a) if ins.operation == "-" else (~a)
        elif k == "Cast":
            src = self.value(ins.src, env)
            n1 = bits_of(ins.src.ty, pb)
            n2 = bits_of(ins.ty, pb)
            if n2 <= n1:
                env[ins] = z3.Extract(n2 - 1, 0, src) if n2 < n1 else src
            elif is_signed(ins.src.ty):
                env[ins] = z3.SignExt(n2 - n1, src)
            else:
                env[ins] = z3.ZeroExt(n2 - n1, src)
            if n2 >= n1 and self.home_of(ins.src, env) is not None:
                env[_PROV][ins] = self.home_of(ins.src, env)
        elif k == "Undefined":
            # poison: flagged as UB where it is read (phis only propagate it)
            env[ins] = ("undef", bits_of(ins.ty, pb))
        elif k == "Alloc":
            al = max(ins.alignment, 1) if self.stack_align is None else self.stack_align
            a = (self.stack_top + al - 1) // al * al
            self.stack_top = a + ins.amount
            self.regions.append(Region(ins.name, a, ins.amount, "stack"))
            env[ins] = ("blob", a)
        elif k == "AddressOf":
            src = env.get(ins.src)
            if isinstance(src, tuple) and src[0] == "blob":
                env[ins] = z3.BitVecVal(src[1], pb)
                for r in self.regions:
                    if r.kind == "stack" and r.base == src[1]:
                        env[_PROV][ins] = r
            else:
                raise Unsupported("address of non-alloc blob")
        elif k == "LiteralData":
            key = None
            if self.layout:
                fn = getattr(ins, "function", None)
                key = f"{getattr(fn, 'name', '')}_{ins.name}"
            if key in self.layout:
                a = self.layout[key]
            else:
                a = (self.stack_top + 7) // 8 * 8
                self.stack_top = a + len(ins.data)
            self.regions.append(Region(ins.name, a, len(ins.data), "stack"))
            for j, b in enumerate(ins.data):
                self.mem = z3.Store(self.mem, z3.BitVecVal(a + j, pb), z3.BitVecVal(b, 8))
            env[ins] = ("blob", a)
        elif k == "Load":
            n = bits_of(ins.ty, pb)
            self._cur_home = self.home_of(ins.address, env)
            try:
                env[ins] = self.load(self.value(ins.address, env), n // 8)
            finally:
                self._cur_home = None
        elif k == "Store":
            n = bits_of(ins.value.ty, pb)
            _h = self.home_of(ins.value, env)
            if _h is not None and _h.kind == "stack":
                self.escaped.add(id(_h))
            self._cur_home = self.home_of(ins.address, env)
            try:
                self.store(self.value(ins.address, env), self.value(ins.value, env), n // 8)
            finally:
                self._cur_home = None
        elif k == "CopyBlob":
            d = self.value(ins.dst, env)
            s = self.value(ins.src, env)
            self._cur_home = self.home_of(ins.src, env)
            try:
                data = self.load(s, ins.amount)
                self._cur_home = self.home_of(ins.dst, env)
                self.store(d, data, ins.amount)
            finally:
                self._cur_home = None
        elif k in ("FunctionCall", "ProcedureCall"):
            args = [self.value(a, env) for a in ins.arguments]
            callee = ins.callee
            ck = type(callee).__name__
            if ck not in ("Function", "Procedure", "ExternalFunction", "ExternalProcedure"):
                t = z3.simplify(self.value(callee, env))
                if z3.is_bv_value(t) and t.as_long() in self.fbyaddr:
                    callee = self.fbyaddr[t.as_long()]
                    ck = type(callee).__name__
                else:
                    raise Unsupported("indirect call through a non-constant pointer")
            if ck in ("Function", "Procedure"):
                # (handed over via an attribute: subclasses override call() with the 3-argument signature)
                self._next_arg_homes = [self.home_of(a, env) for a in ins.arguments]
                r = self.call(callee, args, depth + 1)
            elif callee.name in self.ext_handlers:
                r = self.ext_handlers[callee.name](args)
                if k == "FunctionCall":
                    if r is None:
                        raise Unsupported("external handler returned no value")
                    r = bvv(r, bits_of(ins.ty, pb))
            else:
                for a in ins.arguments:
                    _h = self.home_of(a, env)
                    if _h is not None and _h.kind == "stack":
                        self.escaped.add(id(_h))
                targs = []
                for a_ir, a in zip(ins.arguments, args):
                    _h = self.home_of(a_ir, env)
                    if _h is not None and _h.kind == "stack" and getattr(self, "abstract_local_pointers", False):
                        # (opt-in) the address of a local is not observable (frames may be laid out differently);
                        # what the callee can see is the offset into the object and the object's contents
                        off = z3.simplify(a - z3.BitVecVal(_h.base, self.pb))
                        cont = [z3.simplify(z3.Select(self.mem, z3.BitVecVal(_h.base + j, self.pb)))
                                for j in range(min(_h.size, 64))]
                        targs.append(LocalPointer(_h.size, off, cont))
                    else:
                        targs.append(z3.simplify(a))
                self.trace.append((callee.name, targs))
                self._havoc_by_external()
                r = None
                if k == "FunctionCall":
                    if self.ext_used >= len(self.ext_results):
                        raise StepLimit("more external calls than declared results")
                    r = bvv(self.ext_results[self.ext_used], bits_of(ins.ty, pb))
                    self.ext_used += 1
            if k == "FunctionCall":
                if r is None:
                    raise Unsupported("function call to a procedure")
                env[ins] = r
        else:
            raise Unsupported(f"instruction {k}")

    def _havoc_by_external(self):
        """An external function may modify every object it can name: globals, caller buffers and locals
        whose address escaped.  Modelled (opt-in via self.ext_havoc = [byte, ...], one declared symbolic
        byte per external call, so that counterexamples replay) as: every such byte is XOR-ed with the
        call's havoc byte.  Not every possible modification, but enough to make moving a load or a store
        across an external call observable; both sides of a comparison see the same effect."""
        hv = getattr(self, "ext_havoc", None)
        if not hv:
            return
        n = getattr(self, "_havoc_used", 0)
        self._havoc_used = n + 1
        if n >= len(hv):
            return
        h = bvv(hv[n], 8)
        for r in list(self.regions):
            if r.kind in ("global", "buffer") or (r.kind == "stack" and id(r) in self.escaped):
                if r.size > 64:
                    continue
                for j in range(r.size):
                    a = z3.BitVecVal(r.base + j, self.pb)
                    self.mem = z3.Store(self.mem, a, z3.Select(self.mem, a) ^ h)

    def binop(self, op, a, b, ty):
        n = bits_of(ty, self.pb)
        s = is_signed(ty)
        if op == "+":
            return a + b
        if op == "-":
            return a - b
        if op == "*":
            return a * b
        if op == "&":
            return a & b
        if op == "|":
            return a | b
        if op == "^":
            return a ^ b
        if op in ("/", "%"):
            self.ub.append(b == 0)
            if s:
                self.ub.append(z3.And(a == z3.BitVecVal(1 << (n - 1), n), b == z3.BitVecVal(-1, n)))
                return (a / b) if op == "/" else z3.SRem(a, b)
            return z3.UDiv(a, b) if op == "/" else z3.URem(a, b)
        if op in ("<<", ">>"):
            self.ub.append(z3.UGE(b, z3.BitVecVal(n, n)) if n > n.bit_length() else z3.BoolVal(False))
            if op == "<<":
                return a << b
            return (a >> b) if s else z3.LShR(a, b)
        if op in ("rol", "ror"):
            amt = z3.URem(b, z3.BitVecVal(n, n))
            inv = z3.URem(z3.BitVecVal(n, n) - amt, z3.BitVecVal(n, n))
            if op == "rol":
                return (a << amt) | z3.LShR(a, inv)
            return z3.LShR(a, amt) | (a << inv)
        raise Unsupported(f"binop {op}")

    def premise(self):
        """z3 Bool: the execution so far stayed inside defined behaviour"""
        return z3.Not(z3.Or(*self.ub)) if self.ub else z3.BoolVal(True)
