"""Motorola 68000 family reference DECODER (the part of the opcode map ppci's m68k back end uses, plus the
neighbouring entries of the same opcode-map lines), independent of ppci.

Written from the "M68000 Family Programmer's Reference Manual" (M68000PM/AD rev. 1):
  section 2.2  effective addressing modes: the 6-bit <ea> field = mode (bits 5..3) . register (bits 2..0)
        000 Dn | 001 An | 010 (An) | 011 (An)+ | 100 -(An) | 101 (d16,An) | 110 (d8,An,Xn) |
        111.000 (xxx).W | 111.001 (xxx).L | 111.010 (d16,PC) | 111.011 (d8,PC,Xn) | 111.100 #<data>
        extension words follow the operation word, the SOURCE operand's first, then the destination's; words are
        big endian.  (d16,An): sign-extended 16-bit displacement.  (xxx).W: sign-extended 16-bit address.
        (d16,PC): the PC value is the ADDRESS OF THE EXTENSION WORD.  #<data>: byte = low-order byte of one
        extension word, word = one extension word, long = two extension words (high-order word first).
  table 2-4   addressing categories (data / memory / control / alterable) used by the per-instruction tables
  section 4 + 8 (instruction format summary), per instruction: operation word layout and allowed <ea> modes
        ADD  1101 rrr ooo <ea>    ooo = 000/001/010 <ea>+Dn->Dn (b/w/l; all modes, An not for byte)
                                  100/101/110 Dn+<ea>-><ea> (memory alterable); 011/111 = ADDA.w/.l; 1ss 00m = ADDX
        SUB  1001 ...             same layout (SUBA, SUBX)
        AND  1100 rrr ooo <ea>    <ea>,Dn: data modes (no An); Dn,<ea>: memory alterable; 011 MULU 111 MULS
                                  100 00m ABCD; 101 000 / 101 001 / 110 001 EXG
        OR   1000 ...             same (011 DIVU, 111 DIVS, 100 00m SBCD; 101/110 00m PACK/UNPK on 68020+)
        CMP  1011 rrr 0ss <ea>    all modes (An not for byte); 011/111 CMPA
        EOR  1011 rrr 1ss <ea>    Dn,<ea>: data alterable; mode 001 = CMPM (Ay)+,(Ax)+
        MOVE 00ss dst-reg dst-mode src-mode src-reg   ss: 01 byte, 11 word, 10 long (NOT the usual size code);
                                  source all modes (An not for byte), destination data alterable;
                                  destination mode 001 = MOVEA (word / long only)
        MOVEQ 0111 rrr 0 dddddddd sign-extended 8-bit data
        LEA  0100 rrr 111 <ea>    control modes;  JSR 0100 1110 10 <ea>, JMP 0100 1110 11 <ea>: control modes
        NEGX 0100 0000 ss <ea> | CLR 0100 0010 ss | NEG 0100 0100 ss | NOT 0100 0110 ss | TST 0100 1010 ss:
                                  ss = 00 byte 01 word 10 long, data alterable
        NOP 4E71  RTS 4E75  (RESET 4E70 STOP 4E72 RTE 4E73 RTD 4E74 TRAPV 4E76 RTR 4E77)
        Bcc  0110 cccc dddddddd   cccc: 0000 BRA 0001 BSR 0010 HI 0011 LS 0100 CC 0101 CS 0110 NE 0111 EQ 1000 VC
                                  1001 VS 1010 PL 1011 MI 1100 GE 1101 LT 1110 GT 1111 LE;  8-bit displacement
                                  00 -> 16-bit displacement in one extension word, FF -> 32-bit displacement in two
                                  extension words (MC68020 and later); target = address of the operation word + 2 +
                                  displacement
Lines 0000 (immediate / bit / MOVEP), 0101 (ADDQ/SUBQ/Scc/DBcc), 1110 (shift/rotate), 1010 and 1111 are not in the
table (ppci has no class there): their words give ok = False.

Two formulations that selftest() compares for all 65536 operation words: the declarative TABLE (bit pattern + set
of allowed addressing modes per instruction, as the manual prints them) and the procedural decode().

decode(bs) takes a list of byte values: plain ints, or symx SymInts while a symx engine is active.  Everything that
selects the instruction, the addressing mode and with it the LENGTH is made concrete by forking through the engine;
register numbers, extension words and displacements stay symbolic.

Result: Dec(ok, mn, size, ops, length, why)
  mn    the manual's mnemonic in lower case without size suffix ("add", "movea", "bne", ...)
  size  8 / 16 / 32 (operation size) or None for unsized instructions (lea, jsr, nop, rts, moveq, branches)
  ops   operands in the manual's (source, destination) order:
          ("dreg", n) | ("areg", n) | ("ind", n) | ("postinc", n) | ("predec", n)
          ("disp", n, d)        (d16,An), d signed
          ("index", n, ext)     (d8,An,Xn), brief extension word as is
          ("absw", a)           (xxx).W, a = the sign-extended address (-32768 .. 32767)
          ("absl", a)           (xxx).L, a unsigned 32 bit
          ("pcrel", t)          (d16,PC): t = target address - address of the operation word (= offset of the
                                extension word + d16)
          ("pcindex", ext)
          ("imm", v, bits)      #<data>, v unsigned `bits`-bit value
          ("rel", t)            branch target - address of the operation word (= 2 + displacement)
  ok = False: not an instruction of the table / addressing mode not allowed for the instruction / truncated; for
  table entries that are only NAMED (operands not decoded: abcd, exg, movem, ...) why starts with "named:".
"""
import ast
import operator
import os
import re
from symx import core

# ---- addressing modes ---------------------------------------------------------------------------------------
# key: mode 0..6, or 70 + register for mode 7
ALL = frozenset((0, 1, 2, 3, 4, 5, 6, 70, 71, 72, 73, 74))
DATA = ALL - {1}
MEMALT = frozenset((2, 3, 4, 5, 6, 70, 71))
DATAALT = MEMALT | {0}
CONTROL = frozenset((2, 5, 6, 70, 71, 72, 73))
MOVEM_TO_MEM = frozenset((2, 4, 5, 6, 70, 71))
MOVEM_TO_REG = frozenset((2, 3, 5, 6, 70, 71, 72, 73))
MODE_NAMES = {0: "Dn", 1: "An", 2: "(An)", 3: "(An)+", 4: "-(An)", 5: "(d16,An)", 6: "(d8,An,Xn)", 70: "(xxx).W",
              71: "(xxx).L", 72: "(d16,PC)", 73: "(d8,PC,Xn)", 74: "#<data>"}
CONDS = ["bra", "bsr", "bhi", "bls", "bcc", "bcs", "bne", "beq", "bvc", "bvs", "bpl", "bmi", "bge", "blt", "bgt", "ble"]
SZ = {0: 8, 1: 16, 2: 32}                  # the usual size field
MOVE_SZ = {1: 8, 3: 16, 2: 32}             # the size field of MOVE / MOVEA (bits 13..12)
SIZED = ("add", "adda", "and", "cmp", "cmpa", "eor", "or", "sub", "suba", "neg", "negx", "not", "clr", "tst", "move",
         "movea", "mulu", "muls", "divu", "divs")
UNSIZED = ("lea", "jsr", "jmp", "pea", "nop", "rts", "moveq") + tuple(CONDS)


# ---- the declarative table ----------------------------------------------------------------------------------
# row = (name, mask, match, allowed <ea> keys | None (no <ea> field / no restriction), size, form)
#   form: how decode() presents the operands; None = the entry is only named
def _table():
    T = []

    def row(name, mask, match, ea=None, size=None, form=None):
        T.append((name, mask, match, ea, size, form))
    # lines 0001 / 0011 / 0010: MOVE, MOVEA
    for code, bits in MOVE_SZ.items():
        src = ALL if bits > 8 else DATA
        for dmode in (0, 2, 3, 4, 5, 6):
            row("move", 0xF1C0, (code << 12) | (dmode << 6), src, bits, "move")
        for dreg in (0, 1):
            row("move", 0xFFC0, (code << 12) | (dreg << 9) | (7 << 6), src, bits, "move")
        if bits > 8:
            row("movea", 0xF1C0, (code << 12) | (1 << 6), ALL, bits, "ea,an")
    # line 0100
    for s, bits in SZ.items():
        row("negx", 0xFFC0, 0x4000 | (s << 6), DATAALT, bits, "ea")
        row("clr", 0xFFC0, 0x4200 | (s << 6), DATAALT, bits, "ea")
        row("neg", 0xFFC0, 0x4400 | (s << 6), DATAALT, bits, "ea")
        row("not", 0xFFC0, 0x4600 | (s << 6), DATAALT, bits, "ea")
        row("tst", 0xFFC0, 0x4A00 | (s << 6), DATAALT, bits, "ea")
    row("move from sr", 0xFFC0, 0x40C0, DATAALT)
    row("move from ccr", 0xFFC0, 0x42C0, DATAALT)
    row("move to ccr", 0xFFC0, 0x44C0, DATA)
    row("move to sr", 0xFFC0, 0x46C0, DATA)
    row("nbcd", 0xFFC0, 0x4800, DATAALT)
    row("link.l", 0xFFF8, 0x4808)
    row("swap", 0xFFF8, 0x4840)
    row("bkpt", 0xFFF8, 0x4848)
    row("pea", 0xFFC0, 0x4840, CONTROL, None, "ea")
    row("ext", 0xFFF8, 0x4880)
    row("ext", 0xFFF8, 0x48C0)
    row("extb", 0xFFF8, 0x49C0)
    row("movem", 0xFF80, 0x4880, MOVEM_TO_MEM)
    row("movem", 0xFF80, 0x4C80, MOVEM_TO_REG)
    row("tas", 0xFFC0, 0x4AC0, DATAALT)
    row("illegal", 0xFFFF, 0x4AFC)
    row("mulu.l/muls.l", 0xFFC0, 0x4C00, DATA)
    row("divu.l/divs.l", 0xFFC0, 0x4C40, DATA)
    row("trap", 0xFFF0, 0x4E40)
    row("link", 0xFFF8, 0x4E50)
    row("unlk", 0xFFF8, 0x4E58)
    row("move usp", 0xFFF0, 0x4E60)
    for w, n in ((0x4E70, "reset"), (0x4E72, "stop"), (0x4E73, "rte"), (0x4E74, "rtd"), (0x4E76, "trapv"), (0x4E77, "rtr")):
        row(n, 0xFFFF, w)
    row("nop", 0xFFFF, 0x4E71, None, None, "none")
    row("rts", 0xFFFF, 0x4E75, None, None, "none")
    row("movec", 0xFFFE, 0x4E7A)
    row("jsr", 0xFFC0, 0x4E80, CONTROL, None, "ea")
    row("jmp", 0xFFC0, 0x4EC0, CONTROL, None, "ea")
    row("chk.l", 0xF1C0, 0x4100, DATA)
    row("chk", 0xF1C0, 0x4180, DATA)
    row("lea", 0xF1C0, 0x41C0, CONTROL, None, "ea,an")
    # line 0110
    for c, n in enumerate(CONDS):
        row(n, 0xFF00, 0x6000 | (c << 8), None, None, "bcc")
    # line 0111
    row("moveq", 0xF100, 0x7000, None, None, "moveq")
    # lines 1000 / 1100: OR, AND and what shares the lines
    for line, n in ((0x8, "or"), (0xC, "and")):
        for s, bits in SZ.items():
            row(n, 0xF1C0, (line << 12) | (s << 6), DATA, bits, "ea,dn")
            row(n, 0xF1C0, (line << 12) | 0x100 | (s << 6), MEMALT, bits, "dn,ea")
    row("divu", 0xF1C0, 0x80C0, DATA, 16, "ea,dn")
    row("divs", 0xF1C0, 0x81C0, DATA, 16, "ea,dn")
    row("mulu", 0xF1C0, 0xC0C0, DATA, 16, "ea,dn")
    row("muls", 0xF1C0, 0xC1C0, DATA, 16, "ea,dn")
    row("sbcd", 0xF1F0, 0x8100)
    row("pack", 0xF1F0, 0x8140)
    row("unpk", 0xF1F0, 0x8180)
    row("abcd", 0xF1F0, 0xC100)
    row("exg", 0xF1F8, 0xC140)
    row("exg", 0xF1F8, 0xC148)
    row("exg", 0xF1F8, 0xC188)
    # lines 1001 / 1101: SUB, ADD
    for line, n in ((0x9, "sub"), (0xD, "add")):
        for s, bits in SZ.items():
            row(n, 0xF1C0, (line << 12) | (s << 6), ALL if bits > 8 else DATA, bits, "ea,dn")
            row(n, 0xF1C0, (line << 12) | 0x100 | (s << 6), MEMALT, bits, "dn,ea")
            row(n + "x", 0xF1F0, (line << 12) | 0x100 | (s << 6))
        row(n + "a", 0xF1C0, (line << 12) | 0x0C0, ALL, 16, "ea,an")
        row(n + "a", 0xF1C0, (line << 12) | 0x1C0, ALL, 32, "ea,an")
    # line 1011: CMP, CMPA, EOR, CMPM
    for s, bits in SZ.items():
        row("cmp", 0xF1C0, 0xB000 | (s << 6), ALL if bits > 8 else DATA, bits, "ea,dn")
        row("eor", 0xF1C0, 0xB100 | (s << 6), DATAALT, bits, "dn,ea")
        row("cmpm", 0xF1F8, 0xB108 | (s << 6))
    row("cmpa", 0xF1C0, 0xB0C0, ALL, 16, "ea,an")
    row("cmpa", 0xF1C0, 0xB1C0, ALL, 32, "ea,an")
    return T


TABLE = _table()


def ea_key(w):
    """addressing-mode key of the <ea> field (bits 5..0) of the concrete word w; None = undefined (mode 7, reg 5..7)"""
    mode, reg = (w >> 3) & 7, w & 7
    if mode < 7:
        return mode
    return 70 + reg if reg <= 4 else None


def classify(w):
    """rows of TABLE matching the concrete operation word w (pattern and, where the row has one, the <ea> table)"""
    return [r for r in TABLE if w & r[1] == r[2] and (r[3] is None or ea_key(w) in r[3])]


# ---- procedural decoder -------------------------------------------------------------------------------------
class Dec:
    __slots__ = ("ok", "mn", "size", "ops", "length", "why")

    def __init__(self, ok, mn=None, size=None, ops=(), length=0, why=""):
        self.ok, self.mn, self.size, self.ops, self.length, self.why = ok, mn, size, list(ops), length, why

    def __repr__(self):
        if not self.ok:
            return f"<undecoded: {self.why}>"
        return f"<{self.mn}{'.' + str(self.size) if self.size else ''} {self.ops} len={self.length}>"


class _Stop(Exception):
    pass


def _c(x):
    """concrete value of an operation-word field (forks over the feasible values when symbolic)"""
    if type(x) is int:
        return x
    return operator.index(x)


def _sx(v, bits):
    return core.ite(v >= (1 << (bits - 1)), v - (1 << bits), v)


class _Cursor:
    def __init__(self, bs):
        self.bs, self.pos = list(bs), 0

    def word(self):
        if self.pos + 2 > len(self.bs):
            raise _Stop("truncated: an extension word is missing")
        w = (self.bs[self.pos] << 8) | self.bs[self.pos + 1]
        self.pos += 2
        return w


def _named(name):
    raise _Stop("named: " + name)


def _ea(cur, mode, reg, size, allowed, mn):
    """operand of a (mode, register) pair; mode is concrete, reg concrete only if mode == 7"""
    if mode == 7:
        reg = _c(reg)
        if reg > 4:
            raise _Stop(f"effective address 111.{reg:03b} is not defined")
        key = 70 + reg
    else:
        key = mode
    if key not in allowed:
        raise _Stop(f"addressing mode {MODE_NAMES[key]} is not allowed for this operand of {mn}")
    if key == 0:
        return ("dreg", reg)
    if key == 1:
        return ("areg", reg)
    if key == 2:
        return ("ind", reg)
    if key == 3:
        return ("postinc", reg)
    if key == 4:
        return ("predec", reg)
    if key == 5:
        return ("disp", reg, _sx(cur.word(), 16))
    if key == 6:
        ext = cur.word()
        if _c((ext >> 8) % 2):
            raise _Stop("full-format extension word (68020 addressing modes) not decoded")
        return ("index", reg, ext)
    if key == 70:
        return ("absw", _sx(cur.word(), 16))
    if key == 71:
        hi = cur.word()
        return ("absl", (hi << 16) | cur.word())
    if key == 72:
        pos = cur.pos
        return ("pcrel", pos + _sx(cur.word(), 16))
    if key == 73:
        ext = cur.word()
        if _c((ext >> 8) % 2):
            raise _Stop("full-format extension word (68020 addressing modes) not decoded")
        return ("pcindex", ext)
    if size is None:
        raise _Stop("immediate operand of an unsized instruction")
    if size == 32:
        hi = cur.word()
        return ("imm", (hi << 16) | cur.word(), 32)
    w = cur.word()
    return ("imm", w % 256 if size == 8 else w, size)


def _decode(cur):
    w = cur.word()
    line = _c((w >> 12) % 16)
    r9 = (w >> 9) % 8           # register field bits 11..9
    r0 = w % 8                  # register field bits 2..0
    if line in (1, 2, 3):
        size = MOVE_SZ[line]
        dmode = _c((w >> 6) % 8)
        smode = _c((w >> 3) % 8)
        mn = "movea" if dmode == 1 else "move"
        if dmode == 1 and size == 8:
            raise _Stop("movea has no byte form")
        src = _ea(cur, smode, r0, size, ALL if size > 8 else DATA, mn)
        if dmode == 1:
            return Dec(True, "movea", size, [src, ("areg", r9)])
        dst = _ea(cur, dmode, r9, size, DATAALT, mn)
        return Dec(True, "move", size, [src, dst])
    if line == 4:
        mode = _c((w >> 3) % 8)
        if _c((w >> 8) % 2):
            sel = _c((w >> 6) % 4)
            if sel == 3:
                if mode == 0:
                    if _c(r9) == 4:
                        _named("extb")
                    raise _Stop("lea: addressing mode Dn is not allowed")
                return Dec(True, "lea", None, [_ea(cur, mode, r0, None, CONTROL, "lea"), ("areg", r9)])
            if sel in (0, 2):
                _ea(_Cursor([0] * 8), mode, r0, 16, DATA, "chk")
                _named("chk" if sel == 2 else "chk.l")
            raise _Stop("0100 rrr 101: not defined")
        grp = _c(r9)
        s = _c((w >> 6) % 4)
        if grp in (0, 1, 2, 3, 5) and s < 3:
            mn = {0: "negx", 1: "clr", 2: "neg", 3: "not", 5: "tst"}[grp]
            return Dec(True, mn, SZ[s], [_ea(cur, mode, r0, SZ[s], DATAALT, mn)])
        if grp in (0, 1, 2, 3):
            mn = ("move from sr", "move from ccr", "move to ccr", "move to sr")[grp]
            _ea(_Cursor([0] * 8), mode, r0, 16, DATAALT if grp < 2 else DATA, mn)
            _named(mn)
        if grp == 5:
            if mode == 7 and _c(r0) == 4:
                _named("illegal")
            _ea(_Cursor([0] * 8), mode, r0, 8, DATAALT, "tas")
            _named("tas")
        if grp == 4:
            if s == 0:
                if mode == 1:
                    _named("link.l")
                _ea(_Cursor([0] * 8), mode, r0, 8, DATAALT, "nbcd")
                _named("nbcd")
            if s == 1:
                if mode == 0:
                    _named("swap")
                if mode == 1:
                    _named("bkpt")
                return Dec(True, "pea", None, [_ea(cur, mode, r0, None, CONTROL, "pea")])
            if mode == 0:
                _named("ext")
            _ea(_Cursor([0] * 8), mode, r0, 16, MOVEM_TO_MEM, "movem")
            _named("movem")
        if grp == 6:
            if s >= 2:
                _ea(_Cursor([0] * 8), mode, r0, 16, MOVEM_TO_REG, "movem")
                _named("movem")
            _ea(_Cursor([0] * 8), mode, r0, 32, DATA, "mulu.l/divu.l")
            _named("mulu.l/muls.l" if s == 0 else "divu.l/divs.l")
        # grp == 7: 0100 1110 ...
        if s == 2 or s == 3:
            mn = "jsr" if s == 2 else "jmp"
            return Dec(True, mn, None, [_ea(cur, mode, r0, None, CONTROL, mn)])
        if s == 0:
            raise _Stop("4E00-4E3F: not defined")
        low = _c(w % 64)
        if low < 0x10:
            _named("trap")
        if low < 0x18:
            _named("link")
        if low < 0x20:
            _named("unlk")
        if low < 0x30:
            _named("move usp")
        fixed = {0x30: "reset", 0x31: "nop", 0x32: "stop", 0x33: "rte", 0x34: "rtd", 0x35: "rts", 0x36: "trapv",
                 0x37: "rtr", 0x3A: "movec", 0x3B: "movec"}
        if low not in fixed:
            raise _Stop("4E78-4E7F: not defined")
        if fixed[low] in ("nop", "rts"):
            return Dec(True, fixed[low], None, [])
        _named(fixed[low])
    if line == 6:
        cond = _c((w >> 8) % 16)
        d8 = w % 256
        if type(d8) is int:
            sel = 0 if d8 == 0 else (2 if d8 == 0xFF else 1)
        else:
            sel = 0 if bool(d8 == 0) else (2 if bool(d8 == 0xFF) else 1)
        if sel == 0:
            disp = _sx(cur.word(), 16)
        elif sel == 2:
            hi = cur.word()
            disp = _sx((hi << 16) | cur.word(), 32)
        else:
            disp = _sx(d8, 8)
        return Dec(True, CONDS[cond], None, [("rel", 2 + disp)])
    if line == 7:
        if _c((w >> 8) % 2):
            raise _Stop("0111 rrr 1: not defined")
        return Dec(True, "moveq", None, [("imm", _sx(w % 256, 8), 8), ("dreg", r9)])
    if line in (8, 9, 0xB, 0xC, 0xD):
        opm = _c((w >> 6) % 8)
        mode = _c((w >> 3) % 8)
        base = {8: "or", 9: "sub", 0xB: "cmp", 0xC: "and", 0xD: "add"}[line]
        if opm in (3, 7):
            if line in (8, 0xC):
                mn = {(8, 3): "divu", (8, 7): "divs", (0xC, 3): "mulu", (0xC, 7): "muls"}[(line, opm)]
                return Dec(True, mn, 16, [_ea(cur, mode, r0, 16, DATA, mn), ("dreg", r9)])
            size = 16 if opm == 3 else 32
            return Dec(True, base + "a", size, [_ea(cur, mode, r0, size, ALL, base + "a"), ("areg", r9)])
        size = SZ[opm % 4]
        if opm < 3:
            allowed = DATA if (line in (8, 0xC) or size == 8) else ALL
            return Dec(True, base, size, [_ea(cur, mode, r0, size, allowed, base), ("dreg", r9)])
        # opm 4..6: Dn,<ea> direction and the register-pair instructions in its mode 000 / 001 slots
        if line == 0xB:
            if mode == 1:
                _named("cmpm")
            return Dec(True, "eor", size, [("dreg", r9), _ea(cur, mode, r0, size, DATAALT, "eor")])
        if mode < 2:
            if line in (9, 0xD):
                _named(base + "x")
            if opm == 4:
                _named("sbcd" if line == 8 else "abcd")
            if line == 8:
                _named("pack" if opm == 5 else "unpk")
            if opm == 5 or mode == 1:
                _named("exg")
            raise _Stop("1100 rrr 110 000: not defined")
        return Dec(True, base, size, [("dreg", r9), _ea(cur, mode, r0, size, MEMALT, base)])
    raise _Stop(f"opcode-map line {line:04b} is not in the table of this decoder")


def decode(bs):
    cur = _Cursor(bs)
    try:
        d = _decode(cur)
        d.length = cur.pos
        return d
    except _Stop as e:
        return Dec(False, why=str(e))


# ---- what a printed operand means: comparison of a printed with a decoded operand ---------------------------
# printed operands (read off ppci's syntax by the harness, or parsed from assembly text here):
#   ("dreg", n) ("areg", n) ("ind", n) ("disp", n, d) ("imm", v) ("absw", a) ("pcrel", t) ("target", t)
#   d, v, a are the integers as written; t = label address - address of the instruction
def operand_matches(p, o):
    """condition (bool / SymBool) under which the decoded operand `o` is the printed operand `p`"""
    A = core.sym_and
    k = p[0]
    if k in ("dreg", "areg", "ind", "postinc", "predec"):
        return o[0] == k and o[1] == p[1]
    if k == "disp":
        return o[0] == "disp" and A(o[1] == p[1], o[2] == p[2])
    if k == "imm":
        # the value as the operation reads it: a `bits`-wide quantity in its signed or unsigned spelling
        return o[0] == "imm" and (p[1] - o[1]) % (1 << o[2]) == 0
    if k == "absw":
        return o[0] == "absw" and o[1] == p[1]
    if k == "pcrel":
        return o[0] == "pcrel" and o[1] == p[1]
    if k == "target":
        return o[0] == "rel" and o[1] == p[1]
    raise AssertionError(p)


def printed_range(p, size):
    """documented range of the integer of a printed operand -> (lo, hi) or None; size = operation size in bits
    (immediates of moveq: 8 signed)"""
    k = p[0]
    if k in ("disp", "absw"):
        return (-(1 << 15), (1 << 15) - 1)
    if k == "imm":
        bits = size or 16
        return (-(1 << (bits - 1)), (1 << bits) - 1)
    if k == "pcrel":
        return (2 - (1 << 15), 2 + (1 << 15) - 1)
    if k == "target":
        return (2 - (1 << 31), 2 + (1 << 31) - 1)
    return None


def split_mnemonic(printed):
    """ppci / GNU (MIT syntax) spelling `addl`, `moveaw`, `negb` -> (manual mnemonic, size) ; unsized: (name, None);
    None if the manual (this decoder) has no such instruction"""
    if printed in UNSIZED:
        return printed, None
    if len(printed) > 1 and printed[-1] in "bwl" and printed[:-1] in SIZED:
        return printed[:-1], {"b": 8, "w": 16, "l": 32}[printed[-1]]
    return None


# ---- text (ppci's operand syntax) ----------------------------------------------------------------------------
def _num(t, labels, addr):
    t = t.strip()
    return int(t, 0)


def parse_operand(t, labels, addr):
    t = t.strip().lower().replace(" ", "")
    m = re.fullmatch(r"([da])([0-7])", t)
    if m:
        return ("dreg" if m.group(1) == "d" else "areg", int(m.group(2)))
    m = re.fullmatch(r"\(a([0-7])\)", t)
    if m:
        return ("ind", int(m.group(1)))
    m = re.fullmatch(r"\((-?\w+),a([0-7])\)", t)
    if m:
        return ("disp", int(m.group(2)), int(m.group(1), 0))
    m = re.fullmatch(r"\((-?\w+)\)\.w", t)
    if m:
        return ("absw", int(m.group(1), 0))
    if t.startswith("#"):
        return ("imm", int(t[1:], 0))
    if t in labels:
        return ("pcrel", labels[t] - addr)
    raise ValueError(t)


def parse_line(text, labels, addr):
    """one line of ppci m68k assembly -> (manual mnemonic, size, [printed operands])"""
    text = text.strip()
    head, _, rest = text.partition(" ")
    sp = split_mnemonic(head.lower())
    if sp is None:
        raise ValueError(head)
    mn, size = sp
    ops, depth, cur = [], 0, ""
    for ch in rest:
        if ch == "(":
            depth += 1
        if ch == ")":
            depth -= 1
        if ch == "," and depth == 0:
            ops.append(cur)
            cur = ""
        else:
            cur += ch
    if cur.strip():
        ops.append(cur)
    if mn in CONDS:
        return mn, None, [("target", labels[ops[0].strip().lower()] - addr)]
    return mn, size, [parse_operand(o, labels, addr) for o in ops]


def text_matches(d, parsed):
    mn, size, pops = parsed
    if not d.ok or d.mn != mn or (size is not None and d.size != size) or len(pops) != len(d.ops):
        return False
    return all(bool(operand_matches(p, o)) for p, o in zip(pops, d.ops))


# ---- self test -----------------------------------------------------------------------------------------------
# encodings every 68k programmer has seen in listings (Amiga / Atari / Mac start-up code, compiler output)
KNOWN = [
    ("4e71", "nop", None, []), ("4e75", "rts", None, []),
    ("7000", "moveq", None, [("imm", 0, 8), ("dreg", 0)]), ("70ff", "moveq", None, [("imm", -1, 8), ("dreg", 0)]),
    ("7201", "moveq", None, [("imm", 1, 8), ("dreg", 1)]), ("7e7f", "moveq", None, [("imm", 127, 8), ("dreg", 7)]),
    ("2c780004", "movea", 32, [("absw", 4), ("areg", 6)]),                  # move.l 4.w,a6  (exec base)
    ("4eaeffe2", "jsr", None, [("disp", 6, -30)]),                          # jsr -30(a6)
    ("4eb900fc00d2", "jsr", None, [("absl", 0x00FC00D2)]),
    ("4ef900000400", "jmp", None, [("absl", 0x400)]),
    ("4e90", "jsr", None, [("ind", 0)]), ("4ed0", "jmp", None, [("ind", 0)]),
    ("41f900dff000", "lea", None, [("absl", 0xDFF000), ("areg", 0)]),       # lea $dff000,a0  (custom chips)
    ("43fa0002", "lea", None, [("pcrel", 4), ("areg", 1)]),
    ("43faff00", "lea", None, [("pcrel", 2 - 256), ("areg", 1)]),
    ("2f00", "move", 32, [("dreg", 0), ("predec", 7)]), ("201f", "move", 32, [("postinc", 7), ("dreg", 0)]),
    ("d080", "add", 32, [("dreg", 0), ("dreg", 0)]), ("d040", "add", 16, [("dreg", 0), ("dreg", 0)]),
    ("da02", "add", 8, [("dreg", 2), ("dreg", 5)]), ("d481", "add", 32, [("dreg", 1), ("dreg", 2)]),
    ("9080", "sub", 32, [("dreg", 0), ("dreg", 0)]), ("9240", "sub", 16, [("dreg", 0), ("dreg", 1)]),
    ("9481", "sub", 32, [("dreg", 1), ("dreg", 2)]),
    ("b280", "cmp", 32, [("dreg", 0), ("dreg", 1)]), ("c080", "and", 32, [("dreg", 0), ("dreg", 0)]),
    ("8080", "or", 32, [("dreg", 0), ("dreg", 0)]), ("b180", "eor", 32, [("dreg", 0), ("dreg", 0)]),
    ("b342", "eor", 16, [("dreg", 1), ("dreg", 2)]),
    ("4480", "neg", 32, [("dreg", 0)]), ("4400", "neg", 8, [("dreg", 0)]), ("4680", "not", 32, [("dreg", 0)]),
    ("4640", "not", 16, [("dreg", 0)]), ("4280", "clr", 32, [("dreg", 0)]), ("4a80", "tst", 32, [("dreg", 0)]),
    ("4a40", "tst", 16, [("dreg", 0)]), ("4240", "clr", 16, [("dreg", 0)]),
    ("303c1234", "move", 16, [("imm", 0x1234, 16), ("dreg", 0)]),
    ("203c00010000", "move", 32, [("imm", 0x10000, 32), ("dreg", 0)]),
    ("103c00ff", "move", 8, [("imm", 0xFF, 8), ("dreg", 0)]),
    ("3210", "move", 16, [("ind", 0), ("dreg", 1)]), ("1280", "move", 8, [("dreg", 0), ("ind", 1)]),
    ("2040", "movea", 32, [("dreg", 0), ("areg", 0)]), ("3040", "movea", 16, [("dreg", 0), ("areg", 0)]),
    ("2248", "movea", 32, [("areg", 0), ("areg", 1)]),
    ("216800040008", "move", 32, [("disp", 0, 4), ("disp", 0, 8)]),
    ("d1fc00000100", "adda", 32, [("imm", 0x100, 32), ("areg", 0)]),
    ("d0fc0100", "adda", 16, [("imm", 0x100, 16), ("areg", 0)]),
    ("b3c8", "cmpa", 32, [("areg", 0), ("areg", 1)]),
    ("d0bc00000005", "add", 32, [("imm", 5, 32), ("dreg", 0)]),
    ("b07c0005", "cmp", 16, [("imm", 5, 16), ("dreg", 0)]),
    ("c0c1", "mulu", 16, [("dreg", 1), ("dreg", 0)]), ("c1c1", "muls", 16, [("dreg", 1), ("dreg", 0)]),
    ("80c1", "divu", 16, [("dreg", 1), ("dreg", 0)]), ("81c1", "divs", 16, [("dreg", 1), ("dreg", 0)]),
    ("4850", "pea", None, [("ind", 0)]),
    ("60fe", "bra", None, [("rel", 0)]), ("66fc", "bne", None, [("rel", -2)]), ("6702", "beq", None, [("rel", 4)]),
    ("60000010", "bra", None, [("rel", 0x12)]), ("6100fffe", "bsr", None, [("rel", 0)]),
    ("67000100", "beq", None, [("rel", 0x102)]), ("6cf0", "bge", None, [("rel", -14)]),
    ("6d04", "blt", None, [("rel", 6)]), ("6e04", "bgt", None, [("rel", 6)]), ("6f04", "ble", None, [("rel", 6)]),
    ("60ff00010000", "bra", None, [("rel", 0x10002)]), ("61fffffffffe", "bsr", None, [("rel", 0)]),
    ("d090", "add", 32, [("ind", 0), ("dreg", 0)]), ("d190", "add", 32, [("dreg", 0), ("ind", 0)]),
    ("d0a80010", "add", 32, [("disp", 0, 16), ("dreg", 0)]),
    ("d0b81000", "add", 32, [("absw", 0x1000), ("dreg", 0)]),
    ("b0788000", "cmp", 16, [("absw", -0x8000), ("dreg", 0)]),
]
# operation words the manual gives to another instruction (named only here) or leaves undefined
NAMED = [("c141", "exg"), ("c149", "exg"), ("c189", "exg"), ("c100", "abcd"), ("8100", "sbcd"), ("d100", "addx"),
         ("9100", "subx"), ("b308", "cmpm"), ("4840", "swap"), ("4880", "ext"), ("48c0", "ext"), ("49c0", "extb"),
         ("48e7", "movem"), ("4cdf", "movem"), ("4e560000", "link"), ("4e5e", "unlk"), ("4e40", "trap"),
         ("4e4f", "trap"), ("4afc", "illegal"), ("4e73", "rte"), ("4e77", "rtr"), ("4e70", "reset"), ("4e72", "stop"),
         ("4ac0", "tas"), ("40c0", "move from sr"), ("46fc", "move to sr"), ("44fc", "move to ccr"), ("4180", "chk")]
UNDEFINED = ["45c1",            # lea d1,a2
             "4e80", "4e88", "4ebc",   # jsr d0 / jsr a0 / jsr #imm
             "4408", "443c", "443a",   # neg.b a0 / neg.b #imm / neg.b d16(pc)
             "4608", "c009", "8009",   # not.b a0 / and.b a1,d0 / or.b a1,d0
             "d009", "9009", "b009",   # add.b / sub.b / cmp.b a1,d0
             "1009", "1040",           # move.b a1,d0 / movea.b
             "b33c", "b33a",           # eor.b d1,#imm / eor.b d1,d16(pc)
             "1fc0",                   # move.b d0, <destination 111.111>
             "19c0",                   # move.b d0,#imm (destination 111.100)
             "7100",                   # moveq with bit 8 set
             "4e00", "4e78", "c180",   # undefined slots
             "003c", "5240", "e348", "a000", "f000"]   # lines 0, 5, E, A, F: not in this table


def _hexbytes(s):
    s = s.replace(" ", "")
    return [int(s[k:k + 2], 16) for k in range(0, len(s), 2)]


def _repo_vectors(path):
    """[(test name, [source lines], [hex strings])] of the repo's assembler test case"""
    tree = ast.parse(open(path).read())
    out = []
    for cls in tree.body:
        if not isinstance(cls, ast.ClassDef):
            continue
        for fn in cls.body:
            if not isinstance(fn, ast.FunctionDef):
                continue
            lines, hexes = [], []
            for node in ast.walk(fn):
                if isinstance(node, ast.Call) and isinstance(node.func, ast.Attribute) and node.args \
                        and isinstance(node.args[0], ast.Constant) and isinstance(node.args[0].value, str):
                    if node.func.attr == "feed":
                        lines.append((node.lineno, node.args[0].value))
                    elif node.func.attr == "check":
                        hexes.append(node.args[0].value)
            if lines and hexes:
                out.append((fn.name, [t for _, t in sorted(lines)], hexes))
    return out


def _check_listing(lines, data):
    """the byte string `data` is the listing `lines` assembled at address 0: cut it with the decoder, resolve the
    labels from the cut, compare every decoded instruction with its source line.  -> instructions compared"""
    items, pos, labels = [], 0, {}
    for t in lines:
        t = t.strip()
        m = re.match(r"^(\w+):\s*(.*)$", t)
        if m:
            labels[m.group(1).lower()] = pos
            t = m.group(2).strip()
            if not t:
                continue
        if t.startswith("db "):
            pos += 1
            continue
        d = decode(data[pos:pos + 10])
        assert d.ok, (t, d)
        items.append((t, pos, d))
        pos += d.length
    assert pos == len(data), ("listing and bytes differ in length", lines)
    for t, addr, d in items:
        assert text_matches(d, parse_line(t, labels, addr)), (t, d)
    return len(items)


def selftest(repo=None):
    """raises AssertionError on any inconsistency; -> dict of counts (evidence)"""
    st = {}
    # (1) the table is a function of the operation word, and decode() follows it, for all 65536 words
    ext = [0x00, 0x10, 0x00, 0x20, 0x00, 0x30, 0x00, 0x40]
    n_dec = n_named = 0
    per = {}
    for w in range(65536):
        rows = classify(w)
        assert len(rows) <= 1, (hex(w), rows)
        d = decode([w >> 8, w & 255] + ext)
        if not rows:
            assert not d.ok and not d.why.startswith("named:"), (hex(w), d)
            continue
        name, mask, match, ea, size, form = rows[0]
        if form is None:
            assert not d.ok and d.why == "named: " + name, (hex(w), name, d)
            n_named += 1
            continue
        assert d.ok and d.mn == name and d.size == size, (hex(w), rows[0], d)
        n_ops = {"none": 0, "ea": 1, "bcc": 1, "moveq": 2, "ea,dn": 2, "dn,ea": 2, "ea,an": 2, "move": 2}[form]
        assert len(d.ops) == n_ops and d.length % 2 == 0 and 2 <= d.length <= 10, (hex(w), d)
        if form == "ea,dn":
            assert d.ops[1] == ("dreg", (w >> 9) & 7)
        if form == "dn,ea":
            assert d.ops[0] == ("dreg", (w >> 9) & 7)
        if form == "ea,an":
            assert d.ops[1] == ("areg", (w >> 9) & 7)
        n_dec += 1
        per[name] = per.get(name, 0) + 1
    st["operation_words_checked"] = 65536
    st["operation_words_decoded"] = n_dec
    st["operation_words_named_only"] = n_named
    # counts that follow from the manual's tables: 8 registers x addressing-mode keys
    n = lambda keys: sum(8 if k < 70 else 1 for k in keys)       # noqa: E731  words per register-field value
    assert per["lea"] == 8 * n(CONTROL) and per["jsr"] == n(CONTROL) and per["neg"] == 3 * n(DATAALT), per
    assert per["moveq"] == 8 * 256 and per["nop"] == 1 and per["rts"] == 1 and per["bne"] == 256
    assert per["eor"] == 3 * 8 * n(DATAALT) and per["cmp"] == 8 * (n(DATA) + 2 * n(ALL))
    assert per["add"] == per["sub"] == 8 * (n(DATA) + 2 * n(ALL)) + 3 * 8 * n(MEMALT)
    assert per["and"] == per["or"] == 3 * 8 * n(DATA) + 3 * 8 * n(MEMALT)
    assert per["move"] == (n(DATA) + 2 * n(ALL)) * n(DATAALT) and per["movea"] == 2 * 8 * n(ALL)
    # (2) known encodings
    for hx, mn, size, ops in KNOWN:
        bs = _hexbytes(hx)
        d = decode(bs)
        assert d.ok and d.length == len(bs), (hx, d)
        assert d.mn == mn and d.size == size and [tuple(o) for o in d.ops] == ops, (hx, d, ops)
    st["known_encodings"] = len(KNOWN)
    for hx, name in NAMED:
        d = decode(_hexbytes(hx) + [0] * 8)
        assert not d.ok and d.why == "named: " + name, (hx, name, d)
    for hx in UNDEFINED:
        d = decode(_hexbytes(hx) + [0] * 8)
        assert not d.ok and not d.why.startswith("named:"), (hx, d)
    st["named_or_undefined_words"] = len(NAMED) + len(UNDEFINED)
    # truncated extension words
    assert not decode(_hexbytes("d0bc0005")).ok and not decode(_hexbytes("303c")).ok and not decode(_hexbytes("60ff0000")).ok
    # a wrong reading must be noticed (the comparison is not vacuous)
    assert text_matches(decode(_hexbytes("9481")), parse_line("subl d1, d2", {}, 0))
    assert not text_matches(decode(_hexbytes("d481")), parse_line("subl d1, d2", {}, 0))
    assert not text_matches(decode(_hexbytes("da02")), parse_line("addb d5, d2", {}, 0))
    assert not text_matches(decode(_hexbytes("da02")), parse_line("addw d2, d5", {}, 0))
    assert not text_matches(decode(_hexbytes("2c780004")), parse_line("moveal (4).w, a5", {}, 0))
    assert not text_matches(decode(_hexbytes("34a90022")), parse_line("movew (35,a1), (a2)", {}, 0))
    assert text_matches(decode(_hexbytes("103c00ff")), parse_line("moveb #-1, d0", {}, 0))
    # (3) the repo's assembler test vectors
    repo = repo or os.environ.get("PPCI_REPO", "/repo")
    path = os.path.join(repo, "test", "arch", "test_m68k.py")
    n_tests = n_ins = 0
    if os.path.exists(path):
        for name, lines, hexes in _repo_vectors(path):
            n_ins += _check_listing(lines, _hexbytes("".join(hexes)))
            n_tests += 1
        assert n_tests >= 10, "repo test vectors not found"
    st["repo_tests"] = n_tests
    st["repo_instructions"] = n_ins
    return st


if __name__ == "__main__":
    print(selftest())
