"""Type-annotated Python functions for property C36 (Python front end).

programs(tier, seed) -> list of dict(id, src, entry, feats)
  * a fixed, systematically enumerated part (every operator / comparison / boolean connective / loop
    skeleton x loop body kind of the grammar at size 1, operator pairs at size 2)
  * a seeded random part from the grammar below (nesting depth <= 2).

Grammar (the subset python2ir.py accepts without a diagnostic; `%`, unary minus, `not`, chained
comparisons, `range` with a step are rejected by ppci with CompilerError and are probed separately):
  module := [def g(x: int, y: int) -> int: block]  def f(a: int, b: int) -> int: block
  stmt   := v = e | v op= e | if c: block [elif c: block] [else: block] | while c: block
          | for i in range(e[, e]): block | break | continue | return e
  e      := name | literal | e (+|-|*|//) e | g(e, e)         c := e cmp e | c and c | c or c
Negative literals are written (0 - k).  Every function ends in `return e`; variables are read only
where they are definitely assigned.  Loops are bounded by construction: loop bounds are built from
"bound parameters" (never assigned), small literals and enclosing loop variables; `while` loops count a
dedicated counter up to such a bound (the increment is the first statement of the body, so `continue`
cannot skip it).
"""
import random

OPS = ["+", "-", "*", "//"]
CMPS = ["<", "<=", ">", ">=", "==", "!="]


def _fn(name, params, body):
    sig = ", ".join(f"{p}: int" for p in params)
    return f"def {name}({sig}) -> int:\n" + "\n".join("    " + ln for ln in body) + "\n"


def _prog(pid, body, feats, helper=None):
    src = ""
    if helper:
        src += _fn("g", ["x", "y"], helper) + "\n"
    src += _fn("f", ["a", "b"], body)
    return dict(id=pid, src=src, entry="f", feats=sorted(set(feats)))


OPNAME = {"+": "add", "-": "sub", "*": "mul", "//": "floordiv"}


def fixed_programs():
    P = []
    n = [0]

    def add(body, feats, helper=None):
        P.append(_prog(f"x{n[0]:03d}", body, feats, helper))
        n[0] += 1

    # -- size 1: one operator, operand shapes
    for op in OPS:
        for x, y in (("a", "b"), ("a", "3"), ("7", "b"), ("a", "(0 - 3)"), ("(0 - 7)", "b"), ("a", "a")):
            add([f"return {x} {op} {y}"], ["expr", OPNAME[op]])
    # -- size 2: operator pairs, both associations
    for o1 in OPS:
        for o2 in OPS:
            add([f"return (a {o1} b) {o2} 3"], ["expr", OPNAME[o1], OPNAME[o2]])
            add([f"return a {o1} (b {o2} 5)"], ["expr", OPNAME[o1], OPNAME[o2]])
    # -- augmented assignment, plain assignment, tuple assignment
    for op in OPS:
        add(["s = a", f"s {op}= b", "return s"], ["augassign", OPNAME[op]])
        add([f"a {op}= 3", f"b {op}= a", "return b"], ["augassign", OPNAME[op]])
    add(["s, t = a + 1, b - 1", "s, t = t, s", "return s - t"], ["tuple-assign"])
    # -- comparisons and boolean connectives
    for c in CMPS:
        add([f"if a {c} b:", "    return 1", "return 0"], ["if", "cmp"])
        add([f"if a {c} 3:", "    s = a", "else:", "    s = b", "return s"], ["if", "if-else", "branch-first-assign", "cmp"])
    for cond in ("a < b and b < 5", "a < 0 or b == 3", "a < b and (b < 3 or a == 2)", "(a > 1 and b > 1) or a == b",
                 "a < b and b < 10 and a > 0 - 10", "a == 1 or b == 2 or a == b"):
        add([f"if {cond}:", "    return a + 1", "return b - 1"], ["if", "boolop"])
    # -- if / elif / else
    add(["s = 0", "if a < b:", "    s = 1", "elif a == b:", "    s = 2", "else:", "    s = 3", "return s + a"],
        ["if", "elif"])
    add(["if a < b:", "    s = 1", "elif a == b:", "    s = 2", "else:", "    s = 3", "return s + a"],
        ["if", "elif", "branch-first-assign"])
    add(["if a < 0:", "    if b < 0:", "        return a * b", "    else:", "        return a - b",
         "elif a == 0:", "    return b", "return a + b"], ["if", "elif", "nested-if", "mul"])
    add(["s = a", "if a > b:", "    s -= b", "    if s > 10:", "        s = 10", "return s"], ["if", "nested-if"])
    # -- loop skeletons x body kinds
    loops = {
        "for1": ("for i in range(a):", "i", []),
        "for2": ("for i in range(a, b):", "i", []),
        "for2c": ("for i in range(2, a + 1):", "i", []),
        "while": ("while k < a:", "k", ["k += 1"]),
    }
    for lk, (head, v, pre) in loops.items():
        init = ["s = 0"] + (["k = 0"] if lk == "while" else [])
        lf = ["while"] if lk == "while" else ["for"]
        bodies = {
            "plain": ([f"s += {v}"], []),
            "data": (["s += b", f"s -= {v}"], []),
            "if": ([f"if {v} > 1:", f"    s += {v}", "s += 1"], ["loop-if"]),
            "ifelse": ([f"if {v} == b:", "    s += 10", "else:", f"    s -= {v}"], ["loop-if"]),
            "break": ([f"if {v} == 3:", "    break", f"s += {v}"], ["loop-if", "break"]),
            "continue": ([f"if {v} == 2:", "    continue", f"s += {v}"], ["loop-if", "continue"]),
            "breakcont": ([f"if {v} == 1:", "    continue", f"if {v} > 3:", "    break", "s += 1"],
                          ["loop-if", "break", "continue"]),
            "return": ([f"if s > 4:", "    return s", f"s += {v}"], ["loop-if", "loop-return"]),
            "nestfor": ([f"for j in range({v}):", "    s += j"], ["nested-loop", "for"]),
            "nestfor-cont": ([f"for j in range(3):", f"    if j == {v}:", "        continue", "    s += j", "s += 100"],
                             ["nested-loop", "for", "loop-if", "continue"]),
            "nestwhile": (["m = 0", f"while m < {v}:", "    m += 1", "    s += m"], ["nested-loop", "while"]),
            "mul": ([f"s = s * 2 + {v}"], ["mul"]),
        }
        for bk, (body, bf) in bodies.items():
            add(init + [head] + ["    " + ln for ln in pre + body] + ["return s"], ["loop"] + lf + bf)
    # loop variable read after the loop / assigned inside the loop / shadowing a parameter
    add(["i = 0 - 1", "for i in range(a):", "    b += 1", "return i"], ["loop", "for", "loopvar-after"])
    add(["s = 0", "for i in range(a):", "    s += i", "    i = 7", "    s += i", "return s"], ["loop", "for", "loopvar-assigned"])
    add(["s = 0", "for b in range(a):", "    s += b", "return s + b"], ["loop", "for", "loopvar-after"])
    add(["s = 0", "for i in range(b, a):", "    if i == 2:", "        break", "    s += 1", "return s * 10 + i"],
        ["loop", "for", "loop-if", "break", "loopvar-after"])
    # range bounds are evaluated once
    add(["s = 0", "for i in range(a):", "    a = 1", "    s += 1", "return s + a"], ["loop", "for"])
    # while with compound condition, count-down
    add(["k = a", "s = 0", "while k > 0 and s < b:", "    k -= 1", "    s += 2", "return s"], ["loop", "while", "boolop"])
    add(["k = a", "s = b", "while k > 0:", "    k -= 1", "    if s > 5:", "        s = s // 2", "        continue", "    s = s * 3 + 1",
         "return s"], ["loop", "while", "loop-if", "continue", "floordiv", "mul"])
    # -- calls
    h1 = ["return x * 2 + y"]
    add(["return g(a, b) - g(b, a)"], ["call", "mul"], h1)
    add(["if g(a, 1) > g(b, 2):", "    return g(a, b)", "return 0"], ["call", "if", "mul"], h1)
    add(["s = 0", "for i in range(a):", "    s += g(i, b)", "return s"], ["call", "loop", "for", "mul"], h1)
    h2 = ["if x < y:", "    return y - x", "return x - y"]
    add(["return g(a, b) + g(a, 0)"], ["call", "if"], h2)
    add(["s = 0", "k = 0", "while k < a:", "    k += 1", "    if g(k, b) == 1:", "        continue", "    s += 1", "return s"],
        ["call", "loop", "while", "loop-if", "continue", "if"], h2)
    h3 = ["s = 0", "for i in range(x):", "    s += y", "return s"]
    add(["return g(a, b) + g(2, a)"], ["call", "loop", "for"], h3)
    h4 = ["return x // y"]
    add(["return g(a, b) * 2 + g(b, 3)"], ["call", "floordiv"], h4)
    return P


# ------------------------------------------------------------------------------------------------------
def _src_const(node):
    import ast
    return all(isinstance(n, (ast.Constant, ast.BinOp, ast.operator, ast.expr_context)) for n in ast.walk(node))


def _is_const(e):
    return e.isdigit() or (e.startswith("(0 - ") and e[5:-1].isdigit())


class _Gen:
    def __init__(self, rnd, fname, params, bound_params, have_helper, size, allow_loops=True):
        self.allow_loops = allow_loops
        self.r = rnd
        self.fname = fname
        self.params = list(params)
        self.bound = list(bound_params)        # never assigned; may appear in loop bounds
        self.have_helper = have_helper
        self.feats = set()
        self.fresh = ["s", "t", "u", "v", "w"]
        self.loopvars = ["i", "j"]
        self.counters = ["k", "m"]
        self.budget = size                     # remaining compound statements
        self.hard = 0                          # symbolic*symbolic multiplications / divisions so far
        self.ndiv = 0                          # floor divisions so far (at most 2 per function: solver effort)
        # conditions stay linear in the arguments (feasibility of a path must not require solving non-linear
        # equations): `nl` = variables that may hold a quotient / a product of two variables (never
        # compared); `condvars` = variables that occur in a condition (never assigned such a value)
        self.nl = set()
        self.condvars = set()
        self.helper_nl = False                 # g may return a non-linear value
        self.helper_cond = False               # g branches on its parameters

    # -- expressions
    def const(self):
        c = self.r.choice([0, 1, 2, 3, 5, 7, 10])
        if self.r.random() < 0.2 and c:
            return f"(0 - {c})"
        return str(c)

    def is_nl(self, e):
        """may the expression (source text) be non-linear in the arguments?"""
        import ast
        for n in ast.walk(ast.parse(e, mode="eval")):
            if isinstance(n, ast.BinOp):
                if isinstance(n.op, ast.FloorDiv):
                    return True
                if isinstance(n.op, ast.Mult) and not (_src_const(n.left) or _src_const(n.right)):
                    return True
            elif isinstance(n, ast.Name) and n.id in self.nl:
                return True
            elif isinstance(n, ast.Call) and self.helper_nl:
                return True
        return False

    def leaf(self, env):
        if self.r.random() < 0.7 and env:
            return self.r.choice(sorted(env))
        return self.const()

    def expr(self, env, depth=0):
        r = self.r.random()
        if depth >= 2 or r < 0.3:
            return self.leaf(env)
        if self.have_helper and r < 0.38:
            self.feats.add("call")
            if self.helper_cond:
                return f"g({self.lin(env, False)}, {self.lin(env, False)})"
            return f"g({self.expr(env, depth + 1)}, {self.leaf(env)})"
        op = self.r.choices(OPS, weights=[35, 30, 20, 15])[0]
        if op == "//":
            if self.ndiv >= 2:
                op = "-"
            else:
                self.ndiv += 1
        x = self.expr(env, depth + 1)
        y = self.expr(env, depth + 1)
        if _is_const(x) and _is_const(y) and env:
            x = self.r.choice(sorted(env))          # no constant folding exercises
        if op in ("*", "//"):
            if self.hard >= 1 or self.r.random() < 0.6:
                c = self.r.choice(["2", "3", "5", "7", "(0 - 2)", "(0 - 3)"])
                if op == "*" and self.r.random() < 0.5 and not _is_const(y):
                    x = c
                elif not _is_const(x) or op == "//":
                    y = c
            elif not _is_const(x) and not _is_const(y):
                self.hard += 1
            if op == "//" and y == "0":
                y = "2"
        self.feats.add(OPNAME[op])
        x = f"({x})" if " " in x and not _is_const(x) and not x.startswith("g(") else x
        y = f"({y})" if " " in y and not _is_const(y) and not y.startswith("g(") else y
        return f"{x} {op} {y}"

    def lin(self, env, in_cond=True):
        """linear operand of a comparison (conditions with divisions / products of two variables make path
        feasibility a non-linear problem: those are covered by the enumerated part only)"""
        env = {v for v in env if v not in self.nl}
        r = self.r.random()
        x = self.leaf(env)
        y = self.leaf(env) if r >= 0.45 else None
        if y is not None and _is_const(x) and _is_const(y) and env:
            x = self.r.choice(sorted(env))
        if in_cond:
            self.condvars.update(v for v in (x, y) if v in env)
        if y is None:
            return x
        if r < 0.85:
            self.feats.add("add" if r < 0.65 else "sub")
            return f"{x} {'+' if r < 0.65 else '-'} {y}"
        self.feats.add("mul")
        c = self.r.choice(["2", "3", "(0 - 2)"])
        return f"{c} * {x}" if not _is_const(x) else f"{x} + {y}"

    def cmp(self, env):
        return f"{self.lin(env)} {self.r.choice(CMPS)} {self.lin(env)}"

    def cond(self, env, depth=0):
        r = self.r.random()
        if depth >= 1 and r < 0.85 or r < 0.6:
            return self.cmp(env)
        self.feats.add("boolop")
        op = self.r.choice(["and", "or"])
        parts = [self.cond(env, depth + 1) for _ in range(self.r.choice([2, 2, 3]))]
        parts = [f"({p})" if (" and " in p or " or " in p) else p for p in parts]
        return f" {op} ".join(parts)

    def bound_expr(self, env, enclosing):
        cands = list(self.bound) + [str(self.r.choice([2, 3, 4]))] + list(enclosing)
        b = self.r.choice(cands)
        r = self.r.random()
        if r < 0.2 and not b.isdigit():
            return f"{b} + 1"
        if r < 0.3 and not b.isdigit():
            return f"{b} - 1"
        return b

    # -- statements
    def assignable(self, env, frozen):
        return sorted(v for v in env if v not in frozen and v not in self.bound)

    def simple(self, env, frozen):
        """one assignment; returns (lines, new env)"""
        ls, env2, v, rhs_nl = self._simple(env, frozen)
        if v is not None:
            if rhs_nl and v in self.condvars:
                # v is compared somewhere (maybe in an earlier iteration's condition): keep it linear
                ls = [f"{v} = {self.lin(env, False)}"]
                self.feats.add("add")
            elif rhs_nl:
                self.nl.add(v)
        return ls, env2

    def _simple(self, env, frozen):
        targets = self.assignable(env, frozen)
        fresh = [v for v in self.fresh if v not in env]
        r = self.r.random()
        if targets and r < 0.45:
            self.feats.add("augassign")
            v = self.r.choice(targets)
            op = self.r.choices(OPS, weights=[40, 30, 18, 12])[0]
            if op == "//":
                if self.ndiv >= 2:
                    op = "+"
                else:
                    self.ndiv += 1
            self.feats.add(OPNAME[op])
            if op in ("*", "//"):
                e = self.r.choice(["2", "3", "5", "(0 - 2)", "(0 - 3)"]) if (self.hard >= 1 or self.r.random() < 0.7) else self.leaf(env)
                if not _is_const(e):
                    self.hard += 1
                elif op == "//" and e == "0":
                    e = "2"
            else:
                e = self.expr(env, 1)
            nl = op == "//" or (op == "*" and not _is_const(e)) or self.is_nl(e) or v in self.nl
            return [f"{v} {op}= {e}"], env, v, nl
        if fresh and (r < 0.8 or not targets):
            v = fresh[0]
            e = self.expr(env)
            return [f"{v} = {e}"], env | {v}, v, self.is_nl(e)
        v = self.r.choice(targets) if targets else None
        if v is None:
            return ["pass"], env, None, False
        e = self.expr(env)
        return [f"{v} = {e}"], env, v, self.is_nl(e)

    def block(self, env, depth, loops, frozen, maxlen=3):
        """returns (lines, env after (definitely assigned), falls_through)"""
        lines = []
        nst = self.r.randint(1, maxlen)
        for _ in range(nst):
            r = self.r.random()
            compound_ok = depth < 2 and self.budget > 0
            if compound_ok and r < 0.55:
                self.budget -= 1
                kind = self.r.random()
                if kind < 0.45 or not self.allow_loops:
                    ls, env, ft = self.gen_if(env, depth, loops, frozen)
                elif kind < 0.78:
                    ls, env, ft = self.gen_for(env, depth, loops, frozen)
                else:
                    ls, env, ft = self.gen_while(env, depth, loops, frozen)
                lines += ls
                if not ft:
                    return lines, env, False
            elif loops and r < 0.65:
                # break / continue / return guarded by a condition (unguarded ones end the block)
                what = self.r.choice(["break", "continue", "continue", "return"])
                if what == "return":
                    what = f"return {self.expr(env, 1)}"
                    self.feats.add("loop-return")
                else:
                    self.feats.add(what)
                if self.r.random() < 0.85:
                    self.feats.add("if")
                    if loops:
                        self.feats.add("loop-if")
                    lines += [f"if {self.cond(env, 1)}:", f"    {what}"]
                else:
                    lines.append(what)
                    return lines, env, False
            elif depth > 0 and not loops and r < 0.62:
                lines.append(f"return {self.expr(env, 1)}")
                return lines, env, False
            else:
                ls, env = self.simple(env, frozen)
                lines += ls
        return lines, env, True

    def gen_if(self, env, depth, loops, frozen):
        self.feats.add("if")
        if loops:
            self.feats.add("loop-if")
        lines = [f"if {self.cond(env)}:"]
        b1, e1, f1 = self.block(env, depth + 1, loops, frozen)
        lines += ["    " + x for x in b1]
        envs = [(e1, f1)]
        r = self.r.random()
        if r < 0.25:
            self.feats.add("elif")
            lines.append(f"elif {self.cond(env)}:")
            b2, e2, f2 = self.block(env, depth + 1, loops, frozen)
            lines += ["    " + x for x in b2]
            envs.append((e2, f2))
        if r < 0.6:
            self.feats.add("if-else")
            lines.append("else:")
            b3, e3, f3 = self.block(env, depth + 1, loops, frozen)
            lines += ["    " + x for x in b3]
            envs.append((e3, f3))
        else:
            envs.append((env, True))
        live = [e for e, f in envs if f]
        if not live:
            return lines, env, False
        out = set.intersection(*[set(e) for e in live])
        if out - set(env):
            self.feats.add("branch-first-assign")
        return lines, out, True

    def gen_for(self, env, depth, loops, frozen):
        self.feats.update(["loop", "for"])
        if loops:
            self.feats.add("nested-loop")
        v = [x for x in self.loopvars if x not in frozen][0]
        if self.r.random() < 0.65:
            head = f"for {v} in range({self.bound_expr(env, loops)}):"
        else:
            head = f"for {v} in range({self.bound_expr(env, loops)}, {self.bound_expr(env, loops)}):"
        body, e1, _ = self.block(env | {v}, depth + 1, loops + [v], frozen | {v})
        # the loop variable is definitely assigned afterwards only if it was before
        return [head] + ["    " + x for x in body], env, True

    def gen_while(self, env, depth, loops, frozen):
        self.feats.update(["loop", "while"])
        if loops:
            self.feats.add("nested-loop")
        k = [x for x in self.counters if x not in frozen][0]
        bound = self.bound_expr(env, loops)
        lines = [f"{k} = 0"]
        test = f"{k} < {bound}"
        if self.r.random() < 0.25:
            self.feats.add("boolop")
            test += f" and {self.cmp(env | {k})}"
        lines.append(f"while {test}:")
        body, e1, _ = self.block(env | {k}, depth + 1, loops + [k], frozen | {k})
        lines += [f"    {k} += 1"] + ["    " + x for x in body]
        return lines, env | {k}, True

    def function(self):
        env = set(self.params)
        lines, env, ft = self.block(env, 0, [], set(), maxlen=4)
        if ft:
            # make the effects of the statements above observable: the result depends on the assigned variables
            assigned = sorted(v for v in env if v not in self.bound)
            self.r.shuffle(assigned)
            pick = assigned[:3]
            if pick and self.r.random() < 0.85:
                self.feats.add("add")
                base = " + ".join(pick)
                if self.r.random() < 0.5:
                    self.feats.add("sub")
                    lines.append(f"return ({base}) - {self.lin(env)}" if len(pick) > 1 else f"return {base} - {self.lin(env)}")
                else:
                    lines.append(f"return {base}")
            else:
                lines.append(f"return {self.expr(env)}")
        return lines


def random_program(rnd, pid):
    helper = None
    have_helper = rnd.random() < 0.3
    feats = set()
    if have_helper:
        g = _Gen(rnd, "g", ["x", "y"], [], False, size=rnd.choice([0, 1, 1]), allow_loops=False)
        helper = g.function()
        feats |= g.feats
    nb = rnd.random()
    bound = ["a"] if nb < 0.6 else (["a", "b"] if nb < 0.8 else ["b"])
    f = _Gen(rnd, "f", ["a", "b"], bound, have_helper, size=rnd.choice([1, 2, 2, 3]))
    if have_helper:
        f.helper_nl = cost(_fn("g", ["x", "y"], helper)) > 0
        f.helper_cond = any(ln.lstrip().startswith(("if ", "elif ", "while ")) for ln in helper)
    body = f.function()
    feats |= f.feats
    if not (feats & {"loop", "if", "call"}):
        feats.add("expr")
    return _prog(pid, body, feats, helper)


def cost(src):
    """static estimate of the solver effort of a program: floor divisions by a constant count 1, by a
    non-constant 2, multiplications of two non-constant operands 2, calls the cost of the callee; x5 per
    enclosing loop (unwinding)"""
    import ast
    tree = ast.parse(src)
    fcost = {}

    def is_const(e):
        return all(isinstance(n, (ast.Constant, ast.BinOp, ast.operator, ast.expr_context)) for n in ast.walk(e))

    def walk(node, mult):
        c = 0
        for ch in ast.iter_child_nodes(node):
            m = mult
            if isinstance(node, (ast.For, ast.While)) and ch in node.body:
                m = mult * 5
            c += walk(ch, m)
        if isinstance(node, ast.BinOp) or isinstance(node, ast.AugAssign):
            l, r = (node.left, node.right) if isinstance(node, ast.BinOp) else (node.target, node.value)
            if isinstance(node.op, ast.FloorDiv) and not (is_const(l) and is_const(r)):
                c += mult * (1 if is_const(r) else 2)
            if isinstance(node.op, ast.Mult) and not is_const(l) and not is_const(r):
                c += 2 * mult
        if isinstance(node, ast.Call) and isinstance(node.func, ast.Name) and node.func.id in fcost:
            c += fcost[node.func.id] * mult
        return c

    for fn in tree.body:
        fcost[fn.name] = walk(fn, 1)
    return fcost[tree.body[-1].name]


MAX_COST = 3


def programs(tier, seed):
    P = fixed_programs()
    n = 110 if tier == "quick" else 1400
    rnd = random.Random(3600001 * seed + 36)
    seen = {p["src"] for p in P}
    k = 0
    while k < n:
        p = random_program(rnd, f"r{seed}-{k:04d}")
        if p["src"] in seen or cost(p["src"]) > MAX_COST:
            continue
        seen.add(p["src"])
        P.append(p)
        k += 1
    return P
