"""IR-level program family for C02/C03: all CFG skeletons over n blocks (terminator of block i is
`return`, `jmp bJ` or `cjmp .. ? bJ : bK`, J,K != 0), filled so that one variable is threaded through
the graph in valid SSA form (one phi per non-entry block, one input per predecessor), with arithmetic,
a store to a global in odd blocks and data-dependent branch conditions.  Names: "ir:<n>:<t0>.<t1>..."
where t = r | jJ | cJK.  Rendered to ppci IR text and read back by the real ppci.irutils.read_module.
"""
import itertools
import random

OPS = ["+", "*", "^", "-", "&", "|"]


def term_choices(n):
    out = ["r"]
    for j in range(1, n):
        out.append(f"j{j}")
    for j in range(1, n):
        for k in range(1, n):
            out.append(f"c{j}{k}")
    return out


def succs(t):
    if t == "r":
        return []
    if t[0] == "j":
        return [int(t[1])]
    return [int(t[1]), int(t[2])]


def reachable_all(terms):
    n = len(terms)
    seen = {0}
    work = [0]
    while work:
        x = work.pop()
        for y in succs(terms[x]):
            if y not in seen:
                seen.add(y)
                work.append(y)
    return len(seen) == n


def all_names(n):
    ch = term_choices(n)
    for terms in itertools.product(ch, repeat=n):
        if reachable_all(terms) and any(t == "r" for t in terms):
            yield f"ir:{n}:" + ".".join(terms)


def names(tier, seed):
    rnd = random.Random(seed)
    n2 = list(all_names(2))
    n3 = list(all_names(3))
    if tier == "quick":
        return n2 + rnd.sample(n3, 30)
    n4 = []
    ch = term_choices(4)
    while len(n4) < 80:
        terms = tuple(rnd.choice(ch) for _ in range(4))
        if reachable_all(terms) and any(t == "r" for t in terms):
            nm = "ir:4:" + ".".join(terms)
            if nm not in n4:
                n4.append(nm)
    return n2 + n3 + n4


def source(name):
    _, n, code = name.split(":")
    n = int(n)
    terms = code.split(".")
    preds = {k: [] for k in range(n)}
    for i, t in enumerate(terms):
        for y in succs(t):
            if i not in preds[y]:
                preds[y].append(i)
    lines = ["module m;", "global variable g (4 bytes aligned at 4)", "global function i32 f(i32 a, i32 b) {"]
    for k in range(n):
        lines.append(f"  b{k}: {{")
        if k == 0:
            x = "a"
        else:
            ins = ", ".join(f"b{p}: y{p}" for p in preds[k])
            lines.append(f"    i32 x{k} = phi {ins};")
            x = f"x{k}"
        lines.append(f"    i32 c{k} = {k * 7 + 3};")
        lines.append(f"    i32 y{k} = {x} {OPS[k % len(OPS)]} c{k};")
        if k % 2 == 1:
            lines.append(f"    store y{k}, g;")
        t = terms[k]
        if t == "r":
            lines.append(f"    return y{k};")
        elif t[0] == "j":
            lines.append(f"    jmp b{t[1]};")
        else:
            cond = ["<", "==", ">", "!="][k % 4]
            lines.append(f"    cjmp y{k} {cond} b ? b{t[1]} : b{t[2]};")
        lines.append("  }")
    lines.append("}")
    return "\n".join(lines) + "\n"
