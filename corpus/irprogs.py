"""IR-level program family for C02/C03: all CFG skeletons over n blocks (terminator of block i is
`return`, `jmp bJ` or `cjmp .. ? bJ : bK`, J,K != 0), filled so that one variable is threaded through
the graph in valid SSA form (one phi per non-entry block, one input per predecessor), with arithmetic,
a store to a global in odd blocks and data-dependent branch conditions.  Names: "ir:<n>:<t0>.<t1>..."
where t = r | jJ | cJK.  Rendered to ppci IR text and read back by the real ppci.irutils.read_module.

Extensions (added after seeds C03/C and C03/D were missed):
 * "ir:<n>:<terms>:<flags>": one flag per block, f = filled as above, e = EMPTY (only the terminator; conditions
   and phi inputs from such a block use the function arguments).  Shapes without any `return` are allowed here
   (empty infinite loops, as the C front end emits for `for(;;){}`).
 * flag k = filled block whose conditional jump compares two CONSTANTS (what CJumpPass folds).
 * "irh:<name>": hand-written templates with stack slots allocated OUTSIDE the entry block (conditional stores,
   loads at loop bottoms / joins), which the C front end never produces but the IR builder API allows.
"""
import itertools
import random

OPS = ["+", "*", "^", "-", "&", "|"]


def term_choices(n):
    out = ["r"]
    for j in range(1, n):
        out.append(f"j{j}")
    for j in range(1, n):
        for k in range(1, n):
            out.append(f"c{j}{k}")
    return out


def succs(t):
    if t == "r":
        return []
    if t[0] == "j":
        return [int(t[1])]
    return [int(t[1]), int(t[2])]


def reachable_all(terms):
    n = len(terms)
    seen = {0}
    work = [0]
    while work:
        x = work.pop()
        for y in succs(terms[x]):
            if y not in seen:
                seen.add(y)
                work.append(y)
    return len(seen) == n


def all_names(n):
    ch = term_choices(n)
    for terms in itertools.product(ch, repeat=n):
        if reachable_all(terms) and any(t == "r" for t in terms):
            yield f"ir:{n}:" + ".".join(terms)


def all_names_flagged(n):
    """skeletons with at least one empty block; a return is not required"""
    ch = term_choices(n)
    for terms in itertools.product(ch, repeat=n):
        if not reachable_all(terms):
            continue
        for flags in itertools.product("fe", repeat=n):
            if "e" in flags:
                yield f"ir:{n}:" + ".".join(terms) + ":" + "".join(flags)


# always present (both tiers, every seed): cycles made only of jump-only blocks
FIXED_FLAGGED = ["ir:3:c12.j2.j1:fee", "ir:3:j1.j2.j1:fee", "ir:3:c12.j2.j1:eee", "ir:4:c13.j2.j3.j1:feee",
                 "ir:4:c12.j2.j3.j2:ffee", "ir:4:c13.j2.j1.r:feef", "ir:3:c11.j2.j2:fee", "ir:4:j1.c23.j1.j3:feee"]


def flagged_names(tier, seed):
    rnd = random.Random(seed * 31 + 5)
    n2 = list(all_names_flagged(2))
    n3 = list(all_names_flagged(3))
    if tier == "quick":
        return FIXED_FLAGGED + n2 + rnd.sample(n3, 28)
    n4 = []
    ch = term_choices(4)
    while len(n4) < 40:
        terms = tuple(rnd.choice(ch) for _ in range(4))
        flags = "".join(rnd.choice("fe") for _ in range(4))
        if reachable_all(terms) and "e" in flags:
            nm = "ir:4:" + ".".join(terms) + ":" + flags
            if nm not in n4:
                n4.append(nm)
    return FIXED_FLAGGED + n2 + rnd.sample(n3, 100) + n4


def all_names_const_cond(n):
    """skeletons in which at least one conditional jump compares two CONSTANTS (flag k), mixed with f / e blocks"""
    ch = term_choices(n)
    for terms in itertools.product(ch, repeat=n):
        if not reachable_all(terms):
            continue
        for flags in itertools.product("fek", repeat=n):
            if "k" in flags and all(t[0] == "c" for f, t in zip(flags, terms) if f == "k"):
                yield f"ir:{n}:" + ".".join(terms) + ":" + "".join(flags)


FIXED_CONST_COND = ["ir:2:j1.c11:fk", "ir:3:j1.c21.r:fkf", "ir:3:j1.j2.c21:ffk", "ir:3:c12.r.j1:kff", "ir:3:j1.c21.c11:fkf",
                    "ir:3:j1.c12.r:fkf", "ir:3:c12.c21.r:kkf", "ir:3:c12.j2.r:kef"]


def const_cond_names(tier, seed):
    rnd = random.Random(seed * 131 + 7)
    n2 = list(all_names_const_cond(2))
    n3 = list(all_names_const_cond(3))
    return FIXED_CONST_COND + n2 + rnd.sample(n3, 24 if tier == "quick" else 250)


def names(tier, seed):
    rnd = random.Random(seed)
    n2 = list(all_names(2))
    n3 = list(all_names(3))
    if tier == "quick":
        return n2 + rnd.sample(n3, 30)
    n4 = []
    ch = term_choices(4)
    while len(n4) < 80:
        terms = tuple(rnd.choice(ch) for _ in range(4))
        if reachable_all(terms) and any(t == "r" for t in terms):
            nm = "ir:4:" + ".".join(terms)
            if nm not in n4:
                n4.append(nm)
    return n2 + n3 + n4


def source(name):
    if name.startswith("irh:"):
        return HAND[name[4:]]
    parts = name.split(":")
    n = int(parts[1])
    terms = parts[2].split(".")
    flags = parts[3] if len(parts) > 3 else "f" * n
    preds = {k: [] for k in range(n)}
    for i, t in enumerate(terms):
        for y in succs(t):
            if i not in preds[y]:
                preds[y].append(i)
    lines = ["module m;", "global variable g (4 bytes aligned at 4)", "global function i32 f(i32 a, i32 b) {"]
    for k in range(n):
        lines.append(f"  b{k}: {{")
        if flags[k] == "e":
            t = terms[k]
            if t == "r":
                lines.append("    return a;")
            elif t[0] == "j":
                lines.append(f"    jmp b{t[1]};")
            else:
                cond = ["<", "==", ">", "!="][k % 4]
                lines.append(f"    cjmp a {cond} b ? b{t[1]} : b{t[2]};")
            lines.append("  }")
            continue
        if k == 0:
            x = "a"
        else:
            ins = ", ".join(f"b{p}: " + ("a" if flags[p] == "e" else f"y{p}") for p in preds[k])
            lines.append(f"    i32 x{k} = phi {ins};")
            x = f"x{k}"
        lines.append(f"    i32 c{k} = {k * 7 + 3};")
        lines.append(f"    i32 y{k} = {x} {OPS[k % len(OPS)]} c{k};")
        if k % 2 == 1:
            lines.append(f"    store y{k}, g;")
        t = terms[k]
        if t == "r":
            lines.append(f"    return y{k};")
        elif t[0] == "j":
            lines.append(f"    jmp b{t[1]};")
        elif flags[k] == "k":
            # constant condition (what `if (1)`, `while (0)` become): CJumpPass folds it
            cond = ["<", "==", ">", "!="][k % 4]
            lines.append(f"    i32 d{k} = {k * 5 + 1};")
            lines.append(f"    cjmp c{k} {cond} d{k} ? b{t[1]} : b{t[2]};")
        else:
            cond = ["<", "==", ">", "!="][k % 4]
            lines.append(f"    cjmp y{k} {cond} b ? b{t[1]} : b{t[2]};")
        lines.append("  }")
    lines.append("}")
    return "\n".join(lines) + "\n"


_HDR = "module m;\nglobal variable g (4 bytes aligned at 4)\nglobal function i32 f(i32 a, i32 b) {\n"

HAND = {
    # slot allocated inside a loop body, written on one arm only, read at the loop bottom
    "alloc_in_loop_cond_store": _HDR + """  b0: {
    i32 zero = 0;
    i32 one = 1;
    i32 three = 3;
    i32 n = a & three;
    jmp head;
  }
  head: {
    i32 i = phi b0: zero, bottom: i2;
    i32 acc = phi b0: b, bottom: acc2;
    cjmp i < n ? body : done;
  }
  body: {
    blob<4:4> s = alloc 4 bytes aligned at 4;
    ptr sp = &s;
    store i, sp;
    cjmp acc < b ? arm : bottom;
  }
  arm: {
    i32 t = acc + one;
    store t, sp;
    jmp bottom;
  }
  bottom: {
    i32 v = load sp;
    i32 acc2 = acc + v;
    store acc2, g;
    i32 i2 = i + one;
    jmp head;
  }
  done: {
    return acc;
  }
}
""",
    # slot allocated in an if-arm, conditionally initialised, read only where it was written
    "alloc_in_arm_partial_init": _HDR + """  b0: {
    i32 one = 1;
    cjmp a < b ? arm : other;
  }
  arm: {
    blob<4:4> s = alloc 4 bytes aligned at 4;
    ptr sp = &s;
    cjmp a == one ? w1 : w2;
  }
  w1: {
    store b, sp;
    jmp rd;
  }
  w2: {
    i32 t = a + b;
    store t, sp;
    jmp rd;
  }
  rd: {
    i32 v = load sp;
    store v, g;
    jmp join;
  }
  other: {
    jmp join;
  }
  join: {
    i32 r = phi rd: v, other: a;
    return r;
  }
}
""",
    # slot allocated in a loop header that is not the entry; written on a back-edge path only; read after the loop
    "alloc_in_header_loop_carried": _HDR + """  b0: {
    i32 zero = 0;
    i32 one = 1;
    i32 three = 3;
    i32 n = a & three;
    jmp pre;
  }
  pre: {
    blob<4:4> s = alloc 4 bytes aligned at 4;
    ptr sp = &s;
    store b, sp;
    jmp head;
  }
  head: {
    i32 i = phi pre: zero, latch: i2;
    cjmp i < n ? body : done;
  }
  body: {
    i32 cur = load sp;
    cjmp cur < a ? bump : latch;
  }
  bump: {
    i32 nv = cur + one;
    store nv, sp;
    jmp latch;
  }
  latch: {
    i32 i2 = i + one;
    jmp head;
  }
  done: {
    i32 r = load sp;
    store r, g;
    return r;
  }
}
""",
    # two slots in different non-entry blocks, one dominated by the other
    "nested_allocs": _HDR + """  b0: {
    i32 one = 1;
    cjmp a < b ? outer : out;
  }
  outer: {
    blob<4:4> s1 = alloc 4 bytes aligned at 4;
    ptr p1 = &s1;
    store a, p1;
    cjmp b == one ? inner : after;
  }
  inner: {
    blob<4:4> s2 = alloc 4 bytes aligned at 4;
    ptr p2 = &s2;
    i32 x = load p1;
    store x, p2;
    i32 y = load p2;
    i32 z = y + one;
    store z, p1;
    jmp after;
  }
  after: {
    i32 w = load p1;
    store w, g;
    return w;
  }
  out: {
    return b;
  }
}
""",
    # slot allocated in the loop body, written on SOME iterations only, read at the loop bottom (the read of a
    # never-written slot is an undefined value: structurally well-formed, C02 cuts those paths by its premise)
    "alloc_in_loop_maybe_uninit": _HDR + """  b0: {
    i32 zero = 0;
    i32 one = 1;
    i32 three = 3;
    i32 n = a & three;
    jmp head;
  }
  head: {
    i32 i = phi b0: zero, latch: i2;
    i32 acc = phi b0: b, latch: acc2;
    cjmp i < n ? body : done;
  }
  body: {
    blob<4:4> s = alloc 4 bytes aligned at 4;
    ptr sp = &s;
    i32 bit = i & one;
    cjmp bit == zero ? set : latch;
  }
  set: {
    store i, sp;
    jmp latch;
  }
  latch: {
    i32 v = load sp;
    i32 acc2 = acc + v;
    i32 i2 = i + one;
    jmp head;
  }
  done: {
    store acc, g;
    return acc;
  }
}
""",
    # slot allocated in an if-arm that is also a loop header; loop-carried through the back edge
    "alloc_in_arm_loop_carried_maybe_uninit": _HDR + """  b0: {
    i32 zero = 0;
    i32 one = 1;
    i32 three = 3;
    cjmp a < b ? arm : out;
  }
  arm: {
    blob<4:4> s = alloc 4 bytes aligned at 4;
    ptr sp = &s;
    i32 n = a & three;
    jmp head;
  }
  head: {
    i32 i = phi arm: zero, latch: i2;
    cjmp i < n ? body : done;
  }
  body: {
    cjmp i == one ? wr : latch;
  }
  wr: {
    store b, sp;
    jmp latch;
  }
  latch: {
    i32 i2 = i + one;
    jmp head;
  }
  done: {
    i32 r = load sp;
    store r, g;
    return r;
  }
  out: {
    return b;
  }
}
""",
    # two nested loops, slot allocated in the inner loop's pre-header (inside the outer loop), read after the inner loop
    "alloc_between_nested_loops": _HDR + """  b0: {
    i32 zero = 0;
    i32 one = 1;
    i32 n = a & one;
    jmp ohead;
  }
  ohead: {
    i32 i = phi b0: zero, olatch: i2;
    i32 acc = phi b0: b, olatch: acc2;
    cjmp i <= n ? pre : done;
  }
  pre: {
    blob<4:4> s = alloc 4 bytes aligned at 4;
    ptr sp = &s;
    jmp ihead;
  }
  ihead: {
    i32 j = phi pre: zero, ilatch: j2;
    cjmp j <= i ? ibody : olatch;
  }
  ibody: {
    cjmp j == zero ? iset : ilatch;
  }
  iset: {
    store acc, sp;
    jmp ilatch;
  }
  ilatch: {
    i32 j2 = j + one;
    jmp ihead;
  }
  olatch: {
    i32 v = load sp;
    i32 acc2 = v + one;
    i32 i2 = i + one;
    jmp ohead;
  }
  done: {
    store acc, g;
    return acc;
  }
}
""",
    # one instruction using the SAME value in several operand slots (binop, call arguments, cjmp, phi inputs):
    # replacing that value (mem2reg replaces the load) must update every slot and keep def-use sets consistent
    "dup_operand_uses": """module m;
global variable g (4 bytes aligned at 4)
external function i32 e2(i32, i32);
global function i32 f(i32 a, i32 b) {
  b0: {
    blob<4:4> s = alloc 4 bytes aligned at 4;
    ptr sp = &s;
    store a, sp;
    i32 v = load sp;
    i32 w = v * v;
    i32 c = call e2(v, v);
    cjmp v < b ? b1 : b2;
  }
  b1: {
    store w, g;
    jmp b2;
  }
  b2: {
    i32 r = phi b0: v, b1: v;
    i32 r2 = r + c;
    return r2;
  }
}
""",
    "dup_operand_uses_phi_replaced": _HDR + """  b0: {
    i32 one = 1;
    cjmp a < b ? b1 : b2;
  }
  b1: {
    jmp b2;
  }
  b2: {
    i32 t = phi b0: a, b1: a;
    i32 w = t * t;
    i32 x = w + t;
    cjmp t == t ? b3 : b4;
  }
  b3: {
    store x, g;
    jmp b4;
  }
  b4: {
    i32 r = phi b2: t, b3: t;
    return r;
  }
}
""",
    # empty infinite loop of two jump-only blocks behind a condition (C: if (a) for(;;){})
    "spin2_behind_if": _HDR + """  b0: {
    cjmp a < b ? spin : out;
  }
  spin: {
    jmp spin2;
  }
  spin2: {
    jmp spin;
  }
  out: {
    return a;
  }
}
""",
    # three jump-only blocks in a cycle entered in the middle
    "spin3_entered_in_middle": _HDR + """  b0: {
    cjmp a == b ? s2 : out;
  }
  s1: {
    jmp s2;
  }
  s2: {
    jmp s3;
  }
  s3: {
    jmp s1;
  }
  out: {
    store a, g;
    return b;
  }
}
""",
}


def hand_names():
    return ["irh:" + k for k in HAND]
