"""WebAssembly module families (text format, integer subset) for C22.

Every entry is addressed by a name and rendered to WAT text by `source(name)`; the text is parsed by ppci's
real `ppci.wasm.Module(text)`.  `entry(name)` -> (exported function, [parameter types], [result types]).
Families (shapes are enumerated / seeded; all VALUES -- arguments, memory bytes, global values -- stay symbolic
in the harness):

  num:<type>.<op>            one function per numeric instruction x type (binary, unary, test, comparison, conversion)
  cmp:<type>.<rel>:<ctx>     a comparison consumed by if / br_if / select / local.set / i32.eqz / drop / i64.extend
  cf:<seed>                  control-flow templates: block / loop / if-else nested to depth <= 3 with br, br_if,
                             br_table, return, value-carrying blocks, dead code after unconditional branches
  lg:<name>                  locals / globals templates
  mem:<store>:<load>:<o1>:<o2>   store at (a + o1) then load at (b + o2): every access width, aliasing, the
                             out-of-bounds boundary of the one-page memory, data segment contents
  ld:<load>:<off> / st:<store>:<off>   single access at symbolic address + concrete offset
  call:<name>                direct calls (argument order, nesting, recursion, procedures, imported host function,
                             start function), call_indirect
  misc:<name>                select / drop / nop / unreachable / memory.size
"""
import random

I32_BIN = ["add", "sub", "mul", "div_s", "div_u", "rem_s", "rem_u", "and", "or", "xor", "shl", "shr_s", "shr_u", "rotl", "rotr"]
I32_UN = ["clz", "ctz", "popcnt", "extend8_s", "extend16_s"]
REL = ["eq", "ne", "lt_s", "lt_u", "gt_s", "gt_u", "le_s", "le_u", "ge_s", "ge_u"]
CONV = [("i32.wrap_i64", "i64", "i32"), ("i64.extend_i32_s", "i32", "i64"), ("i64.extend_i32_u", "i32", "i64")]
CMP_CTX = ["if", "br_if", "select", "local", "eqz", "drop", "extend", "store", "brtable", "call"]
LOADS = {"i32.load": 4, "i32.load8_s": 1, "i32.load8_u": 1, "i32.load16_s": 2, "i32.load16_u": 2,
         "i64.load": 8, "i64.load8_s": 1, "i64.load8_u": 1, "i64.load16_s": 2, "i64.load16_u": 2,
         "i64.load32_s": 4, "i64.load32_u": 4}
STORES = {"i32.store": 4, "i32.store8": 1, "i32.store16": 2, "i64.store": 8, "i64.store8": 1, "i64.store16": 2,
          "i64.store32": 4}
DATA = bytes([0xF1, 0x82, 0x03, 0x74, 0x85, 0xF6, 0x07, 0x98])          # 8 bytes at address 8


def num_names():
    out = []
    for t in ("i32", "i64"):
        for op in I32_BIN + I32_UN + REL + ["eqz"]:
            out.append(f"num:{t}.{op}")
    out.append("num:i64.extend32_s")
    for op, _, _ in CONV:
        out.append(f"num:{op}")
    return out


def _num(name):
    op = name.split(":", 1)[1]
    for c, src, dst in CONV:
        if op == c:
            return f'(module (func (export "f") (param {src}) (result {dst}) (local.get 0) ({op})))', ([src], [dst])
    t, o = op.split(".")
    if o in I32_BIN:
        return f'(module (func (export "f") (param {t} {t}) (result {t}) (local.get 0) (local.get 1) ({op})))', ([t, t], [t])
    if o in REL:
        return f'(module (func (export "f") (param {t} {t}) (result i32) (local.get 0) (local.get 1) ({op})))', ([t, t], ["i32"])
    if o == "eqz":
        return f'(module (func (export "f") (param {t}) (result i32) (local.get 0) ({op})))', ([t], ["i32"])
    return f'(module (func (export "f") (param {t}) (result {t}) (local.get 0) ({op})))', ([t], [t])


def cmp_names(tier):
    out = []
    rels = REL + ["eqz"]
    for n, r in enumerate(rels):
        for m, ctx in enumerate(CMP_CTX):
            if tier != "quick" or (n + m) % 3 == 0:
                out.append(f"cmp:{'i32' if (n + m) % 2 == 0 else 'i64'}.{r}:{ctx}")
    return out


def _cmp(name):
    _, op, ctx = name.split(":")
    t = op.split(".")[0]
    c = f"({op} (local.get 0))" if op.endswith("eqz") else f"({op} (local.get 0) (local.get 1))"
    sig = f"(param {t} {t}) (result i32)"
    body = {
        "if": f"(if (result i32) {c} (then (i32.const 11)) (else (i32.const 22)))",
        "br_if": f"(block (result i32) (i32.const 11) (br_if 0 {c}) (drop) (i32.const 22))",
        "select": f"(select (i32.const 11) (i32.const 22) {c})",
        "local": f"(local.set 2 {c}) (i32.add (local.get 2) (i32.const 5))",
        "eqz": f"(i32.eqz {c})",
        "drop": f"(drop {c}) (i32.const 7)",
        "extend": f"(i32.wrap_i64 (i64.add (i64.extend_i32_u {c}) (i64.const 40)))",
        "store": f"(i32.store (i32.const 16) {c}) (i32.load8_u (i32.const 16))",
        "brtable": f"(block (block (br_table 0 1 {c})) (return (i32.const 11))) (i32.const 22)",
        "call": f"(call $id {c})",
    }[ctx]
    src = (f'(module (memory 1) (func $id (param i32) (result i32) (i32.add (local.get 0) (i32.const 3)))\n'
           f'  (func (export "f") {sig} (local i32) {body}))')
    return src, ([t, t], ["i32"])


# ---------------------------------------------------------------------------------------------------------
# control-flow templates
class _Gen:
    """random structured program: statements keep the operand stack empty; one i32 accumulator $x (local 2),
    a loop budget $c (local 3), parameters $a (0), $b (1), global $g."""

    def __init__(self, seed, max_depth=3):
        self.r = random.Random(seed)
        self.max_depth = max_depth
        self.k = 0
        self.budget = 14

    def const(self):
        self.k += 1
        return self.k * 7 + 1

    def cond(self):
        r = self.r
        k = r.randrange(6)
        if k == 0:
            return f"(i32.and (local.get 0) (i32.const {1 << r.randrange(4)}))"
        if k == 1:
            return f"(i32.lt_s (local.get 2) (local.get 1))"
        if k == 2:
            return f"(i32.gt_u (local.get 0) (i32.const {r.randrange(1, 9)}))"
        if k == 3:
            return f"(i32.eqz (i32.and (local.get 1) (i32.const {1 << r.randrange(4)})))"
        if k == 4:
            return f"(i32.ne (local.get 2) (local.get 0))"
        return f"(i32.shr_u (local.get 1) (i32.const {r.randrange(28, 32)}))"

    def fuel(self):
        return "(i32.lt_u (local.tee 3 (i32.add (local.get 3) (i32.const 1))) (i32.const 3))"

    def upd(self):
        op = self.r.choice(["add", "xor", "sub", "or"])
        return f"(local.set 2 (i32.{op} (i32.shl (local.get 2) (i32.const 1)) (i32.const {self.const()})))"

    def branch_operand(self, labels, d):
        """value operands needed to branch to label d"""
        return "(local.get 2) " if labels[-1 - d] in ("v", "f") else ""

    def stmts(self, labels, n):
        out = []
        for _ in range(n):
            if self.budget <= 0:
                break
            s, stop = self.stmt(labels)
            out.append(s)
            if stop:
                # dead code after an unconditional branch (validation is stack-polymorphic there)
                if self.r.random() < 0.5:
                    out.append(self.upd())
                    if self.r.random() < 0.4 and len(labels) <= self.max_depth:
                        out.append(f"(block {self.upd()})")
                break
        return " ".join(out)

    def stmt(self, labels):
        r = self.r
        self.budget -= 1
        depth = len(labels) - 1            # nesting inside the function body
        choices = ["upd", "upd", "gset", "br_if"]
        if depth < self.max_depth:
            choices += ["block", "loop", "if", "ifelse", "vblock", "block", "if"]
        choices += ["br", "br_table", "return"] if depth > 0 else ["br_table"]
        k = r.choice(choices)
        if k == "upd":
            return self.upd(), False
        if k == "gset":
            return f"(global.set $g (i32.add (global.get $g) (local.get 2)))", False
        if k == "block":
            return f"(block {self.stmts(labels + ['b'], r.randrange(1, 4))})", False
        if k == "loop":
            guard = f"(br_if 0 (i32.and {self.cond()} {self.fuel()}))"
            body = self.stmts(labels + ["l"], r.randrange(1, 3))
            if r.random() < 0.5:
                return f"(loop {body} {guard})", False
            return f"(loop {guard} {body})", False
        if k == "if":
            return f"(if {self.cond()} (then {self.stmts(labels + ['b'], r.randrange(1, 3))}))", False
        if k == "ifelse":
            return (f"(if {self.cond()} (then {self.stmts(labels + ['b'], r.randrange(1, 3))}) "
                    f"(else {self.stmts(labels + ['b'], r.randrange(1, 3))}))"), False
        if k == "vblock":
            inner = labels + ["v"]
            pre = self.stmts(inner, r.randrange(0, 2))
            mid = f"(local.get 2) (br_if 0 {self.cond()}) (drop)" if r.random() < 0.7 else ""
            post = self.stmts(inner, r.randrange(0, 2))
            return f"(local.set 2 (block (result i32) {pre} {mid} {post} (i32.const {self.const()})))", False
        if k == "br":
            d = r.randrange(len(labels))
            if labels[-1 - d] == "l":      # backward branches consume loop fuel (bounded executions)
                return f"(br_if {d} {self.fuel()})", False
            return f"{self.branch_operand(labels, d)}(br {d})", True
        if k == "br_if":
            d = r.randrange(len(labels))
            op = self.branch_operand(labels, d)
            if op:
                return f"{op}(br_if {d} {self.cond()}) (drop)", False
            if labels[-1 - d] == "l":
                return f"(br_if {d} (i32.and {self.cond()} {self.fuel()}))", False
            return f"(br_if {d} {self.cond()})", False
        if k == "br_table":
            void = [d for d in range(len(labels)) if labels[-1 - d] in ("b", "l")]
            val = [d for d in range(len(labels)) if labels[-1 - d] in ("v", "f")]
            pool = void if (void and r.random() < 0.7) else val
            ds = [r.choice(pool) for _ in range(r.randrange(1, 4))]
            idx = r.choice(["(local.get 0)", "(i32.and (local.get 1) (i32.const 3))", "(local.get 2)"])
            op = "(local.get 2) " if pool is val else ""
            if any(labels[-1 - d] == "l" for d in ds):
                return f"(if {self.fuel()} (then (br_table {' '.join(str(d + 1) for d in ds)} {idx})))", False
            return f"{op}(br_table {' '.join(str(d) for d in ds)} {idx})", True
        if k == "return":
            return "(return (local.get 2))", True
        raise KeyError(k)

    def module(self):
        body = self.stmts(["f"], 5)
        return ('(module (global $g (mut i32) (i32.const 5))\n'
                '  (func (export "f") (param i32 i32) (result i32) (local i32 i32)\n'
                f'    (local.set 2 (local.get 0))\n    {body}\n    (local.get 2)))')


def cf_names(tier, seed):
    n = 48 if tier == "quick" else 600
    return [f"cf:{seed * 10000 + k}" for k in range(n)]


# hand-written control templates that the generator reaches rarely
CF_FIXED = {
    "loop_result": '(module (func (export "f") (param i32 i32) (result i32) (local i32)'
                   ' (local.set 0 (i32.and (local.get 0) (i32.const 3)))'
                   ' (loop $l (result i32) (local.set 2 (i32.add (local.get 2) (local.get 1)))'
                   ' (local.tee 0 (i32.sub (local.get 0) (i32.const 1))) (i32.const 0) (i32.gt_s) (br_if $l) (local.get 2))))',
    "if_no_else_br": '(module (func (export "f") (param i32 i32) (result i32)'
                     ' (block (if (local.get 0) (then (br 1))) (return (local.get 1))) (i32.const 77)))',
    "else_unreachable_then": '(module (func (export "f") (param i32 i32) (result i32)'
                             ' (if (result i32) (local.get 0) (then (return (local.get 1))) (else (i32.const 4)))))',
    "both_arms_branch": '(module (func (export "f") (param i32 i32) (result i32)'
                        ' (block (result i32) (if (local.get 0) (then (br 1 (i32.const 1))) (else (br 1 (local.get 1)))) (i32.const 9))))',
    "br_table_values": '(module (func (export "f") (param i32 i32) (result i32)'
                       ' (block (result i32) (block (result i32) (block (result i32)'
                       ' (local.get 1) (br_table 0 1 2 1 (local.get 0))) (i32.const 100) (i32.add)) (i32.const 1000) (i32.add))))',
    "br_table_default_only": '(module (func (export "f") (param i32 i32) (result i32)'
                             ' (block (br_table 0 (local.get 0))) (local.get 1)))',
    "br_table_i64_free": '(module (func (export "f") (param i32 i32) (result i32)'
                         ' (block (block (block (br_table 2 0 1 (i32.sub (local.get 0) (local.get 1)))) (return (i32.const 1))) (return (i32.const 2))) (i32.const 3)))',
    "nested_loops": '(module (func (export "f") (param i32 i32) (result i32) (local i32 i32 i32)'
                    ' (local.set 0 (i32.and (local.get 0) (i32.const 1)))'
                    ' (block $out (loop $o (local.set 3 (i32.const 0))'
                    '   (loop $i (local.set 2 (i32.add (local.get 2) (local.get 1)))'
                    '     (br_if $out (i32.eq (local.get 2) (i32.const 12)))'
                    '     (br_if $i (i32.lt_u (local.tee 3 (i32.add (local.get 3) (i32.const 1))) (i32.const 2))))'
                    '   (br_if $o (i32.le_u (local.tee 4 (i32.add (local.get 4) (i32.const 1))) (local.get 0)))))'
                    ' (local.get 2)))',
    "loop_continue_from_if": '(module (func (export "f") (param i32 i32) (result i32) (local i32)'
                             ' (loop $l (local.set 2 (i32.add (local.get 2) (i32.const 1)))'
                             '   (if (i32.lt_u (local.get 2) (i32.and (local.get 0) (i32.const 3))) (then (local.set 1 (i32.mul (local.get 1) (i32.const 5))) (br $l))))'
                             ' (i32.add (local.get 1) (local.get 2))))',
    "block_params_free_depth3": '(module (func (export "f") (param i32 i32) (result i32)'
                                ' (block (result i32) (i32.const 1) (block (result i32) (i32.const 2) (block (result i32) (i32.const 3)'
                                ' (br_if 2 (local.get 0)) (br_if 1 (local.get 1)) (br_if 0 (i32.eqz (local.get 1)))'
                                ' (drop) (i32.const 4)) (i32.add)) (i32.add))))',
    "dead_code_blocks": '(module (func (export "f") (param i32 i32) (result i32)'
                        ' (block (result i32) (br 0 (local.get 0)) (block (result i32) (i32.const 1) (br_if 0 (local.get 1)) (drop) (i32.const 2))'
                        ' (if (result i32) (then (i32.const 3)) (else (i32.const 4))) (i32.add))))',
    "dead_loop": '(module (func (export "f") (param i32 i32) (result i32)'
                 ' (block (br_if 0 (local.get 0)) (return (local.get 1)) (loop (br 0))) (i32.const 6)))',
    "br_table_twice": '(module (func (export "f") (param i32 i32) (result i32)'
                      ' (block (block (br_table 0 1 0 (local.get 0))) (local.set 1 (i32.add (local.get 1) (i32.const 1))))'
                      ' (block (block (block (br_table 1 2 0 (local.get 1))) (return (i32.const 10))) (return (i32.const 20))) (i32.const 30)))',
}

LG = {
    "tee_chain": '(module (func (export "f") (param i32 i32) (result i32) (local i32 i32)'
                 ' (local.set 3 (local.tee 2 (i32.add (local.get 0) (local.get 1)))) (i32.mul (local.get 2) (i32.add (local.get 3) (local.get 0)))))',
    "zero_locals": '(module (func (export "f") (param i32 i32) (result i32) (local i32 i64 i32)'
                   ' (i32.add (i32.add (local.get 2) (local.get 4)) (i32.add (i32.wrap_i64 (local.get 3)) (local.get 1)))))',
    "mixed_locals": '(module (func (export "f") (param i64 i32) (result i64) (local i64 i32)'
                    ' (local.set 2 (i64.mul (local.get 0) (i64.extend_i32_s (local.get 1))))'
                    ' (local.set 3 (i32.wrap_i64 (i64.shr_u (local.get 2) (i64.const 32))))'
                    ' (i64.add (local.get 2) (i64.extend_i32_u (local.get 3)))))',
    "param_overwrite": '(module (func (export "f") (param i32 i32) (result i32)'
                       ' (local.set 0 (i32.sub (local.get 1) (local.get 0))) (local.set 1 (i32.xor (local.get 0) (local.get 1))) (i32.add (local.get 0) (local.get 1))))',
    "globals_i32_i64": '(module (global $a (mut i32) (i32.const -3)) (global $b (mut i64) (i64.const 0x1122334455667788)) (global $c i32 (i32.const 9))'
                       ' (func (export "f") (param i32 i64) (result i64)'
                       ' (global.set $a (i32.add (global.get $a) (i32.mul (local.get 0) (global.get $c))))'
                       ' (global.set $b (i64.xor (global.get $b) (local.get 1)))'
                       ' (i64.add (global.get $b) (i64.extend_i32_s (global.get $a)))))',
    "global_init_from_const": '(module (global $a i64 (i64.const -1)) (global $b (mut i32) (i32.const 2147483647))'
                              ' (func (export "f") (param i32 i32) (result i32)'
                              ' (global.set $b (i32.add (global.get $b) (local.get 0))) (i32.add (global.get $b) (i32.wrap_i64 (global.get $a)))))',
    "swap_globals": '(module (global $a (mut i32) (i32.const 1)) (global $b (mut i32) (i32.const 2))'
                    ' (func (export "f") (param i32 i32) (result i32) (local i32)'
                    ' (local.set 2 (global.get $a)) (global.set $a (global.get $b)) (global.set $b (local.get 2))'
                    ' (if (local.get 0) (then (global.set $a (local.get 1)))) (i32.sub (global.get $a) (global.get $b))))',
}

CALL = {
    "arg_order": '(module (func $g (param i32 i32 i32) (result i32) (i32.sub (i32.shl (local.get 0) (i32.const 4)) (i32.sub (local.get 1) (local.get 2))))'
                 ' (func (export "f") (param i32 i32) (result i32) (call $g (local.get 0) (local.get 1) (i32.const 5))))',
    "nested": '(module (func $inc (param i32) (result i32) (i32.add (local.get 0) (i32.const 1)))'
              ' (func $dbl (param i32) (result i32) (i32.mul (call $inc (local.get 0)) (i32.const 2)))'
              ' (func (export "f") (param i32 i32) (result i32) (i32.sub (call $dbl (call $inc (local.get 0))) (call $dbl (local.get 1)))))',
    "i64_args": '(module (func $m (param i64 i32 i64) (result i64) (i64.add (i64.mul (local.get 0) (local.get 2)) (i64.extend_i32_s (local.get 1))))'
                ' (func (export "f") (param i64 i32) (result i64) (call $m (local.get 0) (local.get 1) (i64.const -7))))',
    "procedure_global": '(module (global $g (mut i32) (i32.const 0))'
                        ' (func $p (param i32) (global.set $g (i32.add (global.get $g) (local.get 0))))'
                        ' (func (export "f") (param i32 i32) (result i32) (call $p (local.get 0)) (call $p (local.get 1)) (call $p (i32.const 3)) (global.get $g)))',
    "recursion": '(module (func $r (export "f") (param i32 i32) (result i32)'
                 ' (if (result i32) (i32.eqz (i32.and (local.get 0) (i32.const 3))) (then (local.get 1))'
                 ' (else (i32.add (local.get 0) (call $r (i32.sub (i32.and (local.get 0) (i32.const 3)) (i32.const 1)) (local.get 1)))))))',
    "callee_traps": '(module (func $d (param i32 i32) (result i32) (if (i32.eqz (local.get 1)) (then (unreachable))) (i32.add (local.get 0) (local.get 1)))'
                    ' (global $g (mut i32) (i32.const 0))'
                    ' (func (export "f") (param i32 i32) (result i32) (global.set $g (i32.const 1)) (call $d (local.get 0) (local.get 1)) (global.set $g (i32.const 2))))',
    "start": '(module (global $g (mut i32) (i32.const 4)) (func $s (global.set $g (i32.mul (global.get $g) (i32.const 10))))'
             ' (start $s) (func (export "f") (param i32 i32) (result i32) (i32.add (global.get $g) (local.get 0))))',
    "host": '(module (import "env" "h" (func $h (param i32 i32) (result i32))) (import "env" "p" (func $p (param i64)))'
            ' (func (export "f") (param i32 i32) (result i32) (call $p (i64.extend_i32_s (local.get 1)))'
            ' (i32.add (call $h (local.get 1) (local.get 0)) (call $h (i32.const 1) (i32.const 2)))))',
    "return_from_callee_block": '(module (func $g (param i32) (result i32) (block (br_if 0 (local.get 0)) (return (i32.const 5))) (i32.const 6))'
                                ' (func (export "f") (param i32 i32) (result i32) (i32.add (call $g (local.get 0)) (i32.mul (call $g (local.get 1)) (i32.const 10)))))',
}
CALL_INDIRECT = {
    "table": '(module (type $t (func (param i32) (result i32))) (table 4 funcref) (elem (i32.const 0) $a $b $c)'
             ' (func $a (param i32) (result i32) (i32.add (local.get 0) (i32.const 1)))'
             ' (func $b (param i32) (result i32) (i32.mul (local.get 0) (i32.const 3)))'
             ' (func $c (param i64) (result i32) (i32.const 5))'
             ' (func (export "f") (param i32 i32) (result i32) (call_indirect (type $t) (local.get 1) (local.get 0))))',
}

MISC = {
    "select_i32": '(module (func (export "f") (param i32 i32) (result i32) (select (local.get 0) (i32.const 77) (local.get 1))))',
    "select_i64": '(module (func (export "f") (param i64 i32) (result i64) (select (i64.const -5) (local.get 0) (local.get 1))))',
    "select_cmp_operands": '(module (func (export "f") (param i32 i32) (result i32)'
                           ' (select (i32.lt_s (local.get 0) (local.get 1)) (i32.ge_u (local.get 0) (local.get 1)) (i32.eq (local.get 0) (i32.const 3)))))',
    "drop_nop": '(module (func (export "f") (param i32 i32) (result i32) (nop) (local.get 0) (local.get 1) (drop) (nop) (i32.const 4) (i32.add)))',
    "unreachable_cond": '(module (global $g (mut i32) (i32.const 0)) (func (export "f") (param i32 i32) (result i32)'
                        ' (global.set $g (local.get 1)) (if (i32.gt_s (local.get 0) (i32.const 100)) (then (unreachable))) (i32.add (local.get 0) (i32.const 1))))',
    "unreachable_in_block": '(module (func (export "f") (param i32 i32) (result i32)'
                            ' (block (result i32) (local.get 1) (br_if 0 (local.get 0)) (unreachable))))',
    "unreachable_procedure": '(module (global $g (mut i32) (i32.const 0)) (func $p (param i32) (if (local.get 0) (then (unreachable))) (global.set $g (i32.const 8)))'
                             ' (func (export "f") (param i32 i32) (result i32) (call $p (local.get 0)) (global.get $g)))',
    "memory_size": '(module (memory 2) (func (export "f") (param i32 i32) (result i32) (i32.add (memory.size) (local.get 0))))',
    "shift_mask_chain": '(module (func (export "f") (param i32 i64) (result i64)'
                        ' (i64.shl (i64.shr_s (local.get 1) (i64.extend_i32_u (local.get 0))) (i64.extend_i32_s (local.get 0)))))',
    "div_then_use": '(module (global $g (mut i32) (i32.const 0)) (func (export "f") (param i32 i32) (result i32)'
                    ' (global.set $g (i32.const 1)) (local.set 0 (i32.div_u (local.get 0) (local.get 1))) (global.set $g (i32.const 2))'
                    ' (i32.add (local.get 0) (i32.const 1))))',
}

MEM_OFFSETS = [0, 1, 4, 65532, 65535, 65536, 0xFFFFFFFF]


def mem_names(tier):
    out = []
    for ld in LOADS:
        offs = [0, 65535, 0xFFFFFFFF] if tier == "quick" else MEM_OFFSETS
        if tier == "quick":
            offs = [offs[(len(out) + k) % 3] for k in range(2)] + [65536 - LOADS[ld]]
        for o in sorted(set(offs)):
            out.append(f"ld:{ld}:{o}")
    for st in STORES:
        offs = [0, 65536 - STORES[st], 65536 - STORES[st] + 1] if tier == "quick" else MEM_OFFSETS + [65536 - STORES[st]]
        for o in sorted(set(offs)):
            out.append(f"st:{st}:{o}")
    pairs = [(s, l) for s in STORES for l in LOADS]
    if tier == "quick":
        pairs = [p for n, p in enumerate(pairs) if n % 7 == 0]
    for n, (s, l) in enumerate(pairs):
        o1, o2 = [(0, 0), (3, 1), (0, 2), (65528, 65528)][n % 4]
        out.append(f"mem:{s}:{l}:{o1}:{o2}")
    return out


def _data_text():
    return "".join("\\%02x" % b for b in DATA)


def _mem(name):
    parts = name.split(":")
    hdr = f'(module (memory 1) (data (i32.const 8) "{_data_text()}") (global $g (mut i32) (i32.const 0))\n'
    if parts[0] == "ld":
        _, ld, off = parts
        t = ld[:3]
        return hdr + f' (func (export "f") (param i32) (result {t}) (global.set $g (i32.const 1)) ({ld} offset={off} (local.get 0))))', (["i32"], [t])
    if parts[0] == "st":
        _, st, off = parts
        t = st[:3]
        return hdr + (f' (func (export "f") (param i32 {t}) (result i32) (global.set $g (i32.const 1))'
                      f' ({st} offset={off} (local.get 0) (local.get 1)) (global.set $g (i32.const 2)) (i32.const 1)))'), (["i32", t], ["i32"])
    _, st, ld, o1, o2 = parts
    ts, tl = st[:3], ld[:3]
    return hdr + (f' (func (export "f") (param i32 {ts} i32) (result {tl})'
                  f' ({st} offset={o1} (local.get 0) (local.get 1)) ({ld} offset={o2} (local.get 2))))'), (["i32", ts, "i32"], [tl])


def names(tier, seed):
    out = num_names() + cmp_names(tier) + cf_names(tier, seed)
    out += [f"cfx:{k}" for k in CF_FIXED] + [f"lg:{k}" for k in LG] + [f"call:{k}" for k in CALL]
    out += [f"calli:{k}" for k in CALL_INDIRECT] + [f"misc:{k}" for k in MISC] + mem_names(tier)
    return out


def _sig(src):
    """(params, results) of the exported function f from its text"""
    i = src.index('(export "f")')
    seg = src[i:]
    ps, rs = [], []
    j = seg.index(")") + 1
    rest = seg[j:].lstrip()
    while rest.startswith("(param") or rest.startswith("(result"):
        e = rest.index(")")
        toks = rest[1:e].split()
        (ps if toks[0] == "param" else rs).extend(toks[1:])
        rest = rest[e + 1:].lstrip()
    return ps, rs


def source(name):
    fam = name.split(":")[0]
    if fam == "num":
        return _num(name)[0]
    if fam == "cmp":
        return _cmp(name)[0]
    if fam == "cf":
        return _Gen(int(name.split(":")[1])).module()
    if fam in ("ld", "st", "mem"):
        return _mem(name)[0]
    table = {"cfx": CF_FIXED, "lg": LG, "call": CALL, "calli": CALL_INDIRECT, "misc": MISC}[fam]
    return table[name.split(":", 1)[1]]


def entry(name):
    ps, rs = _sig(source(name))
    return "f", ps, rs
