"""Small C programs (integer subset, no includes) used as IR sources for the translation-validation
properties.  Each entry: name -> (source, entry function, [external function names]).
Kept UB-light: the reference semantics flags the remaining UB (division by zero, shift counts,
out-of-bounds) as premise."""

PROGS = {}


def P(name, entry, src, ext=()):
    PROGS[name] = (src, entry, list(ext))


P("arith", "f", """
int f(int a, int b) { return (a + b) * 3 - (a ^ b) + (a & 7) - (b | 1); }
""")
P("divmod", "f", """
int f(int a, int b) { return a / b + a % b; }
""")
P("udivmod", "f", """
unsigned f(unsigned a, unsigned b) { return a / b - a % b; }
""")
P("shifts", "f", """
int f(int a, unsigned b, int c) { return (a << 3) + (a >> 2) + (int)(b >> 5) + (c << 1); }
""")
P("mixed_width", "f", """
long f(char a, short b, int c, long d) { return a + b * 2 + c * d; }
""")
P("unsigned_cmp", "f", """
int f(unsigned a, int b) { if (a < 10u) return b; if (b < 0) return -b; return (int)a; }
""")
P("ifelse", "f", """
int f(int a, int b) { int r; if (a > b) r = a - b; else if (a == b) r = 0; else r = b - a; return r * 2; }
""")
P("ternary", "f", """
int f(int a, int b, int c) { return a ? (b > c ? b : c) : (b < c ? b : c); }
""")
P("logic", "f", """
int f(int a, int b) { return (a && b) + (a || b) * 2 + (!a) * 4; }
""")
P("while_sum", "f", """
int f(int n) { int s = 0; int i = 0; while (i < n) { s += i; i++; } return s; }
""")
P("for_break", "f", """
int f(int n, int k) { int s = 0; for (int i = 0; i < n; i++) { if (i == k) break; if (i & 1) continue; s += i; } return s; }
""")
P("do_while", "f", """
int f(int n) { int c = 0; do { n = n / 2; c++; } while (n > 0); return c; }
""")
P("switch", "f", """
int f(int a, int b) { switch (a) { case 0: return b; case 1: b += 1; case 2: b += 2; break; case 7: return -1; default: b = 0; } return b; }
""")
P("global_rw", "f", """
int g; int h = 5;
int f(int a) { g = a + h; h = g * 2; return g + h; }
""")
P("global_array", "f", """
int tab[4] = {1, 2, 3, 4};
int f(int i, int v) { int k = i & 3; int old = tab[k]; tab[k] = v; return old + tab[(k + 1) & 3]; }
""")
P("local_array", "f", """
int f(int a, int b) { int t[3]; t[0] = a; t[1] = b; t[2] = a + b; int i = b & 1; return t[i] + t[2]; }
""")
P("struct", "f", """
struct P { int x; char c; short s; };
struct P gp;
int f(int a, int b) { struct P p; p.x = a; p.c = (char)b; p.s = (short)(a + b); gp = p; return p.x + p.c + p.s; }
""")
P("pointer_arg", "f", """
int f(int *p, int a) { int old = *p; *p = old + a; p[1] = old; return old; }
""")
P("addr_of_local", "f", """
void set(int *p, int v) { *p = v; }
int f(int a) { int x = 1; set(&x, a); return x + a; }
""")
P("calls", "f", """
int sq(int x) { return x * x; }
int f(int a, int b) { return sq(a) + sq(b) - sq(a - b); }
""")
P("recursion", "f", """
int f(int n) { if (n <= 0) return 0; return n + f(n - 1); }
""")
P("tail_call", "f", """
int g(int a, int b) { return a - b; }
int f(int a, int b) { if (a > b) return g(a, b); return g(b, a); }
""")
P("tail_self", "f", """
int f(int n, int acc) { if (n <= 0) return acc; return f(n - 1, acc + n); }
""")
P("extern_calls", "f", """
int ext1(int);
void ext2(int, int);
int f(int a, int b) { int r = ext1(a); ext2(r, b); if (r > b) r = ext1(r - b); return r; }
""", ext=("ext1", "ext2"))
P("extern_order", "f", """
int ext1(int);
int f(int a) { int x = ext1(a); int y = ext1(a); return x - y; }
""", ext=("ext1",))
P("cse_candidates", "f", """
int g;
int f(int a, int b) { int x = a * b + 1; g = a * b; int y = a * b + 1; return x + y + g; }
""")
P("load_after_store", "f", """
int g;
int f(int *p, int a) { g = a; *p = a + 1; return g + *p; }
""")
P("char_wrap", "f", """
int f(unsigned char a, signed char b) { unsigned char c = a + 200; signed char d = b - 100; return c + d; }
""")
P("compound", "f", """
int f(int a, int b) { a += b; a -= 3; a *= 2; a ^= b; a |= 1; a &= 0xffff; a <<= 1; a >>= 2; return a; }
""")
P("incdec", "f", """
int f(int a) { int b = a++; int c = ++a; int d = a--; int e = --a; return b + c * 2 + d * 4 + e * 8 + a; }
""")
P("long_arith", "f", """
long f(long a, long b) { return a * b + (a >> 3) - (b << 2); }
""")
P("ulong_arith", "f", """
unsigned long f(unsigned long a, unsigned long b) { return a * b + (a >> 3) + (a > b); }
""")
P("nested_loops", "f", """
int f(int n, int m) { int s = 0; for (int i = 0; i < n; i++) for (int j = i; j < m; j++) s += i * j; return s; }
""")
P("add_zero", "f", """
int f(int a, int b) { return (a + 0) * (b - 0) + (0 + b); }
""")
P("const_fold", "f", """
int f(int a) { return a + (3 * 4 - 2) + (100 / 7) + (100 % 7) + (1 << 4) + (256 >> 2); }
""")
P("negative_consts", "f", """
int f(int a) { return a * -3 + (-7 / 2) + (-7 % 2) + (a & -8); }
""")

# --- added after seeded changes C02/A,B and C03/A,B were missed by the first corpus -------------
P("tail_swap_gcd", "f", """
int f(int a, int b) { if (b == 0) return a; return f(b, a % b); }
""")
P("tail_pass_through", "f", """
int f(int n, int k) { if (n <= 0) return k; return f(n - k, k); }
""")
P("tail_rotate3", "f", """
int f(int n, int cur, int nxt) { if (n <= 0) return cur; return f(n - 1, nxt, cur + nxt); }
""")
P("store_load_alias_store", "f", """
int slot[2];
int f(int k, int a) { int *p = &slot[0]; int *q = p + k; *p = a; int t = *q; *p = a + 1; return t + slot[0]; }
""")
P("store_narrowload_store", "f", """
int slot;
int f(int a) { slot = a; unsigned char c = *(unsigned char *)&slot; slot = a + 1; return c + slot; }
""")
P("store_call_store", "f", """
int slot;
int peek(void) { return slot; }
int f(int a) { slot = a; int t = peek(); slot = a + 1; return t + slot; }
""")
P("empty_branches", "f", """
int g;
int f(int a, int c) { if (a) { if (c) { } else { } int t = a; t = t + 1; g = t; } g = g + 2; return g; }
""")
P("empty_else_chain", "f", """
int f(int a, int b) { int r = a; if (a > 0) { if (b > 0) { } } else { if (b < 0) { } else { } r = b; } return r; }
""")

P("sub_from_zero", "f", """
int f(int a, int b) { int z = 0; return (0 - a) + (z - b) * 3 + (b - 0) + (0 + a); }
""")

# --- programs used by C02/C03 only (external functions that read/modify memory; pointers to locals handed to
# externals): other checks iterate over PROGS and model externals differently ----------------------------
PROGS_EXT = {}


def PX(name, entry, src, ext=()):
    PROGS_EXT[name] = (src, entry, list(ext))


PX("store_extcall_load", "f", """
int g;
void ext2(int, int);
int f(int a) { g = a; ext2(a, 1); int t = g; g = t + 1; ext2(t, 2); return g; }
""", ext=("ext2",))
PX("local_escapes_to_ext", "f", """
void ext3(int *);
int f(int a) { int x = a; ext3(&x); int y = x; x = y + 1; ext3(&x); return x + y; }
""", ext=("ext3",))
